"""C10 - allocation accounting is exact; every library object returns its memory.
T2: random legal histories of sc_malloc/sc_calloc/sc_realloc/sc_strdup/sc_free over registered packages and the default
package, register/unregister/finalize orders, reference-counter moves and memory checks are executed on the real libsc
(ASan+UBSan build of the working tree; malloc wrapped so that the padding allocator sees every misalignment 0..7) and on
the extracted model; both print the call's result and sc_memory_status of every live package after EVERY call.
Oracle: an independent ledger in this file (live blocks per package, their bytes), evaluated on every line.
A second section runs create...destroy lifecycles of library objects (several modules) and checks that every counter
returns to where it started; a further one (sized) builds the library's own containers, options and I/O objects at
sizes ACROSS their internal thresholds (hash table rehash at 1020 / 4076 / 16300 entries and the shrink points, memory
stamps, array size classes, dictionary growth) and brackets each create ... destroy the same way (a leak is reported
with object, size and lifecycle phase).  A third section (parallel) runs every parallel algorithm of libsc on the simulated MPI
(tools/simmpi) for every communicator size 1..9 and reads sc_memory_status of the libsc and the default package at
barriers before and after EVERY library call: once every rank destroyed what it held the counters must be where they
were (a leak is reported with call, P, rank, block size and input); sc_finalize_noabort () must return 0 at the end.
T1: Gen/AllocC10.v (pointer arithmetic, package table) and Gen/LedgerC10.v (ownership events of sc_notify_recursive,
sc_hash_maybe_resize and the create / destroy pairs of sc_hash, sc_hash_array, sc_keyvalue, proved balanced on every
path) are regenerated from the working tree before the theorems are checked."""
import os, sys, json, re
import vlib

NPK = 32


def hx(v):
    return ("-%x" % -v) if v < 0 else ("%x" % v)


def hb(b):
    return bytes(b).hex() if len(b) else "-"


class Illegal(Exception):
    pass


def need(c, why=""):
    if not c:
        raise Illegal(why)


# ----------------------------------------------------------------------------------------------------
# the ledger: what the property says, written without looking at the model
# ----------------------------------------------------------------------------------------------------
class Ledger:
    def __init__(self):
        self.live = {}          # handle -> [pkg, bytearray content, valid prefix length]
        self.nh = 1
        self.reg = {}           # id -> name
        self.used_ids = set()   # ids that were registered at some time since the last finalize
        self.rc = {-1: 0}
        self.count = {-1: 0}    # pkg -> number of live blocks obtained for it

    def pkg(self, p):
        need(p == -1 or p in self.reg, "package not registered")

    def newblock(self, p, n, data=None, valid=0):
        h = self.nh
        self.nh += 1
        self.live[h] = [p, bytearray(data if data is not None else b"\0" * n), valid]
        self.count[p] += 1
        return h

    def drop(self, h):
        p = self.live[h][0]
        del self.live[h]
        if p in self.count:
            self.count[p] -= 1

    def balanced(self, p):
        return self.count[p] == 0 and self.rc[p] == 0

    def apply(self, t):
        """returns a dict of expectations for the implementation's result tokens"""
        op = t[0]
        A = lambda i: int(t[i], 16)
        if op in ("malloc", "calloc", "realloc", "strdup"):
            p = A(1)
            self.pkg(p)
            if op == "malloc":
                n, k = A(2), A(3)
                return dict(kind="block", h=self.newblock(p, n), n=n, k=k)
            if op == "calloc":
                nm, sz, k = A(2), A(3), A(4)
                return dict(kind="block", h=self.newblock(p, nm * sz, valid=nm * sz), n=nm * sz, k=k)
            if op == "strdup":
                k = A(3)
                if t[2] == "NULL":
                    return dict(kind="null")
                s = bytes.fromhex(t[2]) if t[2] != "-" else b""
                need(0 not in s)
                return dict(kind="block", h=self.newblock(p, len(s) + 1, s + b"\0", len(s) + 1), n=len(s) + 1, k=k)
            h, n, k = A(2), A(3), A(4)
            if h == 0:
                return dict(kind="block", h=self.newblock(p, n), n=n, k=k)
            need(h in self.live and self.live[h][0] == p, "realloc of a foreign block")
            if n == 0:
                self.drop(h)
                return dict(kind="null")
            _, old, valid = self.live[h]
            keep = min(len(old), n)
            self.drop(h)
            return dict(kind="block", h=self.newblock(p, n, bytes(old[:keep]) + b"\0" * (n - keep), min(valid, keep)), n=n, k=k)
        if op == "free":
            p, h = A(1), A(2)
            self.pkg(p)
            if h:
                need(h in self.live and self.live[h][0] == p, "free of a foreign block")
                self.drop(h)
            return dict(kind="none")
        if op == "write":
            h, off = A(1), A(2)
            d = bytes.fromhex(t[3]) if t[3] != "-" else b""
            need(h in self.live)
            b = self.live[h]
            need(0 <= off and off + len(d) <= len(b[1]) and off <= b[2], "write must extend the initialised prefix")
            b[1][off:off + len(d)] = d
            b[2] = max(b[2], off + len(d))
            return dict(kind="none")
        if op == "read":
            h, off, n = A(1), A(2), A(3)
            need(h in self.live)
            b = self.live[h]
            need(0 <= off and 0 <= n and off + n <= b[2], "read of uninitialised bytes")
            return dict(kind="bytes", v=hb(b[1][off:off + n]))
        if op == "register":
            name = A(1)
            need(name not in self.reg.values())
            return dict(kind="id", name=name)
        if op == "unregister":
            i = A(1)
            need(i in self.reg and self.balanced(i), "sc_package_unregister aborts when the package is not balanced")
            del self.reg[i]
            del self.rc[i]
            del self.count[i]
            for b in self.live.values():
                if b[0] == i:
                    b[0] = -2               # its package is gone
            return dict(kind="none")
        if op == "isreg":
            i = A(1)
            need(i >= 0)
            return dict(kind="val", v=hx(int(i in self.reg)))
        if op == "check":
            p = A(1)
            need(p >= -1)
            known = p == -1 or p in self.reg
            return dict(kind="zero_iff", zero=known and self.balanced(p))
        if op == "rc":
            p, k = A(1), A(2)
            self.pkg(p)
            self.rc[p] += k
            return dict(kind="none")
        if op == "finalize":
            ok = all(self.balanced(p) for p in self.count)
            for i in list(self.reg):
                del self.reg[i], self.rc[i], self.count[i]
            for b in self.live.values():
                if b[0] >= 0:
                    b[0] = -2
            self.used_ids = set()
            return dict(kind="zero_iff", zero=ok)
        raise Illegal("unknown op")

    def registered(self, i, name):
        """the implementation answered id i to a register call"""
        problems = []
        if i in self.reg:
            problems.append("id %d is already the id of a live package" % i)
        free_used = [j for j in self.used_ids if j not in self.reg]
        if free_used and i not in self.used_ids:
            problems.append("a new id %d although the unregistered ids %s are free for reuse" % (i, sorted(free_used)))
        if i < 0:
            problems.append("negative id")
        self.reg[i] = name
        self.used_ids.add(i)
        self.rc[i] = 0
        self.count[i] = 0
        return problems

    def status_line(self):
        return "-1:%s" % hx(self.count[-1]) + "".join(" %x:%s" % (i, hx(self.count[i])) for i in sorted(self.reg) if i < NPK)


def judge(led, t, line):
    """evaluate the property on one implementation line; returns (list of problems, id returned by register or None)"""
    try:
        res, st = line.split(" ; ")
    except ValueError:
        return ["malformed line %r" % line], None
    exp = led.apply(t)
    pr = []
    rid = None
    k = exp["kind"]
    tok = res.split()
    if k == "block":
        if len(tok) != 5:
            pr.append("allocation returned %r where a block is expected" % res)
        else:
            h, m, sh, sw, rw = [int(x, 16) for x in tok]
            if h != exp["h"]:
                pr.append("harness handle %d, expected %d" % (h, exp["h"]))
            if m != 0:
                pr.append("returned pointer is not a multiple of 8 (ptr mod 8 = %d)" % m)
            if not (16 <= sh and sh + exp["n"] < 16 + exp["n"] + 8):
                pr.append("user area [ptr, ptr+%d) with ptr = raw + %d does not leave room for the two words in front or leaves the raw block of %d bytes" % (exp["n"], sh, 24 + exp["n"]))
            if (exp["k"] + sh) % 8 != 0:
                pr.append("ptr - raw = %d with raw mod 8 = %d" % (sh, exp["k"]))
            if sw != exp["n"]:
                pr.append("size word in front of the block is %d, requested %d" % (sw, exp["n"]))
            if rw != 0:
                pr.append("raw-pointer word in front of the block is off by %d" % rw)
    elif k == "null":
        if res != "0":
            pr.append("expected NULL, got %r" % res)
    elif k == "none":
        if res != "-":
            pr.append("unexpected result %r" % res)
    elif k in ("bytes", "val"):
        if res != exp["v"]:
            pr.append("returned %s, expected %s" % (res[:80], exp["v"][:80]))
    elif k == "zero_iff":
        try:
            e = int(res, 16)
        except ValueError:
            e = None
        if e is None or e < 0 or (e == 0) != exp["zero"]:
            pr.append("reported %s errors although %s" % (res, "everything is balanced" if exp["zero"] else "a counter is not balanced / the package is unknown"))
    elif k == "id":
        try:
            rid = int(res, 16)
            pr += led.registered(rid, exp["name"])
        except ValueError:
            pr.append("register returned %r" % res)
    want = led.status_line()
    if st != want:
        pr.append("sc_memory_status shows [%s], live blocks per package are [%s]" % (st, want))
    return pr, rid


# ----------------------------------------------------------------------------------------------------
# generator (predicts ids with the documented policy: lowest unused slot, table grows to 2n+1)
# ----------------------------------------------------------------------------------------------------
SIZES = [0, 0, 1, 1, 2, 3, 7, 8, 8, 9, 15, 16, 17, 24, 31, 32, 33, 63, 64, 65, 100, 255, 256, 257, 1000, 4095, 4096, 4097]


class Gen:
    def __init__(self, rng, maxops, maxpk):
        self.rng, self.maxops, self.maxpk = rng, maxops, maxpk
        self.led = Ledger()
        self.ops = []
        self.slots = []         # predicted table: name or None
        self.nextname = 1

    def emit(self, t):
        t = [str(x) for x in t]
        try:
            exp = self.led.apply(t)          # apply checks every precondition before it changes anything
        except Illegal:
            return None
        if exp["kind"] == "id":
            # predicted id
            if None in self.slots:
                i = self.slots.index(None)
                self.slots[i] = exp["name"]
            else:
                i = len(self.slots)
                self.slots = self.slots + [exp["name"]] + [None] * i
            self.led.registered(i, exp["name"])
            exp["pred"] = i
        elif t[0] == "unregister":
            self.slots[int(t[1], 16)] = None
        elif t[0] == "finalize":
            self.slots = []
        self.ops.append(t)
        return exp

    def size(self):
        r = self.rng
        return r.choice(SIZES) if r.random() < 0.8 else r.randrange(0, 3000)

    def pk(self):
        r = self.rng
        c = [-1] + list(self.led.reg)
        return r.choice(c)

    def data(self, n):
        return bytes(self.rng.getrandbits(8) for _ in range(n))

    def fill(self, h):
        """write the whole block (in one or two pieces)"""
        b = self.led.live[h]
        n = len(b[1])
        if n == 0:
            return
        cut = self.rng.choice([n, n, self.rng.randrange(0, n + 1)])
        start = min(b[2], self.rng.choice([0, b[2]]))
        if cut > start:
            self.emit(["write", hx(h), hx(start), hb(self.data(cut - start))])
            if cut < n:
                self.emit(["write", hx(h), hx(cut), hb(self.data(n - cut))])
        else:
            self.emit(["write", hx(h), hx(start), hb(self.data(n - start))])

    def step(self):
        r = self.rng
        led = self.led
        kinds = ["malloc"] * 8 + ["calloc"] * 4 + ["realloc"] * 9 + ["strdup"] * 3 + ["free"] * 9 + ["read"] * 3 + ["write"] * 2 + \
                ["register"] * 3 + ["unregister"] * 2 + ["isreg"] + ["check"] * 3 + ["rc"] * 2 + ["finalize"] * 1 + ["freeall"]
        if len(led.reg) < min(2, self.maxpk):
            kinds += ["register"] * 8
        k = r.choice(kinds)
        K = lambda: hx(r.choice([0, 0, 1, 2, 3, 4, 5, 6, 7]))
        mine = [h for h, b in led.live.items() if b[0] != -2]
        if k == "malloc":
            e = self.emit(["malloc", hx(self.pk()), hx(self.size()), K()])
            if e and r.random() < 0.7:
                self.fill(e["h"])
            return e
        if k == "calloc":
            n = self.size()
            nm = r.choice([1, n, 0, 3, 8]) if n else r.choice([0, 5])
            sz = (n // nm) if nm else r.choice([0, 4])
            e = self.emit(["calloc", hx(self.pk()), hx(nm), hx(sz), K()])
            if e and e["n"]:
                self.emit(["read", hx(e["h"]), "0", hx(e["n"])])
            return e
        if k == "realloc":
            c = r.random()
            if c < 0.15 or not mine:
                e = self.emit(["realloc", hx(self.pk()), "0", hx(self.size()), K()])        # malloc-like
                if e and e["kind"] == "block" and r.random() < 0.6:
                    self.fill(e["h"])
                return e
            h = r.choice(mine)
            b = led.live[h]
            if c < 0.3:
                return self.emit(["realloc", hx(b[0]), hx(h), "0", K()])                    # free-like
            old = len(b[1])
            n = max(1, r.choice([old, old + 1, old - 1, old * 2, old // 2, self.size(), self.size()]))
            e = self.emit(["realloc", hx(b[0]), hx(h), hx(n), K()])
            if e and e["kind"] == "block":
                nb = led.live[e["h"]]
                if nb[2]:
                    self.emit(["read", hx(e["h"]), "0", hx(nb[2])])
                if r.random() < 0.6:
                    self.fill(e["h"])
            return e
        if k == "strdup":
            if r.random() < 0.15:
                return self.emit(["strdup", hx(self.pk()), "NULL", K()])
            n = r.choice([0, 1, 2, 7, 8, 15, 16, 40, r.randrange(0, 300)])
            s = bytes(r.randrange(1, 256) for _ in range(n))
            e = self.emit(["strdup", hx(self.pk()), hb(s), K()])
            if e and e["kind"] == "block":
                self.emit(["read", hx(e["h"]), "0", hx(n + 1)])
            return e
        if k == "free":
            if r.random() < 0.08:
                return self.emit(["free", hx(self.pk()), "0"])
            if not mine:
                return None
            h = r.choice(mine)
            return self.emit(["free", hx(led.live[h][0]), hx(h)])
        if k == "freeall":
            p = self.pk()
            for h in [h for h in mine if led.live[h][0] == p]:
                self.emit(["free", hx(p), hx(h)])
            return self.emit(["check", hx(p)])
        if k == "read":
            c = [h for h, b in led.live.items() if b[2] > 0]
            if not c:
                return None
            h = r.choice(c)
            v = led.live[h][2]
            off = r.choice([0, r.randrange(0, v)])
            return self.emit(["read", hx(h), hx(off), hx(r.choice([v - off, r.randrange(0, v - off + 1)]))])
        if k == "write":
            c = [h for h, b in led.live.items() if len(b[1]) > 0]
            if not c:
                return None
            h = r.choice(c)
            b = led.live[h]
            off = r.randrange(0, b[2] + 1)
            n = r.randrange(0, len(b[1]) - off + 1)
            return self.emit(["write", hx(h), hx(off), hb(self.data(n))])
        if k == "register":
            if len(led.reg) >= self.maxpk:
                return None
            if led.reg and r.random() < 0.0:
                return None
            self.nextname += 1
            # sometimes reuse the name of a package that was unregistered
            return self.emit(["register", hx(r.choice([self.nextname, self.nextname, r.randrange(1, self.nextname + 1)]))])
        if k == "unregister":
            if not led.reg:
                return None
            i = r.choice(list(led.reg))
            # sc_package_unregister aborts on an unbalanced package: give everything back first
            for h in [h for h in mine if led.live[h][0] == i]:
                self.emit(["free", hx(i), hx(h)])
            if led.rc[i]:
                self.emit(["rc", hx(i), hx(-led.rc[i])])
            return self.emit(["unregister", hx(i)])
        if k == "isreg":
            return self.emit(["isreg", hx(r.choice([0, 1, 2, 3, 5, 8, 30, r.randrange(0, 70)]))])
        if k == "check":
            return self.emit(["check", hx(r.choice([-1] + list(led.reg) + [r.randrange(0, 40)]))])
        if k == "rc":
            p = self.pk()
            cur = led.rc[p]
            return self.emit(["rc", hx(p), hx(r.choice([1, 1, 2, -cur] + ([-1] if cur > 0 else [])))])
        if k == "finalize":
            if r.random() < 0.5:             # a clean finalize: everything returned first
                for h in list(mine):
                    self.emit(["free", hx(led.live[h][0]), hx(h)])
                for p in list(led.rc):
                    if led.rc[p]:
                        self.emit(["rc", hx(p), hx(-led.rc[p])])
            return self.emit(["finalize"])
        return None

    def run(self):
        tries = 0
        while len(self.ops) < self.maxops and tries < self.maxops * 20:
            tries += 1
            self.step()
        return self.ops


def scripted():
    out = []
    # every size class x every misalignment, realloc up and down across them
    ops = []
    h = 1
    for k in range(8):
        for n in (0, 1, 7, 8, 9, 16, 17):
            ops.append(["malloc", "-1", hx(n), hx(k)])
            if n:
                ops.append(["write", hx(h), "0", hb(bytes((h * 7 + j) & 255 for j in range(n)))])
            m = (n * 2 + 3) % 41
            ops.append(["realloc", "-1", hx(h), hx(m), hx((k + 3) % 8)])
            h += 1
            if m:
                if min(n, m):
                    ops.append(["read", hx(h), "0", hx(min(n, m))])
                ops.append(["free", "-1", hx(h)])
                h += 1
    ops.append(["check", "-1"])
    ops.append(["finalize"])
    out.append(ops)
    # package table: growth 0 -> 1 -> 3 -> 7 -> 15, reuse of freed slots in every order
    ops = []
    for i in range(1, 17):
        ops.append(["register", hx(i)])
    for i in (3, 0, 14, 7):
        ops.append(["unregister", hx(i)])
    for i in range(20, 26):
        ops.append(["register", hx(i)])
        ops.append(["malloc", hx(0), "10", "0"])
    ops += [["isreg", hx(i)] for i in (0, 3, 15, 16, 30, 31, 40)]
    ops.append(["finalize"])
    ops.append(["register", "1"])
    ops.append(["finalize"])
    out.append(ops)
    return out


def case_text(hists):
    lines = []
    for ops in hists:
        lines.append("H")
        lines += [" ".join(t) for t in ops]
        lines.append("E")
    return "\n".join(lines) + "\n"


def split_outputs(lines, hists):
    res, i = [], 0
    for ops in hists:
        n = len(ops) + 2
        chunk = lines[i:i + n]
        res.append(chunk + [None] * (n - len(chunk)))
        i += n
    return res


WRAP = "-Wl,--wrap=malloc,--wrap=free"


def translate_and_prove(ctx, groups):
    """T1 + proof obligations: regenerate the translator groups from the working tree, then re-check the theorems (which
    include `model = generated definition`).  A group that no longer translates, or a theorem that no longer checks against
    the regenerated definitions, is a broken tie.  coq/Gen is shared by all checks: if another process regenerated the group
    from another tree while the theorems were being checked, the step is repeated."""
    sys.path.insert(0, os.path.join(vlib.TOOLS, "c2g"))
    import genall
    r = None
    for attempt in range(3):
        st = genall.run(list(groups))
        nb, ob, di = len(ctx.broken), ctx.cov["obligations"], ctx.cov["discharged"]
        for g, s_ in st.items():
            ctx.log("c2g", g, s_)
            if s_.startswith("FAILED"):
                ctx.tie_broken("translator group " + g, s_)
        r = ctx.props()
        st2 = genall.run(list(groups))
        if not any("(changed)" in v for v in st2.values()):
            return r
        ctx.log("coq/Gen was regenerated by another process during the proof step: repeating")
        del ctx.broken[nb:]
        ctx.cov["obligations"], ctx.cov["discharged"] = ob, di
    return r


def run(ctx):
    translate_and_prove(ctx, ["AllocC10", "LedgerC10"])
    v = ctx.variant(mpi="off", san=True)
    exe = ctx.cc([os.path.join(vlib.TOOLS, "harness", "c10_harness.c")], os.path.join(ctx.scratch, "c10_harness"), v, extra=(WRAP,))
    nh = 700 if ctx.quick else 12000
    hists = []
    if ctx.replay:
        rp = json.load(open(ctx.replay)).get("replay", {})
        if "ops" in rp:
            hists.append([t.split() for t in rp["ops"]])
    hists += scripted()
    for _ in range(nh):
        k = ctx.rng.random()
        maxops = ctx.rng.choice([3, 8, 20, 40, 80]) if k < 0.85 else ctx.rng.choice([150, 250])
        hists.append(Gen(ctx.rng, maxops, ctx.rng.choice([0, 1, 2, 3, 5, 5, 9, 17])).run())
    text = case_text(hists)
    env = dict(os.environ, ASAN_OPTIONS="detect_leaks=0:abort_on_error=0", UBSAN_OPTIONS="print_stacktrace=1")
    rc, impl, err = ctx.run_lines([exe], text, timeout=(150 if ctx.quick else 1500), env=env)
    impl = [l for l in impl if l != ""]
    try:
        mexe = ctx.model("c10")
        rc2, model, err2 = ctx.run_lines([mexe], text, timeout=(300 if ctx.quick else 3000))
        if rc2 != 0:
            ctx.tie_broken("c10 model run", "exit %s: %s" % (rc2, err2[-1500:]))
        model = [l for l in model if l != ""]
    except vlib.BuildError as e:
        ctx.tie_broken("c10 model build", str(e)[-1500:])
        model = None
    io = split_outputs(impl, hists)
    mo = split_outputs(model, hists) if model is not None else None
    dist, nviol, ndis, nops, sizes = {}, 0, 0, 0, []
    ended = False
    for hi, ops in enumerate(hists):
        if ended:
            break
        ctx.count_case(tuple(tuple(t) for t in ops), nontrivial=len(ops) > 2)
        nops += len(ops)
        sizes.append(len(ops))
        got = io[hi]
        led = Ledger()
        for li in range(len(ops) + 2):
            g = got[li]
            t = ops[li - 1] if 0 < li <= len(ops) else None
            if t is not None:
                dist[t[0]] = dist.get(t[0], 0) + 1
            problems = []
            if g is None:
                problems = ["end of output (crash or call that does not return) " + err[-1500:]]
                ended = True
            elif li == 0:
                if g != "H 0":
                    problems = ["history does not start balanced: %s" % g]
            elif li == len(ops) + 1:
                if g != "E 0":
                    problems = ["default package not balanced after everything was returned: %s" % g]
            else:
                try:
                    problems, _ = judge(led, t, g)
                except Illegal as e:
                    problems = ["generator produced an illegal call (%s)" % e]
            if problems:
                nviol += 1
                if nviol <= 3:
                    upto = ops[:li] if li <= len(ops) else ops
                    key = "hist-%s" % vlib.hashlib.md5(repr(upto).encode()).hexdigest()[:12]
                    ctx.violation(key, "history of %d calls: after call #%d (%s): %s" % (len(upto), li, " ".join(t)[:80] if t else "H/E", "; ".join(problems)[:700]),
                                  dict(ops=[" ".join(x) for x in upto], line=li, impl=g, problems=problems))
                break
        if mo is not None and not ended:
            m = mo[hi]
            for li in range(len(ops) + 2):
                if got[li] != m[li]:
                    ndis += 1
                    if ndis <= 3:
                        ctx.tie_broken("model/implementation disagreement", "history #%d call #%d (%s): C [%s] model [%s]; calls: %s" % (
                            hi, li, " ".join(ops[li - 1])[:80] if 0 < li <= len(ops) else "H/E", str(got[li])[:160], str(m[li])[:160],
                            " | ".join(" ".join(t)[:50] for t in ops[:li][-10:])))
                    break
    if rc != 0 and nviol == 0:
        ctx.tie_broken("c10 harness run", "exit %s: %s" % (rc, err[-1500:]))
    lifecycle(ctx, v)
    sized(ctx, v)
    parallel(ctx)
    ctx.cov["disagreements_checked"] = nops
    ctx.cov["rule"] = ("a case is one history of allocation / package calls; after EVERY call the result tokens (handle, ptr mod 8, ptr - raw, the two "
                       "bookkeeping words, bytes read, ids, error counts) and sc_memory_status of the default package and of every registered id are "
                       "compared between libsc, the extracted model and the independent ledger; non-trivial = more than 2 calls; distinct = distinct call lists; "
                       "a lifecycle case is one create..destroy round of one object kind; a parallel case is one library call (sc_notify variants, sc_allgather, sc_reduce, sc_psort, "
                       "sc_stats_compute, sc_shmem, sc_ranges_adaptive) on P simulated ranks, bracketed by readings of sc_memory_status (libsc package and default package) at barriers: "
                       "both must be unchanged after every rank destroyed what it held; non-trivial = P > 1")
    ctx.cov["exhaustive"] = False
    ctx.notes["op_distribution"] = dist
    ctx.notes["operations_total"] = nops
    ctx.notes["history_lengths"] = dict(min=min(sizes), max=max(sizes), mean=round(sum(sizes) / len(sizes), 1))
    ctx.notes["input_distribution"] = ("2 scripted histories (sizes 0..17 x every raw misalignment 0..7 with realloc up/down; package table growth 1,3,7,15,31 slots "
                                       "and reuse of freed slots) + seeded random legal histories of 3..250 calls over the default package and up to 17 registered "
                                       "packages: sizes at 0, 1, 2^k-1, 2^k, 2^k+1 up to 4097 and random < 3000; raw misalignment 0..7 (44% zero); realloc with NULL "
                                       "(malloc-like), size 0 (free-like), grow/shrink/same; calloc with nmemb*size = 0; strdup of NULL and of strings 0..300; "
                                       "free (NULL); unregister (of balanced packages: the call aborts otherwise) in every order; names reused after unregister; reference counter moves; "
                                       "sc_memory_check_noerr of registered, unregistered and default; clean (50%) and dirty sc_finalize_noabort inside histories")
    ctx.notes["model_disagreements"] = ndis
    for ops in hists[2:7]:
        ctx.sample({"history": " ; ".join(" ".join(t)[:40] for t in ops[:6])})
    ctx.cov["trusted_base"] = ["the model AllocModel.v of src/sc.c is hand-written; T1: the padding allocator's pointer arithmetic (sc_malloc_aligned / sc_realloc_aligned / sc_free_aligned) "
                               "and sc_package_register's slot search / table growth are proved EQUAL to Gen/AllocC10.v, regenerated from the working tree on every run (tools/c2g + clang-14 JSON AST trusted; "
                               "the generated definitions are validated through the model they are proved equal to, which the correspondence run executes); the counting statements and the remaining "
                               "table policy are tied by the correspondence run only",
                               "malloc/free of libc: a fresh block disjoint from all live ones, content arbitrary (junk); the harness wraps malloc to choose raw mod 8",
                               "sc_package_rc_count_add is reached through src/sc_private.h (reference counters only move in debug builds otherwise)",
                               "parallel lifecycles: tools/simmpi (scheduler, barriers: nothing runs on any rank between the two barriers of a reading), the harness c10_parallel.c; "
                               "the attribution of a leaked block to a rank (wrapped malloc, bookkeeping words of sc_malloc_aligned) is diagnosis only",
                               "sized lifecycles: the harness c10_sized.c (every object is destroyed before the second reading; mempool->elem_count read for external allocators)",
                               "T1 ledgers of sc_notify_recursive, sc_hash_maybe_resize, sc_hash / sc_hash_array / sc_keyvalue new-destroy: tools/c2g/ledgerlib.py (table C call -> ownership event, refusal of everything else that touches an array) and the abstraction "
                               "of an owner sc_array_t to 'holds at most one block' (C08_ledger_balanced for resize / push)"]
    ctx.assumptions += ["histories satisfy the documented preconditions (legal_step): package -1 or registered, a block is freed/reallocated with the package it was obtained for, no use after free, writes inside the requested size",
                        "addresses and sizes below 2^62 (no wrap of size_t in alloc_size)"]
    return "proof"


# ----------------------------------------------------------------------------------------------------
# create ... destroy lifecycles of library objects: every counter returns to its start (monitoring, not proof)
# ----------------------------------------------------------------------------------------------------
def lifecycle(ctx, v):
    src = os.path.join(vlib.TOOLS, "harness", "c10_lifecycle.c")
    if not os.path.exists(src):
        return
    exe = ctx.cc([src], os.path.join(ctx.scratch, "c10_lifecycle"), v)
    env = dict(os.environ, ASAN_OPTIONS="detect_leaks=1:abort_on_error=0", UBSAN_OPTIONS="print_stacktrace=1")
    rc, out, err = ctx.run_lines([exe, str(ctx.seed)], "", timeout=120, env=env)
    out = [l for l in out if l]
    n = 0
    for l in out:
        w = l.split()
        if len(w) >= 3 and w[0] == "LIFE":
            n += 1
            ctx.count_case(("life", w[1]), nontrivial=True)
            if w[2] != "0" or (len(w) > 3 and w[3] != "0"):
                ctx.violation("life-" + w[1], "lifecycle %s: after destroying every object sc_memory_status differs from its start by %s (libsc package) / %s (default)" % (
                    w[1], w[2], w[3] if len(w) > 3 else "?"), dict(lifecycle=w[1], line=l))
    if rc != 0 or n == 0:
        ctx.violation("life-crash", "lifecycle harness failed (exit %s): %s" % (rc, err[-1200:]), dict(stderr=err[-3000:]))
    ctx.notes["lifecycles"] = n


# ----------------------------------------------------------------------------------------------------
# serial create ... destroy lifecycles of the library's own objects, sized ACROSS their internal thresholds (hash table
# rehash at 1020 / 4076 / 16300 entries and the shrink points on the way down, memory stamps of 4096 bytes, array size
# classes, iniparser dictionary growth at 128 / 256 keys, growing sink buffers): every lifecycle is bracketed by
# sc_memory_status of the libsc and the default package with everything destroyed; an external allocator must have no
# element outstanding; sc_finalize_noabort () == 0 at the end
# ----------------------------------------------------------------------------------------------------
def sized(ctx, v):
    src = os.path.join(vlib.TOOLS, "harness", "c10_sized.c")
    if not os.path.exists(src):
        ctx.tie_broken("c10 sized lifecycle harness", "tools/harness/c10_sized.c is missing")
        return
    exe = ctx.cc([src], os.path.join(ctx.scratch, "c10_sized"), v)
    env = dict(os.environ, ASAN_OPTIONS="detect_leaks=1:abort_on_error=0", UBSAN_OPTIONS="print_stacktrace=1")
    rc, out, err = ctx.run_lines([exe, str(ctx.seed), ctx.scratch, "quick" if ctx.quick else "thorough"], "", timeout=(300 if ctx.quick else 1500), env=env)
    rows = [l.split() for l in out if l.startswith("SIZED ")]
    notes = [l for l in out if l.startswith("NOTE ")]
    dist, bad, fin = {}, [], None
    for w in rows:
        if len(w) != 7:
            ctx.tie_broken("c10 sized lifecycle harness output", " ".join(w)[:200])
            continue
        obj, size, phase, dl, dd, pool = w[1], int(w[2]), w[3], int(w[4]), int(w[5]), int(w[6])
        if obj == "finalize":
            fin = dl
            continue
        ctx.count_case(("sized", obj, size, phase), nontrivial=size > 0)
        dist[obj] = dist.get(obj, 0) + 1
        if dl or dd or pool:
            bad.append((obj, size, phase, dl, dd, pool))
    # one report per (object, kind of phase): the smallest size that shows it
    shown = {}
    for b in sorted(bad, key=lambda b: (b[1], len(b[2]))):
        key = (b[0], re.sub(r"\d+", "N", b[2]))
        shown.setdefault(key, b)
    for (obj, pk), (o, size, phase, dl, dd, pool) in list(shown.items())[:6]:
        same = sorted(set(b[1] for b in bad if b[0] == obj))
        ctx.violation("sized-%s-%s" % (obj, pk), "%s with %d entries, lifecycle %s: after destroying everything sc_memory_status (sc_package_id) is off by %d, (-1) by %d%s; "
                      "smallest size of this object that shows it: %d (clean below: %s), unbalanced sizes: %s" % (
                          obj, size, phase.replace("+", ", "), dl, dd, (", %d element(s) of the caller's allocator never returned" % pool) if pool else "", size,
                          [x for x in sorted(set(int(w[2]) for w in rows if w[1] == obj)) if x < size][-3:], same[:12]),
                      dict(object=obj, size=size, phase=phase, status_libsc=dl, status_default=dd, outstanding_pool_elements=pool, unbalanced=[list(b) for b in bad[:40]]))
    if rc != 0 or fin is None:
        m = [l for l in err.split("\n") if "ERROR" in l or "runtime error" in l or "SUMMARY" in l]
        last = " ".join(rows[-1][1:4]) if rows else "-"
        ctx.violation("sized-crash", "sized lifecycle harness failed (exit %s) after lifecycle [%s]: %s" % (rc, last, " | ".join(m)[:500] or err[-400:]), dict(stderr=err[-3000:], last=last))
    elif fin != 0 and not bad:
        ctx.violation("sized-finalize", "after %d sized lifecycles, each balanced, sc_finalize_noabort () returned %d" % (len(rows) - 1, fin), dict(finalize=fin))
    ctx.notes["sized_lifecycles"] = dict(lifecycles=len(rows) - (1 if fin is not None else 0), unbalanced=len(bad), per_object=dist, finalize=fin, notes=notes[:5])
    ctx.notes["sized_input_distribution"] = ("sc_hash (own / external allocator, scrambling and identity hash): 0, 1, 255, 1019, 1020, 1021, 4075, 4076, 4077, 16299, 16300, 16301 entries x "
                                             "(destroy; truncate + reinsert; unlink + unlink_destroy; remove down to 0, 1, 255..257, 767..769, 1024, 3840, 4096; remove and insert again); "
                                             "sc_hash_array (destroy, truncate, rip), sc_keyvalue (destroy, unset all, overwrite + unset odd) and sc_statistics at 0..16300 entries; sc_array of 1 / 8 / 24-byte "
                                             "elements at every 2^k - 1, 2^k, 2^k + 1 up to 65537 (push, copy, resize down through all classes and up, view); sc_mempool / sc_mstamp of 8, 24, 40, 4096, "
                                             "5000-byte items at m * per_stamp - 1, +0, +1 items (free all, free half + truncate, destroy with items outstanding, zero_and_persist); sc_list own / external "
                                             "allocator around 170 / 340 links; sc_recycle_array, sc_avl up to 5000; sc_options with 1..600 options (parse, save, load: iniparser dictionary at 128 / 256); "
                                             "sc_io buffer sink / source, file sink / source with mirror, file_save / load, codec at 0..300000 bytes")
    ctx.log("sized lifecycles: %d, %d unbalanced, finalize %s" % (len(rows), len(bad), fin))


# ----------------------------------------------------------------------------------------------------
# parallel create ... destroy lifecycles on the simulated MPI (tools/simmpi): the ledger is read at barriers before and
# after EVERY library call of every parallel module, for every communicator size 1..9 (and some larger ones)
# ----------------------------------------------------------------------------------------------------
PAR_TYPES = ["allgather", "binary", "nary", "pex", "pcx", "rsx", "nbx", "ranges", "superset"]
PAR_API = {0: "sc_notify_payload", 1: "sc_notify", 2: "sc_notify_allgather", 3: "sc_notify_ext", 4: "sc_notify_nary"}
PAR_WRAP = "-Wl,--wrap=malloc,--wrap=free,--wrap=realloc"


class ParOp:
    def __init__(self, kind, name, lines, what):
        self.kind, self.name, self.lines, self.what = kind, name, lines, what

    def text(self):
        return "".join(l + "\n" for l in self.lines)


def par_notify(rng, P, typ, api, paymode, style=None, stats=0):
    import notify_common as nc
    style = style or rng.choice(nc.STYLES)
    R = nc.gen_pattern(rng, P, style)
    paysize = rng.choice([1, 3, 4, 5, 8, 12, 17]) if paymode else 0
    sorted_, seps, sepp = rng.randrange(2), rng.randrange(2), rng.randrange(2)
    thr = rng.choice([0, 4, 8, 1024, 1024])
    head = "N %d %d %d %d %d %d %d %d %d %d %d %d %d %d" % (typ, api, paymode, paysize, sorted_, seps, sepp, rng.choice([2, 2, 3, 4, 5]), rng.choice([2, 2, 3, 4]),
                                                           rng.choice([2, 2, 3, 4, 5]), rng.choice([1, 2, 3, 5, 25]), thr, rng.randrange(1 << 30), stats)
    lines = [head]
    for p in range(P):
        l = [str(len(R[p]))] + [str(q) for q in R[p]]
        if paymode == 2:
            l += [str(rng.choice([0, 0, 1, 2, 3, 7])) for _ in R[p]]
        lines.append(" ".join(l))
    fn = PAR_API[api] if not (api == 0 and paymode == 2) else "sc_notify_payloadv"
    name = "%s[%s]" % (fn, PAR_TYPES[typ]) if api == 0 else fn
    what = "%s%s, %s, %s senders%s%s; receivers per rank %s" % (
        name, " with an sc_statistics_t attached" if stats else "",
        ["no payload", "items of %d bytes" % paysize, "variable slices of %d-byte items" % paysize][paymode],
        "separate" if seps else "in-place", (", %s payload" % ("separate" if sepp else "in-place")) if paymode else "",
        ", sorted=%d" % sorted_ if api == 0 else "", " ".join("%d:%s" % (p, R[p]) for p in range(P)).replace(" ", "").replace("]", "] ").strip())
    return ParOp("N", name, lines, what)


def par_ops(rng, P, full):
    """the operations every communicator size must see; `full` = the complete family (P <= 9), otherwise a sample"""
    ops = []
    # notify through the controller object: every algorithm x (no payload, fixed items, variable slices)
    for typ in range(9):
        for pm in ((0, 1, 2) if full else (rng.randrange(3),)):
            ops.append(par_notify(rng, P, typ, 0, pm))
    # the binary recursion once more on the patterns that keep data on every level, and through the legacy entry points
    for st in (("all", "dense", "empty", "rand") if full else ("dense",)):
        ops.append(par_notify(rng, P, 1, 0, 0, style=st))
    for st in (("empty", "all", "rand") if full else ("rand",)):
        ops.append(par_notify(rng, P, 1, 1, 0, style=st))
    for st in (("rand", "dense") if full else ("rand",)):
        ops.append(par_notify(rng, P, 0, 2, 0, style=st))
    for api in (3, 4):
        for pm in ((0, 1) if full else (rng.randrange(2),)):
            ops.append(par_notify(rng, P, 0, api, pm))
    for _ in range(2 if full else 1):
        ops.append(par_notify(rng, P, rng.randrange(9), 0, rng.randrange(2), stats=1))
    # sc_allgather and its two algorithms
    for mode in ((0, 0, 1, 2) if full else (0, rng.choice([1, 2]))):
        bs = rng.choice([0, 1, 3, 8, 8, 12, 24])
        ops.append(ParOp("G", ["sc_allgather", "sc_allgather_recursive", "sc_allgather_alltoall"][mode], ["G %d %d %d" % (bs, rng.randrange(1 << 16), mode)], "blocks of %d bytes" % bs))
    # sc_reduce / sc_allreduce / custom operators
    for target in ((-1, -1, 0, P - 1, rng.randrange(P)) if full else (-1, rng.randrange(P))):
        op = rng.randrange(4)
        dt = 1 if op == 3 else rng.randrange(9)
        count = rng.choice([0, 1, 2, 3, 5]) if op != 3 else rng.choice([2, 4])
        nm = ("sc_allreduce" if target < 0 else "sc_reduce") + ("_custom" if op == 3 else "")
        ops.append(ParOp("R", nm, ["R %d %d %d %d %d" % (op, dt, count, target, rng.randrange(1 << 16))],
                         "op %s, datatype #%d, count %d%s" % (["MIN", "MAX", "SUM", "custom"][op], dt, count, "" if target < 0 else ", target %d" % target)))
    # sc_psort
    for _ in range(2 if full else 1):
        st = rng.choice(["small", "zeros", "one", "equal", "wide"])
        counts = [{"small": rng.randrange(0, 6), "zeros": rng.choice([0, 0, 0, 4]), "one": 1, "equal": 3, "wide": rng.choice([0, 1, 17, 40])}[st] for _ in range(P)]
        cmpid = rng.randrange(5)
        size = rng.choice([4, 8, 12, 24, 65, 100])
        kr = rng.choice([1, 2, 3, 10, 1000, (1 << 31) - 1]) if cmpid != 3 else rng.choice([3, 10, 1000])
        ops.append(ParOp("S", "sc_psort", ["S %d %d %d %d %s" % (size, cmpid, rng.randrange(1 << 16), kr, " ".join(map(str, counts)))],
                         "elements of %d bytes, comparison #%d, key range %d, counts per rank %s" % (size, cmpid, kr, counts)))
    # statistics
    for (kind, mode) in (((0, 0), (1, 0), (0, 1), (1, 1)) if full else ((rng.randrange(2), rng.randrange(2)),)):
        nv = rng.choice([0, 1, 2, 3, 8]) if mode == 0 else rng.choice([1, 2, 5])
        nm = ("sc_stats_compute1" if kind else "sc_stats_compute") if mode == 0 else "sc_statistics_compute"
        ops.append(ParOp("T", nm, ["T %d %d %d %d" % (nv, kind, rng.randrange(1 << 16), mode)],
                         "%d variables%s" % (nv, " (set1 / accumulate / copied names)" if mode == 0 else " in an sc_statistics_t (new, add, accumulate, compute, %sdestroy)" % ("print, " if kind else ""))))
    # ranges
    for _ in range(2 if full else 1):
        nr, glob, dens = rng.choice([1, 2, 3, 5, 25]), rng.randrange(2), rng.choice([0, 10, 30, 60, 100])
        ops.append(ParOp("A", "sc_ranges_adaptive", ["A %d %d %d %d %d" % (nr, rng.randrange(2), rng.randrange(1 << 16), dens, glob)],
                         "at most %d ranges, peer density %d%%%s" % (nr, dens, ", global ranges returned and decoded" if glob else "")))
    return ops


def par_shmem(rng, P, ppn, flavour):
    pa = rng.choice([0, ppn, ppn, -1]) if rng.random() < 0.9 else -1
    dt, cnt, dup = rng.randrange(8), rng.choice([0, 1, 1, 2, 3, 5]), int(rng.random() < 0.3)
    return ParOp("M", "sc_shmem[%s]" % ["basic", "prescan", "window", "window_prescan"][flavour], ["M %d %d %d %d %d %d" % (flavour, dt, cnt, pa, dup, rng.randrange(1 << 16))],
                 "dup, %s, sc_shmem_malloc x3, sc_shmem_allgather, sc_shmem_prefix, sc_shmem_memcpy, write_start/end, free, detach on %s; datatype #%d, count %d, %d ranks per node" % (
                     "no node communicators" if pa < 0 else ("sc_mpi_comm_attach_node_comms (%d)" % pa), "a duplicate of the communicator" if dup else "the communicator", dt, cnt, ppn))


class ParCase:
    def __init__(self, P, seed, adv, ppn, ops):
        self.P, self.seed, self.adv, self.ppn, self.ops = P, seed, adv, ppn, ops

    def text(self):
        return "CASE %d %d %d %d 0 %d\n" % (self.P, self.seed, self.adv, self.ppn, len(self.ops)) + "".join(o.text() for o in self.ops)


def par_cases(ctx):
    rng = ctx.rng
    cases = []
    full = list(range(1, 10)) if ctx.quick else list(range(1, 18))
    more = [10, 11, 13, 16, 17] if ctx.quick else [19, 21, 24, 31, 32, 33]
    reps = 1 if ctx.quick else 4
    for P in full + more:
        for rep in range(reps):
            ops = par_ops(rng, P, P in full)
            rng.shuffle(ops)
            divs = [d for d in range(1, P + 1) if P % d == 0]
            per = 8
            chunks = [ops[i:i + per] for i in range(0, len(ops), per)]
            for ci, ch in enumerate(chunks):
                ppn = divs[(ci + rep) % len(divs)]
                # shared-memory arrays: every flavour on every node size over the chunks of this P
                ch = list(ch)
                if P in full or ci == 0:
                    ch.insert(rng.randrange(len(ch) + 1), par_shmem(rng, P, ppn, (ci + rep) % 4))
                cases.append(ParCase(P, rng.randrange(1 << 30), (ci + P + rep) % 8, ppn, ch))
    return cases


def par_run(ctx, exe, cases):
    """returns list of dict(rc, report, R=[(lib, def, agree)], leaks={k: [(rank, size)]}, bad=[...]) per case, final tuple or None, stderr"""
    text = "".join(c.text() for c in cases)
    env = dict(os.environ, ASAN_OPTIONS="detect_leaks=0:abort_on_error=0", UBSAN_OPTIONS="print_stacktrace=1")
    rc, lines, err = ctx.run_lines([exe], text, timeout=(600 if ctx.quick else 6000), env=env)
    runs, cur, final = [], None, None
    for l in lines:
        w = l.split()
        if not w:
            continue
        if w[0] == "RUN":
            cur = dict(rc=int(w[2].split("=")[1]), report="", R=[], leaks={}, bad=[], ended=False)
            runs.append(cur)
        elif w[0] == "FINAL":
            final = tuple(int(x.split("=")[1]) for x in w[1:4])
        elif cur is None:
            continue
        elif w[0] == "REPORT":
            cur["report"] = l[7:].replace("~", "\n")
        elif w[0] == "R":
            cur["R"].append((int(w[3]), int(w[4]), int(w[5])))
        elif w[0] == "LEAK":
            cur["leaks"].setdefault(int(w[2]), []).append((int(w[3].split("=")[1]), int(w[4].split("=")[1])))
        elif w[0] == "BAD":
            cur["bad"].append(l)
        elif w[0] == "END":
            cur["ended"] = True
    return rc, runs, final, err


def parallel(ctx):
    src = os.path.join(vlib.TOOLS, "harness", "c10_parallel.c")
    if not os.path.exists(src):
        ctx.tie_broken("c10 parallel harness", "tools/harness/c10_parallel.c is missing")
        return
    v = ctx.variant(mpi="sim", san=True, cflags_extra=("-fno-sanitize=nonnull-attribute,alignment",),
                    config_defs=("SC_ENABLE_MPICOMMSHARED", "SC_ENABLE_MPIWINSHARED"))
    exe = ctx.cc([src, os.path.join(vlib.TOOLS, "simmpi", "simmpi.c")], os.path.join(ctx.scratch, "c10_parallel"), v, extra=(PAR_WRAP,))
    cases = par_cases(ctx)
    if ctx.replay:
        rp = json.load(open(ctx.replay)).get("replay", {})
        if "par_case" in rp:
            rc0, runs0, fin0, err0 = par_run(ctx, exe, [_RawCase(rp["par_case"])])
            ctx.log("replayed parallel case: %s" % (runs0[0] if runs0 else err0[-400:]))
            r0 = runs0[0] if runs0 else None
            if r0 is None or r0["rc"] != 0 or any(a[:2] != b[:2] for a, b in zip(r0["R"], r0["R"][1:])):
                ctx.violation("par-replay", "replayed parallel case is still not balanced: readings (libsc, default) %s, surviving blocks (call: [(rank, size)]) %s, %s" % (
                    [x[:2] for x in r0["R"]] if r0 else None, r0["leaks"] if r0 else None, ("simmpi code %s" % r0["rc"]) if r0 else err0[-300:]), dict(par_case=rp["par_case"]))
    rc, runs, final, err = par_run(ctx, exe, cases)
    dist = {"P": {}, "call": {}, "adversary": {}, "ranks_per_node": {}}
    nops = nleak = nsanity = 0
    sanity = []
    failing = []
    allok = True
    for ci, c in enumerate(cases):
        r = runs[ci] if ci < len(runs) else None
        for o in c.ops:
            ctx.count_case(("par", c.P, c.adv, c.ppn, tuple(o.lines)), nontrivial=c.P > 1)
            dist["call"][o.name] = dist["call"].get(o.name, 0) + 1
        dist["P"][c.P] = dist["P"].get(c.P, 0) + len(c.ops)
        dist["adversary"][c.adv] = dist["adversary"].get(c.adv, 0) + 1
        dist["ranks_per_node"][c.ppn] = dist["ranks_per_node"].get(c.ppn, 0) + 1
        nops += len(c.ops)
        if r is None or not r["ended"]:
            allok = False
            m = [l for l in err.split("\n") if "ERROR" in l or "runtime error" in l or "SUMMARY" in l or "HANG" in l]
            ctx.violation("par-crash", "parallel lifecycle harness ended with status %s inside the run P=%d adversary=%d calls [%s]: %s" % (
                rc, c.P, c.adv, ", ".join(o.name for o in c.ops), " | ".join(m)[:500] or err[-400:]), dict(par_case=c.text(), P=c.P, stderr=err[-3000:]))
            break
        if r["rc"] != 0:
            allok = False
            ctx.violation("par-run:P%d-%s" % (c.P, "+".join(sorted(set(o.kind for o in c.ops)))),
                          "parallel lifecycle run did not end normally (simmpi code %d) P=%d adversary=%d calls [%s]; blocks held by the abandoned ranks cannot be returned: %s" % (
                              r["rc"], c.P, c.adv, ", ".join(o.name for o in c.ops), r["report"][:300]), dict(par_case=c.text(), P=c.P, report=r["report"][:2500]))
            continue
        nsanity += len(r["bad"])
        for b in r["bad"][:2]:
            w = b.split()
            sanity.append("%s P=%d %s: %s" % (c.ops[int(w[2])].name, c.P, c.ops[int(w[2])].lines[0], " ".join(w[3:])))
        if len(r["R"]) != len(c.ops) + 1:
            ctx.tie_broken("c10 parallel harness output", "%d readings for %d calls" % (len(r["R"]), len(c.ops)))
            continue
        if not all(x[2] for x in r["R"]):
            ctx.tie_broken("c10 parallel harness protocol", "ranks read different counters between two barriers (P=%d)" % c.P)
        for k, o in enumerate(c.ops):
            (l0, d0, _), (l1, d1, _) = r["R"][k], r["R"][k + 1]
            if l1 != l0 or d1 != d0:
                nleak += 1
                failing.append((c, k, o, (l0, l1, d0, d1), r["leaks"].get(k, [])))
    # shrink: the failing call alone in a run of its own (same P, schedule seed, adversary)
    shown = []
    for f in failing:           # one report per (call, P), at most four
        if (f[2].name, f[0].P) not in [(g[2].name, g[0].P) for g in shown]:
            shown.append(f)
    for (c, k, o, st, leaks) in shown[:4]:
        single = ParCase(c.P, c.seed, c.adv, c.ppn, [o])
        rc1, runs1, fin1, err1 = par_run(ctx, exe, [single])
        alone = bool(runs1) and runs1[0]["rc"] == 0 and len(runs1[0]["R"]) == 2 and runs1[0]["R"][0][:2] != runs1[0]["R"][1][:2]
        if alone:
            st = (runs1[0]["R"][0][0], runs1[0]["R"][1][0], runs1[0]["R"][0][1], runs1[0]["R"][1][1])
            leaks = runs1[0]["leaks"].get(0, [])
        byrank = {}
        for rk, sz in leaks:
            byrank.setdefault(rk, []).append(sz)
        who = "; ".join("rank %d keeps %d block(s) of %s bytes" % (rk, len(s_), sorted(s_)) for rk, s_ in sorted(byrank.items())) or "no surviving block identified"
        ctx.violation("par-leak:%s-P%d" % (o.name, c.P),
                      "%s on P=%d ranks is not balanced: %s; sc_memory_status (sc_package_id) %d -> %d, (-1) %d -> %d over the call with everything the callers held destroyed; "
                      "input: %s; simulated MPI adversary %d, schedule seed %d, %d ranks per node" % (o.name, c.P, who, st[0], st[1], st[2], st[3], o.what[:900], c.adv, c.seed, c.ppn),
                      dict(par_case=(single if alone else c).text(), call=o.name, call_index=(0 if alone else k), P=c.P, adversary=c.adv, schedule_seed=c.seed, ranks_per_node=c.ppn,
                           leaking_ranks=byrank, status_libsc=[st[0], st[1]], status_default=[st[2], st[3]], input=o.what, input_lines=o.lines,
                           reproduced_alone=alone, unbalanced_calls_in_this_run=len(failing)))
    if allok and len(runs) == len(cases):
        if final is None:
            ctx.violation("par-crash", "parallel lifecycle harness ended (status %s) without reaching sc_finalize_noabort: %s" % (rc, err[-400:]), dict(stderr=err[-3000:]))
        elif nleak == 0 and final[0] != 0:
            # every call was balanced and every object destroyed: finalize must report no error
            ctx.violation("par-finalize", "after %d parallel lifecycle runs with every call balanced and every object destroyed sc_finalize_noabort () returned %d "
                          "(status before: libsc %d, default %d)" % (len(cases), final[0], final[1], final[2]), dict(final=list(final)))
    ctx.notes["parallel_input_distribution"] = ("simulated MPI, P = 1..9 complete family (quick) + samples for P = 10, 11, 13, 16, 17; per P: all 9 notify algorithms x (no payload, fixed items 1..17 bytes "
                                                "around the eager threshold, variable slices), sorted 0/1, in-place / separate outputs, binary algorithm on all / dense / empty / random patterns, legacy "
                                                "sc_notify / sc_notify_allgather / sc_notify_ext / sc_notify_nary, notify with statistics attached; sc_allgather (3 algorithms, blocks 0..24 bytes); "
                                                "sc_reduce / sc_allreduce / custom (9 datatypes, counts 0..5, targets 0, P-1, random); sc_psort (sizes 4..100, 5 comparisons, empty ranks); sc_stats_compute[1] "
                                                "with copied names, sc_statistics_t; sc_shmem 4 flavours x node sizes dividing P x attach explicit / split_type / none x dup; sc_ranges_adaptive + decode; "
                                                "8 scheduler adversaries, random schedule seeds; calls shuffled into runs of about 9 calls")
    ctx.notes["parallel_lifecycles"] = dict(runs=len(cases), calls=nops, unbalanced_calls=nleak, sanity_failures=nsanity, sanity_examples=sanity[:6], finalize=(final[0] if final else None), distribution=dist)
    if nsanity:
        ctx.log("parallel lifecycles: %d result sanity failures (not a C10 matter; see C01-C05, C13, C14): %s" % (nsanity, " | ".join(sanity[:3])))
    ctx.log("parallel lifecycles: %d runs, %d library calls bracketed, %d unbalanced" % (len(cases), nops, nleak))
    if cases:
        ctx.sample({"parallel_lifecycle": "P=%d %s" % (cases[len(cases) // 2].P, cases[len(cases) // 2].ops[0].what[:120])})


class _RawCase:
    def __init__(self, text):
        self._t = text

    def text(self):
        return self._t
