"""C01 - notify inverts the communication pattern under every schedule.
Proof: arithmetic of the n-ary recursion about GENERATED slices (matching, slots, routing, delivery, inversion).
Tie: T1 + the real code (all nine algorithms and the legacy entry points) on the simulated MPI under adversarial
schedules with the transpose of the receiver family as oracle, single calls and calls back to back."""
import os, sys, json
import vlib, mpitrace
import notify_common as nc
sys.path.insert(0, os.path.join(vlib.TOOLS, "c2g"))


def gen_cases(ctx):
    rng = ctx.rng
    cases = []
    Ps = [1, 2, 3, 4, 5, 6, 7, 8, 9, 11, 13, 16, 17, 24] if ctx.quick else list(range(1, 34)) + [47, 48, 49, 63, 64, 65]
    reps = 2 if ctx.quick else 6
    for typ in range(9):
        for P in Ps:
            for _ in range(reps):
                cases.append(nc.make_case(rng, P, typ))
    # n-ary widths: every combination of small widths over a range of sizes (incl. widths larger than P)
    for _ in range(60 if ctx.quick else 600):
        c = nc.make_case(rng, rng.randrange(1, 40), 2)
        c.ntop, c.nint, c.nbot = rng.randrange(2, 7), rng.randrange(2, 6), rng.randrange(2, 7)
        cases.append(c)
    # ranges with tight budgets, superset with varying extra sets
    for _ in range(30 if ctx.quick else 300):
        c = nc.make_case(rng, rng.randrange(2, 30), 7)
        c.nranges = rng.choice([1, 1, 2, 3])
        cases.append(c)
        cases.append(nc.make_case(rng, rng.randrange(2, 30), 8))
    # consecutive calls on the same notify object, with and without a barrier in between
    for typ in range(9):
        for _ in range(6 if ctx.quick else 40):
            P = rng.choice([2, 3, 4, 5, 8, 9, 12])
            cases.append(nc.make_case(rng, P, typ, ncalls=rng.choice([2, 3, 4]), barrier=0))
            cases.append(nc.make_case(rng, P, typ, ncalls=rng.choice([2, 3]), barrier=1))
    # algorithms whose consecutive calls must compose (allgather, binary, pex, pcx, rsx, ranges): every scheduler
    # adversary on sizes with incomplete groups, several calls without barrier (a wildcard receive that is not
    # bound to its call shows up when one sender is starved while its neighbour runs ahead)
    for typ in (1, 1, 0, 3, 4, 5, 7):
        for P in ([3, 5, 6, 7, 10, 11, 13] if typ == 1 else [3, 6]):
            for adv in range(8):
                if typ != 1 and adv % 3:
                    continue
                c = nc.make_case(rng, P, typ, ncalls=rng.choice([3, 4]), barrier=0, style=rng.choice(["dense", "all", "random"]) if hasattr(nc, "STYLES") and "dense" in nc.STYLES else None)
                c.adv = adv
                cases.append(c)
    # legacy entry points
    for api in (1, 2, 3, 4):
        for _ in range(8 if ctx.quick else 60):
            cases.append(nc.make_case(rng, rng.choice([1, 2, 3, 5, 8, 9, 13, 17]), 0, api=api))
    # the caller reuses its output arrays over the calls of a case / passes non-empty output arrays
    cases += nc.reuse_cases(rng, [0], 4 if ctx.quick else 24)
    return cases


def run(ctx):
    import genall
    st = genall.run(["NotifyC01", "NotifyCfgC01"])
    for g, s in st.items():
        if s.startswith("FAILED"):
            ctx.tie_broken("translator group " + g, s)
    ctx.props()
    cases = gen_cases(ctx)
    if ctx.replay:
        rp = json.load(open(ctx.replay)).get("replay", {})
        if "case" in rp:
            cases = [nc.Case(**rp["case"])] + cases[:5]
    rc, runs, err = nc.run_cases(ctx, cases)
    if rc != 0:
        nc.crash_violation(ctx, cases, runs, rc, err)
    dist = {"type": {}, "P": {}, "multi_call": 0, "multi_call_barrier": 0, "adv": {}, "empty_lists": 0, "self_notification": 0}
    for c, r in zip(cases, runs):
        t = nc.TYPES[c.type] if c.api == 0 else "api%d" % c.api
        dist["type"][t] = dist["type"].get(t, 0) + 1
        dist["P"][c.P] = dist["P"].get(c.P, 0) + 1
        dist["adv"][c.adv] = dist["adv"].get(c.adv, 0) + 1
        dist["multi_call"] += 1 if c.ncalls > 1 and not c.barrier else 0
        dist["multi_call_barrier"] += 1 if c.ncalls > 1 and c.barrier else 0
        dist["empty_lists"] += 1 if any(not x for pat in c.patterns for x in pat) else 0
        dist["self_notification"] += 1 if any(p in pat[p] for pat in c.patterns for p in range(c.P)) else 0
        ctx.count_case(c.text(), nontrivial=c.P > 1 and any(len(x) for pat in c.patterns for x in pat))
        for kind, text, detail in nc.judge(c, r):
            kk = nc.known_key(c, kind, text)
            key = kk or ("%s:%s" % (kind, c.key()))
            rep = dict(case=c.to_json(), kind=kind)
            rep.update(detail)
            ctx.violation(key, "%s [%s]" % (text, c.header()), rep)
    if len(runs) < len(cases):
        ctx.tie_broken("harness output", "%d of %d runs reported" % (len(runs), len(cases)))
    # HISTORIES ON ONE NOTIFY OBJECT: several rounds (barrier in between) with reconfiguration between the rounds - set_widths
    # shrinking / growing / permuted, set_type back and forth, set_num_ranges, set_eager_threshold, callback replaced, object
    # re-created; every round judged and co-simulated as a single call with the parameters in force; the extracted state model
    # of the object (C01/Reconfig.v, built from the generated setters) against the getters after every prefix
    if not (ctx.replay and "case" in json.load(open(ctx.replay)).get("replay", {})):
        nc.history_tie(ctx, [0, 0, 0, 1], 52 if ctx.quick else 780)
    # T2: the static sc_notify_merge of the working tree against the extracted int-level model
    nc.merge_tie(ctx, [0, 0, 0, 1, 2], 1500 if ctx.quick else 20000)
    # T3: every rank's trace of single calls co-simulated against the extracted per-rank programs (6 algorithms)
    nc.cosim_tie(ctx, [0], 90 if ctx.quick else 1200)
    ctx.cov["rule"] = ("sc_notify_payload without payload (and sc_notify, sc_notify_allgather, sc_notify_ext, sc_notify_nary) on the simulated MPI: all 9 algorithm types, "
                       "receiver patterns random/sparse/dense/ring/star/all/empty/self/high-ranks, n-ary widths 2..6, ranges budgets 1..25, superset extra sets, sorted 0/1, in-place and "
                       "separate senders array, 8 scheduler adversaries (deadlock, endless polling and leftover messages are detected by the simulator), 2-4 calls back to back with and "
                       "without barrier; histories of 2-6 rounds on ONE notify object with reconfiguration between the rounds (families shrink, grow, permute, randw, types, "
                       "sametype, ranges, thresh, superset, fresh, mixed; P 3..17); non-trivial = P > 1 and at least one receiver")
    ctx.notes["distribution"] = dist
    for c in cases[:: max(1, len(cases) // 4)][:4]:
        ctx.sample(dict(header=c.header(), receivers_call0=c.patterns[0][:5]))
    ctx.cov["trusted_base"] = ["tools/c2g slices of sc_notify_recursive_nary / sc_notify_recursive / sc_notify (anchored on the source text)",
                               "tools/c2g group NotifyCfgC01: whole bodies of the setters / set_type / nary_init / ranges_init, field footprint of the round functions on the notify object (syntactic, flow-insensitive)",
                               "tools/simmpi (scheduler, matching rules, deadlock/livelock/leftover detection) and its trace",
                               "MPI contract used by the program theorems: collectives return the specified values (Section hypotheses coll_contract), every sent message is delivered exactly once to a matching receive (round abstraction for wildcard receives)"]
    ctx.assumptions += ["receiver lists are sorted and duplicate free (documented precondition)",
                        "theorems: record merge algebra; n-ary and binary recursion arithmetic (matching, routing, delivery, inversion); per-rank programs of allgather, pex, pcx, rsx under the collective contract / round abstraction; nbx, ranges, superset and payloadv are covered by the simulated runs and the oracle only",
                        "within one call a wildcard receive on a level's tag sees exactly that level's messages (round abstraction); consecutive calls are the recorded finding",
                        "histories on one notify object are legal: a type's setter is called only while the object has that type, a superset round only after a callback was set since the last change to superset; rounds are separated by a barrier"]
    return "proof"
