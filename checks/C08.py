"""C08 - sc_array behaves as a sequence of fixed-size elements under any history.
T1: the integer decisions of the sc_array functions are regenerated from /repo (Gen/Array.v) and the
theorems are re-checked against them.  T2: random legal histories are executed on real sc_arrays (ASan/UBSan
build of the working tree) and on the extracted model; both must print the same observables.  Oracle: an
independent plain reference sequence in this file (bytearrays + windows), evaluated on every line."""
import os, sys, json, zlib, struct
import vlib
sys.path.insert(0, os.path.join(vlib.TOOLS, "c2g"))

NH = 24
MAXB = 1 << 62


def hx(v):
    return ("-%x" % -v) if v < 0 else ("%x" % v)


def hb(b):
    return bytes(b).hex() if len(b) else "-"


# ----------------------------------------------------------------------------------------------------
# reference: owners are plain byte sequences, views are windows into their root owner
# ----------------------------------------------------------------------------------------------------
class Own:
    """stor: does the owner hold storage?  False = released (newly initialised: array == NULL, byte_alloc == 0), True = it was grown to
    a positive count since its last reset-equivalent (truncate, pop and rewind (n > 0) keep the storage: "does not free elements",
    "without reallocating memory", the popped pointer "will be valid"), None = created with a count of 0 by init_count (a zero-byte
    allocation: whether that is a block is the allocator's business).  Nothing here knows the allocation policy (sizes, powers of two)."""
    def __init__(self, dyn, e, data, stor=False):
        self.dyn, self.e, self.b, self.stor = dyn, e, bytearray(data), stor
    own = True

    @property
    def n(self):
        return len(self.b) // self.e


class View:
    def __init__(self, dyn, root, boff, e, n, cap):
        self.dyn, self.root, self.boff, self.e, self.n, self.cap = dyn, root, boff, e, n, cap
    own = False


class Illegal(Exception):
    pass


def need(c, why=""):
    if not c:
        raise Illegal(why)


class Ref:
    def __init__(self):
        self.a = {}

    def get(self, h):
        need(h in self.a, "dead handle")
        return self.a[h]

    def root(self, h):
        x = self.get(h)
        return (h, 0) if x.own else (x.root, x.boff)

    def rooted(self, r):
        return any((not x.own) and x.root == r for x in self.a.values())

    def content(self, h):
        x = self.get(h)
        if x.own:
            return bytes(x.b)
        return self.rd(h, 0, x.n * x.e)

    def rd(self, h, p, n):
        r, base = self.root(h)
        rb = self.a[r].b
        need(0 <= p and base + p + n <= len(rb), "read outside")
        return bytes(rb[base + p: base + p + n])

    def wr(self, h, p, d):
        if not d:
            return
        x = self.get(h)
        r, base = self.root(h)
        rb = self.a[r].b
        need(0 <= p and p + len(d) <= x.n * x.e and base + p + len(d) <= len(rb), "write outside")
        rb[base + p: base + p + len(d)] = d

    def elems(self, h):
        x = self.get(h)
        c = self.content(h)
        return [c[i * x.e:(i + 1) * x.e] for i in range(x.n)]

    def free(self, h):
        need(h not in self.a and 0 <= h < NH, "handle in use")

    def not_rooted_if_owner(self, h):
        x = self.get(h)
        need((not x.own) or not self.rooted(h), "owner with live views")

    def owner_free(self, h):
        x = self.get(h)
        need(x.own and not self.rooted(h), "not a view-free owner")

    def resize_wr(self, h, n, p, d):
        x = self.get(h)
        need(n >= 0)
        if x.own:
            need(not self.rooted(h))
            need(p <= len(x.b) and p + len(d) == n * x.e, "resize_wr shape")
            x.b = bytearray(bytes(x.b[:p]) + bytes(d))
        else:
            need(n * x.e <= x.cap, "view capacity")
            x.n = n
            self.wr(h, p, d)

    def mkview(self, dyn, h, src, bo, e, n):
        r, base = self.root(src)
        self.a[h] = View(dyn, r, base + bo, e, n, n * e)

    # -- apply one operation (token list as written to the case file); returns the expected result token(s)
    def apply(self, t):
        op = t[0]
        A = lambda i: int(t[i], 16)
        B = lambda i: b"" if t[i] == "-" else bytes.fromhex(t[i])
        if op == "init":
            dyn, h, e = A(1), A(2), A(3)
            self.free(h); need(1 <= e <= MAXB)
            self.a[h] = Own(bool(dyn), e, b"", False)
        elif op == "initc":
            dyn, h, e, n, d = A(1), A(2), A(3), A(4), B(5)
            self.free(h); need(1 <= e and 0 <= n and len(d) == n * e)
            self.a[h] = Own(dyn in (1, 2), e, d, True if n > 0 else None)
        elif op == "view":
            dyn, h, src, o, l = A(1), A(2), A(3), A(4), A(5)
            self.free(h); x = self.get(src)
            need(0 <= o and 0 <= l and o + l <= x.n)
            self.mkview(bool(dyn), h, src, o * x.e, x.e, l)
        elif op == "reshape":
            h, src, e, n = A(1), A(2), A(3), A(4)
            self.free(h); x = self.get(src)
            need(e >= 1 and n >= 0 and e * n == x.e * x.n)
            self.mkview(False, h, src, 0, e, n)
        elif op == "data":
            dyn, h, src, bo, e, n = A(1), A(2), A(3), A(4), A(5), A(6)
            self.free(h); x = self.get(src)
            need(0 <= bo and e >= 1 and n >= 0 and bo + n * e <= x.n * x.e)
            self.mkview(bool(dyn), h, src, bo, e, n)
        elif op == "reset":
            h = A(1); x = self.get(h); self.not_rooted_if_owner(h)
            self.a[h] = Own(x.dyn, x.e, b"", False)     # "turns a view into a newly initialized array"; frees an owner's elements
        elif op == "destroy":
            h = A(1); x = self.get(h); need(x.dyn); self.not_rooted_if_owner(h)
            del self.a[h]
        elif op == "drop":
            h = A(1); x = self.get(h); need(not x.dyn); self.not_rooted_if_owner(h)
            del self.a[h]
        elif op == "abandon":
            # a static struct is forgotten without any call: a view, or an owner that a reset-equivalent has released
            h = A(1); x = self.get(h); need(not x.dyn); self.not_rooted_if_owner(h)
            need((not x.own) or x.stor is False, "abandoned with storage")
            del self.a[h]
        elif op == "trunc":
            h = A(1); self.owner_free(h); self.resize_wr(h, 0, 0, b"")
        elif op == "rewind":
            h, n = A(1), A(2); x = self.get(h)
            need(0 <= n <= x.n); self.resize_wr(h, n, n * x.e, b"")
            if x.own and n == 0:
                x.stor = False          # "a new_count of zero specified for an array that is not a view: sc_array_reset is equivalent"
        elif op == "resize":
            h, n, d = A(1), A(2), B(3); x = self.get(h)
            need(len(d) == max(0, n - x.n) * x.e)
            self.resize_wr(h, n, min(x.n, n) * x.e, d)
            if x.own:
                x.stor = n > 0          # "If it is zero and the array is not a view, the effect equals sc_array_reset"
        elif op == "regrow":
            # sc_array_resize of a VIEW to a larger count inside its capacity, nothing written: the view shows its designated section
            h, n = A(1), A(2); x = self.get(h)
            need((not x.own) and n >= x.n and n * x.e <= x.cap)
            x.n = n
            self.rd(h, 0, n * x.e)
        elif op == "pushc":
            h, k, d = A(1), A(2), B(3); x = self.get(h); self.owner_free(h)
            need(k >= 0 and len(d) == k * x.e)
            self.resize_wr(h, x.n + k, x.n * x.e, d)
            if k > 0:
                x.stor = True
        elif op == "push":
            h, d = A(1), B(2); x = self.get(h); self.owner_free(h)
            need(len(d) == x.e)
            self.resize_wr(h, x.n + 1, x.n * x.e, d)
            x.stor = True
        elif op == "pop":
            h = A(1); x = self.get(h); self.owner_free(h); need(x.n > 0)
            last = self.rd(h, (x.n - 1) * x.e, x.e)
            self.resize_wr(h, x.n - 1, (x.n - 1) * x.e, b"")
            return hb(last)
        elif op == "copy":
            d, s = A(1), A(2); x, y = self.get(d), self.get(s)
            self.owner_free(d); need(d != s and x.e == y.e)
            self.resize_wr(d, y.n, 0, self.content(s))
            x.stor = y.n > 0            # "dest ... will be resized": to zero = reset
        elif op == "copyinto":
            d, o, s = A(1), A(2), A(3); x, y = self.get(d), self.get(s)
            need(x.e == y.e and 0 <= o and o + y.n <= x.n)
            if y.n:
                (r1, b1), (r2, b2) = self.root(d), self.root(s)
                lo1, lo2, ln = b1 + o * x.e, b2, y.n * y.e
                need(r1 != r2 or lo1 + ln <= lo2 or lo2 + ln <= lo1, "memcpy overlap")
            self.wr(d, o * x.e, self.content(s))
        elif op == "move":
            d, od, s, os_, n = A(1), A(2), A(3), A(4), A(5); x, y = self.get(d), self.get(s)
            need(x.e == y.e and 0 <= od and 0 <= os_ and 0 <= n and od + n <= x.n and os_ + n <= y.n)
            self.wr(d, od * x.e, self.rd(s, os_ * y.e, n * y.e))
        elif op == "memset":
            h, c = A(1), A(2); x = self.get(h); need(0 <= c < 256)
            self.wr(h, 0, bytes([c]) * (x.n * x.e))
        elif op == "set":
            h, i, d = A(1), A(2), B(3); x = self.get(h)
            need(0 <= i < x.n and len(d) == x.e)
            self.wr(h, i * x.e, d)
        elif op == "index":
            h, i = A(1), A(2); x = self.get(h); need(0 <= i < x.n)
            return hb(self.rd(h, i * x.e, x.e))
        elif op == "sort":
            h = A(1)
            self.wr(h, 0, b"".join(sorted(self.elems(h))))
        elif op == "uniq":
            h = A(1); self.owner_free(h)
            l = self.elems(h)
            u = [l[i] for i in range(len(l)) if i == len(l) - 1 or l[i] != l[i + 1]]
            self.resize_wr(h, len(u), 0, b"".join(u))
        elif op == "issorted":
            l = self.elems(A(1))
            return hx(int(all(l[i] <= l[i + 1] for i in range(len(l) - 1))))
        elif op == "isequal":
            a, b = A(1), A(2); x, y = self.get(a), self.get(b)
            return hx(int(x.e == y.e and x.n == y.n and self.content(a) == self.content(b)))
        elif op == "bsearch":
            h, key = A(1), B(2); x = self.get(h); need(len(key) == x.e)
            l = self.elems(h)
            need(all(l[i] <= l[i + 1] for i in range(len(l) - 1)), "bsearch needs a sorted array")
            return "hit" if key in l else "-1"
        elif op == "checksum":
            return hx(zlib.adler32(self.content(A(1))) & 0xffffffff)
        elif op == "isperm":
            h = A(1); x = self.get(h); need(x.e == 8)
            v = [int.from_bytes(e, "little") for e in self.elems(h)]
            return hx(int(sorted(v) == list(range(len(v)))))
        elif op == "split":
            h, o, T = A(1), A(2), A(3); x, y = self.get(h), self.get(o)
            need(y.e == 8 and T >= 0 and self.root(h)[0] != self.root(o)[0])
            ty = [e[0] for e in self.elems(h)]
            need(all(t < T for t in ty) and ty == sorted(ty), "split needs type-sorted input")
            offs = [sum(1 for t in ty if t < k) for k in range(T + 1)]
            self.resize_wr(o, T + 1, 0, b"".join(struct.pack("<Q", v) for v in offs))
            if y.own:
                y.stor = True
        elif op == "permute":
            h, p, keep = A(1), A(2), A(3); x, y = self.get(h), self.get(p)
            need(y.e == 8 and y.n == x.n and self.root(h)[0] != self.root(p)[0])
            ni = [int.from_bytes(e, "little") for e in self.elems(p)]
            need(sorted(ni) == list(range(x.n)), "not a permutation")
            l = self.elems(h)
            out = [None] * x.n
            for i, k in enumerate(ni):
                out[k] = l[i]
            self.wr(h, 0, b"".join(out))
            if not keep:
                self.wr(p, 0, b"".join(struct.pack("<Q", v) for v in range(x.n)))
        else:
            raise Illegal("unknown op " + op)
        return "-"

    def observe(self):
        parts = []
        for h in sorted(self.a):
            x = self.a[h]
            parts.append("%x:%x:%x:%s" % (h, x.e, x.n, hb(self.content(h))))
        return " ;" + "".join(" " + p for p in parts)

    def released_state(self):
        """what the documentation fixes about storage: (number of dynamically created structs, {handle: "v" | False | True | None})"""
        return (sum(1 for x in self.a.values() if x.dyn), dict((h, x.stor if x.own else "v") for h, x in self.a.items()))


def diff_excerpt(a, b, width=150):
    """the part of output line a around the first place where it differs from b (lines carry the bytes of all live arrays)"""
    k = 0
    while k < min(len(a), len(b)) and a[k] == b[k]:
        k += 1
    lo = max(0, k - 40)
    return ("..." if lo else "") + a[lo:lo + width] + ("..." if lo + width < len(a) else "") + " (first difference at character %d)" % k


def judge_released(extra, want):
    """extra: the harness' suffix "<status> h:K:P:B ..."; want: Ref.released_state ().  Returns None or a description of the difference."""
    ndyn, st = want
    tok = extra.split()
    try:
        status = int(tok[0])
        got = dict((int(t.split(":")[0], 16), t.split(":")[1:]) for t in tok[1:])
    except (ValueError, IndexError):
        return "unreadable released-state suffix [%s]" % extra[:80]
    if sorted(got) != sorted(st):
        return "live handles %s, expected %s" % (sorted(got), sorted(st))
    blocks = ndyn
    for h in sorted(st):
        k, p, b = got[h]
        w = st[h]
        if w == "v":
            if k != "v":
                return "array %x should be a view and is an owner" % h
            continue
        if k != "o":
            return "array %x should be an owner and is a view" % h
        if w is False and (p, b) != ("N", "Z"):
            return ("array %x was released by a documented reset-equivalent and must be a newly initialised array: array %s NULL, byte_alloc %s 0"
                    % (h, "==" if p == "N" else "!=", "==" if b == "Z" else "!="))
        if w is True and (p, b) != ("P", "A"):
            return "array %x holds elements or kept storage: array %s NULL, byte_alloc %s 0" % (h, "==" if p == "N" else "!=", "==" if b == "Z" else "!=")
        if w is None and b != "Z":
            return "array %x was created with 0 elements: byte_alloc != 0" % h
        blocks += 1 if p == "P" else 0
    if status != blocks:
        return ("sc_memory_status is %d above the start of the history; live blocks: %d created structs + %d arrays with storage = %d"
                % (status, ndyn, blocks - ndyn, blocks))
    return None


# ----------------------------------------------------------------------------------------------------
# generator of legal histories
# ----------------------------------------------------------------------------------------------------
ESIZES = [1, 1, 2, 3, 4, 4, 5, 7, 8, 8, 12, 16, 17, 24] + list(range(1, 25))
# size classes of the element size: code that treats an element in pieces (chunked copies, word-wise copies, stack buffers,
# small/large switches) has its case splits at powers of two and their neighbours and at exact multiples of a chunk size
BIGSIZES = [31, 32, 33, 48, 63, 64, 65, 96, 100, 127, 128, 129, 192, 255, 256, 257, 384, 511, 512, 513, 640, 1000, 1023, 1024, 1025]
SIZE_CLASSES = list(range(1, 25)) + BIGSIZES + [2048, 4096, 4097, 8192]


def pick_esize(r, maxbytes, pbig=0.3):
    """element size of a new array: 1..24 mostly, with probability pbig one of the larger size classes (at least 2 elements fit)"""
    big = [e for e in BIGSIZES if 2 * e <= maxbytes]
    if big and r.random() < pbig:
        return r.choice(big)
    return r.choice(ESIZES)


class ExpList(list):
    """the expected output lines of a history; .st = the expected released states, line by line"""
    st = None


class Gen:
    def __init__(self, rng, maxbytes, maxops):
        self.rng, self.maxbytes, self.maxops = rng, maxbytes, maxops
        self.ref = Ref()
        self.ops = []       # token lists
        self.exp = ExpList()    # expected output lines
        self.expst = []         # expected released state per line (judge_released)
        self.exp.st = self.expst
        self.alpha = rng.choice([2, 3, 4, 16, 256])     # byte alphabet: small ones give duplicates / equal arrays

    def rb(self, n):
        r = self.rng
        if self.alpha == 256:
            return bytes(r.getrandbits(8) for _ in range(n))
        return bytes(r.randrange(self.alpha) for _ in range(n))

    def emit(self, t):
        """apply to the reference; on success record op and expected line"""
        t = [str(x) for x in t]
        snap = None
        try:
            res = self.ref.apply(t)
        except Illegal:
            return False
        self.ops.append(t)
        self.exp.append(res + self.ref.observe())
        self.expst.append(self.ref.released_state())
        return True

    def free_handle(self):
        c = [h for h in range(NH) if h not in self.ref.a]
        return self.rng.choice(c[:6]) if c else None

    def pick(self, pred=lambda h, x: True):
        c = [h for h, x in self.ref.a.items() if pred(h, x)]
        return self.rng.choice(c) if c else None

    def some_perm(self, n):
        """a permutation of 0..n-1 that is not the identity when n >= 2: random, one long cycle, reversal or a single exchange"""
        r = self.rng
        perm = list(range(n))
        k = r.random()
        if k < 0.55:
            r.shuffle(perm)
        elif k < 0.7:
            perm = [(i + 1) % n for i in range(n)] if n else []
        elif k < 0.85:
            perm.reverse()
        elif n >= 2:
            i, j = r.sample(range(n), 2)
            perm[i], perm[j] = perm[j], perm[i]
        if n >= 2 and perm == list(range(n)):
            perm = perm[1:] + perm[:1]
        return perm

    def fresh_case_array(self, nmin, nmax, sortedkeys=False):
        """a fresh array whose element size is drawn from the size classes (all of them, as far as nmin elements fit)"""
        r = self.rng
        h = self.free_handle()
        if h is None:
            return None
        cand = [e for e in SIZE_CLASSES if nmin * e <= max(self.maxbytes, 64)]
        e = r.choice(cand if r.random() < 0.7 else [c for c in cand if c >= 25] or cand)
        n = r.randrange(nmin, max(nmin, min(nmax, max(self.maxbytes, 64) // e)) + 1)
        if not self.emit(["initc", r.randrange(4), "%x" % h, "%x" % e, "%x" % n, hb(self.rb(n * e))]):
            return None
        return h

    def empty_it(self, h):
        """bring a view-free owner to a small count or to zero WITHOUT releasing its storage: truncate, pops, rewind (n > 0), nothing"""
        r = self.rng
        x = self.ref.a[h]
        H = "%x" % h
        k = r.choice(["trunc", "trunc", "pop", "pop", "rewind", "none", "same"])
        if k == "trunc":
            self.emit(["trunc", H])
        elif k == "pop" and x.n <= 12:
            for _ in range(x.n):
                self.emit(["pop", H])
        elif k == "pop" or k == "rewind":
            self.emit(["rewind", H, "%x" % r.choice([1, 1, 2, max(1, x.n // 2)])]) if x.n >= 1 else None
            if r.random() < 0.5:
                for _ in range(min(2, self.ref.a[h].n)):
                    self.emit(["pop", H])
        if k == "same" or r.random() < 0.25:
            # calls that leave the count as it is: resize to the current count, push_count (0), rewind to the current count
            x = self.ref.a[h]
            if x.n > 0 or r.random() < 0.5:
                self.emit(r.choice([["resize", H, "%x" % x.n, "-"], ["pushc", H, "0", "-"], ["rewind", H, "%x" % x.n]])) if x.n > 0 else \
                    self.emit(r.choice([["pushc", H, "0", "-"], ["trunc", H]]))

    def release_it(self, h, how=None):
        """release a view-free owner by one of the documented reset-equivalents; returns the name of the way or None"""
        r = self.rng
        x = self.ref.a[h]
        H = "%x" % h
        how = how or r.choice(["resize0", "resize0", "rewind0", "reset", "copyempty", "copyempty"])
        if how == "resize0":
            ok = self.emit(["resize", H, "0", "-"])
        elif how == "rewind0":
            ok = self.emit(["rewind", H, "0"])
        elif how == "reset":
            ok = self.emit(["reset", H])
        else:
            # sc_array_copy from an array without elements (an owner, a released one, an empty view)
            src = self.pick(lambda g, y: g != h and y.e == x.e and y.n == 0) if r.random() < 0.5 else None
            tmp = None
            if src is None:
                tmp = src = self.free_handle()
                if src is None:
                    return None
                if r.random() < 0.3 and x.n > 0:
                    self.emit(["view", r.randrange(2), "%x" % src, H, "%x" % r.randrange(x.n + 1), "0"])     # empty view of h itself
                elif r.random() < 0.5:
                    self.emit(["init", r.randrange(2), "%x" % src, "%x" % x.e])
                else:
                    self.emit(["initc", r.randrange(4), "%x" % src, "%x" % x.e, "0", "-"])
            if tmp is not None and not self.ref.a[tmp].own:
                # a view of h: kill it first is not possible (copy needs it); copying into an owner with live views is illegal
                self.kill(tmp)
                return None
            ok = self.emit(["copy", H, "%x" % src])
            if tmp is not None:
                self.kill(tmp)
        return how if ok else None

    def kill(self, h):
        x = self.ref.a[h]
        return self.emit(["destroy" if x.dyn else "drop", "%x" % h] + (["%x" % self.rng.randrange(2)] if x.dyn else []))

    def total_bytes(self):
        return sum(len(x.b) for x in self.ref.a.values() if x.own)

    def target_count(self, x, cur):
        """a count whose byte size sits at or next to a power of two, or a random small one"""
        r = self.rng
        e = x.e
        k = r.random()
        if k < 0.55:
            lim = max(2, self.maxbytes.bit_length())
            p = 1 << r.randrange(0, lim)
            n = p // e + r.choice([-1, 0, 0, 1, 1, 2])
            return max(0, n)
        if k < 0.7:
            return max(0, cur + r.choice([-3, -2, -1, 1, 2, 3]))
        if k < 0.8:
            return max(0, cur // 2 + r.choice([-1, 0, 1]))
        if k < 0.85:
            return 0
        return r.randrange(0, max(2, min(40, self.maxbytes // e)))

    def step(self):
        r = self.rng
        ref = self.ref
        nlive = len(ref.a)
        H = lambda v: "%x" % v
        kinds = ["push"] * 10 + ["pushc"] * 5 + ["pop"] * 6 + ["resize"] * 9 + ["rewind"] * 3 + ["trunc"] * 2 + ["reset"] * 2 + \
                ["set"] * 4 + ["index"] * 2 + ["memset"] + ["view"] * 4 + ["reshape"] * 2 + ["data"] * 2 + ["copy"] * 2 + \
                ["copyinto"] * 2 + ["move"] * 3 + ["sort"] * 2 + ["uniq"] * 2 + ["issorted"] + ["isequal"] * 2 + ["bsearch"] * 2 + \
                ["checksum"] + ["isperm"] + ["split"] * 2 + ["permute"] * 2 + ["killview"] * 6 + ["destroy"] * 2 + ["drop"] + \
                ["viewcycle"] * 4 + ["permcase"] * 2 + ["sortcase"] * 2 + ["release"] * 7
        if nlive < 2:
            kinds += ["create"] * 30
        elif nlive < 7:
            kinds += ["create"] * 6
        k = r.choice(kinds)
        own = lambda h, x: x.own and not ref.rooted(h)
        if k == "create":
            h = self.free_handle()
            if h is None:
                return False
            e = pick_esize(r, self.maxbytes)
            if r.random() < 0.45:
                return self.emit(["init", r.randrange(2), H(h), H(e)])
            n = r.choice([0, 0, 1, 2, 3, 5, 8, r.randrange(0, 20)])
            if n * e > self.maxbytes:
                n = self.maxbytes // e
            return self.emit(["initc", r.randrange(4), H(h), H(e), H(n), hb(self.rb(n * e))])
        if k == "push":
            h = self.pick(own)
            if h is None:
                return False
            x = ref.a[h]
            if len(x.b) + x.e > self.maxbytes:
                return False
            return self.emit(["push", H(h), hb(self.rb(x.e))])
        if k == "pushc":
            h = self.pick(own)
            if h is None:
                return False
            x = ref.a[h]
            n = self.target_count(x, x.n)
            kk = n - x.n if n >= x.n else r.randrange(0, 4)
            if (x.n + kk) * x.e > self.maxbytes:
                return False
            return self.emit(["pushc", H(h), H(kk), hb(self.rb(kk * x.e))])
        if k == "pop":
            h = self.pick(lambda h, x: own(h, x) and x.n > 0)
            if h is None:
                return False
            ok = False
            for _ in range(r.choice([1, 1, 1, 2, 3, 5])):      # runs of pops (shrink below half without reallocation)
                if ref.a[h].n > 0:
                    ok |= self.emit(["pop", H(h)])
            return ok
        if k == "resize":
            h = self.pick()
            if h is None:
                return False
            x = ref.a[h]
            if x.own:
                if ref.rooted(h):
                    return False
                n = self.target_count(x, x.n)
                if n * x.e > self.maxbytes:
                    return False
            else:
                n = r.randrange(0, x.cap // x.e + 1)
            return self.emit(["resize", H(h), H(n), hb(self.rb(max(0, n - x.n) * x.e))])
        if k == "rewind":
            h = self.pick(lambda h, x: not x.own or not ref.rooted(h))
            if h is None:
                return False
            x = ref.a[h]
            n = r.choice([0, x.n, x.n // 2, max(0, x.n - 1), r.randrange(0, x.n + 1)])
            return self.emit(["rewind", H(h), H(n)])
        if k == "trunc":
            h = self.pick(own)
            return h is not None and self.emit(["trunc", H(h)])
        if k == "reset":
            h = self.pick(lambda h, x: not x.own or not ref.rooted(h))
            return h is not None and self.emit(["reset", H(h)])
        if k == "viewcycle":
            # shrink a view (to 0 or a few elements, by rewind or resize) and grow it again inside its capacity:
            # it must still be the same window of its root (a view that turned into an owner would not alias any more)
            h = self.pick(lambda h, x: not x.own and x.cap >= x.e)
            if h is None:
                return False
            x = ref.a[h]
            lo = r.choice([0, 0, 0, x.n // 2, max(0, x.n - 1)])
            ok = self.emit(["rewind", H(h), H(min(lo, x.n))] if (r.random() < 0.6 and lo <= x.n) else ["resize", H(h), H(lo), hb(self.rb(max(0, lo - x.n) * x.e))])
            if r.random() < 0.3:
                self.emit(["memset", H(x.root), H(r.randrange(256))])
            n = r.choice([x.cap // x.e, r.randrange(0, x.cap // x.e + 1)])
            x = ref.a[h]
            return self.emit(["resize", H(h), H(n), hb(self.rb(max(0, n - x.n) * x.e))]) or ok
        if k == "killview":
            h = self.pick(lambda h, x: not x.own)
            if h is None:
                return False
            x = ref.a[h]
            return self.emit([r.choice(["destroy"] if x.dyn else ["drop", "reset"]), H(h)] + (["%x" % r.randrange(2)] if x.dyn else []))
        if k == "destroy":
            h = self.pick(lambda h, x: x.dyn and (not x.own or not ref.rooted(h)))
            return h is not None and self.emit(["destroy", H(h), "%x" % r.randrange(2)])
        if k == "drop":
            h = self.pick(lambda h, x: not x.dyn and (not x.own or not ref.rooted(h)))
            return h is not None and nlive > 2 and self.emit(["drop", H(h)])
        if k == "set":
            h = self.pick(lambda h, x: x.n > 0)
            if h is None:
                return False
            x = ref.a[h]
            return self.emit(["set", H(h), H(r.choice([0, x.n - 1, r.randrange(x.n)])), hb(self.rb(x.e))])
        if k == "index":
            h = self.pick(lambda h, x: x.n > 0)
            if h is None:
                return False
            x = ref.a[h]
            i = r.choice([0, x.n - 1, r.randrange(x.n)])
            variant = r.choice([0, 0, 1, 2, 3, 5] + ([4] if i < 30000 else []))
            return self.emit(["index", H(h), H(i), "%x" % variant])
        if k == "memset":
            h = self.pick()
            return h is not None and self.emit(["memset", H(h), H(r.choice([0, 255, r.randrange(256)]))])
        if k == "view":
            src = self.pick()
            h = self.free_handle()
            if src is None or h is None:
                return False
            x = ref.a[src]
            o = r.choice([0, x.n, r.randrange(0, x.n + 1)])
            l = r.choice([0, x.n - o, r.randrange(0, x.n - o + 1)])
            return self.emit(["view", r.randrange(2), H(h), H(src), H(o), H(l)])
        if k == "reshape":
            src = self.pick()
            h = self.free_handle()
            if src is None or h is None:
                return False
            x = ref.a[src]
            tot = x.e * x.n
            divs = [d for d in list(range(1, 33)) + BIGSIZES if tot % d == 0] or [1]
            e = r.choice(divs) if tot else r.choice(ESIZES)
            return self.emit(["reshape", H(h), H(src), H(e), H(tot // e)])
        if k == "data":
            src = self.pick()
            h = self.free_handle()
            if src is None or h is None:
                return False
            x = ref.a[src]
            tot = x.e * x.n
            e = pick_esize(r, max(2, tot))
            bo = r.choice([0, r.randrange(0, tot + 1)])
            n = r.choice([(tot - bo) // e, r.randrange(0, (tot - bo) // e + 1)])
            return self.emit(["data", r.randrange(2), H(h), H(src), H(bo), H(e), H(n)])
        if k == "copy":
            d = self.pick(own)
            if d is None:
                return False
            s = self.pick(lambda h, x: h != d and x.e == ref.a[d].e)
            if s is None:
                # make a partner of the same element size
                h = self.free_handle()
                return h is not None and self.emit(["init", r.randrange(2), H(h), H(ref.a[d].e)])
            return self.emit(["copy", H(d), H(s)])
        if k == "copyinto":
            s = self.pick()
            if s is None:
                return False
            y = ref.a[s]
            d = self.pick(lambda h, x: x.e == y.e and x.n >= y.n)
            if d is None:
                return False
            x = ref.a[d]
            o = r.choice([0, x.n - y.n, r.randrange(0, x.n - y.n + 1)])
            return self.emit(["copyinto", H(d), H(o), H(s)])
        if k == "move":
            s = self.pick()
            if s is None:
                return False
            y = ref.a[s]
            d = self.pick(lambda h, x: x.e == y.e)
            if d is None:
                return False
            x = ref.a[d]
            n = r.randrange(0, min(x.n, y.n) + 1)
            od = r.randrange(0, x.n - n + 1)
            os_ = r.randrange(0, y.n - n + 1)
            if d == s and r.random() < 0.7 and n > 1:      # overlapping moves inside one array
                os_ = max(0, min(y.n - n, od + r.choice([-2, -1, 1, 2])))
            return self.emit(["move", H(d), H(od), H(s), H(os_), H(n)])
        small = lambda h, x: x.n <= 400
        if k == "sort":
            h = self.pick(small)
            return h is not None and self.emit(["sort", H(h)])
        if k == "uniq":
            h = self.pick(lambda h, x: own(h, x) and small(h, x))
            if h is None:
                return False
            if r.random() < 0.8:
                self.emit(["sort", H(h)])
            return self.emit(["uniq", H(h)])
        if k == "issorted":
            h = self.pick(small)
            return h is not None and self.emit(["issorted", H(h)])
        if k == "isequal":
            a = self.pick()
            if a is None:
                return False
            if r.random() < 0.5 and ref.a[a].n > 0:
                # a copy that differs from the original in exactly one byte (any position, also in the last element)
                h = self.free_handle()
                if h is None:
                    return False
                x = ref.a[a]
                dyn = r.randrange(2)
                self.emit(["init", dyn, H(h), H(x.e)])
                self.emit(["copy", H(h), H(a)])
                ok = self.emit(["isequal", H(a), H(h)])
                i = r.choice([0, x.n - 1, r.randrange(x.n)])
                el = bytearray(ref.rd(a, i * x.e, x.e))
                el[r.choice([0, x.e - 1, r.randrange(x.e)])] ^= r.choice([1, 0x80, 0xff])
                self.emit(["set", H(h), H(i), hb(bytes(el))])
                self.emit(["isequal", H(h), H(a)])
                self.emit(["destroy", H(h), "0"] if dyn else ["drop", H(h)])
                return ok
            b = self.pick(lambda h, x: x.e == ref.a[a].e) if r.random() < 0.8 else self.pick()
            return self.emit(["isequal", H(a), H(b)])
        if k == "bsearch":
            h = self.pick(small)
            if h is None:
                return False
            x = ref.a[h]
            l = ref.elems(h)
            if any(l[i] > l[i + 1] for i in range(len(l) - 1)):
                self.emit(["sort", H(h)])
                l = ref.elems(h)
            key = r.choice(l) if l and r.random() < 0.6 else self.rb(x.e)
            return self.emit(["bsearch", H(h), hb(key)])
        if k == "checksum":
            h = self.pick()
            return h is not None and self.emit(["checksum", H(h)])
        if k in ("isperm", "permute"):
            a = (self.pick(lambda h, x: 2 <= x.n <= 200) if r.random() < 0.8 else None) or self.pick(lambda h, x: x.n <= 200)
            h = self.free_handle()
            if a is None or h is None:
                return False
            n = ref.a[a].n
            perm = self.some_perm(n)
            if k == "isperm" and n and r.random() < 0.5:
                perm[r.randrange(n)] = r.choice([n, n + 5, perm[0], 1 << 40])
            ok = self.emit(["initc", r.randrange(4), H(h), "8", H(n), hb(b"".join(struct.pack("<Q", v) for v in perm))])
            ok and self.emit(["isperm", H(h)])
            if k == "permute":
                self.emit(["permute", H(a), H(h), "%x" % r.randrange(2)])
            self.emit([r.choice(["reset", "isperm"]), H(h)])
            x = ref.a[h]
            return self.emit(["destroy" if x.dyn else "drop", H(h)] + (["0"] if x.dyn else []))
        if k == "release":
            # empty an owner without freeing (truncate / pops / rewind to a small count), THEN release it by a reset-equivalent;
            # afterwards: abandon the struct and initialise it again, reuse it, or destroy it
            h = self.pick(lambda h, x: own(h, x) and not x.dyn) if r.random() < 0.7 else self.pick(own)
            if h is None or r.random() < 0.3:
                h = self.free_handle()
                if h is None:
                    return False
                e = pick_esize(r, self.maxbytes, 0.4)
                n = r.choice([1, 2, 3, 5])
                if r.random() < 0.6:
                    self.emit(["init", r.randrange(3) // 2, H(h), H(e)])
                    for _ in range(min(n, max(1, self.maxbytes // e))):
                        self.emit(["push", H(h), hb(self.rb(e))])
                else:
                    n = min(n, max(1, self.maxbytes // e))
                    self.emit(["initc", r.choice([0, 0, 3, 1, 2]), H(h), H(e), H(n), hb(self.rb(n * e))])
                if h not in ref.a:
                    return False
            self.empty_it(h)
            x = ref.a[h]
            if x.dyn and r.random() < 0.3:
                return self.emit(["destroy", H(h), "%x" % r.randrange(2)])
            how = self.release_it(h)
            if how is None:
                return False
            x = ref.a[h]
            k2 = r.random()
            if not x.dyn and k2 < 0.45:
                # the struct is a newly initialised array now: it may be forgotten and set up again (any creator, any element size)
                self.emit(["abandon", H(h)])
                e = pick_esize(r, self.maxbytes, 0.4)
                if r.random() < 0.6:
                    self.emit(["init", "0", H(h), H(e)])
                else:
                    n = r.choice([0, 1, 2])
                    self.emit(["initc", r.choice([0, 3]), H(h), H(e), H(n), hb(self.rb(n * e))])
                if r.random() < 0.5 and h in ref.a and len(ref.a[h].b) + ref.a[h].e <= self.maxbytes:
                    self.emit(["push", H(h), hb(self.rb(ref.a[h].e))])
            elif k2 < 0.7:
                if len(x.b) + x.e <= self.maxbytes:
                    self.emit(["push", H(h), hb(self.rb(x.e))])        # reuse after the release
                if r.random() < 0.5:
                    self.empty_it(h)
                    self.release_it(h)
            elif k2 < 0.8 and not x.dyn:
                self.emit(["abandon", H(h)])
            return True
        if k == "permcase":
            # permute (both keepperm values, twice on the same object) of a fresh array of any size class with >= 2 elements
            a = self.fresh_case_array(2, 7)
            if a is None:
                return False
            ok = False
            for _ in range(r.choice([1, 1, 2])):
                p = self.free_handle()
                if p is None:
                    break
                n = ref.a[a].n
                self.emit(["initc", r.randrange(4), H(p), "8", H(n), hb(b"".join(struct.pack("<Q", v) for v in self.some_perm(n)))])
                ok |= self.emit(["permute", H(a), H(p), "%x" % r.randrange(2)])
                self.kill(p)
            self.kill(a)
            return ok
        if k == "sortcase":
            # sort / is_sorted / bsearch / uniq on a fresh array of any size class (elements that differ late or early)
            a = self.fresh_case_array(2, 9)
            if a is None:
                return False
            x = ref.a[a]
            if r.random() < 0.5 and x.n >= 2:      # duplicates and elements that differ only in their last or first byte
                base = ref.rd(a, 0, x.e)
                for i in range(1, x.n):
                    el = bytearray(base)
                    if r.random() < 0.6:
                        el[r.choice([0, x.e - 1, r.randrange(x.e)])] = r.randrange(4)
                    self.emit(["set", H(a), H(i), hb(bytes(el))])
            self.emit(["issorted", H(a)])
            ok = self.emit(["sort", H(a)])
            self.emit(["issorted", H(a)])
            l = ref.elems(a)
            self.emit(["bsearch", H(a), hb(r.choice(l) if r.random() < 0.6 else self.rb(x.e))])
            if x.own:
                self.emit(["uniq", H(a)])
            self.kill(a)
            return ok
        if k == "split":
            h = self.free_handle()
            if h is None:
                return False
            T = r.choice([0, 1, 2, 3, 4, 7, 8, 16, 33])
            n = 0 if T == 0 else r.choice([0, 1, 2, 3, 5, 9, 17, 40, r.randrange(0, 60)])
            e = r.choice([1, 2, 3, 8, 8, r.choice(SIZE_CLASSES[:-4])])
            if n * e > max(self.maxbytes, 64):
                n = max(self.maxbytes, 64) // e
            present = [t for t in range(T) if r.random() < r.choice([0.3, 0.7, 1.0])] or list(range(T))
            ty = sorted(r.choice(present) for _ in range(n)) if T else []
            data = b"".join(bytes([t]) + self.rb(e - 1) for t in ty)
            if not self.emit(["initc", r.randrange(4), H(h), H(e), H(n), hb(data)]):
                return False
            o = self.free_handle()
            if o is None:
                return False
            if r.random() < 0.5:
                self.emit(["init", r.randrange(2), H(o), "8"])
            else:
                m = r.randrange(0, 40)
                self.emit(["initc", r.randrange(4), H(o), "8", H(m), hb(self.rb(8 * m))])
            ok = self.emit(["split", H(h), H(o), H(T)])
            for hh in (h, o):
                x = ref.a[hh]
                self.emit(["destroy" if x.dyn else "drop", H(hh)] + (["0"] if x.dyn else []))
            return ok
        return False

    def teardown(self):
        ref = self.ref
        H = lambda v: "%x" % v
        for h in sorted(h for h, x in ref.a.items() if not x.own):
            x = ref.a[h]
            self.emit(["destroy" if x.dyn else self.rng.choice(["drop", "reset"]), H(h)] + (["0"] if x.dyn else []))
        for h in sorted(ref.a):
            x = ref.a[h]
            # every array is released by a randomly chosen documented way: a dynamically created one ends with sc_array_destroy
            # (directly, or after being emptied and / or released), a struct set up in place by a reset-equivalent and is then forgotten
            k = self.rng.random()
            if x.dyn:
                if k < 0.3:
                    self.empty_it(h)
                elif k < 0.5:
                    self.empty_it(h)
                    self.release_it(h)
                self.emit(["destroy", H(h), "%x" % self.rng.randrange(2)])
            else:
                if k < 0.5:
                    self.empty_it(h)
                if self.release_it(h) is None or h not in ref.a or ref.a[h].stor is not False:
                    self.emit(["reset", H(h)])
                self.emit(["abandon", H(h)])

    def run(self):
        tries = 0
        while len(self.ops) < self.maxops and tries < self.maxops * 30:
            tries += 1
            self.step()
        self.teardown()
        return self.ops, self.exp


def gen_history(rng, quick):
    k = rng.random()
    if k < 0.6:
        maxbytes, maxops = 600, rng.choice([5, 10, 20, 40, 80])
    elif k < 0.9:
        maxbytes, maxops = 5000, rng.choice([20, 40, 80, 200])
    else:
        maxbytes, maxops = 70000, rng.choice([10, 25])
    if rng.random() < 0.08:
        maxops = rng.randrange(1, 6)
    return Gen(rng, maxbytes, maxops).run()


def scripted():
    """fixed histories aimed at the case splits of the proofs (grow/shrink boundaries, views, aliasing)"""
    out = []
    for e in (1, 3, 8, 24):
        g = Gen(__import__("random").Random(e), 1 << 20, 0)
        H = lambda v: "%x" % v
        g.emit(["init", 0, "0", H(e)])
        # cross every power of two upwards one push at a time, then downwards pop by pop with a push in between
        top = 2200 // e
        for i in range(top):
            g.emit(["push", "0", hb(bytes([(i * 7 + j) & 255 for j in range(e)]))])
        for i in range(top):
            g.emit(["pop", "0"])
            if i % 5 == 0:
                g.emit(["push", "0", hb(bytes([0xA0 + (i & 15)] * e))])
                g.emit(["pop", "0"])
        g.emit(["push", "0", hb(bytes([1] * e))])
        # shrink by resize across every boundary, and regrow
        g.emit(["resize", "0", H(top), hb(bytes([(j * 3) & 255 for j in range((top - 1) * e)]))])
        n = top
        while n > 0:
            n = n // 2
            g.emit(["resize", "0", H(n), "-"])
            g.emit(["push", "0", hb(bytes([0x55] * e))])
            g.emit(["pop", "0"])
        g.teardown()
        out.append((g.ops, g.exp))
    return out


def scripted_sizes():
    """one fixed history per element size class: permute (one long cycle, reversal, single exchange; keepperm 0 and 1; twice on the
    same object), sort, is_sorted, bsearch, uniq, copy, is_equal, split on arrays of 2, 3 and 5 elements whose elements differ in
    EVERY byte position (an element that is moved only in part shows)"""
    out = []
    H = lambda v: "%x" % v
    P = lambda perm: hb(b"".join(struct.pack("<Q", v) for v in perm))
    for e in SIZE_CLASSES:
        g = Gen(__import__("random").Random(1000 + e), 1 << 20, 0)

        def must(t, g=g):
            if not g.emit(t):
                raise RuntimeError("scripted history: illegal step %r" % (t[:3],))
        for n in ((2, 3, 5) if e <= 1100 else (2, 3)):
            data = b"".join(bytes([(i * 37 + j * 11 + (j >> 7) * 5 + 1) & 255 for j in range(e)]) for i in range(n))
            must(["initc", n % 4, "0", H(e), H(n), hb(data)])
            perms = [[(i + 1) % n for i in range(n)], list(reversed(range(n))), [1, 0] + list(range(2, n))]
            for pi, perm in enumerate(perms):
                for keep in (0, 1):
                    must(["initc", (pi + keep) % 4, "1", "8", H(n), P(perm)])
                    must(["permute", "0", "1", H(keep)])
                    if keep and pi == 0:
                        must(["permute", "0", "1", "0"])      # the kept permutation is used again
                    g.kill(1)
            must(["issorted", "0"])
            must(["sort", "0"])
            must(["issorted", "0"])
            l = g.ref.elems(0)
            must(["bsearch", "0", hb(l[-1])])
            must(["bsearch", "0", hb(l[0][:-1] + bytes([l[0][-1] ^ 0x40]))])
            must(["init", 1, "2", H(e)])
            must(["copy", "2", "0"])
            must(["isequal", "0", "2"])
            must(["set", "2", H(n - 1), hb(l[-1][:-1] + bytes([l[-1][-1] ^ 1]))])     # differs in the very last byte
            must(["isequal", "0", "2"])
            must(["set", "0", "1", hb(l[0])])                 # a duplicate: uniq removes one element
            must(["uniq", "0"])
            must(["copyinto", "2", "0", "0"])
            g.kill(2)
            # split: types in the first byte, type-sorted
            must(["set", "0", "0", hb(bytes([0]) + l[0][1:])])
            for i in range(1, g.ref.a[0].n):
                must(["set", "0", H(i), hb(bytes([2]) + l[i][1:])])
            must(["init", 0, "3", "8"])
            must(["split", "0", "3", "4"])
            g.kill(3)
            g.kill(0)
        # release: empty an owner WITHOUT freeing, then each documented reset-equivalent; the struct is forgotten and set up again
        el = lambda i: hb(bytes([(i * 29 + j * 7 + 3) & 255 for j in range(e)]))
        for how in ("resize0", "rewind0", "reset", "copyempty"):
            for empt in ("trunc", "pop", "rewind1", "none"):
                must(["init", 0, "4", H(e)])
                must(["push", "4", el(0)])
                must(["push", "4", el(1)])
                if empt == "trunc":
                    must(["trunc", "4"])
                elif empt == "pop":
                    must(["pop", "4"])
                    must(["pop", "4"])
                elif empt == "rewind1":
                    must(["rewind", "4", "1"])
                    must(["pop", "4"])
                if how == "copyempty":
                    must(["init", 0, "5", H(e)])
                    must(["copy", "4", "5"])
                    must(["abandon", "5"])
                else:
                    must({"resize0": ["resize", "4", "0", "-"], "rewind0": ["rewind", "4", "0"], "reset": ["reset", "4"]}[how])
                must(["abandon", "4"])
        # the same on a dynamically created array, reused after the release; resize to the unchanged count in between
        must(["init", 1, "4", H(e)])
        for how in ("resize0", "rewind0", "reset", "copyempty"):
            must(["pushc", "4", "2", hb(bytes.fromhex(el(2)) + bytes.fromhex(el(3)))])
            must(["resize", "4", "2", "-"])
            must(["trunc", "4"])
            must(["pushc", "4", "0", "-"])
            if how == "copyempty":
                must(["initc", 0, "5", H(e), "0", "-"])
                must(["copy", "4", "5"])
                must(["reset", "5"])
                must(["abandon", "5"])
            else:
                must({"resize0": ["resize", "4", "0", "-"], "rewind0": ["rewind", "4", "0"], "reset": ["reset", "4"]}[how])
        must(["destroy", "4", "1"])
        g.teardown()
        out.append((g.ops, g.exp))
    return out


def scripted_regress():
    """short histories of repaired findings, run first in both builds.  F-C08g: an owner grows inside its allocation after pop /
    rewind (n > 0) left dropped elements in the spare bytes (the Debug build used to abort there)"""
    out = []
    for e in (1, 4, 128):
        el = lambda i: hb(bytes([(i * 31 + j * 5 + 1) & 255 for j in range(e)]))
        for ops in ([["init", 0, "0", "%x" % e], ["push", "0", el(0)], ["push", "0", el(1)], ["pop", "0"], ["resize", "0", "2", el(2)]],
                    [["init", 1, "0", "%x" % e], ["resize", "0", "4", hb(b"".join(bytes.fromhex(el(i)) for i in range(4)))], ["rewind", "0", "2"],
                     ["resize", "0", "3", el(5)], ["pop", "0"], ["pop", "0"], ["init", 0, "1", "%x" % e], ["push", "1", el(6)], ["push", "1", el(7)],
                     ["copy", "0", "1"]]):
            g = Gen(__import__("random").Random(3000 + e), 1 << 20, 0)
            for t in ops:
                if not g.emit(t):
                    raise RuntimeError("scripted regression history: illegal step %r" % (t[:3],))
            g.teardown()
            out.append((g.ops, g.exp))
    return out


def scripted_views():
    """one fixed history per element size class: every kind of view (init_view, new_view, init_data / new_data at a byte offset and with
    another element size, init_reshape, a view of a view) on a parent whose elements differ in every byte is SHORTENED (rewind to a
    smaller count, rewind 0, resize down) and grown again inside its capacity; after every call the PARENT's bytes (the user's
    buffer of the data views) and the view's designated section are compared: shortening a view changes nothing but its count"""
    out = []
    H = lambda v: "%x" % v
    for e in SIZE_CLASSES:
        g = Gen(__import__("random").Random(2000 + e), 1 << 20, 0)

        def must(t, g=g):
            if not g.emit(t):
                raise RuntimeError("scripted view history: illegal step %r" % (t[:4],))
        n = 6 if e <= 1100 else 4
        data = b"".join(bytes([(i * 41 + j * 13 + (j >> 7) * 3 + 2) & 255 for j in range(e)]) for i in range(n))
        must(["initc", e % 4, "0", H(e), H(n), hb(data)])
        l = n - 2
        # 1. sc_array_init_view on [1, n-1)
        must(["view", 0, "1", "0", "1", H(l)])
        must(["rewind", "1", H(l - 2)])
        must(["regrow", "1", H(l)])
        must(["rewind", "1", "0"])
        must(["index", "0", H(n - 2), "0"])
        must(["regrow", "1", H(l)])
        must(["resize", "1", "1", "-"])
        must(["regrow", "1", H(l)])
        must(["set", "1", H(l - 1), hb(bytes([0xEE]) * e)])
        must(["abandon", "1"])
        # 2. sc_array_new_view on the whole array
        must(["view", 1, "1", "0", "0", H(n)])
        must(["rewind", "1", H(n // 2)])
        must(["rewind", "1", "0"])
        must(["regrow", "1", H(n)])
        must(["destroy", "1", "0"])
        # 3. sc_array_init_data in the middle of the buffer (byte offset not a multiple of the element size)
        bo = e // 2 + 1 if e > 1 else 1
        must(["data", 0, "1", "0", H(bo), H(e), H(n - 2)])
        must(["rewind", "1", "1"])
        must(["regrow", "1", H(n - 2)])
        must(["rewind", "1", "0"])
        must(["reset", "1"])
        must(["abandon", "1"])
        # 4. sc_array_new_data with elements twice as large
        must(["data", 1, "1", "0", "0", H(2 * e), H(n // 2)])
        must(["rewind", "1", "1"])
        must(["regrow", "1", H(n // 2)])
        must(["destroy", "1", "1"])
        # 5. sc_array_init_reshape
        must(["reshape", "1", "0", H(2 * e), H(n // 2)])
        must(["rewind", "1", "1"])
        must(["rewind", "1", "0"])
        must(["regrow", "1", H(n // 2)])
        must(["abandon", "1"])
        # 6. a view of a view
        must(["view", 0, "1", "0", "1", H(l)])
        must(["view", 1, "2", "1", "1", H(l - 1)])
        must(["rewind", "2", "1"])
        must(["rewind", "1", "1"])
        must(["regrow", "2", H(l - 1)])
        must(["regrow", "1", H(l)])
        must(["rewind", "2", "0"])
        must(["destroy", "2", "0"])
        must(["rewind", "1", "0"])
        must(["abandon", "1"])
        must(["checksum", "0"])
        g.teardown()
        out.append((g.ops, g.exp))
    return out


# ----------------------------------------------------------------------------------------------------
def case_text(hists):
    lines = []
    for ops, _ in hists:
        lines.append("H")
        lines += [" ".join(t) for t in ops]
        lines.append("E")
    return "\n".join(lines) + "\n"


def split_outputs(lines, hists):
    """cut the output stream back into per-history line lists (None if the stream ended early)"""
    res = []
    i = 0
    for ops, _ in hists:
        n = len(ops) + 2
        chunk = lines[i:i + n]
        res.append(chunk if len(chunk) == n else chunk + [None] * (n - len(chunk)))
        i += n
    return res


def run(ctx):
    import genall
    st = genall.run(["Macros", "Array", "ArrayPermC08", "ArrayDebugC08"])
    for g, s in st.items():
        ctx.log("c2g", g, s)
        if s.startswith("FAILED"):
            ctx.tie_broken("translator group " + g, s)
    ctx.props()
    # glibc declares qsort/bsearch/memset/memcmp arguments nonnull; libsc passes array->array == NULL together with a
    # count of 0 for empty arrays (sc_array_sort, _bsearch, _memset, _is_equal).  That is outside what C08 states (count and
    # bytes of the elements), so the nonnull-attribute check is off; everything else of ASan/UBSan stays fatal.
    v = ctx.variant(mpi="off", san=True, cflags_extra=("-fno-sanitize=nonnull-attribute",))
    exe = ctx.cc([os.path.join(vlib.TOOLS, "harness", "c08_harness.c")], os.path.join(ctx.scratch, "c08_harness"), v)
    # the same harness against libsc built with SC_ENABLE_DEBUG (assertions + the Debug build's own fills of spare storage)
    vd = ctx.variant(mpi="off", san=True, debug=True, cflags_extra=("-fno-sanitize=nonnull-attribute",))
    exed = ctx.cc([os.path.join(vlib.TOOLS, "harness", "c08_harness.c")], os.path.join(ctx.scratch, "c08_harness_dbg"), vd)
    nh = 600 if ctx.quick else 8000
    nhd = nh // 5
    hists, dhists = [], []
    if ctx.replay:
        rp = json.load(open(ctx.replay)).get("replay", {})
        if "ops" in rp:
            dbg = rp.get("variant") == "debug"
            g = Gen(ctx.rng, 1 << 30, 0)
            for t in rp["ops"]:
                g.emit(t.split())
            (dhists if dbg else hists).append((g.ops, g.exp))
    hists += scripted_regress() + scripted()
    nscripted = len(hists)
    hists += scripted_sizes() + scripted_views()
    nfixed = len(hists)
    for _ in range(nh):
        hists.append(gen_history(ctx.rng, ctx.quick))
    # Debug build: all scripted histories (views, size classes / release, the push / pop / resize ladders) and a fifth as many random
    # histories again, drawn like the others (owners grow by resize / copy / split after pop, rewind (n > 0) and truncate as well: F-C08g)
    # (generated AFTER the others, so that these are the same with and without the debug run)
    dhists += scripted_regress() + scripted_views() + scripted_sizes() + scripted()
    for _ in range(nhd):
        dhists.append(gen_history(ctx.rng, ctx.quick))
    env = dict(os.environ, ASAN_OPTIONS="detect_leaks=0:abort_on_error=0", UBSAN_OPTIONS="print_stacktrace=1")

    dist, nviol, ndis, nops, nrel = {}, 0, 0, 0, 0
    cands = []          # failing histories of both runs; the three shortest are reported
    sizes = []
    for variant, hs, ex in (("release", hists, exe), ("debug", dhists, exed)):
        text = case_text(hs)
        ctx.log("%s build: %d histories, %d bytes of input" % (variant, len(hs), len(text)))
        # a call that does not return (endless loop) ends the output early: reported with the history that hangs
        rc, impl, err = ctx.run_lines([ex], text, timeout=(150 if ctx.quick else 1500), env=env)
        if rc == 124:
            err += "\n[the harness did not finish within the time limit: the call after the last complete output line does not return]"
        impl = [l for l in impl if l != ""]
        # the released-state suffix is judged by the reference alone; the part in front of it is what model and reference predict
        extra = [l.split(" | ", 1)[1] if " | " in l else None for l in impl]
        impl = [l.split(" | ", 1)[0] for l in impl]
        ctx.log("%s build: harness run done (exit %s)" % (variant, rc))
        model = None
        if variant == "release":        # the extracted machine is compared with the release build; the Debug build is judged by the reference
            try:
                mexe = ctx.model("c08")
                rc2, model, err2 = ctx.run_lines([mexe], text, timeout=1500)
                if rc2 != 0:
                    ctx.tie_broken("c08 model run", "exit %s: %s" % (rc2, err2[-1500:]))
                model = [l for l in model if l != ""]
            except vlib.BuildError as e:
                ctx.tie_broken("c08 model build (model no longer compiles against the generated definitions)", str(e)[-1500:])
                model = None
            ctx.log("model run done")
        io = split_outputs(impl, hs)
        xo = split_outputs(extra, hs)
        mo = split_outputs(model, hs) if model is not None else None
        ended = False
        nv0 = nviol
        tag = "" if variant == "release" else "[libsc built with SC_ENABLE_DEBUG] "
        for hi, (ops, exp) in enumerate(hs):
            if ended:          # the harness died in an earlier history: nothing was executed from here on
                break
            ctx.count_case((variant,) + tuple(tuple(t) for t in ops), nontrivial=len(ops) > 2)
            nops += len(ops)
            sizes.append(len(ops))
            for t in ops:
                dist[t[0]] = dist.get(t[0], 0) + 1
            want = ["H"] + exp + ["status 0"]
            got = io[hi]
            for li in range(len(want)):
                rel = None
                if got[li] == want[li] and 0 < li <= len(ops) and exp.st is not None:
                    nrel += 1
                    rel = judge_released(xo[hi][li] or "", exp.st[li - 1])
                if rel is not None:
                    nviol += 1

                    def report(ops=ops, li=li, rel=rel, x=xo[hi][li], tag=tag, variant=variant):
                        upto = ops[:li]
                        key = "hist-%s" % vlib.hashlib.md5(repr(upto).encode()).hexdigest()[:12]
                        tail = " ; ".join(" ".join(t)[:28] for t in upto[-4:])
                        ctx.violation(key, "%shistory of %d ops ending [%s]: counts and bytes right, released state wrong: %s "
                                      "[libsc: status h:owner/view:NULL/Ptr:Zero/Alloc = %s]" % (tag, len(upto), tail, rel, x),
                                      dict(ops=[" ".join(t) for t in upto], line=li, impl=x, expected=rel, stderr="", variant=variant))
                    cands.append((li, len(cands), report))
                    ended = any(x is None for x in got)
                    break
                if got[li] != want[li]:
                    nviol += 1

                    def report(ops=ops, li=li, g=got[li], w=want[li], err=err, tag=tag, variant=variant):
                        upto = ops[:li] if li <= len(ops) else ops
                        what = "end of output (crash, failed assertion or call that does not return)" if g is None else g[:200]
                        detail = err[-1200:] if g is None else ""
                        key = "hist-%s" % vlib.hashlib.md5(repr(upto).encode()).hexdigest()[:12]
                        tail = " ; ".join(" ".join(t)[:28] for t in upto[-4:])
                        ctx.violation(key, "%shistory of %d ops ending [%s]: after op #%d libsc shows [%s], the reference sequence gives [%s] %s" % (
                            tag, len(upto), tail, li, diff_excerpt(what, w) if g is not None else what, diff_excerpt(w, what) if g is not None else w[:160], detail),
                            dict(ops=[" ".join(t) for t in upto], line=li, impl=g, expected=w, stderr=detail, variant=variant))
                    cands.append((li, len(cands), report))
                    # the harness died later in this same history: after a first difference the following calls need not be legal any more
                    ended = any(x is None for x in got)
                    break
            if mo is not None and not ended:
                m = mo[hi]
                for li in range(len(want)):
                    if got[li] != m[li]:
                        ndis += 1
                        if ndis <= 3:
                            ctx.tie_broken("model/implementation disagreement", "history #%d op #%d (%s): C [%s] model [%s]; ops: %s" % (
                                hi, li, " ".join(ops[li - 1])[:80] if 0 < li <= len(ops) else "E", str(got[li])[:160], str(m[li])[:160],
                                " | ".join(" ".join(t)[:60] for t in ops[:li][-12:])))
                        break
        if rc != 0 and nviol == nv0:
            ctx.tie_broken("c08 harness run (%s build)" % variant, "exit %s: %s" % (rc, err[-1500:]))
    for _, _, report in sorted(cands, key=lambda c: c[:2])[:3]:
        report()
    ctx.cov["disagreements_checked"] = nops
    ctx.cov["rule"] = ("a case is one history (create ... teardown) of array operations; every line (result of the call + count and bytes of "
                       "ALL live arrays) is compared between libsc, the extracted model and the reference sequence, and the released state of all live arrays "
                       "+ sc_memory_status after every call is judged by the reference alone; non-trivial = more than 2 "
                       "operations; distinct = distinct operation lists")
    ctx.cov["exhaustive"] = False
    ctx.notes["op_distribution"] = dist
    ctx.notes["operations_total"] = nops
    ctx.notes["history_lengths"] = dict(min=min(sizes), max=max(sizes), mean=round(sum(sizes) / len(sizes), 1))
    ctx.notes["input_distribution"] = ("4 scripted histories (push one by one over every power of two up to 2200 bytes and pop back, halving resizes; "
                                       "element sizes 1,3,8,24) + %d scripted histories, one per element size class (%s): arrays of 2, 3, 5 elements that "
                                       "differ in every byte position, permuted by one long cycle / reversal / one exchange with keepperm 0 and 1 (the kept "
                                       "permutation used twice), then is_sorted, sort, bsearch (hit / miss in the last byte), copy, is_equal (equal / last byte "
                                       "differs), uniq with a duplicate, copy_into, split; then for each reset-equivalent (resize 0, rewind 0, reset, copy from an empty array) "
                                       "x each way of emptying without freeing (truncate, pops, rewind 1 + pop, none): init, 2 pushes, empty, release, abandon the "
                                       "struct, init again; the same on a created array reused after each release (resize to the unchanged count, push_count 0 in between) "
                                       "+ seeded random legal histories: 60%% up to 600 bytes, 30%% up to 5000, "
                                       "10%% up to 70000 bytes per array; element sizes 1..24 (70%%) or one of %s (30%%, where two elements fit); permcase / "
                                       "sortcase steps on a fresh array of any size class with >= 2 elements and a non-identity permutation; release steps (empty an owner by "
                                       "truncate / pops / rewind to a small count / count-preserving calls, THEN resize 0 | rewind 0 | reset | copy from an empty owner, "
                                       "released array or empty view | destroy; afterwards abandon + init / init_count on the same struct, or reuse, or release again); "
                                       "at the end of every history each array is released by a randomly chosen documented way and static structs are abandoned; "
                                       "after EVERY call the harness also prints owner/view, array == NULL, byte_alloc == 0 of all live arrays and sc_memory_status, "
                                       "judged by the reference (storage iff grown since the last reset-equivalent; live blocks = created structs + arrays with storage); "
                                       "55%% of the resize/push_count targets sit at 2^k/esz + {-1,0,1,2}; runs of "
                                       "pops, rewind/truncate then push; views, views of views, reshape, init_data at byte offsets; overlapping "
                                       "move_part; byte alphabets 2,3,4,16,256 (duplicates for uniq/bsearch/is_equal); teardown at the end of every history"
                                       % (len(SIZE_CLASSES), ",".join(str(e) for e in SIZE_CLASSES), ",".join(str(e) for e in BIGSIZES)))
    ctx.notes["model_disagreements"] = ndis
    ctx.notes["debug_build"] = ("%d histories are run a second way, on libsc built with SC_ENABLE_DEBUG (assertions + the Debug build's fills of spare "
                                "storage), judged by the same reference (bytes below elem_count of owners, designated section of views, parents; released state): "
                                "%d scripted view histories (one per size class: init_view, new_view, init_data / new_data at a byte offset / other element size, "
                                "init_reshape, view of a view; rewind to a smaller count and to 0, resize down, regrow inside the capacity, parent inspected "
                                "after every call), the %d scripted size-class / release histories, the 4 push / pop / resize ladders (growth inside the allocation "
                                "after pops), %d random histories drawn like those of the release run"
                                % (len(dhists), len(SIZE_CLASSES), len(SIZE_CLASSES), nhd))
    ctx.notes["released_state_judgements"] = nrel
    for ops, _ in hists[nfixed:nfixed + 5]:
        ctx.sample({"history": " ; ".join(" ".join(t)[:40] for t in ops[:6])})
    ctx.cov["trusted_base"] = ["tools/c2g translator (+ slicelib conventions for Gen/ArrayDebugC08.v [SC_ASSERT dropped = executions that do not abort, calls as ghost outputs] and Gen/ArrayPermC08.v: memcpy calls as ghost outputs in source order, newind[x] as a location) and clang-14's JSON AST for Gen/Array.v (exercised by the correspondence run: the model computes every decision with the generated functions)",
                               "libc qsort/bsearch and zlib adler32 are Section variables with their contracts as hypotheses; the run uses memcmp as comparison",
                               "memory effects of sc_malloc/sc_realloc/sc_free as modelled in ArrayModel.v (fresh block, min(old,new) bytes copied, junk tail)"]
    ctx.assumptions += ["histories satisfy the documented preconditions (legal_step): no resize of an owner with live views, no memcpy overlap, indices in range, byte sizes <= 2^62",
                        "size_t multiplications do not overflow (guaranteed by the 2^62 bound)"]
    return "proof"
