"""C16 - the serial MPI emulation (sc_mpi.c without SC_ENABLE_MPI) behaves like MPI on one rank.
T1: sc_mpi_sizeof (serial and MPI configuration) and the whole bodies of the 32 modelled stubs regenerated from /repo (Gen/MpiC16.v);
    sizes proved to be the ABI sizes, bodies proved equal to the model (coq/C16/MpiGen.v, theorems C16_gen_*).
T2: model coq/C16/MpiModel.v of every stub, theorems against the one-rank specification MpiSpec1.v.
Tie / search: ONE driver program (tools/harness/c16_driver.c, written against sc_MPI_*) is compiled against the
serial libsc build and against a libsc built with OpenMPI; both and the extracted model process the same case file
(one process each; OpenMPI under `mpirun -np 1`); every output argument is pre-filled with a sentinel.
  serial vs model          -> line equality (tie)
  serial vs oracle         -> the property (Python restatement of MPI's one-rank semantics over size/extent)
  OpenMPI vs oracle        -> validation of the specification itself (only what MPI guarantees is compared)
Case lines:
  gather|allgather|alltoall T count srchex rlen          gatherv|allgatherv T count displ srchex rlen
  reduce|allreduce|reduce_scatter_block|scan|exscan OP T count srchex rlen      bcast T count bufhex     barrier
  pack T incount outsize position inhex     unpack T outcount position inhex olen     packsize T n   typesize T   sizeof T
  comm color key    group    wait|waitall|testall|waitsome n withstatus    wtime    errclass NAME idx    errstring NAME
  packbig|unpackbig T count limit position (unfilled buffer of `limit` <= INT_MAX bytes: code and position only)
  errtext NAME idx (text and length stored)    errclassx|errtextx CODE (a number that is none of the 21 codes; serial build only)"""
import os, sys, json
import vlib
sys.path.insert(0, os.path.join(vlib.TOOLS, "c2g"))

SENT = "ee"
# name -> (size, extent): MPI_Type_size / MPI_Type_get_extent on LP64
TYPES = {"BYTE": (1, 1), "CHAR": (1, 1), "UNSIGNED_CHAR": (1, 1), "SHORT": (2, 2), "UNSIGNED_SHORT": (2, 2), "INT": (4, 4),
         "UNSIGNED": (4, 4), "LONG": (8, 8), "UNSIGNED_LONG": (8, 8), "LONG_LONG_INT": (8, 8), "FLOAT": (4, 4), "DOUBLE": (8, 8),
         "LONG_DOUBLE": (16, 16), "2INT": (8, 8), "DOUBLE_INT": (12, 16)}
INTS = ["UNSIGNED_CHAR", "SHORT", "UNSIGNED_SHORT", "INT", "UNSIGNED", "LONG", "UNSIGNED_LONG", "LONG_LONG_INT"]
FLOATS = ["FLOAT", "DOUBLE", "LONG_DOUBLE"]
OPS = {}
for t in INTS:
    OPS[t] = ["MAX", "MIN", "SUM", "PROD", "LAND", "BAND", "LOR", "BOR", "LXOR", "BXOR"]
for t in FLOATS:
    OPS[t] = ["MAX", "MIN", "SUM", "PROD"]
OPS["BYTE"] = ["BAND", "BOR", "BXOR"]
OPS["2INT"] = ["MINLOC", "MAXLOC"]
OPS["DOUBLE_INT"] = ["MINLOC", "MAXLOC"]
ERRNAMES = ["SUCCESS", "ERR_ARG", "ERR_UNKNOWN", "ERR_OTHER", "ERR_NO_MEM", "ERR_FILE", "ERR_NOT_SAME", "ERR_AMODE",
            "ERR_UNSUPPORTED_DATAREP", "ERR_UNSUPPORTED_OPERATION", "ERR_NO_SUCH_FILE", "ERR_FILE_EXISTS", "ERR_BAD_FILE",
            "ERR_ACCESS", "ERR_NO_SPACE", "ERR_QUOTA", "ERR_READ_ONLY", "ERR_FILE_IN_USE", "ERR_DUP_DATAREP", "ERR_CONVERSION", "ERR_IO"]


def hexbytes(s):
    return [] if s in ("-", ".") else [s[i:i + 2] for i in range(0, len(s), 2)]


def layout(T, count, displ, src, rlen):
    """expected receive buffer (list of 2-char strings; '??' = padding inside an addressed element, not specified)"""
    size, ext = TYPES[T]
    out = [SENT] * rlen
    for i in range(count):
        for o in range(ext):
            p = (displ + i) * ext + o
            if p < rlen:
                out[p] = src[i * ext + o] if o < size else "??"
    return out


def expected(line, impl):
    """returns (fields, known): fields = list of expected tokens, each a string, None (not judged), a list of byte
    strings with '??' wildcards, or a predicate; known = True if the case is in the domain of the recorded finding.
    impl: 'serial' or 'mpi' (what MPI does not guarantee is not judged for 'mpi')"""
    t = line.split()
    c = t[0]
    known = False
    if c in ("gather", "allgather", "alltoall"):
        T, n, src, rlen = t[1], int(t[2]), hexbytes(t[3]), int(t[4])
        known = T == "DOUBLE_INT" and n >= 2
        return ["0", layout(T, n, 0, src, rlen)], known
    if c in ("gatherv", "allgatherv"):
        T, n, d, src, rlen = t[1], int(t[2]), int(t[3]), hexbytes(t[4]), int(t[5])
        known = T == "DOUBLE_INT" and (n >= 2 or (d >= 1 and n >= 1))
        return ["0", layout(T, n, d, src, rlen)], known
    if c in ("gathervx", "allgathervx", "gatherx", "allgatherx", "alltoallx"):
        # different send and receive types of equal total length (types without padding): the bytes land at
        # displ * extent (RECEIVE type).  MPI guarantees this only for equal type signatures (k x 2INT = 2k x INT).
        TS, ns, TR, nr = t[1], int(t[2]), t[3], int(t[4])
        if c.endswith("vx"):
            d, src, rlen = int(t[5]), hexbytes(t[6]), int(t[7])
        else:
            d, src, rlen = 0, hexbytes(t[5]), int(t[6])
        if impl == "mpi" and {TS, TR} != {"INT", "2INT"} and TS != TR:
            return [None, None], False
        out = [SENT] * rlen
        for j in range(ns * TYPES[TS][0]):
            if d * TYPES[TR][1] + j < rlen:
                out[d * TYPES[TR][1] + j] = src[j]
        return ["0", out], False
    if c in ("reduce", "allreduce", "reduce_scatter_block", "scan"):
        T, n, src, rlen = t[2], int(t[3]), hexbytes(t[4]), int(t[5])
        known = T == "DOUBLE_INT" and n >= 2
        return ["0", layout(T, n, 0, src, rlen)], known
    if c == "exscan":
        # MPI leaves the receive buffer of rank 0 undefined: not judged on either side (the model tie still
        # pins what the code does: it leaves the buffer alone)
        return ["0", None], False
    if c == "bcast":
        return ["0", hexbytes(t[3])], False
    if c == "barrier":
        return ["0"], False
    if c == "pack":
        T, n, outsize, pos, src = t[1], int(t[2]), int(t[3]), int(t[4]), hexbytes(t[5])
        size, ext = TYPES[T]
        known = T == "DOUBLE_INT" and n >= 2
        if pos + n * size > outsize:
            return ["E", str(pos), [SENT] * outsize], False
        out = [SENT] * outsize
        for i in range(n):
            for o in range(size):
                out[pos + i * size + o] = src[i * ext + o]
        return ["0", str(pos + n * size), out], known
    if c == "unpack":
        T, n, pos, src, olen = t[1], int(t[2]), int(t[3]), hexbytes(t[4]), int(t[5])
        size, ext = TYPES[T]
        known = T == "DOUBLE_INT" and n >= 2
        if pos + n * size > len(src):
            if impl == "mpi" and len(src) == 0:
                # OpenMPI returns at once for an empty input buffer; an overrun is erroneous in MPI, nothing is guaranteed
                return [None, str(pos), [SENT] * olen], False
            return ["E", str(pos), [SENT] * olen], False
        out = [SENT] * olen
        for i in range(n):
            for o in range(ext):
                if i * ext + o < olen:
                    out[i * ext + o] = src[pos + i * size + o] if o < size else "??"
        return ["0", str(pos + n * size), out], known
    if c in ("packbig", "unpackbig"):
        # positions near INT_MAX in a buffer of `limit` bytes: code and position only
        T, n, limit, pos = t[1], int(t[2]), int(t[3]), int(t[4])
        need = pos + n * TYPES[T][0]
        if need > limit:            # includes count * size >= 2^31 (F-C16d, repaired): refused, position unchanged
            return ["E", str(pos)], known
        return ["0", str(need)], known
    if c == "packsize":
        T, n = t[1], int(t[2])
        want = n * TYPES[T][0]
        if want >= 2 ** 31:
            # not representable in an int: MPI's own MPI_Pack_size returns a wrapped number with MPI_SUCCESS (not judged);
            # the emulation must never do that: it refuses (the value left in *size is not judged)
            return ([None, None] if impl == "mpi" else ["E", None]), False
        if impl == "mpi":       # MPI_Pack_size is an upper bound
            return ["0", lambda g: g.isdigit() and int(g) >= want], False
        return ["0", str(want)], False
    if c == "typesize":
        return ["0", str(TYPES[t[1]][0])], False
    if c == "sizeof":
        return [str(TYPES[t[1]][0])], False
    if c == "comm":
        return ["valid", "0", "1", "0", "1", "0", "1", "0", "freed"], False
    if c == "group":
        return ["0", "1", "0", "freed"], False
    if c in ("wait", "waitall"):
        return ["0", None], False
    if c == "testall":
        return ["0", "1", None], False
    if c == "waitsome":
        # judged: the output count is stored.  MPI stores MPI_UNDEFINED, the emulation 0 (documented deviation)
        return ["0", lambda g: g != "UNSET", None], False
    if c == "wtime":
        return ["monotone"], False
    if c == "errclass":
        return ["0", "same"], False
    if c == "errstring":
        return ["0", "text"], False
    if c == "errtext":
        # success, a non-empty text without NUL, *resultlen = its length (below sc_MPI_MAX_ERROR_STRING); the wording is the library's own
        def ok_text(g):
            if len(g) != 3:
                return ["expected 3 fields"]
            bad = []
            if g[0] != "0":
                bad.append("return code is not sc_MPI_SUCCESS")
            txt = hexbytes(g[2])
            if not txt or "00" in txt:
                bad.append("no text stored")
            if not g[1].isdigit() or int(g[1]) != len(txt):
                bad.append("*resultlen is %s, the stored text has %d characters" % (g[1], len(txt)))
            return bad
        return ok_text, False
    if c in ("errclassx", "errtextx"):
        # a number that is none of the codes of sc_mpi.h: "other MPI error code" is returned (serial build only)
        if impl == "mpi":
            return [None], False
        return (["E", None] if c == "errclassx" else ["E", None, None]), False
    if c == "init":
        return ["init", "0", "set"], False
    if c == "finalize":
        return ["finalize", "0"], False
    return None, False


def judge(line, out, impl):
    """list of problems of one output line"""
    exp, known = expected(line, impl)
    if exp is None:
        return ["unknown case"], known
    if out is None:
        return ["no output"], known
    g = out.split()
    bad = []
    if "GUARD" in g:
        bad.append("bytes behind the buffer were written")
        g = [x for x in g if x != "GUARD"]
    if "REQCHANGED" in g:
        bad.append("a null request was modified")
        g = [x for x in g if x != "REQCHANGED"]
    if callable(exp):
        return bad + exp(g), known
    if len(g) != len(exp):
        return bad + ["expected %d fields, got `%s`" % (len(exp), out[:200])], known
    for j, (e, x) in enumerate(zip(exp, g)):
        if e is None:
            continue
        if callable(e):
            if not e(x):
                bad.append("field %d: `%s` not acceptable" % (j, x))
        elif isinstance(e, list):
            gb = hexbytes(x)
            if len(gb) != len(e):
                bad.append("field %d: %d bytes expected, got %d" % (j, len(e), len(gb)))
            else:
                diff = [k for k, (a, b) in enumerate(zip(e, gb)) if a != "??" and a != b]
                if diff:
                    k = diff[0]
                    bad.append("field %d: byte %d is %s, MPI on one rank gives %s (%d bytes differ)" % (j, k, gb[k], e[k], len(diff)))
        elif e != x:
            bad.append("field %d: expected %s, got %s" % (j, e, x))
    return bad, known


def rnd_hex(rng, n):
    return "".join("%02x" % rng.randrange(256) for _ in range(n)) if n else "-"


def gen_cases(ctx):
    rng = ctx.rng
    cases = []
    counts = [0, 1, 2, 3, 5, 8]
    rep = 3 if ctx.quick else 30
    for _ in range(rep):
        for T, (size, ext) in TYPES.items():
            for n in counts:
                for c in ("gather", "allgather", "alltoall"):
                    cases.append("%s %s %d %s %d" % (c, T, n, rnd_hex(rng, n * ext), n * ext + rng.choice([0, 1, ext, 2 * ext])))
                for d in (0, 1, 2, 5):
                    c = rng.choice(["gatherv", "allgatherv"])
                    cases.append("%s %s %d %d %s %d" % (c, T, n, d, rnd_hex(rng, n * ext), (d + n) * ext + rng.choice([0, 1, ext])))
                # send and receive types of different size, same total length (no padded type)
                if T != "DOUBLE_INT" and n > 0:
                    for TR, (rs, rext) in TYPES.items():
                        if TR != "DOUBLE_INT" and rs != size and (n * size) % rs == 0 and rng.random() < (0.6 if {T, TR} == {"INT", "2INT"} else 0.12):
                            nr = n * size // rs
                            d = rng.choice([0, 1, 2, 3])
                            c = rng.choice(["gathervx", "allgathervx"])
                            cases.append("%s %s %d %s %d %d %s %d" % (c, T, n, TR, nr, d, rnd_hex(rng, n * size), (d + nr) * rs + rng.choice([0, 1, rs])))
                            c = rng.choice(["gatherx", "allgatherx", "alltoallx"])
                            cases.append("%s %s %d %s %d %s %d" % (c, T, n, TR, nr, rnd_hex(rng, n * size), nr * rs + rng.choice([0, 1, rs])))
                if T in OPS:
                    for c in ("reduce", "allreduce", "reduce_scatter_block", "scan", "exscan"):
                        for o in rng.sample(OPS[T], min(2, len(OPS[T]))):
                            cases.append("%s %s %s %d %s %d" % (c, o, T, n, rnd_hex(rng, n * ext), n * ext + rng.choice([0, 3, ext])))
                cases.append("bcast %s %d %s" % (T, n, rnd_hex(rng, n * ext)))
            for n in (0, 1, 2, 3):
                for pos in (0, 1, 5):
                    need = pos + n * size
                    for outsize in sorted(set(x for x in (need - 1, need, need + 1, need + 7, pos) if x >= pos)):
                        cases.append("pack %s %d %d %d %s" % (T, n, outsize, pos, rnd_hex(rng, n * ext)))
                    for insize in sorted(set(x for x in (need - 1, need, need + 3, pos) if x >= pos)):
                        cases.append("unpack %s %d %d %s %d" % (T, n, pos, rnd_hex(rng, insize), n * ext + rng.choice([0, 2, ext])))
            lim = (2 ** 31 - 1) // size       # the largest count whose byte count is representable
            for n in (0, 1, 2, 7, 1000, lim, lim + 1, 2 ** 31 - 1, rng.randrange(lim // 2, lim + 1), rng.randrange(min(lim + 1, 2 ** 31 - 1), 2 ** 31)):
                if n < 2 ** 31:             # the count is an int
                    cases.append("packsize %s %d" % (T, n))
            cases.append("typesize %s" % T)
            cases.append("sizeof %s" % T)
    cases.append("barrier")
    for color in (0, 1, 7):
        for key in (0, -3, 9):
            cases.append("comm %d %d" % (color, key))
    cases.append("group")
    for n in (0, 1, 2, 5, 17):
        for ws in (0, 1):
            for c in ("waitall", "testall", "waitsome"):
                cases.append("%s %d %d" % (c, n, ws))
    cases += ["wait 1 0", "wait 1 1", "wtime", "wtime"]
    for i, nme in enumerate(ERRNAMES):
        cases.append("errclass %s %d" % (nme, i))
        cases.append("errstring %s" % nme)
        cases.append("errtext %s %d" % (nme, i))
    for code in (-1, 1, 13999, 14001, 14021, 14022, 2 ** 31 - 1, -2 ** 31) + tuple(rng.randrange(-2 ** 31, 2 ** 31) for _ in range(6)):
        cases.append("errclassx %d" % code)
        cases.append("errtextx %d" % code)
    return cases


def gen_big(ctx):
    """Pack / Unpack with positions near INT_MAX, judged like every other case: MPI refuses what does not fit and leaves the position
    (each runs in its own process: a sanitizer stop in one must not hide the others)"""
    rng = ctx.rng
    M = 2 ** 31 - 1
    big = ["packbig BYTE 2 %d %d" % (M, M - 1), "unpackbig BYTE 2 %d %d" % (M, M - 1),       # position + size = 2^31: does not fit
           "packbig BYTE 1 %d %d" % (M, M - 1), "unpackbig INT 1 %d %d" % (M, M - 4),         # exact fit at INT_MAX
           "packbig BYTE 2 %d %d" % (M - 1, M - 2), "unpackbig SHORT 1 %d %d" % (M - 1, M - 2),   # position + size = INT_MAX > limit
           "packbig INT 2 1610612736 1610612732", "packbig DOUBLE 0 %d %d" % (M, M),
           "packbig BYTE 1 100 200", "unpackbig INT 3 64 %d" % M,                             # position behind the buffer: refused
           "packbig LONG 1 %d %d" % (M, M - 3), "unpackbig LONG_DOUBLE 2 %d %d" % (M - 5, M - 20),   # sums far above 2^31 - 1
           "packbig LONG_DOUBLE 268435456 100 0", "unpackbig LONG_DOUBLE 134217728 %d 0" % M,  # count * size = 2^32, 2^31 (F-C16d): refused
           "unpackbig LONG_DOUBLE 268435456 100 0", "packbig LONG_DOUBLE 134217728 %d 0" % M, "packbig INT 536870912 %d 7" % M,
           "packbig LONG_DOUBLE 134217727 100 0"]                                             # 2^31 - 16 bytes: representable, does not fit
    for _ in range(2 if ctx.quick else 12):
        T = rng.choice(["BYTE", "SHORT", "INT", "LONG", "LONG_DOUBLE"])
        limit = M - rng.randrange(0, 40)
        n = rng.randrange(0, 4)
        pos = max(0, limit - n * TYPES[T][0] + rng.choice([-1, 0, 0, 1, TYPES[T][0]]))
        big.append("%s %s %d %d %d" % (rng.choice(["packbig", "unpackbig"]), T, n, limit, min(pos, limit)))
    return big


def run(ctx):
    import genall
    st = genall.run(["MpiC16"])
    for g, s in st.items():
        ctx.log("c2g", g, s)
        if s.startswith("FAILED"):
            ctx.tie_broken("translator group " + g, s)
    ctx.props()
    drv = os.path.join(vlib.TOOLS, "harness", "c16_driver.c")
    vs = ctx.variant(mpi="off", san=True)
    exe_s = ctx.cc([drv], os.path.join(ctx.scratch, "c16_serial"), vs)
    cases = gen_cases(ctx)
    if ctx.replay:
        rp = json.load(open(ctx.replay)).get("replay", {})
        if "case" in rp:
            cases = [rp["case"]] + cases[:30]
    cf = os.path.join(ctx.scratch, "c16_cases.txt")
    open(cf, "w").write("\n".join(cases) + "\n")
    lines = ["init"] + cases + ["finalize"]

    rc, serial, err = ctx.run_lines([exe_s, cf], "", timeout=600, env=dict(os.environ, ASAN_OPTIONS="detect_leaks=1"))
    serial = [l for l in serial if l != ""]
    if rc != 0 or len(serial) != len(lines):
        idx = min(len(serial), len(lines) - 1)
        ctx.violation("crash:" + lines[idx][:60], "serial driver stopped (exit %s) at `%s`: %s" % (rc, lines[idx][:200], err[-1500:]),
                      dict(case=lines[idx], stderr=err[-3000:]))
    model = []
    try:
        mexe = ctx.model("c16")
        rc2, model, err2 = ctx.run_lines([mexe, cf], "", timeout=600)
        model = [l for l in model if l != ""]
        if rc2 != 0:
            ctx.tie_broken("c16 model run", "exit %s: %s" % (rc2, err2[-1500:]))
    except vlib.BuildError as e:
        ctx.tie_broken("c16 model build (generated sc_mpi_sizeof does not extract/compile)", str(e)[-1500:])
    ompi = []
    try:
        vm = ctx.variant(mpi="ompi", san=False)
        exe_m = ctx.cc([drv], os.path.join(ctx.scratch, "c16_ompi"), vm)
        env = dict(os.environ, OMPI_MCA_btl="self,vader", OMPI_MCA_rmaps_base_oversubscribe="1",
                   OMPI_MCA_btl_base_warn_component_unused="0", OMPI_MCA_orte_base_help_aggregate="1")
        rc3, ompi, err3 = ctx.run_lines(["mpirun", "--allow-run-as-root", "--oversubscribe", "-np", "1", exe_m, cf], "", timeout=900, env=env)
        ompi = [l for l in ompi if l != ""]
        if rc3 != 0 or len(ompi) != len(lines):
            ctx.tie_broken("OpenMPI run of the driver", "exit %s, %d of %d lines: %s" % (rc3, len(ompi), len(lines), err3[-1200:]))
            ompi = ompi if len(ompi) == len(lines) else []
    except vlib.BuildError as e:
        ctx.tie_broken("OpenMPI build of libsc/driver", str(e)[-1500:])

    # ---- positions near INT_MAX: one process per case for the serial build (sanitizer), one run for model and OpenMPI
    big = gen_big(ctx)
    bf = os.path.join(ctx.scratch, "c16_big.txt")
    open(bf, "w").write("\n".join(big) + "\n")
    big_serial = []
    for k, line in enumerate(big):
        one = os.path.join(ctx.scratch, "c16_big_%d.txt" % k)
        open(one, "w").write(line + "\n")
        rcb, outb, errb = ctx.run_lines([exe_s, one], "", timeout=300, env=dict(os.environ, ASAN_OPTIONS="detect_leaks=1"))
        outb = [l for l in outb if l != ""]
        if rcb == 0 and len(outb) == 3:
            big_serial.append(outb[1])
        else:
            big_serial.append(None)
            _, known = expected(line, "serial")
            what = "signed integer overflow" if "signed integer overflow" in errb else "exit %s" % rcb
            if True:
                ctx.violation("crash:" + line[:60], "serial driver stopped (%s) at `%s`: %s" % (what, line, errb[-1500:]), dict(case=line, stderr=errb[-3000:]))
    big_model, big_ompi = [], []
    if model:
        rcm, big_model, errm = ctx.run_lines([mexe, bf], "", timeout=300)
        big_model = [l for l in big_model if l != ""][1:-1]
    if ompi:
        rco, big_ompi, erro = ctx.run_lines(["mpirun", "--allow-run-as-root", "--oversubscribe", "-np", "1", exe_m, bf], "", timeout=600, env=env)
        big_ompi = [l for l in big_ompi if l != ""][1:-1]
        if rco != 0 or len(big_ompi) != len(big):
            ctx.tie_broken("OpenMPI run of the driver (positions near INT_MAX)", "exit %s, %d of %d lines: %s" % (rco, len(big_ompi), len(big), erro[-800:]))
            big_ompi = []
    nbig_known = 0
    for k, line in enumerate(big):
        ctx.count_case(line, nontrivial=True)
        so = big_serial[k]
        _, known = expected(line, "serial")
        nbig_known += 1 if known else 0
        if so is not None:
            bad, _ = judge(line, so, "serial")
            if bad:
                ctx.violation("c16:" + line[:70],
                              "`%s`: serial emulation printed `%s`: %s" % (line, so, "; ".join(bad[:3])), dict(case=line, serial=so))
            if big_model and not known and so.replace(" GUARD", "") != big_model[k]:
                ctx.tie_broken("model/implementation correspondence", "`%s`: serial libsc prints `%s`, model prints `%s`" % (line, so, big_model[k]))
        if big_ompi:
            badm, _ = judge(line, big_ompi[k], "mpi")
            if badm:
                ctx.tie_broken("one-rank specification validated against OpenMPI", "`%s`: OpenMPI prints `%s`: %s" % (line, big_ompi[k], "; ".join(badm[:3])))
    ctx.notes["positions_near_INT_MAX"] = dict(cases=len(big), byte_count_not_representable=sum(1 for l in big if int(l.split()[2]) * TYPES[l.split()[1]][0] >= 2 ** 31), serial_stopped=sum(1 for x in big_serial if x is None))

    dist = {}
    nbad = nknown = ndis = nspec = nraw = 0
    dev = {"waitsome_outcount_serial_vs_mpi": set(), "status_arrays": set()}
    for i, line in enumerate(lines):
        kind = line.split()[0]
        dist[kind] = dist.get(kind, 0) + 1
        if kind not in ("init", "finalize"):
            ctx.count_case(line, nontrivial=kind not in ("barrier", "wtime", "group"))
        so = serial[i] if i < len(serial) else None
        bad, known = judge(line, so, "serial")
        if bad:
            if known:
                nknown += 1
                ctx.violation("double-int-extent", "`%s`: %s" % (line[:200], bad[0]), dict(case=line, serial=so))
            else:
                nbad += 1
                if nbad <= 5:
                    ctx.violation("c16:" + line[:70], "`%s`: serial emulation printed `%s`: %s" % (line[:300], (so or "")[:300], "; ".join(bad[:3])),
                                  dict(case=line, serial=so, openmpi=ompi[i] if i < len(ompi) else None, problems=bad[:6]))
        if model:
            mo = model[i] if i < len(model) else "<missing>"
            if (so or "<missing>").replace(" GUARD", "") != mo:
                ndis += 1
                if ndis <= 3:
                    ctx.tie_broken("model/implementation correspondence", "`%s`: serial libsc prints `%s`, model prints `%s`" % (line[:300], (so or "")[:300], mo[:300]))
        if ompi:
            oo = ompi[i]
            badm, _ = judge(line, oo, "mpi")
            if badm:
                nspec += 1
                if nspec <= 3:
                    ctx.tie_broken("one-rank specification validated against OpenMPI", "`%s`: OpenMPI prints `%s`: %s" % (line[:300], oo[:300], "; ".join(badm[:3])))
            if so is not None and so != oo:
                nraw += 1
                if kind == "waitsome":
                    dev["waitsome_outcount_serial_vs_mpi"].add((so.split()[1], oo.split()[1]))
                if kind in ("wait", "waitall", "testall", "waitsome"):
                    dev["status_arrays"].add((kind, so.split()[-1], oo.split()[-1]))
    ctx.cov["disagreements_checked"] = len(lines)
    ctx.cov["rule"] = ("every collective x 15 datatypes x counts 0,1,2,3,5,8 (x displacements 0,1,2,5 for the v-variants; x two valid "
                       "operations per type for reductions) with random bytes and receive buffers longer than needed; pack/unpack at "
                       "position + count*size - 1, exact, + 1 relative to the buffer size; pack/type sizes; communicator, group and "
                       "completion calls with 0..17 null requests with and without status arrays; error classes, strings and stored texts of the 21 "
                       "codes, 14 numbers that are no code (13999, 14001, 14021, INT_MIN/MAX, random); Pack/Unpack with positions near INT_MAX "
                       "(exact fit at INT_MAX, sum = INT_MAX > limit, sum >= 2^31 (regression of F-C16c), position behind the buffer, count * size >= 2^31 (regression of F-C16d: refused); one process each); Pack_size at the largest representable count, one above and at INT_MAX; a case is non-trivial unless it is barrier/wtime/group; distinct = distinct case lines")
    ctx.cov["exhaustive"] = False
    ctx.notes["case_distribution"] = dist
    ctx.notes["oracle_violations"] = nbad
    ctx.notes["known_finding_cases"] = nknown
    ctx.notes["model_disagreements"] = ndis
    ctx.notes["spec_vs_openmpi_disagreements"] = nspec
    ctx.notes["raw_serial_vs_openmpi_line_differences"] = nraw
    ctx.notes["documented_deviations_not_judged"] = {
        "waitsome outcount (serial, OpenMPI)": sorted(dev["waitsome_outcount_serial_vs_mpi"]),
        "status arrays (call, serial, OpenMPI)": sorted(dev["status_arrays"]),
        "rule": "the property asks that flag and output count are SET; MPI stores MPI_UNDEFINED in outcount when no request is active, "
                "the emulation stores 0; MPI stores empty statuses for null requests, the emulation leaves status arrays alone; "
                "OpenMPI's receive buffer after Exscan on rank 0 and padding bytes inside elements are not compared"}
    for c in cases[:: max(1, len(cases) // 4)][:4]:
        ctx.sample({"case": c[:200]})
    ctx.cov["trusted_base"] += ["tools/c2g translator (c2g.py, slicelib.py, local conventions of groups_C16.py) and clang-14's JSON AST for sc_mpi_sizeof (serial and with OpenMPI's mpi.h) and the bodies of 32 stubs (mitigated: the extracted generated sc_mpi_sizeof runs in the model driver against the compiled C; every generated body is proved equal to the model the run compares with the compiled C)",
                                "snprintf's contract (\"%s\": returns the length of the argument) in C16_gen_error_string_model",
                                "the one-rank MPI specification MpiSpec1.v / its Python restatement (validated against OpenMPI 4 on every run)",
                                "LP64 type sizes and extents (table in MpiSpec1.v, compared with OpenMPI's MPI_Type_size/Pack on every run)",
                                "OpenMPI, mpirun"]
    ctx.assumptions += ["counts, displacements, positions >= 0; count * size below 2^31; buffers as large as the call says",
                        "request arrays hold sc_MPI_REQUEST_NULL only (anything else aborts by documentation); root = 0",
                        "operations and datatypes are valid combinations in MPI"]
    return "proof"
