"""C12 - parallel file wrapper (sc_io_open / read_at / read_at_all / write_at / write_at_all / close).

Proof about a global sequential model of the configurations without MPI I/O (coq/C12); ties:
  T1  sc_io_error_class is translated from the C source on every run (both configurations);
  T3  configuration C (MPI without MPI I/O, token passing) runs the real code on the simulated MPI with stdio
      interposed (`--wrap`): every rank's trace of MPI *and* stdio calls is co-simulated against the extracted
      per-rank program, and the global model's prediction (classes, counts, data, file, ledger) is compared;
  T2  configuration A (no MPI): same with the serial build (stdio trace only);
  T1  sc_io_parse_access_mode, sc_io_open, sc_io_close, sc_io_read, sc_io_write, sc_io_read_count and the MPI I/O branches of
      the explicit-offset functions are translated in all three configurations (group OpenC12); coq/C12/OpenGen.v proves the
      models' programs equal to them;
  T3  configuration B (MPI with MPI I/O): the real code runs on the simulated MPI against a MOCK MPI I/O library (harness,
      -DC12_SIMIO) whose specification is coq/C12/MpiioModel.v; every rank's sequence of MPI I/O calls (amode bits, set_size,
      offsets, counts, data, returned codes and byte counts) is co-simulated against the extracted program, the global model's
      prediction is compared, and MPI I/O error codes are injected (configuration name "Bsim" in keys);
  configuration B under Open MPI (mpirun, real MPI I/O) is judged by the property oracle only.
An oracle independent of the model judges every scenario: same class on all ranks, SUCCESS iff no stdio call failed,
failed open leaves nothing behind, file = reference semantics, counts and data read back, memory balance, no FILE* left."""
import os, sys, json, re
import vlib, mpitrace
sys.path.insert(0, os.path.join(vlib.TOOLS, "c2g"))

WRAP = "-Wl,--wrap=fopen,--wrap=fwrite,--wrap=fread,--wrap=fseek,--wrap=ftell,--wrap=fflush,--wrap=fclose"
CLASS_NAMES = ["SUCCESS", "ARG", "COUNT", "UNKNOWN", "OTHER", "NO_MEM", "FILE", "NOT_SAME", "AMODE", "UNSUPPORTED_DATAREP",
               "UNSUPPORTED_OPERATION", "NO_SUCH_FILE", "FILE_EXISTS", "BAD_FILE", "ACCESS", "NO_SPACE", "QUOTA", "READ_ONLY",
               "FILE_IN_USE", "DUP_DATAREP", "CONVERSION", "IO"]
FOPEN, FWRITE, FREAD, FSEEK, FTELL, FFLUSH, FCLOSE = range(7)
FN_NAMES = ["fopen", "fwrite", "fread", "fseek", "ftell", "fflush", "fclose"] + ["fn%d" % k for k in range(7, 20)] + \
           ["MPI_File_open", "MPI_File_set_size", "MPI_File_close", "MPI_File_read_at", "MPI_File_write_at", "MPI_File_read_at_all",
            "MPI_File_write_at_all", "MPI_File_read", "MPI_File_write"]
MOPEN, MSETSIZE, MCLOSE, MREADAT, MWRITEAT, MREADATALL, MWRITEATALL, MREAD, MWRITE = range(20, 29)
# error classes of the simulated mpi.h that the mock MPI I/O injects
M_ERR_ACCESS, M_ERR_IO, M_ERR_NO_SPACE, M_ERR_NO_SUCH_FILE, M_ERR_QUOTA, M_ERR_FILE = 20, 32, 36, 37, 39, 27
BCFGS = ("B", "Bsim")
MODES = {"rb": 0, "wb": 1, "ab": 2}
ENOENT, EIO, EACCES, ENOSPC, EINVAL, EISDIR, EBADF = 2, 5, 13, 28, 22, 21, 9
ESPIPE, ENOTTY, EINTR, EAGAIN = 29, 25, 4, 11
NOISE = -1                  # `short` field of a fault: the call succeeds normally and leaves errno = the given value behind
NOISE_FAMILY = "errno-noise:"
# scenario families whose offsets are not "append at the end": the token-passing fallback ignores offsets (F-C12e)
MPI_UNDEFINED = -32766      # Open MPI's value
OFFSET_FAMILIES = ("header-then-blocks", "offsets-gaps", "offsets-reverse")
# offsets that do not fit into 32 bits (sparse file; judged by oracle_big, never materialised): below 2^31, in [2^31, 2^32)
# (negative as a 32-bit int), above 2^32 (wrap around to a small offset as a 32-bit int)
BIG_FAMILY = "big-offset"
BIG_OFFSETS = (48, (1 << 31) - 16, (1 << 31) + 5, (1 << 32) + 48, 3 * (1 << 32) + 4096)


def sparse_supported(ctx):
    """does the scratch file system keep a file with one byte behind a 12 GiB hole small?  -> (bool, text)"""
    path = os.path.join(ctx.scratch, "c12_sparse_probe.%d" % os.getpid())
    try:
        with open(path, "wb") as f:
            f.seek(BIG_OFFSETS[-1])
            f.write(b"x")
        st = os.stat(path)
        ok = st.st_size == BIG_OFFSETS[-1] + 1 and st.st_blocks * 512 < (1 << 20)
        return ok, "probe file of apparent size %d occupies %d blocks of 512 bytes" % (st.st_size, st.st_blocks)
    except OSError as e:
        return False, "probe failed: %s" % e
    finally:
        try:
            os.remove(path)
        except OSError:
            pass


def data_byte(dseed, opid, rank, k):
    x = (dseed * 2654435761 + opid * 97003 + rank * 40503 + k * 9176) & 0xffffffff
    x ^= x >> 13
    x = (x * 0x5bd1e995) & 0xffffffff
    x ^= x >> 15
    return x & 0xff


def block(dseed, opid, rank, n):
    return bytes(data_byte(dseed, opid, rank, k) for k in range(n))


def hx(v):
    return ("-%x" % -v) if v < 0 else ("%x" % v)


def pl(b):
    """bytes / list of ints -> payload text"""
    b = list(b)
    return ",".join(hx(v) for v in b) if b else "-"


# ----------------------------------------------------------------------------------------------------------------
# scenarios
# ----------------------------------------------------------------------------------------------------------------
class Scen:
    """P, seed, adv, dseed, pathkind, init (None | bytes), faults [(rank, fn, k, errno, short)], ops, family, cfgs"""
    def __init__(self, P, ops, init=None, pathkind=0, faults=(), seed=0, adv=0, dseed=1, family="", cfgs="AC"):
        self.P, self.ops, self.init, self.pathkind, self.faults = P, list(ops), init, pathkind, list(faults)
        self.seed, self.adv, self.dseed, self.family, self.cfgs = seed, adv, dseed, family, cfgs

    def harness_line(self):
        init = "-" if self.init is None else ("=" if len(self.init) == 0 else self.init.hex())
        w = [self.P, self.seed, self.adv, self.dseed, self.pathkind, init, "F", len(self.faults)]
        for f in self.faults:
            w += list(f)
        w += ["OPS", len(self.ops)]
        for o in self.ops:
            if o[0] == "o":
                w += ["o", o[1]]
            elif o[0] == "c":
                w += ["c"]
            elif o[0] == "W":
                w += ["W", o[1], o[2]]
                for off, cnt in o[3]:
                    w += [off, cnt]
            elif o[0] == "R":
                w += ["R", o[1]]
                for off, cnt in o[2]:
                    w += [off, cnt]
            elif o[0] == "w":
                w += ["w", o[1], o[2], o[3], o[4]]
            elif o[0] == "r":
                w += ["r", o[1], o[2], o[3]]
        return " ".join(str(x) for x in w)

    def model_ops(self):
        w = ["OPS", hx(len(self.ops))]
        for o in self.ops:
            if o[0] == "o":
                w += ["o", hx(o[1])]
            elif o[0] == "c":
                w += ["c"]
            elif o[0] == "W":
                w += ["W", hx(o[1]), hx(self.P)]
                for q, (off, cnt) in enumerate(o[3]):
                    w += [hx(off), hx(cnt), pl(block(self.dseed, o[2], q, cnt * o[1]))]
            elif o[0] == "R":
                w += ["R", hx(o[1]), hx(self.P)]
                for off, cnt in o[2]:
                    w += [hx(off), hx(cnt), "-"]
            elif o[0] == "w":
                w += ["w", hx(o[1]), hx(o[3]), hx(o[4]), pl(block(self.dseed, o[2], 0, o[4] * o[1]))]
            elif o[0] == "r":
                w += ["r", hx(o[1]), hx(o[2]), hx(o[3]), "-"]
        return " ".join(w)

    def model_node(self):
        if self.pathkind == 1:
            return "N"
        if self.pathkind == 2:
            return "D"
        return "A" if self.init is None else "F " + pl(self.init)

    def model_plan(self):
        w = ["F", hx(len(self.faults))]
        for f in self.faults:
            w += [hx(x) for x in f]
        return " ".join(w)

    def canon(self):
        return (self.P, self.dseed, self.pathkind, self.init, tuple(self.faults), repr(self.ops))

    def to_json(self):
        return dict(P=self.P, ops=self.ops, init=None if self.init is None else self.init.hex(), pathkind=self.pathkind,
                    faults=self.faults, seed=self.seed, adv=self.adv, dseed=self.dseed, family=self.family, cfgs=self.cfgs,
                    harness_line=self.harness_line())

    @staticmethod
    def from_json(d):
        def tup(x):
            return tuple(tup(y) for y in x) if isinstance(x, (list, tuple)) else x
        return Scen(d["P"], [tup(o) for o in d["ops"]], None if d["init"] is None else bytes.fromhex(d["init"]), d["pathkind"],
                    [tuple(f) for f in d["faults"]], d["seed"], d["adv"], d["dseed"], d.get("family", "replay"), d.get("cfgs", "AC"))


def consecutive(start, counts, tsize):
    offs, o = [], start
    for c in counts:
        offs.append(o)
        o += c * tsize
    return offs, o


def gen_scenarios(ctx):
    rng = ctx.rng
    S = []
    quick = ctx.quick
    Ps = [1, 2, 3, 4, 5, 6] if quick else [1, 2, 3, 4, 5, 6, 7, 8, 12]
    cnts = [0, 1, 2, 3, 5]

    def rs():
        return dict(seed=rng.randrange(1 << 30), adv=rng.randrange(8), dseed=rng.randrange(1, 1 << 16))

    def rcounts(P):
        return [rng.choice(cnts) for _ in range(P)]

    # (a) write blocks consecutively in rank order (1..3 collective calls), close, read them back (own block, a
    #     neighbour's block, and once beyond the end of file)
    for P in Ps:
        for tsize in (1, 4, 8):
            for rep in range(2 if quick else 6):
                ops = [("o", 1)]
                end = 0
                calls = []
                for ci in range(rng.choice([1, 1, 2, 3])):
                    counts = rcounts(P)
                    offs, end = consecutive(end, counts, tsize)
                    calls.append((offs, counts))
                    ops.append(("W", tsize, ci + 1, tuple(zip(offs, counts))))
                ops += [("c",), ("o", 0)]
                for offs, counts in calls:
                    ops.append(("R", tsize, tuple(zip(offs, counts))))
                offs, counts = calls[-1]
                sh = rng.randrange(P)
                ops.append(("R", tsize, tuple((offs[(q + sh) % P], counts[(q + sh) % P]) for q in range(P))))
                ops.append(("R", tsize, tuple((max(0, end - rng.randrange(0, 3 * tsize + 1)), rng.choice([1, 2, 4])) for q in range(P))))
                ops.append(("c",))
                init = rng.choice([None, b"", bytes(rng.randrange(256) for _ in range(rng.randrange(1, 12)))])
                S.append(Scen(P, ops, init=init, family="roundtrip", cfgs="ABC", **rs()))
    # (b) append behind existing content
    for P in Ps:
        for rep in range(2 if quick else 6):
            tsize = rng.choice([1, 4, 8])
            init = bytes(rng.randrange(256) for _ in range(rng.randrange(0, 4) * tsize + rng.choice([0, 0, 1])))
            counts = rcounts(P)
            offs, end = consecutive(len(init), counts, tsize)
            counts2 = rcounts(P)
            offs2, end2 = consecutive(end, counts2, tsize)
            ops = [("o", 2), ("W", tsize, 1, tuple(zip(offs, counts))), ("W", tsize, 2, tuple(zip(offs2, counts2))), ("c",),
                   ("o", 0), ("R", 1, tuple((0, len(init)) for q in range(P))), ("R", tsize, tuple(zip(offs2, counts2))), ("c",)]
            S.append(Scen(P, ops, init=init, family="append", cfgs="ABC", **rs()))
    # (c) open: missing file, missing directory, directory, every errno through a failing fopen; close right away
    for P in ([1, 2, 3, 6] if quick else Ps):
        S.append(Scen(P, [("o", 0)], init=None, family="open-missing", cfgs="ABC", **rs()))
        for am in (0, 1, 2):
            S.append(Scen(P, [("o", am)], pathkind=1, family="open-nodir", cfgs="ABC", **rs()))
        for am in (1, 2):
            S.append(Scen(P, [("o", am)], pathkind=2, family="open-isdir", cfgs="ABC", **rs()))
        for am in (0, 1, 2):
            S.append(Scen(P, [("o", am), ("c",)], init=b"abc", family="open-close", cfgs="ABC", **rs()))
        S.append(Scen(P, [("o", 2), ("c",)], init=None, family="append-creates", cfgs="ACS", **rs()))
        S.append(Scen(P, [("o", 0), ("c",), ("o", 1), ("c",), ("o", 0), ("c",)], init=b"xyz", family="open-close", cfgs="ABC", **rs()))
    for e in list(range(1, 135)) + [200, 1000, 65536]:
        P = rng.choice([1, 2, 3])
        S.append(Scen(P, [("o", rng.choice([0, 1, 2])), ("c",)], init=b"q", faults=[(0, FOPEN, 0, e, 0)], family="errno-sweep", **rs()))
    for P in ([1, 3] if quick else [1, 2, 3, 5]):
        for e in (EIO, ENOSPC, EBADF):
            S.append(Scen(P, [("o", 1), ("c",)], faults=[(0, FCLOSE, 0, e, 0)], family="close-fault", **rs()))
    # (d) a fault at each rank and each step of a collective write / read
    for P in Ps:
        tsize = rng.choice([1, 4])
        counts = [rng.choice([1, 2, 3]) for _ in range(P)]
        offs, end = consecutive(0, counts, tsize)
        wops = [("o", 1), ("W", tsize, 1, tuple(zip(offs, counts))), ("c",)]
        init = block(7, 9, 0, end)
        rops = [("o", 0), ("R", tsize, tuple(zip(offs, counts))), ("c",)]
        for r in range(P):
            for (fn, k, e, sh) in ([(FOPEN, 0, EACCES, 0)] if r > 0 else []) + [(FWRITE, 0, ENOSPC, 0), (FWRITE, 0, EIO, 1), (FWRITE, 0, 0, 0)]:
                S.append(Scen(P, wops, faults=[(r, fn, k, e, sh)], family="coll-fault", **rs()))
            for (fn, k, e, sh) in ([(FOPEN, 0, EACCES, 0)] if r > 0 else []) + [(FREAD, 0, EIO, 0), (FREAD, 0, EIO, 1), (FREAD, 0, 0, 1)]:
                S.append(Scen(P, rops, init=init, faults=[(r, fn, k, e, sh)], family="coll-fault", **rs()))
            if quick and r not in (0, P - 1, P // 2):
                continue
            # steps that end in SC_ABORT: flush, close, seek, and the re-open of rank 0
            S.append(Scen(P, wops, faults=[(r, FFLUSH, 0, EIO, 0)], family="coll-abort", **rs()))
            S.append(Scen(P, wops, faults=[(r, FCLOSE, 0, EIO, 0)], family="coll-abort", **rs()))
            S.append(Scen(P, rops, init=init, faults=[(r, FSEEK, 0, EINVAL, 0)], family="coll-abort", **rs()))
        S.append(Scen(P, wops, faults=[(0, FOPEN, 1, EACCES, 0)], family="coll-abort", **rs()))
        S.append(Scen(P, rops, init=init, faults=[(0, FOPEN, 1, ENOENT, 0)], family="coll-abort", **rs()))
        # two collective calls, the fault in the second one; and a fault followed by further calls
        wops2 = [("o", 1), ("W", tsize, 1, tuple(zip(offs, counts))), ("W", tsize, 2, tuple(zip([o + end for o in offs], counts))), ("c",)]
        r = rng.randrange(P)
        S.append(Scen(P, wops2, faults=[(r, FWRITE, 1, ENOSPC, 0)], family="coll-fault", **rs()))
        S.append(Scen(P, wops2, faults=[(r, FWRITE, 0, ENOSPC, 0)], family="coll-fault", **rs()))
        if r > 0:
            S.append(Scen(P, wops2, faults=[(r, FOPEN, 1, EACCES, 0)], family="coll-fault", **rs()))
    # (e) explicit-offset calls of rank 0: gaps, overwrites, header then collective blocks, faults at each step
    for rep in range(12 if quick else 60):
        tsize = rng.choice([1, 4, 8])
        ops = [("o", 1)]
        for i in range(rng.randrange(1, 5)):
            ops.append(("w", tsize, i + 1, rng.randrange(0, 6) * tsize + rng.choice([0, 0, 1]), rng.choice([0, 1, 2, 3])))
        ops += [("c",), ("o", 0)]
        for i in range(rng.randrange(1, 4)):
            ops.append(("r", tsize, rng.randrange(0, 8) * tsize, rng.choice([0, 1, 2, 4])))
        ops.append(("c",))
        S.append(Scen(rng.choice([1, 1, 2, 3]), ops, init=rng.choice([None, b"0123456789"]), family="at", cfgs="ABC", **rs()))
    for P in ([1, 2, 3, 6] if quick else Ps):
        tsize = rng.choice([1, 4])
        hdr = rng.choice([1, 2, 4])
        counts = rcounts(P)
        offs, end = consecutive(hdr * tsize, counts, tsize)
        ops = [("o", 1), ("w", tsize, 1, 0, hdr), ("W", tsize, 2, tuple(zip(offs, counts))), ("c",),
               ("o", 0), ("r", tsize, 0, hdr), ("R", tsize, tuple(zip(offs, counts))), ("c",)]
        S.append(Scen(P, ops, family="header-then-blocks", cfgs="ABC", **rs()))
        # blocks with gaps / in reverse rank order / overlapping
        g = rng.choice([1, 2, 3]) * tsize
        offs_gap = [o + g * (q + 1) for q, o in enumerate(consecutive(0, counts, tsize)[0])]
        offs_rev = list(reversed(consecutive(0, list(reversed(counts)), tsize)[0]))
        for name, oo in (("gaps", offs_gap), ("reverse", offs_rev)):
            ops = [("o", 1), ("W", tsize, 1, tuple(zip(oo, counts))), ("c",), ("o", 0), ("R", tsize, tuple(zip(oo, counts))), ("c",)]
            S.append(Scen(P, ops, family="offsets-" + name, cfgs="ABC", **rs()))
        # append mode with an offset that is not the end of file (documented limitation of mode "ab")
        init = block(3, 1, 0, 3 * tsize)
        ops = [("o", 2), ("W", tsize, 1, tuple((0, counts[q]) for q in range(P))), ("c",)]
        S.append(Scen(P, ops, init=init, family="append-not-at-end", cfgs="ACS", **rs()))
    # the file ends inside an element (F-C12g in configuration B: MPI_UNDEFINED as ocount)
    for P in (1, 2):
        for tsize in (4, 8):
            S.append(Scen(P, [("o", 0), ("r", tsize, 10 - tsize + 1, 1), ("r", tsize, 0, 3), ("c",)], init=b"0123456789", family="eof-inside-element", cfgs="ABC", **rs()))
    for (fn, k, e, sh) in [(FTELL, 0, EIO, 0), (FSEEK, 0, EINVAL, 0), (FSEEK, 1, EIO, 0), (FWRITE, 0, ENOSPC, 0), (FWRITE, 0, ENOSPC, 1),
                           (FWRITE, 0, ENOSPC, 2), (FWRITE, 0, 0, 1), (FTELL, 1, EIO, 0), (FWRITE, 1, EIO, 0)]:
        for P in (1, 2):
            S.append(Scen(P, [("o", 1), ("w", 1, 1, 2, 3), ("w", 1, 2, 0, 2), ("c",)], faults=[(0, fn, k, e, sh)], family="at-fault", **rs()))
    for (fn, k, e, sh) in [(FTELL, 0, EIO, 0), (FSEEK, 0, EINVAL, 0), (FSEEK, 1, EIO, 0), (FREAD, 0, EIO, 0), (FREAD, 0, EIO, 1), (FREAD, 0, 0, 1)]:
        for P in (1, 2):
            S.append(Scen(P, [("o", 0), ("r", 1, 2, 3), ("r", 1, 0, 2), ("c",)], init=b"0123456789", faults=[(0, fn, k, e, sh)], family="at-fault", **rs()))
    # a partial transfer with errno set AND a failing position-restoring fseek: the class is the one of the transfer's errno;
    # a short transfer without errno and a failing restoring fseek: the class is the one of the fseek's errno
    for e, sh in ((ENOSPC, 1), (EIO, 2), (0, 1)):
        for P in (1, 2):
            S.append(Scen(P, [("o", 1), ("w", 1, 1, 2, 3), ("w", 1, 2, 0, 2), ("c",)], faults=[(0, FWRITE, 0, e, sh), (0, FSEEK, 1, EACCES, 0)], family="at-fault", **rs()))
            S.append(Scen(P, [("o", 0), ("r", 1, 2, 3), ("r", 1, 0, 2), ("c",)], init=b"0123456789", faults=[(0, FREAD, 0, e, sh), (0, FSEEK, 1, EACCES, 0)], family="at-fault", **rs()))
    # the same through the P successive calls of configuration A (collective operation of P logical ranks)
    for P in (2, 3):
        S.append(Scen(P, [("o", 1), ("W", 1, 1, tuple((3 * q, 3) for q in range(P))), ("c",)], faults=[(P - 1, FWRITE, 0, ENOSPC, 2)], family="at-fault", **rs()))
    # (g) offsets beyond 2^31 and 2^32 in a sparse file (explicit-offset calls of rank 0 in A and C; in A also the *_at_all
    #     forms, which are P successive explicit-offset calls); the saved stream position beyond 2^32 (append mode)
    ok, why = sparse_supported(ctx)
    ctx.notes["big_offset_family"] = ("exercised: " if ok else "SKIPPED, the scratch file system does not support sparse files: ") + why
    if ok:
        for rep in range(3 if quick else 12):
            tsize = (1, 4, 8)[rep % 3]
            offs = list(BIG_OFFSETS)
            rng.shuffle(offs)
            cnts_b = [rng.choice([1, 2, 3]) for _ in offs]
            ops = [("o", 1)] + [("w", tsize, i + 1, off, c) for i, (off, c) in enumerate(zip(offs, cnts_b))] + [("c",), ("o", 0)]
            rd = [(off, c) for off, c in zip(offs, cnts_b)]
            rng.shuffle(rd)
            for off, c in rd:
                ops.append(("r", tsize, off, c))
            # a hole (zeros), the last element cut by the end of file, and a read behind the end of file
            end = max(off + c * tsize for off, c in zip(offs, cnts_b))
            ops += [("r", tsize, (1 << 32) - 8, 2), ("r", tsize, end - tsize, 2), ("r", tsize, end + (1 << 32), 1), ("c",)]
            S.append(Scen(rng.choice([1, 2]), ops, family=BIG_FAMILY, cfgs="AC", **rs()))
        # append mode behind 12 GiB: ftell returns a position above 2^32, which the restoring fseek must get back unchanged
        for tsize in ((4,) if quick else (1, 4, 8)):
            top = BIG_OFFSETS[-1]
            ops = [("o", 1), ("w", tsize, 1, top, 2), ("c",), ("o", 2), ("w", tsize, 2, top + 2 * tsize, 3), ("w", tsize, 3, top + 5 * tsize, 1), ("c",),
                   ("o", 0), ("r", tsize, top, 6), ("r", tsize, top + 2 * tsize, 3), ("c",)]
            S.append(Scen(1, ops, family=BIG_FAMILY, cfgs="AC", **rs()))
        # configuration A only: the collective forms, one offset per logical rank
        for P in ((2, 5) if quick else (1, 2, 3, 5)):
            tsize = rng.choice([1, 4, 8])
            offs = [BIG_OFFSETS[(q + P) % len(BIG_OFFSETS)] for q in range(P)]
            cnts_b = [rng.choice([1, 2, 3]) for _ in range(P)]
            ops = [("o", 1), ("W", tsize, 1, tuple(zip(offs, cnts_b))), ("c",), ("o", 0), ("R", tsize, tuple(zip(offs, cnts_b))),
                   ("R", tsize, tuple(reversed(list(zip(offs, cnts_b))))), ("c",)]
            S.append(Scen(P, ops, family=BIG_FAMILY, cfgs="A", **rs()))
    # (h) sequences of sessions (create / append / read) on an existing or missing file, in all configurations (A, C, Open MPI,
    #     mock MPI I/O): every write goes to the current end of the file (the common domain of the three configurations);
    #     the first open may hit a missing file (read: refused everywhere), a missing directory or a directory
    for rep in range(30 if quick else 300):
        P = rng.choice(Ps[:4] if quick else Ps[:6])
        tsize = rng.choice([1, 4, 8])
        init = rng.choice([None, None, b"", bytes(rng.randrange(256) for _ in range(rng.randrange(1, 4) * tsize))])
        pathkind = rng.choice([0, 0, 0, 0, 0, 1, 2])
        size = None if (init is None or pathkind) else len(init)
        ops, opid, modes = [], 0, []
        for sess in range(rng.randrange(2, 5)):
            m = rng.choice([0, 1, 2]) if pathkind != 2 else rng.choice([1, 2])      # (fopen "rb" of a directory succeeds on Linux)
            if m == 2 and size is None and pathkind == 0:
                m = 1                   # append to a missing file: the known exception, family sessions-append-missing below
            modes.append(m)
            ops.append(("o", m))
            ok = pathkind == 0 and not (m == 0 and size is None)
            if ok and m == 1:
                size = 0
            for _ in range(rng.randrange(0, 3)):
                counts = rcounts(P)
                if m == 0:
                    top = size if ok else 8
                    ops.append(("R", tsize, tuple((rng.randrange(0, top + 1), c) for c in counts)))
                else:
                    opid += 1
                    offs, end = consecutive(size if ok else 0, counts, tsize)
                    ops.append(("W", tsize, opid, tuple(zip(offs, counts))))
                    if ok:
                        size = end
            if rng.random() < 0.3:
                if m == 0:
                    ops.append(("r", tsize, rng.randrange(0, (size if ok else 0) + 1), rng.choice([0, 1, 2])))
                else:
                    opid += 1
                    c = rng.choice([0, 1, 2])
                    ops.append(("w", tsize, opid, size if ok else 0, c))
                    if ok:
                        size += c * tsize
            ops.append(("c",))
        S.append(Scen(P, ops, init=init, pathkind=pathkind, family="sessions", cfgs="ABC", **rs()))
    # the known exception of the cross-configuration statement: SC_IO_WRITE_APPEND on a missing file (A, C: created; MPI I/O: refused)
    for P in (1, 2, 3):
        tsize = rng.choice([1, 4])
        counts = rcounts(P)
        offs, end = consecutive(0, counts, tsize)
        S.append(Scen(P, [("o", 2), ("W", tsize, 1, tuple(zip(offs, counts))), ("c",), ("o", 0), ("R", tsize, tuple(zip(offs, counts))), ("c",)],
                      init=None, family="sessions-append-missing", cfgs="ACS", **rs()))
    # (i) configuration B on the mock MPI I/O library: an injected error code at each MPI I/O call
    for P in ([1, 2, 3] if quick else [1, 2, 3, 4, 6]):
        tsize = rng.choice([1, 4])
        counts = [rng.choice([1, 2, 3]) for _ in range(P)]
        offs, end = consecutive(0, counts, tsize)
        init = block(11, 5, 0, end)
        wops = [("o", 1), ("W", tsize, 1, tuple(zip(offs, counts))), ("w", tsize, 2, end, 2), ("c",), ("o", 0), ("R", tsize, tuple(zip(offs, counts))), ("c",)]
        rops = [("o", 0), ("R", tsize, tuple(zip(offs, counts))), ("r", tsize, 0, 2), ("c",), ("o", 2), ("W", tsize, 1, tuple((end + o, c) for o, c in zip(offs, counts))), ("c",)]
        for am in (0, 1, 2):
            for e in (M_ERR_ACCESS, M_ERR_NO_SPACE, M_ERR_IO):
                S.append(Scen(P, [("o", am), ("c",), ("o", am), ("c",)], init=b"abcd", faults=[(0, MOPEN, rng.choice([0, 1]), e, 0)], family="bsim-open-fault", cfgs="S", **rs()))
        # MPI_File_set_size fails after a successful MPI_File_open (F-C12h, repaired: the handle must be closed again, the class is
        # the one of set_size) - also with a failing MPI_File_close inside that branch, and in the second create-open of a scenario
        for e in (M_ERR_IO, M_ERR_NO_SPACE):
            S.append(Scen(P, wops, init=rng.choice([None, init]), faults=[(0, MSETSIZE, 0, e, 0)], family="bsim-setsize-fault", cfgs="S", **rs()))
        S.append(Scen(P, wops, init=init, faults=[(0, MSETSIZE, 0, M_ERR_NO_SPACE, 0), (0, MCLOSE, 0, M_ERR_IO, 0)], family="bsim-setsize-fault", cfgs="S", **rs()))
        S.append(Scen(P, [("o", 1), ("c",)] + wops, faults=[(0, MSETSIZE, 1, M_ERR_QUOTA, 0)], family="bsim-setsize-fault", cfgs="S", **rs()))
        S.append(Scen(P, wops, faults=[(0, MCLOSE, 0, M_ERR_IO, 0)], family="bsim-close-fault", cfgs="S", **rs()))
        S.append(Scen(P, rops, init=init, faults=[(0, MCLOSE, 1, M_ERR_IO, 0)], family="bsim-close-fault", cfgs="S", **rs()))
        # explicit-offset calls of rank 0
        S.append(Scen(P, wops, faults=[(0, MWRITEAT, 0, M_ERR_NO_SPACE, 0)], family="bsim-at-fault", cfgs="S", **rs()))
        S.append(Scen(P, rops, init=init, faults=[(0, MREADAT, 0, M_ERR_IO, 0)], family="bsim-at-fault", cfgs="S", **rs()))
        # collective transfers: the same error code on every rank (an MPI library that agrees on the outcome) ...
        S.append(Scen(P, wops, faults=[(q, MWRITEATALL, 0, M_ERR_NO_SPACE, 0) for q in range(P)], family="bsim-coll-fault", cfgs="S", **rs()))
        S.append(Scen(P, rops, init=init, faults=[(q, MREADATALL, 0, M_ERR_IO, 0) for q in range(P)], family="bsim-coll-fault", cfgs="S", **rs()))
        # ... and on one rank only (F-C12i: the wrapper hands every rank its own return code)
        if P > 1:
            q = rng.randrange(P)
            S.append(Scen(P, wops, faults=[(q, MWRITEATALL, 0, M_ERR_NO_SPACE, 0)], family="bsim-coll-fault-one-rank", cfgs="S", **rs()))
            S.append(Scen(P, rops, init=init, faults=[(q, MREADATALL, 0, M_ERR_IO, 0)], family="bsim-coll-fault-one-rank", cfgs="S", **rs()))
        # wrong direction: writing through a read-only handle, reading through a write-only one (MPI_ERR_ACCESS from the library)
        S.append(Scen(P, [("o", 0), ("W", tsize, 1, tuple(zip(offs, counts))), ("w", tsize, 2, 0, 1), ("c",)], init=init, family="bsim-wrong-direction", cfgs="S", **rs()))
        S.append(Scen(P, [("o", 2), ("R", tsize, tuple(zip(offs, counts))), ("r", tsize, 0, 1), ("c",)], init=init, family="bsim-wrong-direction", cfgs="S", **rs()))
    # every error code of the simulated mpi.h (and a few outside) through a failing MPI_File_open: class = MPI_Error_class (code)
    for e in list(range(1, 58)) + [60, 1000, 0x3fffffff]:
        S.append(Scen(rng.choice([1, 2]), [("o", rng.choice([0, 1, 2])), ("c",)], init=b"q", faults=[(0, MOPEN, 0, e, 0)], family="bsim-code-sweep", cfgs="S", **rs()))
    # (j) "success with errno noise" (a legal freedom of the C library): the interposed stdio call succeeds normally and leaves
    #     errno = ESPIPE / ENOTTY / EINTR / EAGAIN behind - at every call site of the wrapper without MPI I/O.  The family name
    #     carries the site; every violation of such a scenario is reported under the key errno-noise:<site>
    noise_errnos = [ESPIPE, ENOTTY, EINTR, EAGAIN]

    def noise(site, P, ops, rank, fn, k, cfgs, init=None):
        e = noise_errnos[len(S) % 4]
        S.append(Scen(P, ops, init=init, faults=[(rank, fn, k, e, NOISE)], family=NOISE_FAMILY + site, cfgs=cfgs, **rs()))
    for tsize in ((1, 4) if quick else (1, 4, 8)):
        init = block(5, 3, 0, 6 * tsize)
        # rank 0 only (same call numbers in A and C): fopen 0 ftell 0 fseek 0 fwrite 0 fseek 1 fclose 0 | fopen 1 ftell 1 fseek 2 fread 0 fseek 3 fclose 1
        ops1 = [("o", 1), ("w", tsize, 1, tsize, 2), ("c",), ("o", 0), ("r", tsize, 0, 2), ("c",)]
        ops2 = [("o", 2), ("w", tsize, 1, 6 * tsize, 1), ("c",)]
        for P in (1, 2):
            for k in (0, 1):
                noise("open-fopen", P, ops1, 0, FOPEN, k, "AC", init)
                noise("at-ftell", P, ops1, 0, FTELL, k, "AC", init)
                noise("at-fseek", P, ops1, 0, FSEEK, 2 * k, "AC", init)
                noise("at-restore-fseek", P, ops1, 0, FSEEK, 2 * k + 1, "AC", init)
                noise("close-fclose", P, ops1, 0, FCLOSE, k, "AC", init)
            noise("at-transfer", P, ops1, 0, FWRITE, 0, "AC", init)
            noise("at-transfer", P, ops1, 0, FREAD, 0, "AC", init)
            noise("open-fopen", P, ops2, 0, FOPEN, 0, "AC", init)
        # the token-passing fallback (C): rank 0: fopen 0 | transfer 0 fflush 0 fclose 0 fopen 1 (re-open) | fclose 1;
        # rank q > 0: fopen 0 [fseek 0] transfer 0 fflush 0 fclose 0
        P = 3
        counts = [2, 1, 2]
        offs, end = consecutive(0, counts, tsize)
        wopsC = [("o", 1), ("W", tsize, 1, tuple(zip(offs, counts))), ("c",)]
        ropsC = [("o", 0), ("R", tsize, tuple(zip(offs, counts))), ("c",)]
        initC = block(6, 4, 0, end)
        for q in (1, 2):
            noise("coll-fopen", P, wopsC, q, FOPEN, 0, "C")
            noise("coll-fopen", P, ropsC, q, FOPEN, 0, "C", initC)
        for q in (0, 1, 2):
            noise("coll-transfer", P, wopsC, q, FWRITE, 0, "C")
            noise("coll-transfer", P, ropsC, q, FREAD, 0, "C", initC)
            noise("coll-seek", P, ropsC, q, FSEEK, 0, "C", initC)
            noise("coll-flush", P, wopsC, q, FFLUSH, 0, "C")
            noise("coll-flush", P, ropsC, q, FFLUSH, 0, "C", initC)
            noise("coll-fclose", P, wopsC, q, FCLOSE, 0, "C")
            noise("coll-fclose", P, ropsC, q, FCLOSE, 0, "C", initC)
        noise("coll-reopen", P, wopsC, 0, FOPEN, 1, "C")
        noise("coll-reopen", P, ropsC, 0, FOPEN, 1, "C", initC)
    # the REAL thing: a named pipe opened for append (glibc: fopen succeeds, errno = ESPIPE) and for reading; no model of a
    # pipe: judged by the co-simulation of the programs and by the stream / memory monitors
    for P in (1, 2, 3):
        for am in (2, 0, 1):
            S.append(Scen(P, [("o", am), ("c",), ("o", am), ("c",)], pathkind=3, family="fifo-open", cfgs="AC", **rs()))
        # the token-passing fallback on the pipe (C): every rank > 0 opens it with "ab" in its turn and rank 0 re-opens it - all of
        # these fopen calls succeed with errno = ESPIPE; one and two collective writes, then close
        for am in (2, 1):
            tsize = rng.choice([1, 4])
            counts = [rng.choice([1, 2, 3]) for _ in range(P)]
            offs, end = consecutive(0, counts, tsize)
            ops = [("o", am), ("W", tsize, 1, tuple(zip(offs, counts)))]
            if am == 2:
                ops.append(("W", tsize, 2, tuple(zip([o + end for o in offs], counts))))
            S.append(Scen(P, ops + [("c",)], pathkind=3, family="fifo-open", cfgs="C", **rs()))
        # sc_io_read_at_all on the pipe: the fseek of rank 0 fails (ESPIPE, a real failure): SC_CHECK_ABORT "seek failed" - an
        # abort WITH a cause; it must not be the re-open or a lost stream
        S.append(Scen(P, [("o", 0), ("R", 1, tuple((0, 1) for _ in range(P))), ("c",)], pathkind=3, family="fifo-open", cfgs="C", **rs()))
    # (f) random sequences with random faults
    for rep in range(60 if quick else 1500):
        P = rng.choice(Ps)
        tsize = rng.choice([1, 4, 8])
        mode = rng.choice([0, 1, 1, 2])
        init = rng.choice([None, b"", bytes(rng.randrange(256) for _ in range(rng.randrange(1, 4) * tsize))])
        if mode == 0 and init is None:
            init = b"abcdefgh" * 2
        ops = [("o", mode)]
        end = len(init) if (init is not None and mode != 1) else 0
        for i in range(rng.randrange(1, 4)):
            counts = rcounts(P)
            if mode == 0:
                ops.append(("R", tsize, tuple((rng.randrange(0, end + 2), c) for c in counts)))
            else:
                offs, end = consecutive(end, counts, tsize)
                ops.append(("W", tsize, i + 1, tuple(zip(offs, counts))))
        ops.append(("c",))
        faults = []
        if rng.random() < 0.6:
            for _ in range(rng.choice([1, 1, 2])):
                fn = rng.choice([FOPEN, FOPEN, FWRITE, FREAD, FWRITE, FREAD, FFLUSH, FCLOSE, FSEEK])
                e = rng.choice([EIO, ENOSPC, EACCES, ENOENT, 0 if fn in (FWRITE, FREAD) else EIO])
                faults.append((rng.randrange(P), fn, rng.choice([0, 0, 1, 2]), e, rng.choice([0, 0, 1])))
        faults = list(dict(((f[0], f[1], f[2]), f) for f in faults).values())
        S.append(Scen(P, ops, init=init, faults=faults, family="random", **rs()))
    return S


# ----------------------------------------------------------------------------------------------------------------
# implementation output -> per-rank results and events
# ----------------------------------------------------------------------------------------------------------------
class Res:
    """result of one operation on one rank"""
    def __init__(self, text):
        w = text.split()
        self.kind = w[0]
        if self.kind in ("skip", "idle", "none", "badop"):
            self.cls = self.ocount = self.hex = self.flag = None
        else:
            self.cls, self.ocount, self.hex, self.flag = w[1], int(w[2]), ("" if w[3] == "-" else w[3]), int(w[4])


def parse_outs(run, P, nops):
    """-> res[q][i] (Res or None), file text, (fopen, fclose, left), serial events [(rank, text)]"""
    res = [[None] * nops for _ in range(P)]
    ftxt, stdio, sev = None, None, []
    for o in run.outs:
        w = o.split(None, 2)
        if w[0] == "F":
            ftxt = w[1] if w[1] != "big" else o.split(None, 1)[1]        # "big <size> <blocks> <off>:<hex> ..."
        elif w[0] == "S":
            stdio = tuple(int(x) for x in o.split()[1:4])
        elif w[0] == "E":
            sev.append((int(w[1]), w[2]))
        else:
            q, i = int(w[0]), int(w[1])
            if q < P and i < nops:
                res[q][i] = Res(w[2])
    return res, ftxt, stdio, sev


def io_event(text):
    """`io ...` note -> (fn index, co-simulation event text, return value, errno)"""
    w = text.split()
    fn = w[1]
    if fn == "fopen":
        return FOPEN, "C a 0 %s %s,%s" % (hx(MODES.get(w[2], 9)), hx(int(w[4])), hx(int(w[5]))), int(w[4]), int(w[5])
    if fn == "fwrite":
        data = b"" if w[4] == "-" else bytes.fromhex(w[4])
        return FWRITE, "C b 0 %s %s,%s" % (pl([int(w[2]), int(w[3])] + list(data)), hx(int(w[6])), hx(int(w[7]))), int(w[6]), int(w[7])
    if fn == "fread":
        data = b"" if w[7] == "-" else bytes.fromhex(w[7])
        return FREAD, "C c 0 %s %s" % (pl([int(w[2]), int(w[3])]), pl([int(w[5]), int(w[6])] + list(data))), int(w[5]), int(w[6])
    if fn == "fseek":
        return FSEEK, "C d 0 %s %s,%s" % (pl([int(w[2]), int(w[3])]), hx(int(w[5])), hx(int(w[6]))), int(w[5]), int(w[6])
    if fn == "ftell":
        return FTELL, "C e 0 - %s,%s" % (hx(int(w[3])), hx(int(w[4]))), int(w[3]), int(w[4])
    if fn == "fflush":
        return FFLUSH, "C f 0 - %s,%s" % (hx(int(w[3])), hx(int(w[4]))), int(w[3]), int(w[4])
    if fn == "fclose":
        return FCLOSE, "C 10 0 - %s,%s" % (hx(int(w[3])), hx(int(w[4]))), int(w[3]), int(w[4])
    raise ValueError("unknown stdio note " + text)


def mio_event(text):
    """`mio <kind> <args> -> <error code> <bytes> [<hex data>]` -> (kind, co-simulation event text, error code)
    open: <amode bits>; set_size: <size>; close: nothing; reads: <off> <tsize> <count>; writes: <off> <tsize> <count> <hex data>"""
    left, right = text.split("->")
    w, r = left.split(), right.split()
    kind = int(w[1])
    args = [int(x) for x in w[2:5]]
    if kind in (MWRITEAT, MWRITEATALL, MWRITE) and len(w) > 5 and w[5] != "-":
        args += list(bytes.fromhex(w[5]))
    if kind in (MREAD, MWRITE):
        args = args[1:]                     # no offset: [tsize, count] ++ data
    reply = [int(r[0]), int(r[1])] + (list(bytes.fromhex(r[2])) if len(r) > 2 and r[2] != "-" else [])
    return kind, "C %s 0 %s %s" % (hx(kind), pl(args), pl(reply)), int(r[0])


def failed_call(fn, ret, err):
    """did this stdio call fail?  (errno is meaningful where the wrapper code clears it before the call)"""
    if fn >= 20:
        return err != 0
    if fn == FOPEN:
        return ret == 0
    if fn in (FWRITE, FREAD):
        return err != 0
    if fn == FTELL:
        return ret < 0
    return ret != 0


def int32s(hexs):
    b = bytes.fromhex(hexs)
    return [int.from_bytes(b[k:k + 4], "little", signed=True) for k in range(0, len(b), 4)]


def rank_streams_sim(run, P):
    """per rank: list of ('op', i) | ('io', fn, evtext, ret, errno) | ('mpi', evtext) in program order"""
    by = [[] for _ in range(P)]
    for e in run.trace:
        r = e.get("r", -1)
        if 0 <= r < P:
            by[r].append(e)
    out = []
    for r in range(P):
        evs = []
        hidden = False
        for e in sorted(by[r], key=lambda e: e.get("s", 0)):
            f = e.get("f", "")
            if f == "note":
                t = e.get("text", "")
                if t.startswith("op "):
                    evs.append(("op", int(t.split()[1])))
                elif t.startswith("io "):
                    fn, txt, ret, err = io_event(t)
                    evs.append(("io", fn, txt, ret, err))
                elif t.startswith("mio-hide"):
                    hidden = t.split()[1] == "1"          # MPI calls made by the mock MPI I/O library itself
                elif t.startswith("mio "):
                    fn, txt, err = mio_event(t)
                    evs.append(("io", fn, txt, err, err))
            elif hidden:
                pass
            elif f == "MPI_Bcast":
                root = e["root"]
                if "in" in e:
                    v = pl(int32s(e["in"]))
                    evs.append(("mpi", "C 1 %s %s %s" % (hx(root), v, v)))
                else:
                    evs.append(("mpi", "C 1 %s - %s" % (hx(root), pl(int32s(e.get("out", ""))))))
            elif f == "MPI_Barrier":
                evs.append(("mpi", "C 2 0 - -"))
            elif f in ("MPI_Send", "MPI_Ssend"):
                evs.append(("mpi", "S %s %s %s" % (hx(e["dest"]), hx(e["tag"]), pl(int32s(e.get("d", ""))))))
            elif f == "MPI_Recv":
                evs.append(("mpi", "R %s %s %s %s" % (hx(e["src"]), hx(e["tag"]), hx(e.get("msrc", 0)), pl(int32s(e.get("d", ""))))))
            elif f in ("MPI_Abort", "abort", "Abort"):
                pass
            elif f.startswith("MPI_"):
                evs.append(("mpi", "C 63 0 - -"))       # an MPI call the model does not know: mismatch by construction
        out.append(evs)
    return out


def enc_result(r, tsize):
    """the model's result encoding of one Res: [class index; ocount; flag; nbytes] ++ bytes (whole items read)"""
    if r is None or r.kind in ("idle", "none"):
        return None
    if r.kind == "skip":
        return [-1]
    ci = CLASS_NAMES.index(r.cls) if r.cls in CLASS_NAMES else -1
    data = []
    if r.kind in ("R", "r") and r.ocount > 0:
        data = list(bytes.fromhex(r.hex)[:r.ocount * tsize])
    return [ci, r.ocount, r.flag, len(data)] + data


# ----------------------------------------------------------------------------------------------------------------
# the property oracle (independent of the Coq model)
# ----------------------------------------------------------------------------------------------------------------
def put(content, off, data):
    c = bytearray(content)
    if off > len(c):
        c += bytes(off - len(c))
    c[off:off + len(data)] = data
    return bytes(c)


def oracle(ctx, sc, cfg, res, ftxt, stdio, mem, failures, rep):
    """failures: None (unknown, configuration B) or per op index the list of (rank, fn name) of failed stdio calls.
    Returns the list of (key, text) violations."""
    V = []
    P = sc.P
    nofaults = not sc.faults and sc.pathkind == 0
    # reference semantics of the file, valid as long as no operation failed
    ref = None if sc.init is None else bytes(sc.init)
    ref_ok = True
    opened, mode = False, None
    real_ranks = [0] if cfg == "A" else list(range(P))
    for i, o in enumerate(sc.ops):
        k = o[0]
        fl = (failures or {}).get(i, [])
        if k in ("o", "c"):
            rr = [res[q][i] for q in real_ranks]
            if any(r is None for r in rr):
                V.append(("no-result:%s:%s" % (cfg, k), "operation %d (%s): a rank printed no result" % (i, k)))
                return V
            if k == "c" and not opened:
                continue
            cl = set(r.cls for r in rr)
            if len(cl) != 1:
                V.append(("disagree:%s:%s" % (cfg, k), "operation %d (%s): ranks return different classes %s" % (i, k, sorted(cl))))
                return V
            cls = rr[0].cls
            if failures is not None and (cls == "SUCCESS") != (not fl):
                V.append(("success-iff:%s:%s" % (cfg, k), "operation %d (%s): class %s although stdio calls failed: %s" % (i, k, cls, fl)))
            if k == "o":
                if cls == "SUCCESS":
                    if any(r.flag for r in rr):
                        V.append(("open-null:%s" % cfg, "operation %d: open succeeded but a rank has a NULL handle" % i))
                    opened, mode = True, o[1]
                    if o[1] == 1:
                        ref = b""
                    elif o[1] == 2 and ref is None and cfg not in BCFGS:
                        ref = b""          # mode "ab" creates the file (documented deviation from MPI I/O)
                else:
                    if not all(r.flag for r in rr):
                        V.append(("failed-open-handle:%s" % cfg, "operation %d: open failed with %s but a rank keeps a non-NULL handle" % (i, cls)))
                    opened = False
                    # without faults the outcome of open is determined by the file system
                    if nofaults or (not sc.faults and sc.pathkind in (1, 2)):
                        exp_ok = (sc.pathkind == 0 and not (o[1] == 0 and ref is None) and not (cfg in BCFGS and o[1] == 2 and ref is None))
                        if exp_ok:
                            V.append(("open-refused:%s:mode%d" % (cfg, o[1]), "operation %d: open mode %d fails with %s on a usable file" % (i, o[1], cls)))
                if cls == "SUCCESS" and not sc.faults:
                    if sc.pathkind != 0 or (o[1] == 0 and ref is None) or (cfg in BCFGS and o[1] == 2 and ref is None):
                        V.append(("open-accepted:%s" % cfg, "operation %d: open mode %d succeeds although the file cannot be opened" % (i, o[1])))
            else:
                if not all(r.flag for r in rr):
                    V.append(("close-handle:%s" % cfg, "operation %d: handle not reset to NULL by close" % i))
                opened = False
            continue
        if not opened:
            continue
        tsize = o[1]
        if k in ("W", "R"):
            args = o[3] if k == "W" else o[2]
            rr = [res[q][i] for q in range(P)]
            if any(r is None or r.cls is None for r in rr):
                V.append(("no-result:%s:%s" % (cfg, k), "operation %d (%s): a rank printed no result" % (i, k)))
                return V
            cl = set(r.cls for r in rr)
            if cfg != "A" and len(cl) != 1:
                V.append(("disagree:%s:%s" % (cfg, k), "operation %d (%s): ranks return different classes %s" % (i, k, sorted(cl))))
            if failures is not None:
                if cfg == "A":
                    for q in range(P):
                        fq = [f for f in fl if f[0] == q]
                        # also for a partial transfer with errno set (0 < ocount < count): the class must not be SUCCESS
                        if (rr[q].cls == "SUCCESS") != (not fq):
                            V.append(("success-iff:%s:%s" % (cfg, k),
                                      "operation %d (%s), logical rank %d: class %s, ocount %d of %d, failed stdio calls %s" % (i, k, q, rr[q].cls, rr[q].ocount, args[q][1], fq)))
                elif (list(cl)[0] == "SUCCESS") != (not fl):
                    V.append(("success-iff:%s:%s" % (cfg, k), "operation %d (%s): class %s on all ranks, failed stdio calls %s" % (i, k, sorted(cl), fl)))
            undefined = False
            for q in range(P):
                off, cnt = args[q]
                r = rr[q]
                if cfg in BCFGS and r.ocount == MPI_UNDEFINED and k == "R":
                    V.append(("ocount-undefined:%s" % cfg, "operation %d rank %d: read of %d elements of size %d at offset %d where the file ends inside an element: ocount is MPI_UNDEFINED (%d)"
                              % (i, q, cnt, tsize, off, r.ocount)))
                    undefined = True
                elif r.ocount < 0 or r.ocount > cnt:
                    V.append(("ocount-range:%s:%s" % (cfg, k), "operation %d (%s) rank %d: ocount %d for count %d" % (i, k, q, r.ocount, cnt)))
                if k == "R" and r.flag:
                    V.append(("read-overrun:%s" % cfg, "operation %d rank %d: bytes behind the read buffer were modified" % (i, q)))
            if failures is not None and any(failures.get(j) for j in range(i + 1)):
                ref_ok = False
            if k == "W":
                if ref_ok and ref is not None:
                    for q in range(P):
                        off, cnt = args[q]
                        if not (sc.faults):
                            if rr[q].ocount != cnt:
                                V.append(("ocount:%s:W" % cfg, "operation %d rank %d: wrote %d elements, ocount %d" % (i, q, cnt, rr[q].ocount)))
                        ref = put(ref, off, block(sc.dseed, o[2], q, cnt * tsize)) if cnt > 0 else ref
            else:
                if ref_ok and ref is not None and not sc.faults and not undefined:
                    for q in range(P):
                        off, cnt = args[q]
                        avail = ref[off:off + cnt * tsize]
                        n = len(avail) // tsize
                        got = bytes.fromhex(rr[q].hex)[:max(0, rr[q].ocount) * tsize]
                        if rr[q].ocount != n or got != avail[:n * tsize]:
                            V.append(("readback:%s" % cfg, "operation %d rank %d: read %d elements of size %d at offset %d: ocount %d data %s, the file holds %s there (%d whole elements)"
                                      % (i, q, cnt, tsize, off, rr[q].ocount, got.hex(), avail.hex(), n)))
        else:   # w / r on rank 0
            r = res[0][i]
            if r is None or r.cls is None:
                V.append(("no-result:%s:%s" % (cfg, k), "operation %d (%s): rank 0 printed no result" % (i, k)))
                return V
            off, cnt = (o[3], o[4]) if k == "w" else (o[2], o[3])
            # SUCCESS iff no stdio call of the operation failed - also when fread/fwrite transferred some but not all
            # elements and set errno (0 < ocount < count): the class must be the one of that errno, not SUCCESS
            if failures is not None and (r.cls == "SUCCESS") != (not fl):
                V.append(("success-iff:%s:%s" % (cfg, k),
                          "operation %d (%s): class %s, ocount %d of %d, failed stdio calls %s" % (i, k, r.cls, r.ocount, cnt, fl)))
            undefined = cfg in BCFGS and r.ocount == MPI_UNDEFINED and k == "r"
            if undefined:
                V.append(("ocount-undefined:%s" % cfg, "operation %d: read_at of %d elements of size %d at offset %d where the file ends inside an element: ocount is MPI_UNDEFINED (%d)"
                          % (i, cnt, tsize, off, r.ocount)))
            elif r.ocount < 0 or r.ocount > cnt:
                V.append(("ocount-range:%s:%s" % (cfg, k), "operation %d (%s): ocount %d for count %d" % (i, k, r.ocount, cnt)))
            if failures is not None and any(failures.get(j) for j in range(i + 1)):
                ref_ok = False
            if k == "w":
                if ref_ok and ref is not None:
                    if not sc.faults and r.ocount != cnt:
                        V.append(("ocount:%s:w" % cfg, "operation %d: wrote %d elements, ocount %d" % (i, cnt, r.ocount)))
                    ref = put(ref, off, block(sc.dseed, o[2], 0, cnt * tsize)) if cnt > 0 else ref
            else:
                if r.flag:
                    V.append(("read-overrun:%s" % cfg, "operation %d: bytes behind the read buffer were modified" % i))
                if ref_ok and ref is not None and not sc.faults and not undefined:
                    avail = ref[off:off + cnt * tsize]
                    n = len(avail) // tsize
                    got = bytes.fromhex(r.hex)[:max(0, r.ocount) * tsize]
                    if r.ocount != n or got != avail[:n * tsize]:
                        V.append(("readback:%s" % cfg, "operation %d: read_at %d elements of size %d at offset %d: ocount %d data %s, the file holds %s"
                                  % (i, cnt, tsize, off, r.ocount, got.hex(), avail.hex())))
    # the file afterwards (fault-free scenarios on a regular path)
    if nofaults and ref_ok and ftxt is not None:
        exp = "missing" if ref is None else ("=" if len(ref) == 0 else ref.hex())
        if ftxt != exp:
            fam = sc.family
            key = "file:%s" % cfg
            if fam == "append-not-at-end" and cfg not in BCFGS:
                key = "append-offset-ignored:%s" % cfg
            V.append((key, "file afterwards is %s, the operations at their offsets give %s" % (ftxt[:200], exp[:200])))
    if cfg == "C" and sc.family in OFFSET_FAMILIES:
        V = [(("offset-ignored:C" if k in ("file:C", "readback:C") else k), t) for k, t in V]
    # nothing left behind
    if mem not in (0, None):
        V.append(("memory:%s" % cfg, "sc_memory_status changed by %s over the scenario" % mem))
    if stdio is not None and cfg == "Bsim" and stdio[2] != 0:
        V.append(("handle-left-open:%s" % cfg, "%d MPI file handles (all ranks together) still open after the scenario" % stdio[2]))
    elif stdio is not None and cfg != "B" and stdio[2] != 0:
        V.append(("stream-left-open:%s" % cfg, "%d FILE* still open after the scenario (fopen calls %d, fclose calls %d)" % (stdio[2], stdio[0], stdio[1])))
    if cfg == "Bsim" and sc.family == "bsim-coll-fault-one-rank":
        # F-C12i: the MPI library reports an error of a collective transfer to one rank only: the wrapper hands it on unsynchronised
        V = [(("rank-local-error:Bsim" if k in ("disagree:Bsim:W", "disagree:Bsim:R", "success-iff:Bsim:W", "success-iff:Bsim:R") else k), t) for k, t in V]
    return V


class SparseRef:
    """reference file of the big-offset family: bytes by position, holes read as zero"""
    def __init__(self):
        self.b, self.size = {}, 0

    def put(self, off, data):
        for k, v in enumerate(data):
            self.b[off + k] = v
        if data:
            self.size = max(self.size, off + len(data))

    def get(self, off, n):
        return bytes(self.b.get(p, 0) for p in range(off, max(off, min(off + n, self.size))))


def hexint(t):
    return -int(t[1:], 16) if t.startswith("-") else int(t, 16)


def oracle_big(sc, cfg, res, ftxt, stdio, mem, streams):
    """family big-offset (fault-free, explicit-offset semantics, no model prediction): every call SUCCESS, ocount, data read =
    data written at that very offset, fstat size = max offset + length, windows of the file (pread), and from the stdio log:
    every fseek of an explicit-offset call was made with exactly the requested offset / the position ftell had returned"""
    V = []
    key = lambda what: "big-offset:%s:%s" % (cfg, what)
    ref = SparseRef()
    mode = None
    wins = []
    for i, o in enumerate(sc.ops):
        k = o[0]
        if k in ("o", "c"):
            r = res[0][i]
            if r is None or r.cls != "SUCCESS":
                V.append((key(k), "operation %d (%s): class %s" % (i, k, None if r is None else r.cls)))
                return V
            if k == "o":
                mode = o[1]
                if mode == 1:
                    ref = SparseRef()
            continue
        tsize = o[1]
        if k in ("w", "W"):
            args = [(o[3], o[4])] if k == "w" else list(o[3])
        else:
            args = [(o[2], o[3])] if k == "r" else list(o[2])
        for q, (off, cnt) in enumerate(args):
            r = res[q][i]
            what = "operation %d (%s) rank %d: %d elements of size %d at offset %d (0x%x)" % (i, k, q, cnt, tsize, off, off)
            if r is None or r.cls is None:
                V.append((key("no-result"), what + ": no result"))
                return V
            if k in ("w", "W"):
                data = block(sc.dseed, o[2], q, cnt * tsize)
                wins.append((off, len(data)))
                if r.cls != "SUCCESS" or r.ocount != cnt:
                    V.append((key("write"), what + ": class %s, ocount %d for a legal write" % (r.cls, r.ocount)))
                ref.put(off, data)       # (append mode: the scenarios give the end of file as offset)
            else:
                avail = ref.get(off, cnt * tsize)
                n = len(avail) // tsize
                got = bytes.fromhex(r.hex)[:max(0, r.ocount) * tsize]
                if r.cls != "SUCCESS":
                    V.append((key("read"), what + ": class %s for a legal read" % r.cls))
                elif r.ocount != n or got != avail[:n * tsize]:
                    V.append((key("readback"), what + ": ocount %d data %s, written there: %s (%d whole elements)" % (r.ocount, got.hex(), avail.hex(), n)))
                if r.flag:
                    V.append((key("read-overrun"), what + ": bytes behind the read buffer were modified"))
    # the file: never read as a whole
    w = (ftxt or "").split()
    if len(w) < 3 or w[0] != "big":
        V.append((key("file-size"), "file afterwards is not large: %s; expected apparent size %d" % ((ftxt or "?")[:120], ref.size)))
    else:
        if int(w[1]) != ref.size:
            V.append((key("file-size"), "fstat size %s, the largest offset + length written is %d" % (w[1], ref.size)))
        if int(w[2]) * 512 > (1 << 22):
            V.append((key("not-sparse"), "the file occupies %s blocks of 512 bytes" % w[2]))
        for (off, n), t in zip(wins, w[3:]):
            o_, h = t.split(":")
            got = b"" if h == "-" else bytes.fromhex(h)
            if int(o_) != off or got != ref.get(off, n):
                V.append((key("file-window"), "the file holds %s at offset %d (0x%x), written there: %s" % (got.hex(), off, off, ref.get(off, n).hex())))
                break
    # the stdio log: ftell -> p; fseek (off); transfer; fseek (p) for every explicit-offset call (in C: of rank 0)
    if streams is not None:
        cur, per = None, {}
        evs = streams[0]
        for e in evs:
            if e[0] == "op":
                cur = (e[1], e[2] if len(e) > 2 else 0)
            elif e[0] == "io" and cur is not None:
                per.setdefault((cur[0], e[5] if len(e) > 5 else 0), []).append(e)
        for i, o in enumerate(sc.ops):
            if o[0] not in "wWrR":
                continue
            args = [(o[3], o[4])] if o[0] == "w" else list(o[3]) if o[0] == "W" else [(o[2], o[3])] if o[0] == "r" else list(o[2])
            for q, (off, cnt) in enumerate(args):
                if cnt == 0:
                    continue
                io = per.get((i, q), [])
                tells = [e[3] for e in io if e[1] == FTELL]
                seeks = [tuple(hexint(x) for x in e[2].split()[3].split(",")) for e in io if e[1] == FSEEK]
                exp = [(off, 0), (tells[0] if tells else None, 0)]
                if len(tells) != 1 or seeks != exp:
                    V.append((key("fseek-args"), "operation %d (%s) rank %d at offset %d (0x%x): ftell returned %s, fseek was called with %s, expected %s"
                              % (i, o[0], q, off, off, tells, seeks, exp)))
    if mem not in (0, None):
        V.append(("memory:%s" % cfg, "sc_memory_status changed by %s over the scenario" % mem))
    if stdio is not None and stdio[2] != 0:
        V.append(("stream-left-open:%s" % cfg, "%d FILE* still open after the scenario" % stdio[2]))
    return V


# ----------------------------------------------------------------------------------------------------------------
def run(ctx):
    import genall
    st = genall.run(["ErrClassC12", "OpenC12"])
    for g, s in st.items():
        if s.startswith("FAILED"):
            ctx.tie_broken("translator group " + g, s)
    ctx.props()
    H = os.path.join(vlib.TOOLS, "harness", "c12_harness.c")
    vsim = ctx.variant(mpi="sim", san=True)
    hsim = ctx.cc([H, os.path.join(vlib.TOOLS, "simmpi", "simmpi.c")], os.path.join(ctx.scratch, "c12_sim"), vsim, extra=["-DC12_SIM", WRAP])
    vser = ctx.variant(mpi="off", san=True)
    hser = ctx.cc([H], os.path.join(ctx.scratch, "c12_ser"), vser, extra=["-DC12_SERIAL", WRAP])
    # configuration B on the simulated MPI: libsc with SC_ENABLE_MPIIO against the mock MPI I/O library of the harness
    vsio = ctx.variant(mpi="sim", san=True, config_defs=("SC_ENABLE_MPIIO",),
                       cflags_extra=("-include", os.path.join(vlib.TOOLS, "harness", "c12_mpiio.h")))
    hsio = ctx.cc([H, os.path.join(vlib.TOOLS, "simmpi", "simmpi.c")], os.path.join(ctx.scratch, "c12_sio"), vsio, extra=["-DC12_SIMIO", WRAP])
    scens = gen_scenarios(ctx)
    if ctx.replay:
        rp = json.load(open(ctx.replay)).get("replay", {})
        if "scenario" in rp:
            scens = [Scen.from_json(rp["scenario"])] + scens[:5]
    ctx.log("%d scenarios" % len(scens))
    env = dict(os.environ, VERIF_SCRATCH=ctx.scratch, ASAN_OPTIONS="detect_leaks=0")
    model_lines, model_index = [], []
    dist = {"P": {}, "family": {}, "adversary": {}, "faults": {}, "config": {"A": 0, "B": 0, "C": 0, "Bsim": 0}}
    nviol = {}

    def report(sc, cfg, key, what, extra):
        if sc.family.startswith(NOISE_FAMILY):
            what = "[%s] %s" % (key, what)
            key = sc.family                 # errno-noise:<site>
        nviol[key] = nviol.get(key, 0) + 1
        if nviol[key] <= 1:
            rep = dict(scenario=sc.to_json(), configuration=cfg)
            rep.update(extra)
            ctx.violation(key, "configuration %s, P=%d, family %s: %s" % (cfg, sc.P, sc.family, what), rep)

    files = {}
    for cfg, exe in (("C", hsim), ("A", hser), ("Bsim", hsio)):
        if cfg == "Bsim":
            sel = [si for si, sc in enumerate(scens) if "S" in sc.cfgs or ("B" in sc.cfgs and not sc.faults)]
        else:
            sel = [si for si, sc in enumerate(scens) if cfg in sc.cfgs]          # (only the big-offset family restricts A / C)
        mcfg = "B" if cfg == "Bsim" else cfg                                     # name of the configuration for the model driver
        text = "".join(scens[si].harness_line() + "\n" for si in sel)
        rc, lines, err = ctx.run_lines([exe], text, timeout=2400, env=env)
        runs = mpitrace.parse_runs(lines)
        if rc != 0 or len(runs) != len(sel):
            k = len(runs) - 1
            bad = scens[sel[k]] if 0 <= k < len(sel) else scens[0]
            report(bad, cfg, "harness-crash:%s" % cfg, "harness ended with status %s after %d of %d scenarios: %s" % (rc, len(runs), len(sel), err[-1500:]),
                   dict(stderr=err[-4000:]))
        for ri, si in enumerate(sel):
            sc = scens[si]
            if ri >= len(runs):
                break
            r = runs[ri]
            P, nops = sc.P, len(sc.ops)
            dist["config"][cfg] += 1
            res, ftxt, stdio, sev = parse_outs(r, P, nops)
            rep = dict(rc=r.rc, report=r.report[:1200], outs=r.outs[:60])
            if r.rc not in (0, 4):
                report(sc, cfg, "schedule:%s" % cfg, "run did not end normally (simmpi code %s): %s" % (r.rc, r.report[:300]), rep)
                continue
            # per-rank event streams
            if cfg in ("C", "Bsim"):
                streams = rank_streams_sim(r, P)
            else:
                one = []
                for q, t in sev:
                    if t.startswith("op "):
                        one.append(("op", int(t.split()[1]), q))
                    else:
                        fn, txt, ret, e = io_event(t)
                        one.append(("io", fn, txt, ret, e, q))
                streams = [one]
            # failed stdio calls per operation
            failures = {}
            noisy = set((f[0], f[1], f[2]) for f in sc.faults if f[4] == NOISE)
            for q, evs in enumerate(streams):
                cur = None
                ncall = {}
                for e in evs:
                    if e[0] == "op":
                        cur = e[1]
                    elif e[0] == "io":
                        who = e[5] if cfg == "A" else q
                        kk = ncall.get((who, e[1]), 0)
                        ncall[(who, e[1])] = kk + 1
                        if (who, e[1], kk) in noisy and e[1] in (FWRITE, FREAD):
                            continue            # a complete transfer that leaves errno set is not a failed call
                    if e[0] == "io" and failed_call(e[1], e[3], e[4]):
                        if e[1] in (MOPEN, MSETSIZE, MCLOSE) and q != 0:
                            continue            # a collective MPI I/O call with one outcome: counted once (rank 0)
                        failures.setdefault(cur, []).append((e[5] if cfg == "A" else q, FN_NAMES[e[1]]))
            aborted = (r.rc == 4)
            big = sc.family == BIG_FAMILY
            # ---- model: prediction of the global model (not for the big-offset family: the model's file is a list of bytes,
            #      12 GiB of zeros cannot be materialised; the theorems hold for every offset, the tie is co-simulation + oracle)
            fifo = sc.pathkind == 3
            if not big and not fifo:
                model_lines.append("G %s %s %s %s %s" % (mcfg, hx(P), sc.model_node(), sc.model_plan(), sc.model_ops()))
                model_index.append(("G", cfg, si, dict(res=res, ftxt=ftxt, stdio=stdio, mem=r.mem, aborted=aborted,
                                                       nfail=sum(len(v) for v in failures.values()))))
            # ---- model: co-simulation of every rank
            for q, evs in enumerate(streams):
                seq = [e[2] if e[0] == "io" else e[1] for e in evs if e[0] in ("io", "mpi")]
                if aborted:
                    seq.append("X")
                else:
                    out = []
                    if cfg in ("C", "Bsim"):
                        for i, o in enumerate(sc.ops):
                            if o[0] in "wr" and q != 0:
                                continue        # an explicit-offset operation of rank 0: the other ranks do nothing (the harness prints idle or skip)
                            enc = enc_result(res[q][i], o[1] if o[0] in "WRwr" else 1)
                            if enc is not None:
                                out += enc
                    else:
                        for i, o in enumerate(sc.ops):
                            for lq in range(P):
                                enc = enc_result(res[lq][i], o[1] if o[0] in "WRwr" else 1)
                                if enc is not None:
                                    out += enc
                    seq.append("O " + pl(out))
                model_lines.append("T %s %s %s %s | %s" % (mcfg, hx(P), hx(q), sc.model_ops(), " ; ".join(seq)))
                model_index.append(("T", cfg, si, q))
            # ---- oracle
            if aborted:
                # SC_ABORT is a loud, collective end: the property makes no claim; it must have a cause
                if not any(failures.values()):
                    report(sc, cfg, "abort-without-cause:%s" % cfg, "the run aborted although no stdio call failed: %s" % r.report[:300], rep)
                continue
            if fifo:
                # a named pipe: every open and close must succeed on every rank, nothing may be left behind
                for i, o in enumerate(sc.ops):
                    for q in ([0] if cfg == "A" else range(P)):
                        rq = res[q][i]
                        if rq is None or rq.cls != "SUCCESS" or rq.flag != (1 if o[0] == "c" else 0) or \
                                (o[0] == "W" and rq.ocount != o[3][q][1]):
                            report(sc, cfg, "fifo-open:%s" % cfg, "operation %d (%s, mode %s) on a named pipe, rank %d: class %s, ocount %s, handle NULL = %s (fopen of glibc succeeds and leaves errno = ESPIPE for mode ab)"
                                   % (i, o[0], o[1] if o[0] == "o" else "-", q, None if rq is None else rq.cls, None if rq is None else rq.ocount, None if rq is None else rq.flag), rep)
                            break
                if stdio is not None and stdio[2] != 0:
                    report(sc, cfg, "stream-left-open:%s" % cfg, "%d FILE* still open after the scenario on a named pipe (fopen calls %d, fclose calls %d)" % (stdio[2], stdio[0], stdio[1]), rep)
                if r.mem not in (0, None):
                    report(sc, cfg, "memory:%s" % cfg, "sc_memory_status changed by %s over the scenario" % r.mem, rep)
                continue
            if big:
                if any(failures.values()):
                    report(sc, cfg, "big-offset:%s:stdio-failure" % cfg, "stdio calls failed in a fault-free scenario: %s" % failures, rep)
                for key, what in oracle_big(sc, cfg, res, ftxt, stdio, r.mem, streams):
                    report(sc, cfg, key, what, rep)
                w = (ftxt or "").split()
                files[(si, cfg)] = " ".join(w[:2] + w[3:])[:4000]           # without the block count
                continue
            for key, what in oracle(ctx, sc, cfg, res, ftxt, stdio, r.mem, failures, rep):
                report(sc, cfg, key, what, rep)
            if not sc.faults and sc.pathkind == 0:
                files[(si, cfg)] = ftxt
    # configurations must produce the same file for the same fault-free scenario
    for si, sc in enumerate(scens):
        a, c = files.get((si, "A")), files.get((si, "C"))
        if a is not None and c is not None and a != c:
            key = "configs-differ:AC"
            if sc.family in OFFSET_FAMILIES:
                key = "offset-ignored:C"
            report(sc, "A/C", key, "file written without MPI: %s, with MPI but without MPI I/O: %s" % (a[:200], c[:200]), {})
        # the MPI I/O configuration on the mock library against the two others (the known exceptions of the cross-configuration
        # theorem have their own keys: the fallback ignores offsets, mode "ab" ignores offsets and creates a missing file)
        b = files.get((si, "Bsim"))
        for other, o in (("A", a), ("C", c)):
            if b is not None and o is not None and b != o:
                key = "configs-differ:Bsim%s" % other
                if other == "C" and sc.family in OFFSET_FAMILIES:
                    key = "offset-ignored:C"
                elif sc.family == "append-not-at-end":
                    key = "append-offset-ignored:Bsim%s" % other
                elif sc.family in ("append-creates", "sessions-append-missing"):
                    key = "append-missing-file:Bsim%s" % other
                report(sc, "Bsim/" + other, key, "file with MPI I/O (mock library): %s, configuration %s: %s" % (b[:200], other, o[:200]), {})
    # ---- configuration B: MPI I/O under Open MPI, oracle only
    try:
        run_config_b(ctx, scens, files, report, dist, H)
    except vlib.BuildError as e:
        ctx.notes["configuration_B"] = "not exercised: " + str(e)[-400:]
    # ---- run the model on everything
    try:
        mexe = ctx.model("c12")
        rc2, mout, err2 = ctx.run_lines([mexe], "\n".join(model_lines) + "\n", timeout=2400)
        mout = [l for l in mout if l != ""]
        if rc2 != 0 or len(mout) != len(model_lines):
            ctx.tie_broken("c12 model run", "exit %s, %d of %d lines: %s" % (rc2, len(mout), len(model_lines), err2[-500:]))
        nmis = 0
        ncos = 0
        for idx, l in zip(model_index, mout):
            sc = scens[idx[2]]
            if idx[0] == "T":
                ncos += 1
                if not l.startswith("OK"):
                    nmis += 1
                    if nmis <= 3:
                        ctx.tie_broken("co-simulation configuration %s rank %d of scenario %s" % (idx[1], idx[3], sc.harness_line()[:300]), l[:500])
            else:
                obs = idx[3]
                exp = predict_text(sc, idx[1], obs)
                if exp != l:
                    nmis += 1
                    if nmis <= 3:
                        ctx.tie_broken("global model vs configuration %s on scenario %s" % (idx[1], sc.harness_line()[:300]), "model: %s | implementation: %s" % (l[:400], exp[:400]))
        ctx.notes["cosimulated_rank_traces"] = ncos
        ctx.notes["model_mismatches"] = nmis
    except vlib.BuildError as e:
        ctx.tie_broken("c12 model build", str(e)[-1500:])
    for sc in scens:
        dist["P"][sc.P] = dist["P"].get(sc.P, 0) + 1
        dist["family"][sc.family] = dist["family"].get(sc.family, 0) + 1
        dist["adversary"][sc.adv] = dist["adversary"].get(sc.adv, 0) + 1
        for f in sc.faults:
            n = FN_NAMES[f[1]]
            dist["faults"][n] = dist["faults"].get(n, 0) + 1
        ctx.count_case(sc.canon(), nontrivial=len(sc.ops) > 1)
    ctx.cov["disagreements_checked"] = len(model_lines)
    ctx.cov["rule"] = ("scenarios = operation sequences (open / collective write / collective read / explicit-offset read+write of rank 0 / close) "
                       "on one file, run by the real code in configuration C (MPI without MPI I/O on the simulated MPI, P=%s, all 8 scheduler adversaries, "
                       "random seeds) and configuration A (no MPI; the P logical ranks one after the other), fault-free ones also in configuration B "
                       "(MPI I/O): under Open MPI (oracle only) and on the simulated MPI against the mock MPI I/O library (co-simulation of every MPI I/O call + global model + oracle; "
                       "there also with injected MPI error codes at MPI_File_open / set_size / close / read_at / write_at / read_at_all / write_at_all, code sweep 1..57); "
                       "sessions = sequences of create / append / read opens on an existing / missing file, missing directory, directory; block lengths 0..5 elements of size 1/4/8, offsets consecutive / with gaps / reversed / beyond EOF / beyond 2^31 and 2^32 in a sparse file (family big-offset), "
                       "modes read / create / append, missing file, missing directory, directory, a failing stdio call (fopen, fwrite, fread, fseek, "
                       "ftell, fflush, fclose; errno sweep 1..134) at each rank and step; distinct = distinct (P, data, path, faults, operations); "
                       "non-trivial = more than one operation" % ("1..6" if ctx.quick else "1..8,12"))
    ctx.notes["distribution"] = dist
    ctx.notes["violations_by_key"] = nviol
    for sc in scens[:: max(1, len(scens) // 5)][:5]:
        ctx.sample(dict(P=sc.P, family=sc.family, line=sc.harness_line()[:300]))
    ctx.cov["trusted_base"] = ["tools/simmpi (simulated MPI) and its trace",
                               "stdio interposition of the harness (--wrap) and glibc's stdio as the file system; the model's stdio (unbuffered, one file) is validated against it on every scenario",
                               "tools/c2g translation of sc_io_error_class (validated by the errno sweep through a failing fopen in both configurations)",
                               "the step from the per-rank programs to the global sequential model is validated by co-simulation plus comparison of every output, not proved",
                               "configuration B: MPI I/O is a contract, stated as the executable semantics coq/C12/MpiioModel.v (m_open, m_set_size, m_close, m_write_at, m_read_at: one byte array, one amode per open, "
                               "collective calls synchronise and take effect in rank order, a failing write transfers nothing); the mock MPI I/O library of the harness implements it and is co-simulated against it; "
                               "Open MPI (romio321) is judged by the oracle only and compared file by file with A, C and the mock",
                               "tools/harness/c12_mpiio.h: MPI I/O declarations on top of the simulated mpi.h (constants of Open MPI 4.1)",
                               "tools/c2g group OpenC12 (slice conventions of slicelib.py + class OpenT of groups_C12.py: calls as effects, `(*p)->f` as location, string literals as numbers)"]
    ctx.assumptions += ["MPI delivers messages in order per (source, communicator); Bcast gives every rank the root's value",
                        "MPI_Error_class maps exactly MPI_SUCCESS to MPI_SUCCESS; MPI_File_open leaves MPI_FILE_NULL behind exactly when it fails; the serial sc_MPI_Bcast / sc_MPI_Comm_rank of libsc are no-op / rank 0",
                        "a failing stdio call sets errno > 0 (POSIX)"]
    return "proof"


def predict_text(sc, cfg, obs):
    """canonical text of the implementation's outputs in the format of the driver's G lines"""
    if obs["aborted"]:
        return "ABORT"
    res = obs["res"]
    parts = []
    real = [0] if cfg == "A" else list(range(sc.P))
    for i, o in enumerate(sc.ops):
        per = []
        if o[0] in ("o", "c"):
            rr = real
        elif o[0] in ("W", "R"):
            rr = list(range(sc.P))
        else:
            rr = [0]
        for q in rr:
            enc = enc_result(res[q][i], o[1] if o[0] in "WRwr" else 1)
            per.append(pl(enc) if enc is not None else "?")
        parts.append(" ".join(per))
    ftxt = obs["ftxt"] or "?"
    if ftxt not in ("missing", "dir", "=", "?"):
        ftxt = pl(bytes.fromhex(ftxt))
    st = obs["stdio"] or (0, 0, 0)
    return " | ".join(parts) + " # %s %s %s %s" % (ftxt, hx(obs["nfail"]), hx(st[2]), hx(obs["mem"] or 0))


def run_config_b(ctx, scens, files, report, dist, H):
    """fault-free scenarios under Open MPI with MPI I/O; one mpirun per P"""
    vb = ctx.variant(mpi="ompi", san=False, config_defs=("SC_ENABLE_MPIIO",))
    hb = ctx.cc([H], os.path.join(ctx.scratch, "c12_ompi"), vb, extra=["-DC12_REALMPI", WRAP])
    sel = [(si, sc) for si, sc in enumerate(scens) if "B" in sc.cfgs and not sc.faults]
    byP = {}
    for si, sc in sel:
        byP.setdefault(sc.P, []).append((si, sc))
    nrun = 0
    for P, lst in sorted(byP.items()):
        if P > 6:
            continue
        if ctx.quick:
            lst = lst[:25]
        cf = os.path.join(ctx.scratch, "b_cases.%d" % P)
        of = os.path.join(ctx.scratch, "b_out.%d" % P)
        open(cf, "w").write("".join(sc.harness_line() + "\n" for _, sc in lst))
        # ROMIO: Open MPI's default component (ompio 4.1.4) returns wrong data for overlapping collective reads, reports the
        # requested count beyond the end of file and leaves garbage in holes - behaviour of the MPI library, not of libsc
        rc, out = vlib.sh(["mpirun", "--allow-run-as-root", "--oversubscribe", "--mca", "io", "romio321", "-np", str(P), hb, cf, of, ctx.scratch], timeout=600,
                          env=dict(os.environ, OMPI_MCA_rmaps_base_oversubscribe="1"))
        if rc != 0:
            ctx.notes["configuration_B"] = "mpirun -np %d ended with status %s: %s" % (P, rc, out[-300:])
            return
        per = []
        for q in range(P):
            try:
                per.append(mpitrace.parse_runs(open(of + ".%d" % q).read().split("\n")))
            except OSError:
                ctx.notes["configuration_B"] = "no output of rank %d" % q
                return
        for j, (si, sc) in enumerate(lst):
            if any(j >= len(p) for p in per):
                report(sc, "B", "harness-crash:B", "MPI I/O run produced no output for this scenario", {})
                break
            res = [[None] * len(sc.ops) for _ in range(P)]
            ftxt, mem = None, 0
            for q in range(P):
                rq, f, _, _ = parse_outs(per[q][j], P, len(sc.ops))
                res[q] = rq[q]
                ftxt = f if f is not None else ftxt
                mem = mem or per[q][j].mem
            nrun += 1
            dist["config"]["B"] += 1
            # collective reads that reach beyond the end of file are not judged in B: both MPI I/O components of Open MPI
            # report the requested count (and leave stale bytes) there - behaviour of the MPI library, not of libsc
            sc_b, keep = without_eof_collective_reads(sc)
            res_b = [[res[q][i] for i in keep] for q in range(P)]
            for key, what in oracle(ctx, sc_b, "B", res_b, ftxt, None, mem, None, {}):
                report(sc, "B", key, what, dict(outs=[per[q][j].outs[:20] for q in range(P)]))
            if sc.pathkind == 0:
                for other in ("A", "C"):
                    o = files.get((si, other))
                    if o is not None and ftxt is not None and o != ftxt:
                        key = "configs-differ:B%s" % other
                        if other == "C" and sc.family in OFFSET_FAMILIES:
                            key = "offset-ignored:C"
                        report(sc, "B/" + other, key, "file with MPI I/O: %s, configuration %s: %s" % (ftxt[:200], other, o[:200]), {})
    ctx.notes["configuration_B"] = "exercised: %d fault-free scenarios under Open MPI (mpirun, MPI I/O component romio321), judged by the oracle and compared with the files of A and C" % nrun


def without_eof_collective_reads(sc):
    """the scenario without the collective reads in which some rank reaches beyond the end of file, and the kept indices"""
    size = 0 if sc.init is None else len(sc.init)
    ops, keep = [], []
    for i, o in enumerate(sc.ops):
        if o[0] == "o" and o[1] == 1:
            size = 0
        if o[0] == "W":
            for off, cnt in o[3]:
                if cnt:
                    size = max(size, off + cnt * o[1])
        if o[0] == "w" and o[4]:
            size = max(size, o[3] + o[4] * o[1])
        if o[0] == "R" and any(cnt and off + cnt * o[1] > size for off, cnt in o[2]):
            continue
        ops.append(o)
        keep.append(i)
    return Scen(sc.P, ops, sc.init, sc.pathkind, sc.faults, sc.seed, sc.adv, sc.dseed, sc.family, sc.cfgs), keep
