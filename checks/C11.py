"""C11 - sinks and sources (sc_io.c:40-617).  T2: hand-written executable model (coq/C11/IoModel.v) with
machine-checked theorems (Props/Properties_C11.v); tie = the extracted model and the real library run
on the same operation sequences (buffer-, view-, filename- and FILE*-backed objects, write/append,
stdio faults injected through ld --wrap), compared token by token; an independent byte-string oracle
in Python judges every implementation output.

Case file (one case per line, fields separated by blanks; byte strings are hex, '-' (empty) or
'#len,seed' (pseudo-random, same generator in harness/driver/oracle)):
  K dev mode esz old cap ops...   sink: dev b(owner array) v(view array, cap elements) n(filename) f(FILE*);
                                  mode w|a (for f also W|A: fopen mode w|a, crossed sink mode argument);
                                  ops w:<bytes>[:k] a:<align>[:k] c[:!] d[:F|C|FC]   (k: fwrite transfers k;
                                  !: fflush fails; F/C: fflush/fclose fail inside destroy)
  R dev p content ops...          source: dev b|v (p = element size) n (p unused) f (p = start offset);
                                  ops r:n[:k,e,r] (count ptr) x:n[:k,e,r] (no count ptr) s:n[:!] t:n[:!] (NULL data,
                                  with/without count ptr) a:<align>[:!] c m M:n X:n N:n z:<count> d[:C]
  L content prebuf faults...      save then load; faults O W:k F C (save) o c R:i:k,e,r (load)
Output: one token per op (return code and the public state fields afterwards), see the drivers."""
import os, sys, json
import vlib

SENT = 0xEE
BWINS = 16384


# ------------------------------------------------------------------ byte helpers (shared format)
def lcg(n, seed):
    x = seed
    out = bytearray()
    for _ in range(n):
        x = (x * 1103515245 + 12345) & 0x7fffffff
        out.append((x >> 16) & 0xff)
    return bytes(out)


def parse_bytes(s):
    if s in ("-", ""):
        return b""
    if s[0] == "#":
        l, sd = s[1:].split(",")
        return lcg(int(l), int(sd))
    return bytes.fromhex(s)


def dump(b):
    if len(b) == 0:
        return "."
    if len(b) > 1024:
        h = 0xcbf29ce484222325
        for x in b:
            h = ((h ^ x) * 0x100000001b3) & 0xffffffffffffffff
        return "H%d:%x" % (len(b), h)
    return b.hex()


def enc(b):
    return b.hex() if b else "-"


def ceil_div(a, b):
    return (a + b - 1) // b


# ------------------------------------------------------------------ the oracle: plain byte strings
# expected tokens are lists of fields; None = not judged; rc fields are "0", "-2" or "!0" (any nonzero)
def oracle_sink(t):
    dev, mode, esz, old, cap = t[0], t[1], int(t[2]), parse_bytes(t[3]), int(t[4])
    ops = t[5:]
    buf = dev in "bv"
    keep = mode in "aA"
    content = old if keep else b""
    mem = bytearray(old + bytes([SENT]) * (cap * esz - len(old))) if dev == "v" else None
    cin = cout = 0
    dead = False
    exp = []
    final = None

    def st(cnt_judged=True):
        if buf:
            return [str(len(content)), str(cin), str(cout), str(ceil_div(len(content), esz)) if cnt_judged else None]
        return ["0", str(cin), str(cout), "-"]

    for op in ops:
        p = op.split(":")
        if p[0] in "wa":
            if dead:
                exp.append(None)
                continue
            if p[0] == "w":
                d = parse_bytes(p[1])
            else:
                al = int(p[1])
                d = bytes((al - cout % al) % al)
            k = int(p[2]) if len(p) > 2 else None
            if len(d) == 0:
                exp.append(["0"] + st())
            elif dev == "v" and ceil_div(len(content) + len(d), esz) * esz > cap * esz:
                exp.append(["!0"] + st(False))
                dead = True
            elif not buf and k is not None and k < len(d):
                content += d[:k]
                exp.append(["!0"] + st())
                dead = True
            else:
                content += d
                cin += len(d)
                cout += len(d)
                exp.append(["0"] + st())
        elif p[0] == "c":
            if dead:
                exp.append(None)
                continue
            if buf and len(content) % esz != 0:
                exp.append(["-2"] + st() + ["-", "-"])
            elif not buf and len(p) > 1:
                exp.append(["!0"] + st() + ["-", "-"])
                dead = True
            else:
                a, b = cin, cout
                cin = cout = 0
                exp.append(["0"] + st() + [str(a), str(b)])
        elif p[0] == "C":
            # complete with NULL for the counters not selected by the mask: the counters restart all the same
            if dead:
                exp.append(None)
                continue
            mask = int(p[1])
            if buf and len(content) % esz != 0:
                exp.append(["-2"] + st() + ["-", "-"])
            else:
                a, b = cin, cout
                cin = cout = 0
                exp.append(["0"] + st() + [str(a) if mask & 1 else "-", str(b) if mask & 2 else "-"])
        elif p[0] == "d":
            if dead:
                exp.append(None)
            elif buf:
                exp.append(["0" if len(content) % esz == 0 else "!0"])
            else:
                fl = p[1] if len(p) > 1 else ""
                bad = ("F" in fl) or ("C" in fl and dev == "n")
                exp.append(["!0" if bad else "0"])
            if dev == "b":
                final = "%d:%s" % (ceil_div(len(content), esz), dump(content))
            elif dev == "v":
                if dead:
                    # element count after the refused write is not judged; the viewed memory is
                    final = (None, dump(bytes(content) + bytes(mem[len(content):])))
                else:
                    final = "%d:%s" % (ceil_div(len(content), esz), dump(bytes(content) + bytes(mem[len(content):])))
            else:
                final = dump(content)
    return exp, final


def oracle_source(t):
    dev, p, stored = t[0], int(t[1]), bytearray(parse_bytes(t[2]))
    ops = t[3:]
    buf = dev in "bv"
    esz = p if buf else 1
    pos = 0 if dev != "f" else p
    cin = cout = 0
    eof = False
    mirror = None
    dead = False
    unjudged = False      # after a resize behind the source's back only the model tie judges
    exp = []

    def left():
        return max(0, len(stored) - pos)

    def st():
        return [str(pos), str(cin), str(cout), "1" if eof else "0"]

    for i, op in enumerate(ops):
        q = op.split(":")
        c = q[0]
        if dead or (unjudged and c != "z"):
            exp.append(None)
            if c == "z":
                pass
            continue
        if c in "rxst":
            n = int(q[1])
            wd, wc = c in "rx", c in "rs"
            flt = q[2] if len(q) > 2 else None
            sent = bytes([SENT]) * n
            if n == 0:
                exp.append(["0", "0" if wc else "-"] + st() + ["." if wd else "-"])
                continue
            if eof:
                # the end has been registered by an earlier call
                if wc:
                    exp.append(["0", "0"] + st() + [dump(sent) if wd else "-"])
                else:
                    # documented: "Returns an error if bytes_out is NULL and less than bytes_avail are read" -
                    # an exact request that cannot be met is an error (F-C11b, repaired by 103c295)
                    exp.append(["!0", "-"] + st() + [dump(sent) if wd else "-"])
                    dead = True
                continue
            if buf:
                k = min(n, left())
                if left() == 0:
                    eof = True
                data = bytes(stored[pos:pos + k]) + sent[k:]
                if not wc and k < n:
                    pos += k
                    exp.append(["!0", "-"] + st() + [dump(data) if wd else "-"])
                    dead = True
                else:
                    pos += k
                    cin += k
                    cout += k
                    exp.append(["0", str(k) if wc else "-"] + st() + [dump(data) if wd else "-"])
            else:
                if not wd:
                    if flt == "!":
                        exp.append(["!0", "-", None, str(cin), str(cout), None, "-"])
                        dead = True
                    else:
                        pos += n
                        cin += n
                        cout += n
                        exp.append(["0", str(n) if wc else "-"] + st() + ["-"])
                    continue
                k = min(n, left())
                fe, fr = True, False
                if flt:
                    fk, fe, fr = [int(x) for x in flt.split(",")]
                    k = min(k, max(fk, 0))
                    fe, fr = bool(fe), bool(fr)
                data = bytes(stored[pos:pos + k]) + sent[k:]
                pos += k
                if k < n and ((not fe) or fr):
                    exp.append(["!0", "-", str(pos), str(cin), str(cout), None, dump(data)])
                    dead = True
                    continue
                if k < n:
                    eof = True
                if mirror is not None:
                    mirror += data[:k]
                if not wc and k < n:
                    exp.append(["!0", "-"] + st() + [dump(data)])
                    dead = True
                else:
                    cin += k
                    cout += k
                    exp.append(["0", str(k) if wc else "-"] + st() + [dump(data)])
        elif c == "a":
            al = int(q[1])
            n = (al - cout % al) % al
            flt = q[2] if len(q) > 2 else None
            if n == 0:
                exp.append(["0"] + st())
            elif eof:
                # sc_io_source_align is an exact skip of the padding: an error once the end is registered
                exp.append(["!0"] + st())
                dead = True
            elif buf:
                k = min(n, left())
                if left() == 0:
                    eof = True
                pos += k
                if k < n:
                    exp.append(["!0"] + st())
                    dead = True
                else:
                    cin += k
                    cout += k
                    exp.append(["0"] + st())
            else:
                if flt == "!":
                    exp.append(["!0", None, str(cin), str(cout), None])
                    dead = True
                else:
                    pos += n
                    cin += n
                    cout += n
                    exp.append(["0"] + st())
        elif c == "c":
            if buf and pos % esz != 0:
                exp.append(["-2"] + st() + ["-", "-"])
            else:
                a, b = cin, cout
                cin = cout = 0
                exp.append(["0"] + st() + [str(a), str(b)])
        elif c == "C":
            mask = int(q[1])
            if buf and pos % esz != 0:
                exp.append(["-2"] + st() + ["-", "-"])
            else:
                a, b = cin, cout
                cin = cout = 0
                exp.append(["0"] + st() + [str(a) if mask & 1 else "-", str(b) if mask & 2 else "-"])
        elif c == "m":
            if buf or mirror is not None:
                exp.append(["!0"])
            else:
                mirror = bytearray()
                exp.append(["0"])
        elif c in "MXN":
            n = int(q[1])
            wd, wc = c in "MX", c in "MN"
            sent = bytes([SENT]) * n
            if mirror is None:
                exp.append(["!0", "-"] + st() + [dump(sent) if wd else "-"])
                continue
            k = min(n, len(mirror))
            data = bytes(mirror[:k]) + sent[k:]
            if not wc and k < n:
                exp.append(["!0", "-"] + st() + [dump(data) if wd else "-"])
            else:
                exp.append(["0", str(k) if wc else "-"] + st() + [dump(data) if wd else ("-" if n else "-")])
        elif c == "z":
            unjudged = True
            exp.append(["0"])
        elif c == "d":
            if buf:
                exp.append(["0" if pos % esz == 0 else "!0"])
            else:
                exp.append(["!0" if (len(q) > 1 and dev == "n") else "0"])
    return exp


def oracle_saveload(t):
    content, pre = parse_bytes(t[0]), parse_bytes(t[1])
    fl = t[2:]
    save_bad = False
    file = content
    load_bad = False
    loaded = None
    for f in fl:
        q = f.split(":")
        if q[0] == "O":
            save_bad, file = True, None
        elif q[0] == "W" and int(q[1]) < len(content):
            save_bad, file = True, content[:int(q[1])]
        elif q[0] in "FC":
            save_bad = True
    if file is None or "o" in fl:
        load_bad = True
    else:
        loaded = file
        for f in fl:
            q = f.split(":")
            if q[0] == "c":
                load_bad = True
            if q[0] == "R":
                i = int(q[1])
                k, e, r = [int(x) for x in q[2].split(",")]
                if i * BWINS <= len(file):            # the i-th fread takes place
                    nat = min(BWINS, len(file) - i * BWINS)
                    if k < nat or (k < BWINS and False):
                        pass
                    kk = min(k, nat)
                    if kk < BWINS and ((not e) or r):
                        load_bad = True
                    elif kk < BWINS:
                        loaded = file[:i * BWINS + kk]
    exp = ["!0" if save_bad else "0", "~" if file is None else dump(file)]
    if load_bad:
        exp += ["!0", None]
    else:
        exp += ["0", "%d:%s" % (len(loaded), dump(loaded))]
    return exp


def rc_ok(e, got):
    if e == "!0":
        return got not in ("0", "-2")     # an error other than "again"
    return e == got


def compare(exp_tokens, got_tokens):
    """returns list of (index, field, expected, got)"""
    bad = []
    for i, e in enumerate(exp_tokens):
        if e is None:
            continue
        if i >= len(got_tokens):
            bad.append((i, -1, e, "<missing>"))
            continue
        g = got_tokens[i].split(",")
        if len(g) != len(e):
            bad.append((i, -1, e, got_tokens[i]))
            continue
        for j, (x, y) in enumerate(zip(e, g)):
            if x is None:
                continue
            ok = rc_ok(x, y) if j == 0 else (x == y)
            if not ok:
                bad.append((i, j, x, y))
            if j == 0 and x == "!0" and ok:
                break          # the call failed as it must: the object's state is not specified any further
    return bad


def judge(line, out):
    """oracle verdict on one implementation output line: list of (kind, text); kind is 'bad'"""
    t = line.split()
    res = []
    if out is None:
        return [("bad", "no output")]
    extra = [w for w in out.split() if w.startswith("LEAK") or w in ("GUARD", "NO_DESTROY_OP") or "!" in w and w.endswith(("OVERRUN", "NOTNULL"))]
    for w in extra:
        res.append(("bad", "harness flag %s" % w))
    if t[0] == "K":
        exp, final = oracle_sink(t[1:])
        parts = out.split("|")
        got = parts[0].split()
        for (i, j, x, y) in compare(exp, got):
            res.append(("bad", "op %d (%s) field %d: expected %s, got %s" % (i, t[6 + i], j, x, y)))
        gfinal = parts[1].split()[0] if len(parts) > 1 and parts[1].split() else "<missing>"
        if isinstance(final, tuple):
            if gfinal.split(":", 1)[-1] != final[1]:
                res.append(("bad", "final memory: expected %s, got %s" % (final[1], gfinal)))
        elif final is not None and gfinal != final:
            res.append(("bad", "final content: expected %s, got %s" % (final, gfinal)))
    elif t[0] == "R":
        exp = oracle_source(t[1:])
        got = [w for w in out.split() if not w.startswith("LEAK")]
        for (i, j, x, y) in compare(exp, got):
            res.append(("bad", "op %d (%s) field %d: expected %s, got %s" % (i, t[4 + i], j, x, y)))
    elif t[0] == "L":
        exp = oracle_saveload(t[1:])
        got = [w for w in out.split() if not w.startswith("LEAK")]
        for j, (x, y) in enumerate(zip(exp, got + ["<missing>"] * 4)):
            if x is None:
                continue
            ok = rc_ok(x, y) if j in (0, 2) else x == y
            if not ok:
                res.append(("bad", "save/load field %d: expected %s, got %s" % (j, x, y)))
    return res


# ------------------------------------------------------------------ generators
def rbytes(rng, n):
    if n > 48:
        return "#%d,%d" % (n, rng.randrange(1, 1 << 30))
    return enc(bytes(rng.randrange(256) for _ in range(n)))


ESZ = [1, 1, 2, 3, 4, 5, 7, 8, 13, 16, 64]
ALIGN = [1, 2, 3, 4, 7, 8, 16, 32, 100]


def gen_sink(rng, big=False):
    dev = rng.choice("bbbbbbvvnnff")
    esz = rng.choice(ESZ) if dev in "bv" else 0
    mode = rng.choice("wa") if dev != "f" else rng.choice("waWA")
    oldn = rng.choice([0, 0, 1, 2, 3]) * (esz or rng.choice([1, 3, 10]))
    old = bytes(rng.randrange(256) for _ in range(oldn))
    keep = mode in "aA"
    clen = oldn if keep else 0
    cout = 0
    ops = []
    nops = rng.randrange(0, 13)
    unit = esz or rng.choice([1, 4, 16])
    cap = 0
    if dev == "v":
        cap = oldn // esz + rng.randrange(0, 8)
    dead = False
    for _ in range(nops):
        if dead:
            break
        r = rng.random()
        if r < 0.55:
            if big and rng.random() < 0.5:
                n = rng.choice([1023, 1024, 1025, 2048, 4096, BWINS - 1, BWINS, BWINS + 1, 20000])
            else:
                n = rng.choice([0, 1, 1, unit - 1, unit, unit + 1, 2 * unit, rng.randrange(0, 41), rng.randrange(0, 41),
                                (unit - clen % unit) % unit, (unit - clen % unit) % unit + unit])
            n = max(0, n)
            op = "w:" + rbytes(rng, n)
            if dev == "v" and n > 0 and ceil_div(clen + n, esz) > cap:
                if rng.random() < 0.6:
                    # make it fit exactly / or one byte too many relative to the view
                    room = cap * esz - clen
                    n = rng.choice([room, room, max(room - 1, 0), room + 1])
                    op = "w:" + rbytes(rng, n)
                if n > 0 and ceil_div(clen + n, esz) > cap:
                    dead = True
            if dev in "nf" and n > 1 and rng.random() < 0.06:
                op += ":%d" % rng.randrange(0, n)
                dead = True
            ops.append(op)
            if not dead:
                clen += n
                cout += n
        elif r < 0.75:
            al = rng.choice(ALIGN)
            pad = (al - cout % al) % al
            op = "a:%d" % al
            if dev == "v" and pad > 0 and ceil_div(clen + pad, esz) > cap:
                dead = True
            if dev in "nf" and pad > 1 and rng.random() < 0.1:
                op += ":%d" % rng.randrange(0, pad)
                dead = True
            ops.append(op)
            if not dead:
                clen += pad
                cout += pad
        else:
            op = "c"
            if dev in "nf" and rng.random() < 0.05:
                op = "c:!"
                dead = True
            elif dev in "bv" and clen % esz == 0:
                cout = 0
            elif dev in "nf":
                cout = 0
            if op == "c" and rng.random() < 0.4:
                op = "C:%d" % rng.randrange(0, 4)     # NULL for some of the counter pointers
            ops.append(op)
    d = "d"
    if dev in "nf" and not dead and rng.random() < 0.08:
        d = "d:" + rng.choice(["F", "C", "FC"])
    ops.append(d)
    return "K %s %s %d %s %d %s" % (dev, mode, esz, enc(old), cap, " ".join(ops))


def gen_source(rng, big=False, resize=False):
    dev = "b" if resize else rng.choice("bbbbbbbvnnnnnffff")
    esz = rng.choice(ESZ) if dev in "bv" else 1
    if big:
        n = rng.choice([1024, 1025, 3000, BWINS - 1, BWINS, BWINS + 1, 40000])
    else:
        n = rng.choice([0, 1, 2, 3, 5, 8, rng.randrange(0, 61), rng.randrange(0, 61), rng.randrange(0, 200)])
    n = (n // esz) * esz if dev in "bv" else n
    p = esz if dev in "bv" else (0 if dev == "n" else rng.choice([0, 0, 1, n // 2, max(n - 1, 0), n, n + 2]))
    pos = p if dev == "f" else 0
    cout = 0
    eof = False
    mirror = None
    dead = False
    ops = []
    nops = rng.randrange(1, 14)
    total = n
    for i in range(nops):
        if dead:
            break
        left = max(0, total - pos)
        sizes = [0, 1, 1, 2, esz, left, left, max(left - 1, 0), left + 1, left // 2, rng.randrange(0, 30), rng.randrange(0, 30)]
        if big:
            sizes += [1024, 1025, BWINS, left // 3 + 1]
        k = rng.choice(sizes)
        r = rng.random()
        if dev in "nf" and mirror is None and r < (0.35 if i < 2 else 0.05):
            ops.append("m")
            mirror = 0
            continue
        if resize and r < 0.15:
            newc = max(0, total // esz + rng.choice([-3, -2, -1, 1, 2]))
            ops.append("z:%d" % newc)
            total = newc * esz
            continue
        if r < 0.45:
            op = "r:%d" % k
            got = 0 if eof else min(k, left)
            if dev in "nf" and k > 1 and not eof and rng.random() < 0.05:
                fk = rng.randrange(0, k)
                e, rr = rng.choice([(0, 0), (1, 1), (0, 1), (1, 0)])
                op += ":%d,%d,%d" % (fk, e, rr)
                got = min(fk, left)
                if got < k and (not e or rr):
                    dead = True
            ops.append(op)
            if not dead:
                if k > 0 and not eof:
                    if dev in "bv":
                        if left == 0:
                            eof = True
                    elif got < k:
                        eof = True
                pos += got
                cout += got
                if mirror is not None:
                    mirror += got
        elif r < 0.55:
            ops.append("x:%d" % k)
            if k > 0 and not eof:
                if k > left:
                    dead = True
                else:
                    pos += k
                    cout += k
                    if mirror is not None:
                        mirror += k
        elif r < 0.65:
            op = "s:%d" % k
            if dev in "nf" and k > 0 and not eof and rng.random() < 0.05:
                op += ":!"
                dead = True
            ops.append(op)
            if not dead and k > 0 and not eof:
                if dev in "bv":
                    if left == 0:
                        eof = True
                    pos += min(k, left)
                    cout += min(k, left)
                else:
                    pos += k
                    cout += k
        elif r < 0.70:
            ops.append("t:%d" % k)
            if k > 0 and not eof:
                if dev in "bv":
                    if k > left:
                        dead = True
                    else:
                        pos += k
                        cout += k
                else:
                    pos += k
                    cout += k
        elif r < 0.82:
            al = rng.choice(ALIGN)
            pad = (al - cout % al) % al
            ops.append("a:%d" % al)
            if pad > 0 and not eof:
                if dev in "bv":
                    if pad > left:
                        dead = True
                    else:
                        pos += pad
                        cout += pad
                else:
                    pos += pad
                    cout += pad
        elif r < 0.92:
            ops.append("c" if rng.random() < 0.6 else "C:%d" % rng.randrange(0, 4))
            if dev in "nf" or pos % esz == 0:
                cout = 0
        else:
            m = mirror if mirror is not None else 5
            kk = rng.choice([0, 1, m, m + 1, max(m - 1, 0), rng.randrange(0, 20)])
            ops.append(rng.choice(["M", "M", "X", "N"]) + ":%d" % kk)
    d = "d"
    if dev == "n" and not dead and rng.random() < 0.05:
        d = "d:C"
    ops.append(d)
    content = rbytes(rng, n)
    return "R %s %d %s %s" % (dev, p, content, " ".join(ops))


def gen_saveload(rng, k):
    sizes = [0, 1, 2, 100, 1024, 1025, BWINS - 1, BWINS, BWINS + 1, 2 * BWINS - 1, 2 * BWINS, 2 * BWINS + 1, 3 * BWINS, 50000]
    n = sizes[k % len(sizes)] if k < 2 * len(sizes) else rng.choice(sizes + [rng.randrange(0, 70000)])
    pre = rng.choice([0, 0, 5, 300, BWINS + 7, 60000])
    faults = []
    if k >= len(sizes) and rng.random() < 0.45:
        f = rng.choice(["O", "W", "F", "C", "o", "c", "R", "R", "R"])
        if f == "W":
            faults.append("W:%d" % rng.randrange(0, max(n, 1)))
        elif f == "R":
            i = rng.randrange(0, n // BWINS + 1)
            nat = min(BWINS, n - i * BWINS)
            kk = rng.choice([0, max(nat - 1, 0), nat // 2, 1])
            e, r = rng.choice([(0, 0), (1, 0), (1, 1), (0, 1)])
            faults.append("R:%d:%d,%d,%d" % (i, kk, e, r))
        else:
            faults.append(f)
    return "L %s %s %s" % (rbytes(rng, n) if n else "-", rbytes(rng, pre) if pre else "-", " ".join(faults))


# ------------------------------------------------------------------ generators aimed at the case splits of the whole-body proofs
ALIGN2 = [1, 2, 4, 8, 16, 32, 64, 128, 256, 1024, 4096, 3, 5, 6, 7, 12, 24, 100, 255, 1000]


def gen_view_edge(rng):
    """view-backed sink, element size > 1: writes that END INSIDE the last element of the view, exactly at its end, or one byte /
    one element behind it (the rounded count against SC_ARRAY_BYTE_ALLOC); append over old content that is a whole number of elements"""
    esz = rng.choice([2, 3, 4, 5, 7, 8, 13, 16])
    cap = rng.randrange(1, 6)
    mode = rng.choice("wa")
    oldn = rng.randrange(0, cap + 1) * esz
    old = bytes(rng.randrange(256) for _ in range(oldn))
    clen = oldn if mode == "a" else 0
    room = cap * esz - clen
    ops = []
    # first fill up to somewhere inside the last element
    if room > esz and rng.random() < 0.7:
        n = room - rng.randrange(1, esz + 1)
        ops.append("w:" + rbytes(rng, n))
        clen += n
        if rng.random() < 0.3:
            ops.append(rng.choice(["c", "C:1", "C:2"]))
    room = cap * esz - clen
    n = rng.choice([max(room - 1, 0), room, room, room + 1, room + esz - 1, room + esz, max(room - esz + 1, 0)])
    if rng.random() < 0.3 and room > 0:
        al = rng.choice(ALIGN2)
        ops.append("a:%d" % al)
    else:
        ops.append("w:" + rbytes(rng, n))
    return "K v %s %d %s %d %s d" % (mode, esz, enc(old), cap, " ".join(ops))


def gen_periods_sink(rng):
    """several completion periods on one growable sink: write / align (every power of two and non powers) / complete, many rounds"""
    dev = rng.choice("bbbnf")
    esz = rng.choice([1, 2, 3, 4, 8]) if dev == "b" else 0
    mode = rng.choice("wa")
    old = bytes(rng.randrange(256) for _ in range(rng.choice([0, 1, 2]) * (esz or 3)))
    ops = []
    for _ in range(rng.randrange(2, 7)):
        for _ in range(rng.randrange(0, 3)):
            ops.append("w:" + rbytes(rng, rng.choice([0, 1, 2, 3, 5, 8, 13, (esz or 4), (esz or 4) - 1 or 1])))
            if rng.random() < 0.5:
                ops.append("a:%d" % rng.choice(ALIGN2))
        ops.append(rng.choice(["c", "c", "C:0", "C:1", "C:2", "C:3"]))
    return "K %s %s %d %s 0 %s d" % (dev, mode, esz, enc(old), " ".join(ops))


def gen_periods_source(rng):
    """several completion periods on one source with skips before / after aligns: counted and exact reads, skips, aligns with powers
    of two and non powers, completions; the content is sized afterwards so that the history ends exactly at / before the end"""
    dev = rng.choice("bbvnnff")
    esz = rng.choice([1, 2, 3, 4, 8]) if dev in "bv" else 1
    start = rng.choice([0, 1, 5]) if dev == "f" else 0
    pos = start
    cout = 0
    ops = []
    if dev in "nf" and rng.random() < 0.4:
        ops.append("m")
    for _ in range(rng.randrange(2, 6)):
        for _ in range(rng.randrange(1, 4)):
            k = rng.choice([0, 1, 2, 3, 4, 7, 9, esz])
            kind = rng.choice(["s", "t", "a", "r", "x", "s", "a"])
            if kind == "a":
                al = rng.choice(ALIGN2[:14])
                k = (al - cout % al) % al
                ops.append("a:%d" % al)
            else:
                ops.append("%s:%d" % (kind, k))
            pos += k
            cout += k
        ops.append(rng.choice(["c", "c", "C:0", "C:1", "C:2", "C:3"]))
        if dev in "nf" or pos % esz == 0:
            cout = 0
        if "m" in ops and rng.random() < 0.3:
            ops.append(rng.choice(["M", "N"]) + ":%d" % rng.choice([0, 1, pos, pos + 1]))
    total = pos + rng.choice([0, 0, 1, esz, 10])
    if dev in "bv":
        total = ceil_div(total, esz) * esz
    return "R %s %d %s %s d" % (dev, esz if dev in "bv" else start, rbytes(rng, total), " ".join(ops))


TARGETED = {}
FIXED = [
    # the repaired defect 26496c1: append to an array starts behind the existing content
    "K b a 1 616263 0 w:5859 d",
    "K b a 3 010203040506 0 w:07 a:4 w:0809 c w:0a0b c d",
    "K b w 3 010203040506 0 w:07 c w:0809 c d",
    "K v a 2 0102 3 w:05060708 d",
    "K v a 2 0102 3 w:0506070809 d",
    "K v w 4 01020304 2 w:0102030405060708 c w:09 d",
    "K n a 0 aabb 0 w:0102 a:8 c w:03 d",
    "K n w 0 aabb 0 w:0102 w:030405:1 d",
    "K f A 0 aabb 0 w:0102 c d",
    "K f W 0 aabb 0 w:0102 c d",
    # F-C11b (repaired by 103c295): an exact request after the end has been registered is an error
    "R b 1 0708 r:4 r:4 x:1 d",
    "R n 0 0102030405 r:8 t:2 a:4 d",
    "R b 1 0708 r:4 r:4 t:1 d",
    "R b 2 01020304 r:3 r:4 r:1 a:4 a:8 d",
    "R f 2 0102030405 r:2 r:4 a:4 d",
    "R n 0 010203 m r:5 x:2 M:3 d",
    "R b 1 0708 r:4 r:4 x:0 t:0 s:3 r:2 a:1 d",
    "R f 1 0102030405 m r:2 a:4 r:3 M:8 X:2 X:3 N:9 d",
    "R b 4 0102030405060708 r:3 c r:1 c x:4 c x:1 d",
    "R b 2 01020304 s:1 t:1 a:4 r:9 d",
    "R n 0 01020304 m r:2 m c M:1 r:9 M:9 d",
    "R b 2 0102030405060708 r:6 z:1 r:1 z:5 r:4 d",
    "L - -",
    "L 0102030405 ffff",
]


def gen_cases(ctx):
    rng = ctx.rng
    cases = list(FIXED)
    ns, nr, nl = (6000, 8000, 150) if ctx.quick else (120000, 160000, 1500)
    for i in range(ns):
        cases.append(gen_sink(rng, big=(i % 25 == 0)))
    for i in range(nr):
        cases.append(gen_source(rng, big=(i % 30 == 0), resize=(i % 40 == 7)))
    for k in range(nl):
        cases.append(gen_saveload(rng, k))
    # aimed at the case splits of the whole-body proofs (IoWhole.v) and of the history theorems (IoHistories.v)
    nv, nps, npr = (600, 500, 700) if ctx.quick else (12000, 10000, 14000)
    global TARGETED
    TARGETED = {"view_edge": nv, "periods_sink": nps, "periods_source": npr}
    for _ in range(nv):
        cases.append(gen_view_edge(rng))
    for _ in range(nps):
        cases.append(gen_periods_sink(rng))
    for _ in range(npr):
        cases.append(gen_periods_source(rng))
    return cases


# ------------------------------------------------------------------ running
WRAP = "-Wl," + ",".join("--wrap=" + f for f in ("fwrite", "fread", "fflush", "fclose", "fseek", "feof", "ferror"))


def run_impl(ctx, exe, lines):
    fdir = os.path.join(ctx.scratch, "files")
    os.makedirs(fdir, exist_ok=True)
    env = dict(os.environ, ASAN_OPTIONS="detect_leaks=1:abort_on_error=0", UBSAN_OPTIONS="print_stacktrace=1")
    rc, out, err = ctx.run_lines([exe, fdir], "\n".join(lines) + "\n", timeout=1500, env=env)
    out = [l for l in out if l != ""]
    end = None
    if out and out[-1].startswith("END"):
        end = out[-1]
        out = out[:-1]
    return rc, out, err, end


def shrink(ctx, exe, line):
    """drop operations while the oracle still objects"""
    cur = line
    for _ in range(30):
        t = cur.split()
        first = {"K": 6, "R": 4, "L": 3}[t[0]]
        cands = []
        for i in range(first, len(t) - (0 if t[0] == "L" else 1)):
            cands.append(" ".join(t[:i] + t[i + 1:]))
        if not cands:
            break
        rc, out, err, end = run_impl(ctx, exe, cands)
        nxt = None
        for c, o in zip(cands, out):
            if any(k == "bad" for k, _ in judge(c, o)):
                nxt = c
                break
        if nxt is None:
            break
        cur = nxt
    return cur


def translate_and_prove(ctx, groups):
    """T1 + proof obligations: regenerate the translator groups from the working tree, then re-check the theorems (which
    include `model = generated definition`).  A group that no longer translates, or a theorem that no longer checks against
    the regenerated definitions, is a broken tie.  coq/Gen is shared by all checks: if another process regenerated the group
    from another tree while the theorems were being checked, the step is repeated."""
    sys.path.insert(0, os.path.join(vlib.TOOLS, "c2g"))
    import genall
    r = None
    for attempt in range(3):
        st = genall.run(list(groups))
        nb, ob, di = len(ctx.broken), ctx.cov["obligations"], ctx.cov["discharged"]
        for g, s_ in st.items():
            ctx.log("c2g", g, s_)
            if s_.startswith("FAILED"):
                ctx.tie_broken("translator group " + g, s_)
        r = ctx.props()
        st2 = genall.run(list(groups))
        if not any("(changed)" in v for v in st2.values()):
            return r
        ctx.log("coq/Gen was regenerated by another process during the proof step: repeating")
        del ctx.broken[nb:]
        ctx.cov["obligations"], ctx.cov["discharged"] = ob, di
    return r


def run(ctx):
    translate_and_prove(ctx, ["IoC11"])
    v = ctx.variant(mpi="off", san=True)
    exe = ctx.cc([os.path.join(vlib.TOOLS, "harness", "c11_harness.c")], os.path.join(ctx.scratch, "c11_harness"), v, extra=[WRAP])
    cases = gen_cases(ctx)
    if ctx.replay:
        rp = json.load(open(ctx.replay)).get("replay", {})
        if "case" in rp:
            cases = [rp["case"]] + cases[:20]
    impl, end, start = [], None, 0
    for attempt in range(6):
        rc, part, err, end = run_impl(ctx, exe, cases[start:])
        impl += part
        if rc == 0 and len(impl) == len(cases):
            break
        # a crash (sanitizer report, abort): the case after the last answered one is the input
        idx = min(len(impl), len(cases) - 1)
        ctx.violation("crash:" + cases[idx][:60], "harness stopped (exit %s) at case %d: %s ... %s" % (rc, idx, cases[idx][:200], err[-1200:]),
                      dict(case=cases[idx], stderr=err[-3000:]))
        impl = impl[:idx] + ["CRASH"]
        start = idx + 1
        end = None
        if start >= len(cases):
            break
    if end is not None and end != "END 0":
        ctx.violation("memory-balance", "sc_memory_status at the end of the run: %s" % end, dict(case="(whole run)", end=end))
    model = []
    try:
        mexe = ctx.model("c11")
        rc2, model, err2 = ctx.run_lines([mexe], "\n".join(cases) + "\n", timeout=1500)
        model = [l for l in model if l != ""]
        if rc2 != 0:
            ctx.tie_broken("c11 model run", "exit %s: %s" % (rc2, err2[-1500:]))
    except vlib.BuildError as e:
        ctx.tie_broken("c11 model build", str(e)[-1500:])
    dist = {}
    nbad = ndis = 0
    for i, line in enumerate(cases):
        t = line.split()
        kind = t[0] + ":" + (t[1] if t[0] != "L" else "-")
        dist[kind] = dist.get(kind, 0) + 1
        ctx.count_case(line, nontrivial=len(t) > (7 if t[0] == "K" else 5 if t[0] == "R" else 1))
        io = impl[i] if i < len(impl) else None
        verdict = judge(line, io)
        bad = [x for k, x in verdict if k == "bad"]
        if bad:
            nbad += 1
            if nbad <= 3:
                small = shrink(ctx, exe, line)
                r2, o2, e2, _ = run_impl(ctx, exe, [small])
                v2 = [x for k, x in judge(small, o2[0] if o2 else None) if k == "bad"] or bad
                ctx.violation("c11:" + small[:70], "case `%s`: %s (implementation printed `%s`)" % (small[:300], "; ".join(v2[:3]), (o2[0] if o2 else io or "")[:300]),
                              dict(case=small, original=line, impl=o2[0] if o2 else io, oracle=v2[:6]))
        if model:
            mo = model[i] if i < len(model) else "<missing>"
            ios = " ".join(w for w in (io or "<missing>").split() if not w.startswith("LEAK") and w != "GUARD")
            if ios != mo.strip():
                ndis += 1
                if ndis <= 3:
                    ctx.tie_broken("model/implementation correspondence", "case `%s`: C prints `%s`, model prints `%s`" % (line[:300], ios[:400], mo[:400]))
    ctx.cov["disagreements_checked"] = len(cases)
    ctx.cov["rule"] = ("seeded operation sequences: sinks (owner arrays of element sizes 1..64, views with capacities around the need, "
                       "filename and FILE* in write/append/crossed modes; writes sized 0, 1, elem-1, elem, elem+1, to/over the next element "
                       "boundary, 1023..20000; align 1..100; complete; injected short fwrite / failing fflush / fclose), sources (arrays, views, "
                       "files, FILE* from an offset; reads with/without data and count pointer sized around the remaining bytes, align, complete, "
                       "mirror on/read, short fread with feof/ferror flags, failing fseek, array resized behind the source), save/load at sizes "
                       "around multiples of the 16384 window with faults; a case is non-trivial if it has at least two operations; distinct = distinct case lines")
    ctx.cov["exhaustive"] = False
    ctx.notes["case_distribution"] = dist
    ctx.notes["targeted_generators"] = dict(TARGETED, note="view_edge: views of element size 2..16 whose last write ends inside / at / one byte or one element "
                                            "behind the last element; periods_*: 2..6 completion periods with aligns from " + str(ALIGN2) +
                                            " and skips before / after aligns, content sized so that the history ends at or before the end")
    ctx.notes["oracle_violations"] = nbad
    ctx.notes["model_disagreements"] = ndis
    ctx.notes["memory_end"] = end
    for c in cases[len(FIXED):: max(1, len(cases) // 4)][:4]:
        ctx.sample({"case": c[:200]})
    ctx.cov["trusted_base"] += ["T1: the integer decisions of the model (rounding to whole elements and size check of sc_io_sink_write, counters, AGAIN tests, alignment fill, available / taken "
                                "bytes and exact-request test of sc_io_source_read, window arithmetic of sc_io_file_load) are proved EQUAL to Gen/IoC11.v, regenerated from the working tree on "
                                "every run (tools/c2g + clang-14 JSON AST trusted; validated through the model they are proved equal to, which the correspondence run executes)",
                                "T1 whole bodies: every function of the sinks and sources (new / write / complete / align / destroy / destroy_null of both kinds, read, activate_mirror, "
                                "read_mirror, file_return, file_save, the three parts of file_load) is translated as a whole by the add-on class IoT of tools/c2g/groups_C11.py (calls as effects "
                                "with ghost outputs, also inside `||` / `if (f ())` / `return f ()` / assignments used as values; enumerators printed by a C program compiled against the same "
                                "headers; va_arg = the next variadic argument; SC_ALLOC_ZERO leaves every field 0) and coq/C11/IoWhole.v proves the model equal to the READING rd_<function> of the "
                                "generated outputs; the reading functions (which array operation sc_array_resize / memcpy is, what fread / fwrite / fseek do to a file given their return value) "
                                "are hand-written and part of the trusted base together with the add-on",
                                "stdio contract of the model: fwrite/fread/fflush/fseek/fclose do what is asked unless the case injects a fault "
                                "(the harness injects the same faults into the real calls with ld --wrap)",
                                "size_t arithmetic of sc_io.c is modelled without wrap-around (byte counts below 2^63)",
                                "sc_array_resize is modelled by its contract for owner arrays (content preserved up to the smaller size, tail arbitrary); "
                                "its growth policy is C08's subject"]
    ctx.assumptions += ["alignment values >= 1; element sizes >= 1; no call on an object after it returned SC_IO_ERROR_FATAL except destroy",
                        "theorems about in-order delivery assume the backing array is not enlarged behind an array source that has registered its end"]
    return "proof"
