"""C04 - allgather replacement.  Proof about the global dataflow model; tie T3: the real sc_allgather runs on the
simulated MPI under adversarial schedules, every rank's trace is co-simulated against the extracted per-rank
program, and an independent oracle judges every receive buffer.  Besides single calls (sc_allgather, the subgroup routine)
the check runs HISTORIES: 2-5 calls of the three entry points back to back on one communicator, judged per call and co-simulated
against the extracted hist_prog (coq/C04/AllgatherHist.v)."""
import os, sys, json
import vlib, mpitrace
sys.path.insert(0, os.path.join(vlib.TOOLS, "c2g"))

ADVS = list(range(8))


def blk_byte(dseed, rank, k):
    x = (dseed * 2654435761 + rank * 40503 + k * 9176) & 0xffffffff
    x ^= x >> 13
    x = (x * 0x5bd1e995) & 0xffffffff
    x ^= x >> 15
    return x & 0xff


def block(dseed, rank, bs):
    return bytes(blk_byte(dseed, rank, k) for k in range(bs))


def gen_cases(ctx):
    rng = ctx.rng
    cases = []
    Ps = list(range(1, 25)) if ctx.quick else list(range(1, 49)) + [63, 64, 65, 96, 127, 128]
    sizes = [0, 1, 3, 8, 8, 12, 24]       # multiples of 2/4/8: the harness then uses send/receive datatypes of different size
    for P in Ps:
        for bs in ([rng.choice(sizes), rng.choice(sizes)] if ctx.quick else sizes):
            for _ in range(2 if ctx.quick else 4):
                cases.append((P, rng.randrange(1 << 30), rng.choice(ADVS), bs, rng.randrange(1 << 16), 0, 0, 0))
    # subgroups: the recursive routine on [base, base+g)
    for _ in range(30 if ctx.quick else 300):
        P = rng.randrange(2, 30)
        g = rng.randrange(1, P + 1)
        base = rng.randrange(0, P - g + 1)
        cases.append((P, rng.randrange(1 << 30), rng.choice(ADVS), rng.choice([1, 2, 5]), rng.randrange(1 << 16), 1, base, g))
    cases += gen_histories(ctx)
    return cases


ENTRY = {0: "sc_allgather", 1: "sc_allgather_recursive", 2: "sc_allgather_alltoall"}
HSIZES = [0, 0, 1, 2, 3, 4, 8, 8, 12, 16, 24]      # multiples of 2/4/8: send/receive datatypes of different element size


def gen_histories(ctx):
    """HISTORIES (mode 2): 2-5 calls back to back on one communicator, no barrier, all three entry points, block sizes that
    differ from call to call (zero included), groups that change from call to call.  The shapes are aimed at the case
    splits of coq/C04/AllgatherHist.v and at the boundary between calls:
      zero-then-data   an empty gather directly followed by a non-empty one (a stale empty message would be taken next)
      same-size        equal sizes in consecutive calls (a stale message is visible only in the CONTENT)
      shrinking        decreasing sizes (a stale message is longer than the next receive)
      even-groups      P with an even group > threshold somewhere in the bisection (6, 8, 10, 11, 12, 13, ...)
      sub-then-all     whole communicator, subgroups, whole communicator: ranks outside the subgroups run calls ahead
      big-direct       sc_allgather_alltoall on a group ABOVE the threshold, sc_allgather_recursive on a group BELOW it
      mixed            everything random"""
    rng = ctx.rng
    out = []
    n = 170 if ctx.quick else 1700
    shapes = ["zero-then-data", "same-size", "shrinking", "even-groups", "sub-then-all", "big-direct", "mixed"]
    for i in range(n):
        shape = shapes[i % len(shapes)]
        P = rng.choice([2, 3, 5, 6, 7, 8]) if rng.random() < 0.35 else rng.randrange(1, 41)
        if shape == "even-groups":
            P = rng.choice([6, 8, 10, 11, 12, 13, 16, 20, 22, 23, 24, 26, 32, 40])
        if shape in ("sub-then-all", "big-direct"):
            P = max(P, rng.randrange(7, 41))
        nc = rng.randrange(2, 6)

        def group(kind=None):
            if kind == "all" or P == 1:
                return 0, P
            g = rng.randrange(1, P + 1)
            if kind == "big" and P > 6:
                g = rng.randrange(6, P + 1)
            if kind == "small":
                g = rng.randrange(1, min(P, 5) + 1)
            return rng.randrange(0, P - g + 1), g
        calls = []
        for k in range(nc):
            e = rng.choice([0, 0, 1, 2])
            bs = rng.choice(HSIZES)
            base, g = group()
            if shape == "zero-then-data":
                bs = 0 if k % 2 == 0 else rng.choice([1, 3, 8, 12])
                if rng.random() < 0.6:
                    base, g = 0, P
            elif shape == "same-size":
                bs = calls[0][1] if calls else rng.choice([1, 4, 8])
                base, g = (0, P) if rng.random() < 0.7 else (base, g)
            elif shape == "shrinking":
                bs = [24, 16, 8, 3, 0][k] if rng.random() < 0.5 else [12, 8, 4, 1, 0][k]
                base, g = (0, P) if rng.random() < 0.7 else (base, g)
            elif shape == "even-groups":
                e = rng.choice([0, 1])
                base, g = (0, P) if e == 0 or rng.random() < 0.5 else group("big")
                bs = rng.choice([1, 4, 4, 8])
            elif shape == "sub-then-all":
                if k == 0 or k == nc - 1:
                    e, base, g = rng.choice([0, 1, 2]), 0, P
                else:
                    e = rng.choice([1, 2])
                    base, g = group()
                    g = max(1, min(g, P - 1)); base = min(base, P - g)
            elif shape == "big-direct":
                if k % 2 == 0:
                    e = 2; base, g = group("big")
                else:
                    e = 1; base, g = group("small")
            if e == 0:
                base, g = 0, P
            calls.append((e, bs, base, g))
        flat = [x for c in calls for x in c]
        out.append((P, rng.randrange(1 << 30), rng.choice(ADVS), 0, rng.randrange(1 << 16), 2, 0, 0, nc) + tuple(flat))
    return out


def hist_calls(c):
    nc = c[8]
    return [tuple(c[9 + 4 * k: 13 + 4 * k]) for k in range(nc)]


def hist_shape_stats(c, st):
    cs = hist_calls(c)
    P = c[0]
    st["calls"] = st.get("calls", 0) + len(cs)
    for k, (e, bs, base, g) in enumerate(cs):
        st["entry:" + ENTRY[e]] = st.get("entry:" + ENTRY[e], 0) + 1
        if bs == 0:
            st["empty-block calls"] = st.get("empty-block calls", 0) + 1
        if g < P:
            st["subgroup calls"] = st.get("subgroup calls", 0) + 1
        if e == 2 and g > 5:
            st["direct exchange above threshold"] = st.get("direct exchange above threshold", 0) + 1
        if e == 1 and g <= 5:
            st["recursive entry below threshold"] = st.get("recursive entry below threshold", 0) + 1
        if k > 0:
            pb = cs[k - 1][1]
            key = "zero->data" if pb == 0 and bs > 0 else "data->zero" if pb > 0 and bs == 0 else "same size" if pb == bs else "shrinking" if bs < pb else "growing"
            st["boundary:" + key] = st.get("boundary:" + key, 0) + 1


def judge_history(ctx, i, c, runs, model_lines, model_index, dist, hstat, nbad0):
    """oracle PER CALL on every rank's receive buffer + co-simulation input of one history run; returns the number of bad items"""
    P, seed, adv, _, dseed, mode = c[:6]
    cs = hist_calls(c)
    dist["P"][P] = dist["P"].get(P, 0) + 1
    dist["adv"][adv] = dist["adv"].get(adv, 0) + 1
    dist["hist_len"] = dist.get("hist_len", {})
    dist["hist_len"][len(cs)] = dist["hist_len"].get(len(cs), 0) + 1
    hist_shape_stats(c, hstat)
    ctx.count_case(c, nontrivial=P > 1)
    if i >= len(runs):
        ctx.tie_broken("harness output", "run %d missing" % i)
        return 1
    r = runs[i]
    rep = dict(case=list(c), rc=r.rc, report=r.report[:1500], calls=[dict(entry=ENTRY[e], blocksize=bs, base=b, g=g) for e, bs, b, g in cs])
    key = "history-P%d-n%d" % (P, len(cs))
    if r.rc != 0:
        if nbad0 < 3:
            ctx.violation("schedule:" + key, "a history of %d calls (%s) did not end normally (simmpi code %s): %s"
                          % (len(cs), ", ".join("%s bs=%d [%d,%d)" % (ENTRY[e], bs, b, b + g) for e, bs, b, g in cs), r.rc, r.report[:300]), rep)
        return 1
    nbad = 0
    outs = []
    for q in range(P):
        w = r.outs[q].split()
        outs.append(b"" if w[1] in ("-", "none") else bytes.fromhex(w[1]))
    off = 0
    member_out = [b""] * P
    for k, (e, bs, base, g) in enumerate(cs):
        ds = (dseed + 7919 * k) & 0xffffffff
        blocks = [block(ds, q, bs) for q in range(P)]
        for q in range(P):
            got = outs[q][off:off + bs * P]
            exp = bytearray(b"\xee" * (bs * P))
            if base <= q < base + g:
                exp[base * bs:(base + g) * bs] = b"".join(blocks[base:base + g])
                member_out[q] += got[base * bs:(base + g) * bs]
            if got != bytes(exp):
                nbad += 1
                if nbad0 + nbad <= 3:
                    rep2 = dict(rep, call=k, rank=q, got=got.hex(), expected=bytes(exp).hex())
                    ctx.violation("content:%s-call%d" % (key, k), "history, call %d of %d (%s, block size %d, group [%d,%d)): receive buffer of rank %d of %d is "
                                  "not the blocks of THIS call in rank order" % (k + 1, len(cs), ENTRY[e], bs, base, base + g, q, P), rep2)
                break
        off += bs * P
    if r.mem not in (0, None):
        ctx.violation("memory:" + key, "sc_memory_status changed by %s over a history of allgather calls" % r.mem, rep)
    per = mpitrace.rank_events(r.trace, P)
    for q in range(P):
        evs = []
        for ev in mpitrace.canonical_windows(per[q]):
            if ev[0] == "S":
                evs.append("S %x %x %s" % (ev[1], ev[2], mpitrace.hexints(ev[3])))
            elif ev[0] == "R":
                evs.append("R %s %x %s %s" % (("-1" if ev[1] < 0 else "%x" % ev[1]), ev[2], "%x" % (ev[3] if ev[3] is not None else 0), mpitrace.hexints(ev[4] or b"")))
        evs.append("O " + mpitrace.hexints(member_out[q]))
        params = " ".join("%d %x %x %x %s" % (e, bs, base, g, mpitrace.hexints(block((dseed + 7919 * k) & 0xffffffff, q, bs)))
                          for k, (e, bs, base, g) in enumerate(cs))
        model_lines.append("%x %x H %s | %s" % (P, q, params, " ; ".join(evs)))
        model_index.append((i, q))
    return nbad


def run(ctx):
    import genall
    # T1: Gen/Consts.v (tags, threshold) and Gen/AllgatherC04.v (branches, peers, tags, offsets and byte counts of sc_allgather_recursive /
    # _alltoall / sc_allgather; proved equal to the model's message lists in coq/C04/AllgatherGen.v) are regenerated from the working tree
    # before the theorems are checked; coq/Gen is shared: if another process regenerated a group meanwhile, the step is repeated
    GROUPS = ["Consts", "AllgatherC04"]
    for attempt in range(3):
        st = genall.run(GROUPS)
        nb, ob, di = len(ctx.broken), ctx.cov["obligations"], ctx.cov["discharged"]
        for g, s in st.items():
            ctx.log("c2g", g, s)
            if s.startswith("FAILED"):
                ctx.tie_broken("translator group " + g, s)
        ctx.props()
        st2 = genall.run(GROUPS)
        if not any("(changed)" in v_ for v_ in st2.values()):
            break
        ctx.log("coq/Gen was regenerated by another process during the proof step: repeating")
        del ctx.broken[nb:]
        ctx.cov["obligations"], ctx.cov["discharged"] = ob, di
    v = ctx.variant(mpi="sim", san=True)
    exe = ctx.cc([os.path.join(vlib.TOOLS, "harness", "c04_harness.c"), os.path.join(vlib.TOOLS, "simmpi", "simmpi.c")],
                 os.path.join(ctx.scratch, "c04_harness"), v)
    cases = gen_cases(ctx)
    if ctx.replay:
        rp = json.load(open(ctx.replay)).get("replay", {})
        if "case" in rp:
            cases = [tuple(rp["case"])] + cases[:5]
    text = "".join(" ".join(str(x) for x in c) + "\n" for c in cases)
    env = dict(os.environ, VERIF_SCRATCH=ctx.scratch, ASAN_OPTIONS="detect_leaks=0")
    rc, lines, err = ctx.run_lines([exe], text, timeout=1500, env=env)
    if rc != 0:
        ctx.violation("harness-crash", "c04 harness ended with status %s: %s" % (rc, err[-800:]), dict(stderr=err[-3000:]))
    runs = mpitrace.parse_runs(lines)
    model_lines = []
    model_index = []
    dist = {"P": {}, "adv": {}, "bs": {}}
    nbad = 0
    hstat = {}
    hbad = 0
    for i, c in enumerate(cases):
        P, seed, adv, bs, dseed, mode, base, g = c[:8]
        if mode == 2:
            hbad += judge_history(ctx, i, c, runs, model_lines, model_index, dist, hstat, hbad)
            continue
        dist["P"][P] = dist["P"].get(P, 0) + 1
        dist["adv"][adv] = dist["adv"].get(adv, 0) + 1
        dist["bs"][bs] = dist["bs"].get(bs, 0) + 1
        ctx.count_case(c, nontrivial=P > 1)
        if i >= len(runs):
            ctx.tie_broken("harness output", "run %d missing" % i)
            break
        r = runs[i]
        rep = dict(case=list(c), rc=r.rc, report=r.report[:1500])
        key = "P%d-bs%d-mode%d" % (P, bs, mode)
        if r.rc != 0:
            nbad += 1
            if nbad <= 3:
                ctx.violation("schedule:" + key, "sc_allgather run did not end normally (simmpi code %s): %s" % (r.rc, r.report[:300]), rep)
            continue
        # oracle on every receive buffer
        expect_all = b"".join(block(dseed, q, bs) for q in range(P))
        ok = True
        for q in range(P):
            w = r.outs[q].split()
            got = b"" if w[1] in ("-", "none") else bytes.fromhex(w[1])
            if mode == 0:
                exp = expect_all
            else:
                if not (base <= q < base + g):
                    continue
                exp = bytearray(b"\xee" * (bs * P))
                exp[base * bs:(base + g) * bs] = expect_all[base * bs:(base + g) * bs]
                exp = bytes(exp)
            if got != exp:
                ok = False
                nbad += 1
                if nbad <= 3:
                    rep["rank"] = q
                    rep["got"], rep["expected"] = got.hex(), exp.hex()
                    ctx.violation("content:" + key, "rank %d of %d: receive buffer is not the blocks in rank order" % (q, P), rep)
                break
        if r.mem not in (0, None):
            ctx.violation("memory:" + key, "sc_memory_status changed by %s over an allgather call" % r.mem, rep)
        # co-simulation input: one line per participating rank
        per = mpitrace.rank_events(r.trace, P)
        for q in range(P):
            if mode == 1 and not (base <= q < base + g):
                continue
            evs = []
            for e in mpitrace.canonical_windows(per[q]):
                if e[0] == "S":
                    evs.append("S %x %x %s" % (e[1], e[2], mpitrace.hexints(e[3])))
                elif e[0] == "R":
                    evs.append("R %s %x %s %s" % (("-1" if e[1] < 0 else "%x" % e[1]), e[2], "%x" % (e[3] if e[3] is not None else 0), mpitrace.hexints(e[4] or b"")))
            w = r.outs[q].split()
            got = b"" if w[1] in ("-", "none") else bytes.fromhex(w[1])
            if mode == 1:
                got = got[base * bs:(base + g) * bs]
            evs.append("O " + mpitrace.hexints(got))
            model_lines.append("%x %x %x %d %x %x %s | %s" % (P, q, bs, mode, base, g if mode else P, mpitrace.hexints(block(dseed, q, bs)), " ; ".join(evs)))
            model_index.append((i, q))
    try:
        mexe = ctx.model("c04")
        rc2, mout, err2 = ctx.run_lines([mexe], "\n".join(model_lines) + "\n", timeout=900)
        mout = [l for l in mout if l != ""]
        if rc2 != 0 or len(mout) != len(model_lines):
            ctx.tie_broken("c04 model run", "exit %s, %d of %d lines: %s" % (rc2, len(mout), len(model_lines), err2[-500:]))
        nmis = 0
        for (i, q), l in zip(model_index, mout):
            if not l.startswith("OK"):
                nmis += 1
                if nmis <= 3:
                    ctx.tie_broken("co-simulation rank %d of case %s" % (q, cases[i]), l[:500])
        ctx.notes["cosimulated_rank_traces"] = len(mout)
        ctx.notes["cosim_mismatches"] = nmis
    except vlib.BuildError as e:
        ctx.tie_broken("c04 model build", str(e)[-1500:])
    ctx.cov["disagreements_checked"] = len(model_lines)
    ctx.cov["rule"] = ("runs of the real sc_allgather on the simulated MPI: P=%s, block sizes 0/1/3/8, random seeds, all 8 scheduler adversaries "
                       "(random, starve one rank, LIFO matching, all-rendezvous, all-eager, minimal completions, lowest/highest rank first), plus "
                       "sc_allgather_recursive on random subgroups, plus HISTORIES of 2-5 calls (all three entry points, changing block sizes incl. 0 and changing groups, "
                       "P up to 40) on one communicator without barriers, judged per call; distinct = distinct (P, seed, adversary, size, data); non-trivial = P > 1"
                       % ("1..24" if ctx.quick else "1..48 and 63..128"))
    ctx.notes["distribution"] = dist
    ctx.notes["history_runs"] = dict(runs=sum(dist.get("hist_len", {}).values()), shapes=hstat)
    for c in cases[:: max(1, len(cases) // 4)][:4]:
        ctx.sample({"P": c[0], "seed": c[1], "adversary": c[2], "blocksize": c[3], "mode": c[5], "base": c[6], "g": c[7], "history": list(c[8:])})
    ctx.cov["trusted_base"] = ["T1: the message lists of the model (recvs_level, sends_level, recvs_a2a, sends_a2a) are proved EQUAL to the Irecv / Isend calls of Gen/AllgatherC04.v (branches, peers, tags, offsets, byte counts, recursion arguments, datasize and own-block copy of sc_allgather), regenerated from the working tree on every run (tools/c2g + slicelib + clang-14 JSON AST trusted); "
                               "the loop of sc_allgather_alltoall is tied iteration by iteration (generated header + generated one-iteration block incl. request slots, Waitall count, allocation), the whole body of sc_allgather as one generated block, "
                               "the request slots of the four paths of sc_allgather_recursive as a generated list; tools/c2g/groups_C04.py takes the chained NULL store of the skip branch apart and checks the statement shape of the three functions itself",
                               "histories: the composition of calls is PROVED (C04_history_*: every interleaving across back-to-back calls, FIFO per (source, destination, tag)); hist_prog is co-simulated against history runs of the real code",
                               "tools/simmpi (simulated MPI: non-overtaking matching, eager/rendezvous sends, completion at Waitall) and its trace",
                               "the per-rank programs of the theorems (allgather_prog) are tied to the C code by co-simulation of every rank's trace; "
                               "the step from the per-rank programs to the global result under all interleavings is PROVED (C04_every_schedule, "
                               "interleaving semantics of coq/MPI/Sem.v: buffered sends, FIFO channels per (source, destination, tag))",
                               "Coq standard-library axiom functional_extensionality_dep (equality of global states in the confluence theorem)"]
    ctx.assumptions += ["MPI delivers every message once, in order per (source, tag, communicator)"]
    return "proof"
