"""C04 - allgather replacement.  Proof about the global dataflow model; tie T3: the real sc_allgather runs on the
simulated MPI under adversarial schedules, every rank's trace is co-simulated against the extracted per-rank
program, and an independent oracle judges every receive buffer."""
import os, sys, json
import vlib, mpitrace
sys.path.insert(0, os.path.join(vlib.TOOLS, "c2g"))

ADVS = list(range(8))


def blk_byte(dseed, rank, k):
    x = (dseed * 2654435761 + rank * 40503 + k * 9176) & 0xffffffff
    x ^= x >> 13
    x = (x * 0x5bd1e995) & 0xffffffff
    x ^= x >> 15
    return x & 0xff


def block(dseed, rank, bs):
    return bytes(blk_byte(dseed, rank, k) for k in range(bs))


def gen_cases(ctx):
    rng = ctx.rng
    cases = []
    Ps = list(range(1, 25)) if ctx.quick else list(range(1, 49)) + [63, 64, 65, 96, 127, 128]
    sizes = [0, 1, 3, 8, 8, 12, 24]       # multiples of 2/4/8: the harness then uses send/receive datatypes of different size
    for P in Ps:
        for bs in ([rng.choice(sizes), rng.choice(sizes)] if ctx.quick else sizes):
            for _ in range(2 if ctx.quick else 4):
                cases.append((P, rng.randrange(1 << 30), rng.choice(ADVS), bs, rng.randrange(1 << 16), 0, 0, 0))
    # subgroups: the recursive routine on [base, base+g)
    for _ in range(30 if ctx.quick else 300):
        P = rng.randrange(2, 30)
        g = rng.randrange(1, P + 1)
        base = rng.randrange(0, P - g + 1)
        cases.append((P, rng.randrange(1 << 30), rng.choice(ADVS), rng.choice([1, 2, 5]), rng.randrange(1 << 16), 1, base, g))
    return cases


def run(ctx):
    import genall
    st = genall.run(["Consts"])
    for g, s in st.items():
        if s.startswith("FAILED"):
            ctx.tie_broken("translator group " + g, s)
    ctx.props()
    v = ctx.variant(mpi="sim", san=True)
    exe = ctx.cc([os.path.join(vlib.TOOLS, "harness", "c04_harness.c"), os.path.join(vlib.TOOLS, "simmpi", "simmpi.c")],
                 os.path.join(ctx.scratch, "c04_harness"), v)
    cases = gen_cases(ctx)
    if ctx.replay:
        rp = json.load(open(ctx.replay)).get("replay", {})
        if "case" in rp:
            cases = [tuple(rp["case"])] + cases[:5]
    text = "".join(" ".join(str(x) for x in c) + "\n" for c in cases)
    env = dict(os.environ, VERIF_SCRATCH=ctx.scratch, ASAN_OPTIONS="detect_leaks=0")
    rc, lines, err = ctx.run_lines([exe], text, timeout=1500, env=env)
    if rc != 0:
        ctx.violation("harness-crash", "c04 harness ended with status %s: %s" % (rc, err[-800:]), dict(stderr=err[-3000:]))
    runs = mpitrace.parse_runs(lines)
    model_lines = []
    model_index = []
    dist = {"P": {}, "adv": {}, "bs": {}}
    nbad = 0
    for i, c in enumerate(cases):
        P, seed, adv, bs, dseed, mode, base, g = c
        dist["P"][P] = dist["P"].get(P, 0) + 1
        dist["adv"][adv] = dist["adv"].get(adv, 0) + 1
        dist["bs"][bs] = dist["bs"].get(bs, 0) + 1
        ctx.count_case(c, nontrivial=P > 1)
        if i >= len(runs):
            ctx.tie_broken("harness output", "run %d missing" % i)
            break
        r = runs[i]
        rep = dict(case=list(c), rc=r.rc, report=r.report[:1500])
        key = "P%d-bs%d-mode%d" % (P, bs, mode)
        if r.rc != 0:
            nbad += 1
            if nbad <= 3:
                ctx.violation("schedule:" + key, "sc_allgather run did not end normally (simmpi code %s): %s" % (r.rc, r.report[:300]), rep)
            continue
        # oracle on every receive buffer
        expect_all = b"".join(block(dseed, q, bs) for q in range(P))
        ok = True
        for q in range(P):
            w = r.outs[q].split()
            got = b"" if w[1] in ("-", "none") else bytes.fromhex(w[1])
            if mode == 0:
                exp = expect_all
            else:
                if not (base <= q < base + g):
                    continue
                exp = bytearray(b"\xee" * (bs * P))
                exp[base * bs:(base + g) * bs] = expect_all[base * bs:(base + g) * bs]
                exp = bytes(exp)
            if got != exp:
                ok = False
                nbad += 1
                if nbad <= 3:
                    rep["rank"] = q
                    rep["got"], rep["expected"] = got.hex(), exp.hex()
                    ctx.violation("content:" + key, "rank %d of %d: receive buffer is not the blocks in rank order" % (q, P), rep)
                break
        if r.mem not in (0, None):
            ctx.violation("memory:" + key, "sc_memory_status changed by %s over an allgather call" % r.mem, rep)
        # co-simulation input: one line per participating rank
        per = mpitrace.rank_events(r.trace, P)
        for q in range(P):
            if mode == 1 and not (base <= q < base + g):
                continue
            evs = []
            for e in mpitrace.canonical_windows(per[q]):
                if e[0] == "S":
                    evs.append("S %x %x %s" % (e[1], e[2], mpitrace.hexints(e[3])))
                elif e[0] == "R":
                    evs.append("R %s %x %s %s" % (("-1" if e[1] < 0 else "%x" % e[1]), e[2], "%x" % (e[3] if e[3] is not None else 0), mpitrace.hexints(e[4] or b"")))
            w = r.outs[q].split()
            got = b"" if w[1] in ("-", "none") else bytes.fromhex(w[1])
            if mode == 1:
                got = got[base * bs:(base + g) * bs]
            evs.append("O " + mpitrace.hexints(got))
            model_lines.append("%x %x %x %d %x %x %s | %s" % (P, q, bs, mode, base, g if mode else P, mpitrace.hexints(block(dseed, q, bs)), " ; ".join(evs)))
            model_index.append((i, q))
    try:
        mexe = ctx.model("c04")
        rc2, mout, err2 = ctx.run_lines([mexe], "\n".join(model_lines) + "\n", timeout=900)
        mout = [l for l in mout if l != ""]
        if rc2 != 0 or len(mout) != len(model_lines):
            ctx.tie_broken("c04 model run", "exit %s, %d of %d lines: %s" % (rc2, len(mout), len(model_lines), err2[-500:]))
        nmis = 0
        for (i, q), l in zip(model_index, mout):
            if not l.startswith("OK"):
                nmis += 1
                if nmis <= 3:
                    ctx.tie_broken("co-simulation rank %d of case %s" % (q, cases[i]), l[:500])
        ctx.notes["cosimulated_rank_traces"] = len(mout)
        ctx.notes["cosim_mismatches"] = nmis
    except vlib.BuildError as e:
        ctx.tie_broken("c04 model build", str(e)[-1500:])
    ctx.cov["disagreements_checked"] = len(model_lines)
    ctx.cov["rule"] = ("runs of the real sc_allgather on the simulated MPI: P=%s, block sizes 0/1/3/8, random seeds, all 8 scheduler adversaries "
                       "(random, starve one rank, LIFO matching, all-rendezvous, all-eager, minimal completions, lowest/highest rank first), plus "
                       "sc_allgather_recursive on random subgroups; distinct = distinct (P, seed, adversary, size, data); non-trivial = P > 1"
                       % ("1..24" if ctx.quick else "1..48 and 63..128"))
    ctx.notes["distribution"] = dist
    for c in cases[:: max(1, len(cases) // 4)][:4]:
        ctx.sample({"P": c[0], "seed": c[1], "adversary": c[2], "blocksize": c[3], "mode": c[5], "base": c[6], "g": c[7]})
    ctx.cov["trusted_base"] = ["tools/simmpi (simulated MPI: non-overtaking matching, eager/rendezvous sends, completion at Waitall) and its trace",
                               "the per-rank programs of the theorems (allgather_prog) are tied to the C code by co-simulation of every rank's trace; "
                               "the step from the per-rank programs to the global result under all interleavings is PROVED (C04_every_schedule, "
                               "interleaving semantics of coq/MPI/Sem.v: buffered sends, FIFO channels per (source, destination, tag))",
                               "Coq standard-library axiom functional_extensionality_dep (equality of global states in the confluence theorem)"]
    ctx.assumptions += ["MPI delivers every message once, in order per (source, tag, communicator)"]
    return "proof"
