"""C06 - ASCII-armored encodings are lossless and build-configuration independent.

Proof: Props/Properties_C06.v (base 64 = RFC 4648 and its round trip, armor geometry, decode (encode x) = x with
zlib abstract, stored-block writer/reader and RFC 1950/1951 conformance, adler32, VTK streams).
Tie T1: value functions, tables, adler32, size formulas regenerated from /repo (Gen/Codec.v) + translator
validation against the compiled functions.
Tie T2: the same cases through the real code in BOTH configurations (with / without zlib; ASan+UBSan) and the
extracted model: the build without zlib must produce the model's text byte for byte, the zlib build's text must be
the model's armor of its own payload, every text must decode to the input in both builds and in the model.
Oracle (independent of the model): Python's base64 (strict) + zlib read the implementation's text: line geometry,
NUL, first 12 characters, recovered bytes; cross decoding between the two builds; VTK streams parsed by Python."""
import os, sys, json, zlib, base64, time, struct
import vlib
import codec_common as cc
sys.path.insert(0, os.path.join(vlib.TOOLS, "c2g"))


def datasets(ctx):
    rng = ctx.rng
    res = []
    def rnd(n):
        return bytes(rng.getrandbits(8) for _ in range(n))
    def txt(n):
        return (b"the quick brown fox jumps over the lazy dog. " * (n // 45 + 1))[:n]
    # every length around the 57-byte line boundaries (payload = 9 + stream; the stored stream adds 11 bytes)
    for n in range(0, 131 if ctx.quick else 400):
        res.append(rnd(n))
        if n % 3 == 0 or not ctx.quick:
            res.append(txt(n))
    for n in (171, 172, 255, 256, 1000, 4095, 4096):
        res.append(rnd(n)); res.append(bytes(n))
    big = [32767, 32768, 32769, 65530, 65531, 65532, 131062, 131063]
    if not ctx.quick:
        big += [65535, 65536, 65537, 98304, 196593, 196594, 300000]
    for n in big:
        res.append(rnd(n))
        if n in (32768, 65531, 65532, 131063) or not ctx.quick:
            res.append(bytes(n))
            res.append(txt(n))
    return res


def gen_enc_cases(ctx):
    rng = ctx.rng
    cases = []
    k = 0
    for d in datasets(ctx):
        n = len(d)
        reps = 1 if n > 5000 else 2
        for _ in range(reps):
            level = rng.choice([-1, 0, 1, 2, 3, 4, 5, 6, 7, 8, 9, 9, 100])
            lb = k % 256                         # all 256 break bytes in turn
            k += 1
            inplace = rng.random() < 0.35
            divs = [e for e in (1, 2, 3, 4, 5, 7, 8, 16) if n % e == 0]
            esz = 1 if inplace else rng.choice(divs)
            cases.append(dict(data=d, level=level, lb=(61 if level == 100 else lb), inplace=int(inplace), esz=esz,
                              line="enc %x %x %s %x %s" % (int(inplace), esz, ("-1" if level == -1 else "%x" % level), lb, cc.hx(d))))
    # every level on a few inputs
    for d in (b"", b"a", bytes(300), b"abcabcabc" * 50, bytes(rng.getrandbits(8) for _ in range(200))):
        for level in list(range(-1, 10)) + [100]:
            cases.append(dict(data=d, level=level, lb=61, inplace=0, esz=1,
                              line="enc 0 1 %s 3d %s" % (("-1" if level == -1 else "%x" % level), cc.hx(d))))
    return cases


def parse_vtk_compressed(stream, data):
    """Python reads the stream of sc_vtk_write_compressed: returns (message or None, blocks)"""
    try:
        h0 = base64.b64decode(stream[:16], validate=True)
        nblocks, bsize, last = struct.unpack("<III", h0[:12])
        hbytes = 4 * (3 + nblocks)
        hlen = 4 * ((hbytes + 2) // 3)
        hdr = base64.b64decode(stream[:hlen], validate=True)
        if len(hdr) != hbytes:
            return "header length", []
        sizes = struct.unpack("<%dI" % nblocks, hdr[12:])
        body = base64.b64decode(stream[hlen:], validate=True)
    except Exception as e:
        return "not base 64 / header unreadable: %s" % e, []
    if bsize != 32768:
        return "block size %d" % bsize, []
    n = len(data)
    if nblocks != (n + 32767) // 32768:
        return "%d blocks for %d bytes" % (nblocks, n), []
    exp_last = (n % 32768) if (n % 32768 or n == 0) else 32768
    if last != exp_last:
        return "last block size %d, expected %d" % (last, exp_last), []
    if sum(sizes) != len(body):
        return "compressed sizes sum to %d, body has %d bytes" % (sum(sizes), len(body)), []
    out = b""
    blocks = []
    pos = 0
    for s in sizes:
        blk = body[pos:pos + s]; pos += s
        blocks.append(blk)
        try:
            out += zlib.decompress(blk)
        except zlib.error as e:
            return "block does not inflate: %s" % e, blocks
    if out != data:
        return "blocks inflate to %d bytes that differ from the %d input bytes" % (len(out), n), blocks
    return None, blocks


def run(ctx):
    cc.translate_and_prove(ctx, ["Codec", "EncodeC06", "StaticC06"])
    exes = cc.build(ctx, static=True)
    rng = ctx.rng
    t0 = time.time()
    ecases = gen_enc_cases(ctx)
    if ctx.replay:
        r = json.load(open(ctx.replay)).get("replay", {})
        if r.get("op") == "enc":
            ecases = [dict(data=cc.unhx(r["data"]), level=r["level"], lb=r["lb"], inplace=r["inplace"], esz=r["esz"], line=r["line"])] + ecases[:30]
    # ---- pass 1: encoders, VTK writers, base-64 streams, translator validation ---------------------------------------
    vcases = []
    for d in [b"", b"a", b"ab", b"abc", bytes(rng.getrandbits(8) for _ in range(100)), bytes(32767), bytes(rng.getrandbits(8) for _ in range(32768)),
              (b"vtk point data 0.125 " * 1600)[:32769], bytes(rng.getrandbits(8) for _ in range(65536)), (b"xyz" * 30000)[:70001],
              bytes(rng.getrandbits(8) for _ in range(98305))] + \
             [bytes(rng.getrandbits(8) for _ in range(rng.randrange(1, 3000))) for _ in range(10 if ctx.quick else 100)]:
        vcases.append(d)
    bcases = []          # chunked base-64 streams
    for _ in range(150 if ctx.quick else 2000):
        nch = rng.randrange(1, 6)
        chunks = [bytes(rng.getrandbits(8) for _ in range(rng.choice([0, 1, 2, 3, 4, 5, 57, 58, rng.randrange(0, 200)]))) for _ in range(nch)]
        bcases.append(chunks)
    # histories aimed at the case split of the carry (C06_b64_history_state): every state A/B/C (0, 1, 2 bytes before) x a call with
    # 0, 1, 2, 3 bytes x a call with 0..3 bytes, and empty calls in between (seed C06c: a one-byte or empty call in step B / C)
    nhist = 0
    for a in range(4):
        for b in range(4):
            for c in range(4):
                ch = [bytes(rng.getrandbits(8) for _ in range(k)) for k in (a, b, c)]
                bcases.append(ch); nhist += 1
                if (a + b + c) % 2 == 0:
                    bcases.append([ch[0], b"", ch[1], b"", ch[2], b""]); nhist += 1
    for n in (7, 8, 9):
        d = bytes(rng.getrandbits(8) for _ in range(n))
        bcases.append([d[k:k + 1] for k in range(n)]); nhist += 1       # one byte per call
    bdcases = []         # chunked decoding of valid and dirty texts
    for _ in range(150 if ctx.quick else 2000):
        raw = bytes(rng.getrandbits(8) for _ in range(rng.randrange(0, 120)))
        code = bytearray(base64.b64encode(raw))
        for _ in range(rng.choice([0, 0, 1, 3])):
            code.insert(rng.randrange(len(code) + 1), rng.choice([10, 13, 32, 61, 0x80, 0xff, 45, 95]))
        code = bytes(code)
        cuts = sorted(rng.randrange(len(code) + 1) for _ in range(rng.randrange(0, 4)))
        parts = [code[a:b] for a, b in zip([0] + cuts, cuts + [len(code)])]
        bdcases.append((raw, parts))
    lines1 = [c["line"] for c in ecases]
    off_vb = len(lines1); lines1 += ["vtkb " + cc.hx(d) for d in vcases]
    off_vc = len(lines1); lines1 += ["vtkc " + cc.hx(d) for d in vcases]
    off_b = len(lines1); lines1 += ["b64 " + " ".join(cc.hx(c) for c in ch) for ch in bcases]
    off_bd = len(lines1); lines1 += ["b64d " + " ".join(cc.hx(c) for c in parts) for _, parts in bdcases]
    out1 = {}
    inc1 = {}
    for v in ("z", "nz"):
        out1[v], inc1[v] = cc.run_harness(ctx, exes[v], lines1, timeout=170 if ctx.quick else 1500, args=[os.path.join(ctx.scratch, "vtk_%s.tmp" % v)])
    ctx.log("pass 1: %d cases x 2 builds in %.1fs" % (len(lines1), time.time() - t0))
    # model lines: vtkc has no model op (deflate is outside the model): replaced by the armor/vtkcb ties below
    mlines1 = [l if not l.startswith("vtkc ") else "zlib" for l in lines1]
    mod1 = cc.run_model(ctx, "c06", mlines1, timeout=900 if ctx.quick else 3000)
    ctx.log("pass 1 model %.1fs" % (time.time() - t0))
    ndis = 0
    dist = {}

    def tie(name, detail):
        nonlocal ndis
        if cc.NO_MODEL in detail:
            return                                 # the model did not build: reported once by run_model
        ndis += 1
        if ndis <= 4:
            ctx.tie_broken(name, detail)

    for v in ("z", "nz"):
        for (k, kind, e) in inc1[v]:
            if k < len(ecases):
                c = ecases[k]
                ctx.violation("enc-%s:%s" % (kind.lower(), v), "sc_io_encode_zlib (%s build) on %d bytes level %d break %#x: %s %s" % (v, len(c["data"]), c["level"], c["lb"], kind, e[:300]),
                              dict(op="enc", line=c["line"], data=cc.hx(c["data"]), level=c["level"], lb=c["lb"], inplace=c["inplace"], esz=c["esz"], variant=v))
            else:
                ctx.violation("writer-%s:%s" % (kind.lower(), v), "case %s (%s build): %s %s" % (lines1[k][:60], v, kind, e[:300]), dict(op="line", line=lines1[k][:4000], variant=v))
    # ---- encoders: oracle + ties ------------------------------------------------------------------------------------
    texts = []           # (case index, variant, text)
    armor_lines = []     # model must rebuild the zlib build's text from its payload
    armor_expect = []
    for i, c in enumerate(ecases):
        d = c["data"]
        dist["enc:level%d" % c["level"]] = dist.get("enc:level%d" % c["level"], 0) + 1
        ctx.count_case(("enc", c["line"]), nontrivial=len(d) > 0)
        for v in ("z", "nz"):
            o = out1[v][i]
            if o in (None, "CRASH", "TIMEOUT", "NOT-RUN"):
                continue
            robj = dict(op="enc", line=c["line"], data=cc.hx(d), level=c["level"], lb=c["lb"], inplace=c["inplace"], esz=c["esz"], variant=v, impl=o[:300])
            if "INPUT-MODIFIED" in o:
                ctx.violation("enc-input-modified:" + v, "sc_io_encode_zlib (%s build) changed its input array although an output array was given" % v, robj)
                continue
            oesz, ocnt, text = cc.parse_array(o)
            msg = None
            if oesz != 1 or ocnt != len(text):
                msg = "output array has element size %d count %d" % (oesz, ocnt)
            else:
                msg = cc.check_text_format(text, d, c["lb"])
            if msg:
                ctx.violation("enc-text:%s:%s" % (v, msg.split()[0]), "sc_io_encode_zlib (%s build, %d bytes, level %d, break byte %#x, %s): %s" % (
                    v, len(d), c["level"], c["lb"], "in place" if c["inplace"] else "separate output", msg), robj)
            texts.append((i, v, text))
            if v == "nz":
                if o != mod1[i]:
                    tie("sc_io_encode_zlib vs model (build without zlib)", "case %s...: libsc %s..., model %s..." % (c["line"][:80], o[:80], mod1[i][:80]))
            else:
                p = cc.py_payload(text)
                if p is not None and len(p) > 0:
                    armor_lines.append("armor %x %s" % (c["lb"], cc.hx(p)))
                    armor_expect.append((i, text))
    # ---- VTK writers ----------------------------------------------------------------------------------------------------
    vtkcb_lines = []
    vtkcb_expect = []
    for k, d in enumerate(vcases):
        ctx.count_case(("vtk", d), nontrivial=len(d) > 0)
        dist["vtk"] = dist.get("vtk", 0) + 1
        for v in ("z", "nz"):
            o = out1[v][off_vb + k]
            if o in (None, "CRASH", "TIMEOUT", "NOT-RUN"):
                continue
            w = o.split()
            stream = cc.unhx(w[1]) if len(w) > 1 else b""
            msg = None
            try:
                raw = base64.b64decode(stream, validate=True)
                if w[0] != "0":
                    msg = "return value %s" % w[0]
                elif base64.b64encode(raw) != stream:
                    msg = "not the canonical RFC 4648 text"
                elif raw[:4] != struct.pack("<I", len(d)) or raw[4:] != d:
                    msg = "Python's base64 reader recovers a different length word or different bytes"
            except Exception as e:
                msg = "stream is not base 64: %s" % e
            if msg:
                ctx.violation("vtk-binary:" + v, "sc_vtk_write_binary (%s build) on %d bytes: %s" % (v, len(d), msg), dict(op="line", line=lines1[off_vb + k][:4000], variant=v, impl=o[:300]))
            if o != mod1[off_vb + k]:
                tie("sc_vtk_write_binary vs model", "%d bytes (%s build): libsc %s..., model %s..." % (len(d), v, o[:60], mod1[off_vb + k][:60]))
        o = out1["z"][off_vc + k]
        if o not in (None, "CRASH", "TIMEOUT", "NOT-RUN"):
            w = o.split()
            stream = cc.unhx(w[1]) if len(w) > 1 else b""
            msg, blocks = parse_vtk_compressed(stream, d)
            if w[0] != "0":
                msg = "return value %s" % w[0]
            if msg:
                ctx.violation("vtk-compressed", "sc_vtk_write_compressed on %d bytes: %s" % (len(d), msg), dict(op="line", line=lines1[off_vc + k][:4000], impl=o[:300]))
            else:
                vtkcb_lines.append("vtkcb %x %s" % (len(d), " ".join(cc.hx(b) for b in blocks)))
                vtkcb_expect.append((len(d), cc.hx(stream)))
    # ---- base-64 streams --------------------------------------------------------------------------------------------------
    for k, ch in enumerate(bcases):
        ctx.count_case(("b64", tuple(ch)), nontrivial=sum(map(len, ch)) > 0)
        dist["b64"] = dist.get("b64", 0) + 1
        for v in ("z", "nz"):
            o = out1[v][off_b + k]
            if o in (None, "CRASH", "TIMEOUT", "NOT-RUN"):
                continue
            joined = b"".join(cc.unhx(x) for x in o.split())
            if joined != base64.b64encode(b"".join(ch)):
                ctx.violation("b64-stream:" + v, "base64_encode_block over chunks %s + blockend differs from RFC 4648 of the concatenation" % [len(x) for x in ch],
                              dict(op="line", line=lines1[off_b + k][:4000], variant=v, impl=o[:300]))
            if o != mod1[off_b + k]:
                tie("base64_encode_block vs model", "chunks %s: libsc %s, model %s" % ([len(x) for x in ch], o[:80], mod1[off_b + k][:80]))
    for k, (raw, parts) in enumerate(bdcases):
        ctx.count_case(("b64d", tuple(parts)), nontrivial=len(raw) > 0)
        dist["b64d"] = dist.get("b64d", 0) + 1
        for v in ("z", "nz"):
            o = out1[v][off_bd + k]
            if o in (None, "CRASH", "TIMEOUT", "NOT-RUN"):
                continue
            w = o.split()
            got = b"".join(cc.unhx(w[2 * j + 1]) for j in range(len(parts)))
            if got != raw:
                ctx.violation("b64-decode:" + v, "base64_decode_block over %d chunks of a text with inserted non-alphabet bytes recovers %d bytes, expected the %d encoded ones" % (len(parts), len(got), len(raw)),
                              dict(op="line", line=lines1[off_bd + k][:4000], variant=v, impl=o[:300]))
            if o != mod1[off_bd + k]:
                tie("base64_decode_block vs model", "parts %s: libsc %s, model %s" % ([len(x) for x in parts], o[:80], mod1[off_bd + k][:80]))
    # ---- pass 2: every text decoded by both builds and by the model; armor / vtk stream rebuilt by the model ---------------
    dl = []
    dmeta = []
    for (i, v, text) in texts:
        c = ecases[i]
        n = len(c["data"])
        big = n > 5000
        kinds = [(0, 1, c["esz"], 3)]                                   # owner with the element size of the input
        alt = [(1, 1, 1, 0),                                             # in place
               (0, 0, c["esz"], n // c["esz"]),                          # a view that fits exactly
               (0, 0, 1, n + 9)]                                         # a larger view
        if big:
            if v == "z":
                kinds.append(alt[0])
        elif ctx.quick:
            kinds.append(alt[(i + (v == "z")) % 3])                      # quick tier: the three other kinds in rotation
        else:
            kinds += alt
        for kd in kinds:
            mx = rng.choice([0, n, n + 1, 0]) if n else 0
            dl.append("dec %x %x %x %x %x %s" % (kd[0], kd[1], kd[2], kd[3], mx, cc.hx(text)))
            dmeta.append((i, v, kd))
        dl.append("info " + cc.hx(text))
        dmeta.append((i, v, None))
    # one PROCESS, many texts, any order (C06_process_is_stateless): the decodes above run in the order of the data sets (by size:
    # stored / fixed-code streams first, dynamic ones later); here a sample of the small texts of the zlib build is decoded AGAIN in
    # random order by the same process, so that fixed-code, dynamic and stored streams alternate (seed C06d: stale tables)
    small = [k for k, (i, tv, kd) in enumerate(dmeta) if tv == "z" and kd is not None and len(ecases[i]["data"]) <= 3000]
    rng.shuffle(small)
    nshuf = 0
    for k in small[:(150 if ctx.quick else 3000)]:
        dl.append(dl[k] + " ")                # a distinct case line (trailing blank): same decode, later in the process
        dmeta.append(dmeta[k]); nshuf += 1
    out2 = {}
    for v in ("z", "nz"):
        out2[v], inc = cc.run_harness(ctx, exes[v], dl, timeout=170 if ctx.quick else 1500)
        for (k, kind, e) in inc:
            i, tv, kd = dmeta[k]
            ctx.violation("dec-%s:%s" % (kind.lower(), v), "decoding the text of the %s build in the %s build: %s %s" % (tv, v, kind, e[:300]),
                          dict(op="line", line=dl[k][:4000], variant=v))
    ctx.log("pass 2: %d cases x 2 builds %.1fs" % (len(dl), time.time() - t0))
    # HIGH-RATIO texts: deflate reaches an expansion factor of 1026..1029 on megabytes of one repeated byte; the decoder's
    # plausibility guard (header size vs. amount of compressed data, 5c6a588) must admit everything deflate can produce.
    # The texts are made by the independent Python encoder (a few KB each), decoded by both builds, and judged on length
    # and content (seed C06e narrowed the guard to a factor of 1024)
    hr = []
    for (n, byte, level) in ([(4 << 20, 0, 9), (4 << 20, 255, 6)] if ctx.quick else [(m << 20, b, l) for m in (3, 4, 6, 16) for b in (0, 255) for l in (-1, 4, 6, 9)]):
        data = bytes([byte]) * n
        text = cc.py_encode(data, level=level)
        hr.append((n, byte, level, data, "dec 0 1 %x 3 0 %s" % (n, cc.hx(text))))          # owner, ONE element of n bytes
    for v in ("z", "nz"):
        outs, inc = cc.run_harness(ctx, exes[v], [h[4] for h in hr], timeout=170 if ctx.quick else 1500)
        for (k, kind, e) in inc:
            ctx.violation("dec-%s:%s" % (kind.lower(), v), "decoding a high-ratio text in the %s build: %s %s" % (v, kind, e[:300]), dict(op="line", line=hr[k][4][:4000], variant=v))
        for k, (n, byte, level, data, line) in enumerate(hr):
            o = outs[k]
            ctx.count_case(("high-ratio", v, n, byte, level), nontrivial=True)
            if o in (None, "CRASH", "TIMEOUT", "NOT-RUN"):
                continue
            exp = "ok %x 1 " % n
            if not (o.startswith(exp) and cc.unhx(o[len(exp):]) == data):
                ctx.violation("roundtrip:high-ratio:%s-reader" % v,
                              "%d bytes of %#04x compressed by zlib at level %d (ratio %.0f): sc_io_decode in the %s build returns %s, expected the data" % (
                                  n, byte, level, n / max(1, len(zlib.compress(data, level if level >= 0 else 6))), v, o[:40]),
                              dict(op="line", line=line, variant=v, n=n, byte=byte, level=level))
    ctx.log("high-ratio texts: %d cases x 2 builds %.1fs" % (len(hr), time.time() - t0))
    # the model decodes the small and the stored texts (its inflate is quadratic in the match distance: large Huffman streams are left to the two builds)
    msel = [k for k, (i, tv, kd) in enumerate(dmeta) if len(ecases[i]["data"]) <= 5000 or tv == "nz" or kd is None]
    mod2 = cc.run_model(ctx, "c06", [dl[k] for k in msel] + armor_lines + vtkcb_lines, timeout=900 if ctx.quick else 3000)
    ctx.log("pass 2 model: %d cases %.1fs" % (len(msel) + len(armor_lines) + len(vtkcb_lines), time.time() - t0))
    mod2map = {k: mod2[j] for j, k in enumerate(msel)}
    nround = 0
    for k, (i, tv, kd) in enumerate(dmeta):
        c = ecases[i]
        d = c["data"]
        ctx.count_case(("dec", tv, dl[k]), nontrivial=len(d) > 0)
        if kd is None:
            exp = "ok %x 7a" % len(d)
        else:
            esz = 1 if kd[0] else kd[2]
            exp = "ok %x %x %s" % (esz, len(d) // esz, cc.hx(d))
        for v in ("z", "nz"):
            o = out2[v][k]
            if o in (None, "CRASH", "TIMEOUT", "NOT-RUN"):
                continue
            nround += 1
            if o != exp:
                what = "sc_io_decode_info" if kd is None else "sc_io_decode (%s)" % ("in place" if kd[0] else ("owner" if kd[1] else "view") + " element size %d" % kd[2])
                ctx.violation("roundtrip:%s-text:%s-reader:%s" % (tv, v, "info" if kd is None else "dec"),
                              "%d bytes encoded by the %s build (level %d, break byte %#x): %s in the %s build returns %s, expected %s" % (
                                  len(d), tv, c["level"], c["lb"], what, v, o[:70], exp[:70]),
                              dict(op="enc", line=c["line"], data=cc.hx(d), level=c["level"], lb=c["lb"], inplace=c["inplace"], esz=c["esz"], text_from=tv, reader=v, decode_line=dl[k][:4000]))
        if k in mod2map and mod2map[k] != exp:
            tie("model decodes the %s build's text" % tv, "%d bytes level %d: model returns %s, expected %s" % (len(d), c["level"], mod2map[k][:70], exp[:70]))
    base = len(msel)
    for j, (i, text) in enumerate(armor_expect):
        if mod2[base + j] != cc.hx(text):
            tie("armor of the zlib build's payload vs model", "case %s...: model armor %s... differs from the text written by libsc" % (ecases[i]["line"][:60], mod2[base + j][:24]))
    base += len(armor_lines)
    for j, (n, sh) in enumerate(vtkcb_expect):
        if mod2[base + j] != sh:
            tie("sc_vtk_write_compressed vs model", "%d bytes: the model's stream %s... for the same compressed blocks differs from libsc's" % (n, mod2[base + j][:24]))
    # ---- T1: translator validation and the static functions of the build without zlib ---------------------------------------
    sl = []
    for vv in range(-128, 128):
        if vv >= 0:       # base64_encode_value is only ever called with 0..63 (masked 6-bit groups); 64..127 give '='
            sl.append("evalue %x" % vv)
        sl.append("dvalue %s" % (("-%x" % -vv) if vv < 0 else "%x" % vv))
    ad = []
    for n in [0, 1, 2, 100, 4999, 5000, 5001, 5002, 9999, 10000, 10001, 15001, 65531] + [rng.randrange(0, 12000) for _ in range(12 if ctx.quick else 100)]:
        for fill in ("ff", "rnd"):
            b = bytes([255]) * n if fill == "ff" else bytes(rng.getrandbits(8) for _ in range(n))
            a0 = rng.choice([1, 1, 0, 0xffffffff, 0xfff0fff0, rng.getrandbits(32)])
            ad.append((a0, b))
            sl.append("adler %x %s" % (a0, cc.hx(b)))
    for n in [0, 1, 65530, 65531, 65532, 131062, 131063, (1 << 32) - 1, 1 << 32, (1 << 40) + 17] + [rng.randrange(0, 1 << 33) for _ in range(40)]:
        sl.append("ncb %x" % n)
    ncd = [d for d in datasets(ctx) if len(d) < 400][::7] + [bytes(rng.getrandbits(8) for _ in range(n)) for n in (65530, 65531, 65532, 131062, 131063)]
    for d in ncd:
        sl.append("nonc " + cc.hx(d))
    outs, incs = cc.run_harness(ctx, exes["nzs"], sl, timeout=170)
    mods = cc.run_model(ctx, "c06", sl, timeout=600)
    for (k, kind, e) in incs:
        ctx.violation("static-%s" % kind.lower(), "case %s: %s %s" % (sl[k][:60], kind, e[:300]), dict(op="line", line=sl[k][:4000], variant="nzs"))
    ai = 0
    nonu_lines = []
    nonu_expect = []
    for k, l in enumerate(sl):
        ctx.count_case(("static", l), nontrivial=True)
        dist["t1:" + l.split()[0]] = dist.get("t1:" + l.split()[0], 0) + 1
        o, m = outs[k], mods[k]
        if o in (None, "CRASH", "TIMEOUT", "NOT-RUN"):
            continue
        if o != m:
            tie("translator validation / static function %s" % l.split()[0], "case %s: C gives %s, generated/model gives %s" % (l[:60], o[:60], m[:60]))
        op = l.split()[0]
        if op == "adler":
            a0, b = ad[ai]; ai += 1
            if int(o, 16) != zlib.adler32(b, a0):
                ctx.violation("adler32", "sc_io_adler32_update from %#x over %d bytes gives %s, zlib's adler32 gives %x" % (a0, len(b), o, zlib.adler32(b, a0)), dict(op="line", line=l[:4000], impl=o))
        elif op == "nonc":
            d = cc.unhx(l.split()[1])
            s = cc.unhx(o)
            try:
                ok = zlib.decompress(s) == d
            except zlib.error as e:
                ok = False
            if not ok or len(s) != 2 + 5 * max(1, (len(d) + 65530) // 65531) + len(d) + 4:
                ctx.violation("noncompress", "sc_io_noncompress on %d bytes: zlib does not recover the input from the stream (or the stream length is not the bound)" % len(d), dict(op="line", line=l[:4000], impl=o[:200]))
            nonu_lines.append("nonu %x %s" % (len(d), o)); nonu_expect.append("ok " + cc.hx(d))
            # a conforming stream written by someone else: zlib's own stored output, and 7-byte blocks
            for alt in (zlib.compress(d, 0), cc.py_stored(d, block=7) if len(d) < 400 else cc.py_stored(d, block=65535)):
                nonu_lines.append("nonu %x %s" % (len(d), cc.hx(alt))); nonu_expect.append("ok " + cc.hx(d))
    outs, incs = cc.run_harness(ctx, exes["nzs"], nonu_lines, timeout=170)
    for (k, kind, e) in incs:
        ctx.violation("static-%s" % kind.lower(), "case %s: %s %s" % (nonu_lines[k][:60], kind, e[:300]), dict(op="line", line=nonu_lines[k][:4000], variant="nzs"))
    mods = cc.run_model(ctx, "c06", nonu_lines, timeout=600)
    for k, l in enumerate(nonu_lines):
        ctx.count_case(("nonu", l), nontrivial=True)
        if outs[k] != nonu_expect[k]:
            ctx.violation("nonuncompress", "sc_io_nonuncompress rejects or misreads a conforming stored stream of %s bytes: %s" % (l.split()[1], (outs[k] or "")[:60]), dict(op="line", line=l[:4000], impl=(outs[k] or "")[:200]))
        if outs[k] != mods[k]:
            tie("sc_io_nonuncompress vs model", "case %s: C %s, model %s" % (l[:50], (outs[k] or "")[:50], mods[k][:50]))
    ctx.cov["disagreements_checked"] = len(lines1) * 2 + len(dl) * 2 + len(sl) + len(nonu_lines)
    ctx.cov["rule"] = ("every data length 0..%d (random; text-like every third) plus 171..4096 and the block boundaries 32767/32768/32769, 65530/65531/65532, 131062/131063 "
                       "(random, zeros, text); levels -1..9 and the default entry point; the 256 line-break bytes in rotation; element sizes dividing the length; in place and separate output; "
                       "each text decoded in both builds (owner, in place, exact view, larger view; with and without maximum) and by the model; VTK writers on lengths around 32768; "
                       "chunked base-64 streams; translator validation: all 256 char values, adler32 over lengths around 5000 with all-0xff and random bytes, noncompress_bound grid. "
                       "A case is non-trivial if its data is not empty; distinct = distinct case lines" % (130 if ctx.quick else 399))
    ctx.cov["exhaustive"] = False
    dist["b64:carry-histories"] = nhist
    dist["dec:shuffled-order"] = nshuf
    ctx.notes["case_distribution"] = dist
    ctx.notes["t1_groups"] = "Codec (leaf functions, size formulas), EncodeC06 (42 slices of the encoder side), StaticC06 (census of static objects)"
    ctx.notes["round_trip_decodes_checked"] = nround
    ctx.notes["texts"] = len(texts)
    for c in ecases[:: max(1, len(ecases) // 5)][:5]:
        ctx.sample({"case": c["line"][:120]})
    ctx.cov["trusted_base"] = ["tools/c2g translator and clang-14's JSON AST (mitigated by the differential run of this check)",
                               "translator add-ons of group EncodeC06: the desugaring of tools/c2g/groups_C07.py (x++ in expressions, stores and returns as ghost outputs, "
                               "loop steps) and the rewriting rules listed in tools/c2g/groups_C06.py ((void) f () = f (), aborting checks dropped, p[k] = byte at address p + k, "
                               "calls as ghost outputs by slicelib's `effects`); the census of static objects reads clang's AST (kinds of use classified syntactically)",
                               "zlib compress2/uncompress: contract inflate (deflate l d) = d (Section hypotheses of C06_roundtrip)",
                               "Python's base64/zlib modules as the independent reader of the oracle"]
    ctx.assumptions += ["documented preconditions of sc_io_encode_zlib: output (or in-place input) array owns its memory and has element size 1, level in -1..9",
                        "sizes of objects in memory are below 2^62"]
    return "proof"
