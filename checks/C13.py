"""C13 - global statistics.  Proof: the GENERATED record combination (body of sc_stats_mpifunc) yields, for every
reduction tree over every arrangement of the operands, the statistics of the union of all samples.
Tie: T1 (generated combine) + T3: the real sc_stats_compute runs on the simulated MPI, whose Allreduce applies the
user operation along random trees over random permutations; the records the real code packed (from the trace) are
folded by the extracted model and compared with what every rank obtained; an independent oracle computes the
statistics of the union of the samples.
Second layer (docs/C13.md): the per-variable object sc_statinfo_t as a state machine (coq/C13/VarModel.v), every transition generated
from src/sc_statistics.c (group StatsVarC13) and proved equal; theorems over histories of any number of rounds; the extracted state
machine is run on every history of the correspondence run and compared with all fields after every round on every rank."""
import os, sys, json, struct, math
from fractions import Fraction
import vlib, mpitrace
sys.path.insert(0, os.path.join(vlib.TOOLS, "c2g"))


def dbits(x):
    return struct.unpack("<Q", struct.pack("<d", x))[0]


def bitsd(u):
    return struct.unpack("<d", struct.pack("<Q", u))[0]


# constants whose square or mean is inexact in binary64: with (nearly) zero variance the residual sum_squares / count - average^2
# rounds to a small negative number for some sample counts (0.1: 3 samples; 0.3, 0.6, 0.7, 2.9, 3.3: 6 samples)
CONSTS = [0.1, 0.3, 0.6, 0.7, 2.9, 3.3, 1e-3, 1.0 / 3.0, 1e16 + 1.0, 0.2, 1.1, 123.456, -0.1, -3.3, 1e-7, 7.3e11]


def seqsum(xs):
    """left-to-right binary64 sum, as a sequence of sc_stats_accumulate calls computes it (Python's sum () compensates since 3.12)"""
    a = 0.0
    for x in xs:
        a = a + x
    return a


def gen_samples(rng, style, force=False):
    k = rng.random()
    if style == "empty" or (k < 0.25 and not force):
        return []
    if isinstance(style, tuple):
        kind, c, n = style
        if kind == "const":
            return [c] * n
        return [rng.choice([c, math.nextafter(c, math.inf), c]) for _ in range(n)]      # nearconst: c and c * (1 + 2^-52)
    n = rng.choice([1, 1, 2, 3, 5, 8])
    if style == "huge":
        return [rng.choice([1.0, -1.5, 2.75, rng.uniform(-9, 9)]) * 1e150 for _ in range(n)]
    if style == "tiny":
        return [rng.choice([1.0, -1.5, 2.75, rng.uniform(-9, 9)]) * 1e-160 for _ in range(n)]
    if style == "frac":
        return [rng.uniform(-10, 10) for _ in range(n)]
    if style == "pos":
        return [float(rng.randrange(1, 50)) for _ in range(n)]
    if style == "neg":
        return [float(-rng.randrange(1, 50)) for _ in range(n)]
    if style == "ties":
        return [float(rng.choice([-7, 3, 3, 9])) for _ in range(n)]
    return [float(rng.randrange(-1000, 1000)) for _ in range(n)]


SETTERS = (0, 1, 3, 4, 5, 6)      # modes that make the variable dirty (init / set1 / reset and their _ext forms)


def gen_cases(ctx):
    """A case: (P, seed, adversary, nvars, rounds, data, kinds); data[round][rank][var] = (mode, samples), kinds[round] = 0
    (sc_stats_compute) or 1 (sc_stats_compute1).  The generator simulates the dirty flags so that sc_stats_accumulate is only
    called on dirty variables (mode 7).  Rounds ending with sc_stats_compute1 deliberately contain clean variables (clean on all
    ranks, clean on some ranks): since repair F-C13a sc_stats_compute1 must leave them untouched."""
    rng = ctx.rng
    cases = []
    Ps = [1, 2, 3, 4, 5, 6, 8, 9, 13] if ctx.quick else list(range(1, 20)) + [24, 32, 33]
    for P in Ps:
        for rep in range(16 if ctx.quick else 40):
            nvars = rng.choice([1, 2, 3, 4])
            rounds = rng.choice([1, 2, 2, 3, 4])
            styles = [rng.choice(["any", "pos", "neg", "ties", "empty", "any", "any", "frac", "huge", "tiny",
                                  ("const", rng.choice(CONSTS), rng.choice([1, 1, 2, 3])), ("nearconst", rng.choice(CONSTS), rng.choice([1, 2, 3]))])
                      for _ in range(nvars)]
            isdirty = [[False] * nvars for _ in range(P)]
            data, kinds = [], []
            for rd in range(rounds):
                kind = 1 if rng.random() < 0.25 else 0
                redo = [True] * nvars if rd == 0 else [rng.random() < 0.6 for _ in range(nvars)]
                rdata = []
                # which ranks are empty for a variable: random subset, all, only highest, only lowest, and the protocol cases of the
                # history theorems: reset_nothing = some ranks reset and contribute nothing while others have samples
                pattern = [rng.choice(["rand", "only_low", "only_high", "all_but_one", "all", "reset_nothing", "none"]) for _ in range(nvars)]
                # in a later round a variable may also be clean on SOME ranks only: those ranks contribute no sample to
                # this computation and keep their old values, the others obtain the statistics of the dirty ranks
                mixed = [rd > 0 and redo[i] and rng.random() < 0.4 for i in range(nvars)]
                for q in range(P):
                    row = []
                    for i in range(nvars):
                        if not redo[i] or (mixed[i] and rng.random() < 0.4):
                            if isdirty[q][i] and rng.random() < 0.6:
                                # still dirty (no sample anywhere in the round before): go on accumulating
                                row.append((7, gen_samples(rng, styles[i])))
                            else:
                                row.append((2, []))
                            continue
                        pat = pattern[i]
                        has = {"rand": rng.random() < 0.6, "only_low": q == 0, "only_high": q == P - 1, "none": False,
                               "all_but_one": q != P // 2, "all": True, "reset_nothing": q % 2 == 1}[pat]
                        xs = gen_samples(rng, styles[i]) if has else []
                        if has and not xs and pat not in ("rand", "none"):
                            xs = gen_samples(rng, styles[i], force=True) if styles[i] != "empty" else [float(rng.randrange(-9, 9))]
                        k = rng.random()
                        if pat == "reset_nothing" and not has:
                            row.append((rng.choice([3, 5]), []))
                        elif len(xs) == 1 and k < 0.3:
                            row.append((rng.choice([1, 1, 6]), xs))
                        elif isdirty[q][i] and k < 0.5:
                            row.append((7, xs))
                        elif rd > 0 and k < 0.75:
                            row.append((rng.choice([3, 3, 5]), xs))       # refill through sc_stats_reset (+ accumulate, possibly nothing)
                        else:
                            row.append((rng.choice([0, 0, 0, 4]), xs))
                    rdata.append(row)
                # the dirty flags after this round
                for i in range(nvars):
                    d = [rdata[q][i][0] in SETTERS or isdirty[q][i] for q in range(P)]
                    # sc_stats_compute1: every dirty rank contributes the sample sum_values
                    anysample = any(d[q] and (kind == 1 or rdata[q][i][1]) for q in range(P))
                    # samples accumulated in EARLIER rounds on a still dirty variable cannot exist: it stayed dirty because there were none
                    for q in range(P):
                        isdirty[q][i] = d[q] and not anysample
                data.append(rdata)
                kinds.append(kind)
            cases.append((P, rng.randrange(1 << 30), rng.randrange(8), nvars, rounds, data, kinds))
    # sweep aimed at the clamp SC_MAX (variance, 0.): every constant of CONSTS as its own variable, k samples on each of P ranks
    # (round 0), then a refill through reset with c / c * (1 + 2^-52) on a random subset of the ranks (round 1)
    for P in ([1, 2, 3, 4, 5, 6, 7] if ctx.quick else list(range(1, 13))):
        for k in (1, 2, 3):
            for half in (CONSTS[:8], CONSTS[8:]):
                r0 = [[(0, [c] * k) for c in half] for _ in range(P)]
                r1 = [[(3, [rng.choice([c, math.nextafter(c, math.inf)]) for _ in range(rng.choice([0, 1, 1, 2]))]) for c in half] for _ in range(P)]
                cases.append((P, rng.randrange(1 << 30), rng.randrange(8), len(half), 2, [r0, r1], [0, 0]))
    # F-C13a, the witness of theorem C13_compute1_clean_old_refuted as an ordinary judged case:
    # P = 1: init; accumulate 2; accumulate 4; compute; then compute1 without touching the variable
    cases.insert(0, (1, 1, 0, 1, 2, [[[(0, [2.0, 4.0])]], [[(2, [])]]], [0, 1]))
    return cases


def sample_hex(x, den=1):
    v = int(Fraction(x) * den)
    return ("-%x" % -v) if v < 0 else ("%x" % v)


def is_small_int(x):
    return x == int(x) and abs(x) < 2 ** 20


def var_scale(case, i):
    """(exact, den): exact = every sample of variable i is a small integer (all sums exact in binary64, the state machine is compared on
    every field); otherwise den = the power of two that makes every sample an integer: the state machine then runs on the scaled
    samples and dirty / count / min / max / ranks are compared (sums of the library are rounded, those of the model exact)."""
    P, seed, adv, nvars, rounds, data, kinds = case
    xs = [x for rd in range(rounds) for q in range(P) for x in data[rd][q][i][1]]
    if all(is_small_int(x) for x in xs):
        return True, 1
    return False, max([Fraction(x).denominator for x in xs] + [1])


def history_lines(case):
    """the model's input: one H line per variable (numeric part), one N line per rank and variable (naming part)"""
    P, seed, adv, nvars, rounds, data, kinds = case
    H, N = [], []
    for i in range(nvars):
        cells = []
        den = var_scale(case, i)[1]
        for rd in range(rounds):
            for q in range(P):
                mode, xs = data[rd][q][i]
                acc = ["A" + sample_hex(x, den) for x in xs]
                if mode in (0, 4) or (mode in (3, 5) and rd == 0):
                    t = ["I"] + acc
                elif mode in (3, 5):
                    t = ["R"] + acc
                elif mode in (1, 6):
                    t = ["S" + sample_hex(xs[0], den)]
                elif mode == 7:
                    t = acc
                else:
                    t = []
                if kinds[rd]:
                    t.append("P")
                cells.append(" ".join(t))
        H.append("H %d %d %s" % (P, rounds, " ; ".join(cells)))
        for q in range(P):
            owned = False
            toks = []
            for rd in range(rounds):
                mode = data[rd][q][i][0]
                if mode in (0, 1, 4, 6) and owned:
                    toks.append("r1")       # the harness releases an owned name before it sets a new one
                    owned = False
                if mode in (0, 1) or (mode in (3, 5) and rd == 0):
                    toks.append("i0,-2,-3")
                elif mode in (4, 6):
                    toks.append("i1,%x,%x" % (i, rd))
                    owned = True
                elif mode == 3:
                    toks.append("r0")
                elif mode == 5:
                    toks.append("r1")
                    owned = False
                toks.append(".")
            N.append("N " + " ".join(toks))
    return H, N


def oracle_var(P, contributions):
    """contributions: list over ranks of sample lists -> the numbers of the union that do not depend on the order of summation
    (count, extremes, their lowest ranks) and reference sums with the tolerance that another order of summation may use up
    (zero when every sample is a small integer: then every partial sum is exact)"""
    allx = [x for xs in contributions for x in xs]
    cnt = len(allx)
    if cnt == 0:
        return None
    exact = all(is_small_int(x) for x in allx)
    s = math.fsum(allx)
    sqs = [x * x for x in allx]
    q = math.fsum(sqs)
    mn, mx = min(allx), max(allx)
    mnr = min(r for r, xs in enumerate(contributions) if xs and min(xs) == mn)
    mxr = min(r for r, xs in enumerate(contributions) if xs and max(xs) == mx)
    u = 2.0 ** -53
    return dict(count=cnt, sum=s, sumsq=q, min=mn, max=mx, min_at=mnr, max_at=mxr, exact=exact,
                tol_sum=0.0 if exact else 2 * (cnt + 1) * u * math.fsum(abs(x) for x in allx),
                tol_sumsq=0.0 if exact else 2 * (cnt + 2) * u * q)


def derived_from(count, s, q):
    """The derived outputs as the header of sc_stats_compute and the property text define them, from the count and sums a rank REPORTS,
    in IEEE binary64 (Python floats): average = sum / count, variance = max (sum_squares / count - average^2, 0),
    variance_mean = variance / count, standard deviations = square roots.  This restates the formulae, not the statement order of the code."""
    avg = s / count
    v = q / count - avg * avg
    var = v if v > 0.0 else 0.0
    vm = var / count
    return dict(average=avg, variance=var, standev=math.sqrt(var), variance_mean=vm, standev_mean=math.sqrt(vm))


def judge_rank(got, exp):
    """got: what a rank holds after the computation, exp: oracle_var of the union.  Returns None or the first complaint."""
    for k in ("count", "min", "max", "min_at", "max_at"):
        if got[k] != exp[k]:
            return "%s is %r, statistics of the union give %r" % (k, got[k], exp[k])
    for k in ("sum", "sumsq"):
        if not (abs(got[k] - exp[k]) <= exp["tol_" + k]):
            return "%s is %r, statistics of the union give %r (tolerance of another summation order %r)" % (k, got[k], exp[k], exp["tol_" + k])
    # invariants of the derived outputs, judged on their own
    if not (got["variance"] >= 0.0):
        return "variance is %r: negative or not a number" % got["variance"]
    if not (got["variance_mean"] >= 0.0):
        return "variance_mean is %r: negative or not a number" % got["variance_mean"]
    for k in ("standev", "standev_mean"):
        if not (math.isfinite(got[k]) and got[k] >= 0.0):
            return "%s is %r: not a finite non-negative number" % (k, got[k])
    slack = 4 * (exp["count"] + 2) * 2.0 ** -53 * max(abs(exp["min"]), abs(exp["max"]))
    if not (exp["min"] - slack <= got["average"] <= exp["max"] + slack):
        return "average is %r outside [min, max] = [%r, %r]" % (got["average"], exp["min"], exp["max"])
    # ... and bit for bit against the formulae applied to the count and sums this rank reports
    d = derived_from(got["count"], got["sum"], got["sumsq"])
    for k in ("average", "variance", "standev", "variance_mean", "standev_mean"):
        if dbits(got[k]) != dbits(d[k]):
            return "%s is %r, the formula applied to the reported count / sum_values / sum_squares gives %r" % (k, got[k], d[k])
    return None


def run(ctx):
    import genall
    st = genall.run(["StatsC13", "StatsVarC13"])
    for g, s in st.items():
        if s.startswith("FAILED"):
            ctx.tie_broken("translator group " + g, s)
    ctx.props()
    v = ctx.variant(mpi="sim", san=True, cflags_extra=("-fno-sanitize=nonnull-attribute",))
    exe = ctx.cc([os.path.join(vlib.TOOLS, "harness", "c13_harness.c"), os.path.join(vlib.TOOLS, "simmpi", "simmpi.c")],
                 os.path.join(ctx.scratch, "c13_harness"), v)
    cases = gen_cases(ctx)
    if ctx.replay:
        rp = json.load(open(ctx.replay)).get("replay", {})
        if "case" in rp:
            c = list(rp["case"])
            if len(c) == 6:
                c.append([0] * c[4])
            cases = [tuple(c)] + cases[:3]
    text = []
    for (P, seed, adv, nvars, rounds, data, kinds) in cases:
        text.append("%d %d %d %d %d %s" % (P, seed, adv, nvars, rounds, " ".join(str(k) for k in kinds)))
        for rd in range(rounds):
            for q in range(P):
                for i in range(nvars):
                    mode, xs = data[rd][q][i]
                    text.append("%d %d %s" % (mode, len(xs), " ".join(repr(x) for x in xs)))
    env = dict(os.environ, VERIF_SCRATCH=ctx.scratch, ASAN_OPTIONS="detect_leaks=0")
    rc, lines, err = ctx.run_lines([exe], "\n".join(text) + "\n", timeout=1500, env=env)
    if rc != 0:
        ctx.violation("harness-crash", "c13 harness ended with status %s: %s" % (rc, err[-800:]), dict(stderr=err[-3000:]))
    runs = mpitrace.parse_runs(lines)
    mlines, mindex = [], []
    nbad = 0
    dist = {"P": {}, "vars_with_empty_ranks": 0, "vars_all_empty": 0, "vars": 0, "clean_vars": 0, "modes": {}, "rounds": {}, "compute1_rounds": 0, "compute1_clean_triples": 0, "compute1_vars_clean_on_all_ranks": 0, "compute1_vars_clean_on_some_ranks": 0,
            "reset_then_nothing_with_samples_elsewhere": 0, "stays_dirty_then_accumulates": 0, "vars_clean_on_some_ranks": 0}
    hlines, hindex = [], []
    for ci, c in enumerate(cases):
        P, seed, adv, nvars, rounds, data, kinds = c
        dist["P"][P] = dist["P"].get(P, 0) + 1
        dist["rounds"][rounds] = dist["rounds"].get(rounds, 0) + 1
        dist["compute1_rounds"] += sum(kinds)
        ctx.count_case((P, seed, adv, nvars, rounds, repr(data), repr(kinds)), nontrivial=P > 1)
        if ci >= len(runs):
            ctx.tie_broken("harness output", "run %d missing" % ci)
            break
        r = runs[ci]
        rep = dict(case=[P, seed, adv, nvars, rounds, data, kinds], rc=r.rc, report=r.report[:1200])
        key = "P%d-v%d-r%d" % (P, nvars, rounds)
        if r.rc != 0:
            nbad += 1
            if nbad <= 3:
                ctx.violation("schedule:" + key, "sc_stats_compute run did not end normally (simmpi code %s): %s" % (r.rc, r.report[:300]), rep)
            continue
        outs = {}
        for o in r.outs:
            w = o.split()
            outs[(int(w[0]), int(w[1]), int(w[2]))] = w[3:]
        # current contributions per variable (what the union consists of), tracking the dirty flags as the documentation describes them:
        # init / set1 / reset make a variable dirty, sc_stats_compute clears the flag when there is at least one sample
        contrib = [[[] for _ in range(P)] for _ in range(nvars)]
        isdirty = [[False] * nvars for _ in range(P)]
        prev = {}
        for rd in range(rounds):
            for i in range(nvars):
                for q in range(P):
                    mode, xs = data[rd][q][i]
                    dist["modes"][mode] = dist["modes"].get(mode, 0) + 1
                    if mode == 7 and isdirty[q][i]:
                        dist["stays_dirty_then_accumulates"] += 1
                dirty = [data[rd][q][i][0] in SETTERS or isdirty[q][i] for q in range(P)]
                # the union of this computation: the samples of the ranks on which the variable is dirty
                contrib[i] = [list(data[rd][q][i][1]) if dirty[q] else [] for q in range(P)]
                if kinds[rd]:
                    # sc_stats_compute1: every rank contributes the single sample sum_values
                    contrib[i] = [[seqsum(xs)] if dirty[q] else [] for q, xs in enumerate(contrib[i])]
                if any(dirty) and not all(dirty):
                    dist["vars_clean_on_some_ranks"] += 1
                if kinds[rd]:
                    dist["compute1_clean_triples"] += sum(1 for d_ in dirty if not d_)
                    if not any(dirty):
                        dist["compute1_vars_clean_on_all_ranks"] += 1
                    elif not all(dirty):
                        dist["compute1_vars_clean_on_some_ranks"] += 1
                exp = oracle_var(P, contrib[i])
                dist["vars"] += 1
                if any(not xs for xs in contrib[i]):
                    dist["vars_with_empty_ranks"] += 1
                if exp is None:
                    dist["vars_all_empty"] += 1
                elif any(data[rd][q][i][0] in (3, 5) and rd > 0 and not data[rd][q][i][1] for q in range(P)):
                    dist["reset_then_nothing_with_samples_elsewhere"] += 1
                for q in range(P):
                    w = outs.get((rd, q, i))
                    if w is None:
                        ctx.tie_broken("harness output", "missing OUT line")
                        continue
                    got = dict(dirty=int(w[0]), count=int(w[1]), sum=bitsd(int(w[2], 16)), sumsq=bitsd(int(w[3], 16)), min=bitsd(int(w[4], 16)),
                               max=bitsd(int(w[5], 16)), min_at=int(w[6]), max_at=int(w[7]), average=bitsd(int(w[8], 16)),
                               variance=bitsd(int(w[9], 16)), standev=bitsd(int(w[10], 16)), variance_mean=bitsd(int(w[11], 16)),
                               standev_mean=bitsd(int(w[12], 16)))
                    bad = None
                    if not dirty[q]:
                        # clean variable: untouched (all numeric fields, bit for bit)
                        dist["clean_vars"] += 1
                        before = prev[(q, i)]["raw"][:13] if (q, i) in prev else ["0"] * 13
                        if w[:13] != before:
                            bad = "clean variable was modified" + (" by sc_stats_compute1" if kinds[rd] else "")
                    elif exp is None:
                        if got["dirty"] != 1:
                            bad = "dirty flag cleared although the variable has no sample on any rank"
                        elif got["count"] != 0 or got["min_at"] != 0 or got["max_at"] != 0 or got["average"] != 0 or got["variance"] != 0 or got["standev"] != 0 \
                                or got["variance_mean"] != 0 or got["standev_mean"] != 0:
                            bad = "variable without any sample: count/outputs not zero"
                    else:
                        bad = judge_rank(got, exp)
                        if got["dirty"] != 0:
                            bad = "dirty flag still set after a computation with samples"
                    got["raw"] = w
                    prev[(q, i)] = got
                    if bad:
                        nbad += 1
                        if nbad <= 3:
                            rep2 = dict(rep, round=rd, rank=q, var=i, samples_per_rank=contrib[i])
                            ctx.violation("stats:" + key + ":" + bad.split(" ")[0], "round %d rank %d variable %d: %s" % (rd, q, i, bad), rep2)
                for q in range(P):
                    isdirty[q][i] = dirty[q] and exp is None
        # tie T2: the state machine of the model on the same histories
        H, N = history_lines(c)
        for i in range(nvars):
            hlines.append(H[i])
            ex_, den_ = var_scale(c, i)
            # inexact sums: sc_stats_compute1 turns the ROUNDED sum into a sample, the model the exact one - compare up to the first such round
            upto = rounds if ex_ else min([rd for rd in range(rounds) if kinds[rd]] + [rounds])
            dk = "state_machine_vars_exact" if ex_ else "state_machine_vars_scaled"
            dist[dk] = dist.get(dk, 0) + 1
            hindex.append(("H", ci, i, (ex_, den_, upto), [[outs.get((rd, q, i)) for q in range(P)] for rd in range(rounds)]))
            for q in range(P):
                hlines.append(N[i * P + q])
                hindex.append(("N", ci, i, q, [outs.get((rd, q, i)) for rd in range(rounds)]))
        if r.mem not in (0, None):
            ctx.violation("memory:" + key, "sc_memory_status changed by %s over sc_stats_compute" % r.mem, rep)
        # tie: the records the real code packed, folded by the extracted generated combination
        per = mpitrace.rank_events(r.trace, P)
        nround = min(len([e for e in per[q] if e[0] == "C" and e[1] == "MPI_Allreduce"]) for q in range(P))
        for rd in range(nround):
            ins, outsb = [], []
            for q in range(P):
                e = [e for e in per[q] if e[0] == "C" and e[1] == "MPI_Allreduce"][rd]
                ins.append(e[3])
                outsb.append(e[4])
            for i in range(nvars):
                recs = []
                ok = True
                for q in range(P):
                    ds = struct.unpack("<7d", ins[q][56 * i:56 * i + 56])
                    if any(d != d or abs(d) >= 2.0 ** 62 or d != int(d) for d in ds):
                        ok = False
                    recs.append(" ".join(mpitrace.hexints(int(d).to_bytes(8, "little", signed=True), 8, True) for d in ds) if ok else "")
                if not ok:
                    continue
                mlines.append(" ; ".join(recs))
                mindex.append((ci, rd, i, [struct.unpack("<7d", outsb[q][56 * i:56 * i + 56]) for q in range(P)]))
    try:
        mexe = ctx.model("c13")
        rc2, mout, err2 = ctx.run_lines([mexe], "\n".join(mlines) + "\n", timeout=900)
        mout = [l for l in mout if l != ""]
        if rc2 != 0 or len(mout) != len(mlines):
            ctx.tie_broken("c13 model run", "exit %s, %d of %d lines: %s" % (rc2, len(mout), len(mlines), err2[-500:]))
        nmis = 0
        for (ci, rd, i, implouts), l in zip(mindex, mout):
            fw, bw = [[(-int(x[1:], 16) if x.startswith("-") else int(x, 16)) for x in part.split()] for part in l.split(" | ")]
            for q, io in enumerate(implouts):
                io = [int(d) for d in io]
                # count, sums always; extremes and ranks when there is a sample
                cmp_idx = range(7) if fw[0] > 0 else range(3)
                if any(io[k] != fw[k] for k in cmp_idx) or any(fw[k] != bw[k] for k in cmp_idx):
                    nmis += 1
                    if nmis <= 3:
                        ctx.tie_broken("generated combination vs implementation, case %d round %d var %d rank %d" % (ci, rd, i, q),
                                       "model fold %s / reverse %s, implementation %s" % (fw, bw, io))
                    break
        ctx.notes["records_folded_by_model"] = len(mout)
        ctx.notes["model_mismatches"] = nmis
        # the state machine (hist_exec of C13/VarModel.v) against the fields of sc_statinfo_t after every round on every rank
        rc3, hout, err3 = ctx.run_lines([mexe], "\n".join(hlines) + "\n", timeout=900)
        hout = [l for l in hout if l != ""]
        if rc3 != 0 or len(hout) != len(hlines):
            ctx.tie_broken("c13 state machine run", "exit %s, %d of %d lines: %s" % (rc3, len(hout), len(hlines), err3[-500:]))
        hmis, hcmp = 0, 0

        def hx(t):
            return -int(t[1:], 16) if t.startswith("-") else int(t, 16)
        for (kind, ci, i, q, impl), l in zip(hindex, hout):
            cells = [x.split() for x in l.split(" ; ")]
            P = cases[ci][0]
            bad = None
            if kind == "H":
                ex_, den_, upto = q
                for rd, row in enumerate(impl[:upto]):
                    for qq, w in enumerate(row):
                        m = [hx(t) for t in cells[rd * P + qq]]
                        if w is None:
                            continue
                        fl = [bitsd(int(w[k], 16)) for k in (2, 3, 4, 5)]
                        got = [int(w[0]), int(w[1])] + fl + [int(w[6]), int(w[7])]
                        hcmp += 1
                        if not ex_:
                            # scaled samples: dirty, count, min, max (exact as rationals), ranks
                            g2 = [got[0], got[1], Fraction(got[4]) * den_, Fraction(got[5]) * den_, got[6], got[7]]
                            m2 = [m[0], m[1], m[4], m[5], m[6], m[7]]
                            if g2 != m2:
                                bad = "round %d rank %d: implementation dirty/count/min/max/min_at/max_at %s, model (samples scaled by 2^%d) %s" % (
                                    rd, qq, [got[k] for k in (0, 1, 4, 5, 6, 7)], den_.bit_length() - 1, m2)
                        elif got != m[:8]:
                            bad = "round %d rank %d: implementation dirty/count/sum/sumsq/min/max/min_at/max_at %s, model %s" % (rd, qq, got, m[:8])
                        elif bitsd(int(w[8], 16)) != m[8] / m[9]:
                            bad = "round %d rank %d: average %r, model %d/%d" % (rd, qq, bitsd(int(w[8], 16)), m[8], m[9])
                        if bad:
                            break
                    if bad:
                        break
            else:
                for rd, w in enumerate(impl):
                    if w is None:
                        continue
                    m = [hx(t) for t in cells[rd]][:4]
                    got = [int(w[13]), int(w[14]), int(w[15]), int(w[16])]
                    hcmp += 1
                    if got != m:
                        bad = "round %d rank %d: implementation owned/hasname/group/prio %s, model %s" % (rd, q, got, m)
                        break
            if bad:
                hmis += 1
                if hmis <= 3:
                    ctx.tie_broken("state machine vs implementation, case %d variable %d" % (ci, i), bad + "; case " + json.dumps(cases[ci])[:600])
        ctx.notes["state_machine_comparisons"] = hcmp
        ctx.notes["state_machine_mismatches"] = hmis
    except vlib.BuildError as e:
        ctx.tie_broken("c13 model build", str(e)[-1500:])
    ctx.cov["disagreements_checked"] = len(mlines) + len(hlines)
    ctx.cov["rule"] = ("runs of sc_stats_compute on the simulated MPI (user reduction applied along random binary trees over random rank permutations): "
                       "1-4 variables, 1-4 rounds (later rounds leave a random subset clean, on all or on some ranks), calls per rank and variable: init / init_ext(copy) + accumulate, "
                       "set1 / set1_ext(copy), reset(0) / reset(1) + accumulate (also reset and then nothing while other ranks have samples), accumulate only on a variable that stayed "
                       "dirty, nothing; 25% of the rounds end with sc_stats_compute1 (with variables clean on all ranks / on some ranks: they must stay untouched, repair F-C13a; "
                       "the witness of C13_compute1_clean_old_refuted is case 0); integer-valued samples of both signs, all-positive, all-negative, "
                       "ties in the extremes, and non-integer samples: constants whose square / mean is inexact (0.1, 0.3, 0.6, 0.7, 2.9, 3.3, 1e-3, 1/3, 1e16+1, ...) repeated 1-3 times per rank, "
                       "near-constant (c and its successor), arbitrary fractions, magnitudes 1e150 and 1e-160, plus a sweep of every constant with k = 1..3 samples on each of P = 1..7 ranks "
                       "(then a refill on a random subset); the derived outputs are judged by their invariants and bit for bit against the documented formulae applied to the count and sums "
                       "the rank reports; empty on random subsets / all ranks / all but the lowest / all but the highest; non-trivial = P > 1; "
                       "every history is also run through the extracted state machine (all fields after every round on every rank)")
    ctx.notes["distribution"] = dist
    for c in cases[:: max(1, len(cases) // 3)][:3]:
        ctx.sample({"P": c[0], "seed": c[1], "adversary": c[2], "nvars": c[3], "rounds": c[4], "kinds": c[6], "round0_rank0": c[5][0][0]})
    ctx.cov["trusted_base"] = ["tools/c2g translation of sc_stats_mpifunc's loop body and of the slices of group StatsVarC13 with doubles read as exact numbers (samples in the runs are integer valued, so every sum is exact in binary64); "
                               "conventions of tools/c2g/groups_C13.py: stats[i].f / flat*[7 * i + K] as locations, (long) / (int) of a double as s64 / s32, floating division and sqrt as function parameters, 56 zero bytes = seven 0.0",
                               "rounding of binary64, sqrt and the bit patterns of the twelve outputs: Python oracle recomputing them in the order of the C code",
                               "tools/simmpi (MPI_Allreduce with a commutative user operation: arbitrary tree over arbitrary permutation)"]
    ctx.assumptions += ["sc_stats_accumulate only on dirty variables (SC_ASSERT)",
                        "Python floats are IEEE binary64 with round-to-nearest and a correctly rounded sqrt, as the C doubles of the build (no FMA contraction, no x87 excess precision on x86-64)",
                        "samples stay within 1e-160 .. 1e150 in magnitude so that no square overflows (overflow is outside the property)",
                        "sums: exact arithmetic; with general doubles the sums agree up to the rounding of another summation order (not judged bitwise)",
                        "MPI applies a commutative user operation in any order and association"]
    return "proof"
