"""Shared by C01 (pattern inversion) and C02 (payload delivery): case generation, harness I/O and the oracle
for the notify operations of libsc running on the simulated MPI."""
import os, json, re
import vlib, mpitrace

TYPES = ["allgather", "binary", "nary", "pex", "pcx", "rsx", "nbx", "ranges", "superset"]
ALWAYS_SORTED = {"allgather", "binary", "nary", "pex", "ranges"}   # these deliver ascending senders whatever `sorted` says
WILDCARD_UNFENCED = {"nary", "nbx", "superset"}                     # known finding: back-to-back calls (DESIGN.md 9, F-C01a)


def pay_byte(call, s, r, k):
    x = (call * 2654435761 + s * 40503 + r * 2246822519 + k * 9176 + 12345) & 0xffffffff
    x ^= x >> 13
    x = (x * 0x5bd1e995) & 0xffffffff
    x ^= x >> 15
    return x & 0xff


def pay_bytes(call, s, r, n):
    return bytes(pay_byte(call, s, r, k) for k in range(n))


def gen_pattern(rng, P, style):
    """family of receiver sets R_p, each sorted and duplicate free"""
    R = []
    for p in range(P):
        if style == "empty":
            s = set()
        elif style == "self":
            s = {p} if rng.random() < 0.7 else set()
        elif style == "all":
            s = set(range(P))
        elif style == "ring":
            s = {(p + 1) % P, (p - 1) % P}
        elif style == "star":
            s = {0} if p else set(range(P))
        elif style == "sparse":
            s = set(rng.sample(range(P), min(P, rng.choice([0, 1, 1, 2]))))
        elif style == "high":
            s = set(q for q in range(P) if q >= P - 2 and rng.random() < 0.8)
        elif style == "dense":
            s = set(q for q in range(P) if rng.random() < 0.6)
        else:
            s = set(q for q in range(P) if rng.random() < rng.choice([0.1, 0.3]))
        if style not in ("empty",) and rng.random() < 0.15:
            s.add(p)      # self notification
        R.append(sorted(s))
    return R


STYLES = ["rand", "rand", "sparse", "dense", "ring", "star", "all", "empty", "self", "high"]


class Case:
    def __init__(self, **kw):
        self.__dict__.update(kw)

    def header(self):
        c = self
        return "%d %d %d %d %d %d %d %d %d %d %d %d %d %d %d %d %d %d %d" % (
            c.P, c.seed, c.adv, c.type, c.ntop, c.nint, c.nbot, c.nranges, c.ncalls, c.sorted, c.sep_senders, c.paymode, c.paysize,
            c.sep_payload, c.threshold, c.api, c.superseed, c.barrier, getattr(c, "reuse", 0))

    def text(self):
        lines = [self.header()]
        for call in range(self.ncalls):
            for p in range(self.P):
                R = self.patterns[call][p]
                l = [str(len(R))] + [str(q) for q in R]
                if self.paymode == 2:
                    l += [str(self.lengths[call][p][i]) for i in range(len(R))]
                lines.append(" ".join(l))
        return "\n".join(lines) + "\n"

    def key(self):
        c = self
        return "%s-P%d-calls%d%s-pay%d%s" % (TYPES[c.type] if c.api in (0,) else ["", "legacy-binary", "legacy-allgather", "ext", "nary-fn"][c.api],
                                             c.P, c.ncalls, "b" if c.barrier else "", c.paymode, ("-reuse%d" % c.reuse) if getattr(c, "reuse", 0) else "")

    def to_json(self):
        return dict(self.__dict__)


def make_case(rng, P, typ, ncalls=1, paymode=0, paysize=0, api=0, barrier=0, sorted_=None, threshold=None, style=None, reuse=0):
    pats, lens = [], []
    for call in range(ncalls):
        R = gen_pattern(rng, P, style or rng.choice(STYLES))
        pats.append(R)
        lens.append([[rng.choice([0, 0, 1, 2, 3, 7]) for _ in R[p]] for p in range(P)])
    return Case(P=P, seed=rng.randrange(1 << 30), adv=rng.randrange(8), type=typ,
                ntop=rng.choice([2, 2, 3, 4, 5]), nint=rng.choice([2, 2, 3, 4]), nbot=rng.choice([2, 2, 3, 4, 5]),
                nranges=rng.choice([1, 2, 3, 5, 25]), ncalls=ncalls,
                sorted=(rng.randrange(2) if sorted_ is None else sorted_), sep_senders=rng.randrange(2), paymode=paymode, paysize=paysize,
                sep_payload=rng.randrange(2), threshold=(rng.choice([0, 4, 8, 1024, 1024]) if threshold is None else threshold),
                api=api, superseed=rng.randrange(1 << 30), barrier=barrier, patterns=pats, lengths=lens, reuse=reuse)


def judge(case, run):
    """oracle: returns list of (kind, text, detail) problems found in one run"""
    c = case
    probs = []
    if run.rc != 0:
        probs.append(("schedule", "run did not end normally (simmpi %s): %s" % (run.rc, run.report[:400]), dict(report=run.report[:2500])))
        return probs
    outs = {}
    for o in run.outs:
        left, pay, rest = o.split(" | ")
        w = left.split()
        call, rank, ns = int(w[0]), int(w[1]), int(w[2])
        senders = [int(x) for x in w[3:3 + ns]]
        rw = rest.split()
        npay = int(rw[0])
        offs = None if rw[1] == "-" else [int(x) for x in rw[1].split(",") if x != ""]
        outs[(call, rank)] = (senders, b"" if pay.strip() == "-" else bytes.fromhex(pay.strip()), npay, offs)
    tname = TYPES[c.type] if c.api == 0 else {1: "binary", 2: "allgather", 3: "ext", 4: "nary"}[c.api]
    must_sort = c.sorted or tname in ALWAYS_SORTED or c.api in (1, 2, 3, 4)
    for call in range(c.ncalls):
        for p in range(c.P):
            if (call, p) not in outs:
                probs.append(("output", "call %d rank %d produced no output" % (call, p), {}))
                continue
            senders, pay, npay, offs = outs[(call, p)]
            exp = sorted(q for q in range(c.P) if p in c.patterns[call][q])
            if sorted(senders) != exp:
                missing = sorted(set(exp) - set(senders))
                extra = sorted(set(senders) - set(exp))
                dup = len(senders) != len(set(senders))
                probs.append(("senders", "call %d rank %d: senders %s, expected %s (missing %s, extra %s%s)" % (call, p, senders, exp, missing, extra, ", duplicates" if dup else ""),
                              dict(call=call, rank=p, got=senders, expected=exp)))
                continue
            if must_sort and senders != exp:
                probs.append(("order", "call %d rank %d: senders %s not ascending although sorted output is due" % (call, p, senders), dict(call=call, rank=p, got=senders)))
            if c.paymode == 1:
                want = b"".join(pay_bytes(call, s, p, c.paysize) for s in senders)
                if npay != len(senders) or pay != want:
                    bad = [i for i, s in enumerate(senders) if pay[i * c.paysize:(i + 1) * c.paysize] != pay_bytes(call, s, p, c.paysize)]
                    probs.append(("payload", "call %d rank %d: payload array has %d items for %d senders; wrong item(s) at sender position(s) %s" % (call, p, npay, len(senders), bad[:6]),
                                  dict(call=call, rank=p, senders=senders, got=pay.hex(), expected=want.hex())))
            elif c.paymode == 2:
                lens = []
                for s in senders:
                    i = c.patterns[call][s].index(p)
                    lens.append(c.lengths[call][s][i])
                wantoff = [0]
                for l in lens:
                    wantoff.append(wantoff[-1] + l)
                want = b"".join(pay_bytes(call, s, p, l * c.paysize) for s, l in zip(senders, lens))
                if offs != wantoff:
                    probs.append(("offsets", "call %d rank %d: output offsets %s, expected %s" % (call, p, offs, wantoff), dict(call=call, rank=p, senders=senders, got=offs, expected=wantoff)))
                elif pay != want or npay != wantoff[-1]:
                    probs.append(("payloadv", "call %d rank %d: variable payload differs from what the senders addressed to this rank" % (call, p),
                                  dict(call=call, rank=p, senders=senders, got=pay.hex(), expected=want.hex())))
    if run.mem not in (0, None):
        probs.append(("memory", "sc_memory_status changed by %s over the calls" % run.mem, {}))
    return probs


def run_cases(ctx, cases, trace=False, cflags_extra=("-fno-sanitize=nonnull-attribute,alignment",)):
    v = ctx.variant(mpi="sim", san=True, cflags_extra=cflags_extra)
    exe = os.path.join(ctx.scratch, "c01_harness")
    if not os.path.exists(exe):
        # the harness translation units (NOT libsc) are compiled with recoverable ASan reports: tools/simmpi's cleanup
        # after a run that ended abnormally (the recorded back-to-back findings) sometimes touches a freed request in
        # msg_free; such a report must not kill the harness and hide the remaining cases.  Reports are classified below.
        ctx.cc([os.path.join(vlib.TOOLS, "harness", "c01_harness.c"), os.path.join(vlib.TOOLS, "simmpi", "simmpi.c")], exe, v,
               extra=("-fsanitize-recover=address",))
    env = dict(os.environ, VERIF_SCRATCH=ctx.scratch, ASAN_OPTIONS="detect_leaks=0:halt_on_error=0")
    if trace:
        env["VERIF_TRACE"] = "1"
    text = "".join(c.text() for c in cases)
    rc, lines, err = ctx.run_lines([exe], text, timeout=3000, env=env)
    runs = mpitrace.parse_runs(lines)
    # classify sanitizer reports: anything that is not the simulator's own cleanup counts as a crash of the run
    reports = err.split("==ERROR: AddressSanitizer")[1:]
    foreign = [r for r in reports if not re.search(r"#0 0x[0-9a-f]+ in msg_free [^\n]*simmpi\.c[^\n]*\n\s*#1 0x[0-9a-f]+ in cleanup [^\n]*simmpi\.c", r)]
    if reports:
        ctx.notes["simmpi_cleanup_reports"] = ctx.notes.get("simmpi_cleanup_reports", 0) + (len(reports) - len(foreign))
    if foreign and rc == 0:
        rc = 1
    return rc, runs, err


def known_key(case, kind, text=""):
    """violations that fall under a recorded finding get that finding's key"""
    tname = TYPES[case.type] if case.api == 0 else {1: "binary", 2: "allgather", 3: "ext", 4: "nary"}[case.api]
    if case.ncalls > 1 and not case.barrier and tname in WILDCARD_UNFENCED:
        return "back-to-back:" + tname
    return None


# ---------------------------------------------------------------------------------------------------------
# T2 tie for the record merge: the STATIC sc_notify_merge of the working tree (harness includes sc_notify.c)
# against the extracted int-level model coq/C01/MergeModel.notify_merge, plus an independent oracle.
# ---------------------------------------------------------------------------------------------------------
def _hx(v):
    return ("-%x" % -v) if v < 0 else ("%x" % v)


def gen_merge_case(rng, npays):
    """two well-formed record arrays over the same destinations with disjoint sender sets (the precondition the
    callers guarantee); the first one additionally carries records marked as sent (torank -1).  Returns
    (line, npay, map_a, map_b, dup) with map_x: torank -> {fromrank: payload tuple}."""
    npay = rng.choice(npays)
    style = rng.randrange(8)
    nt = rng.choice([0, 1, 2, 3, 5, 8]) if style else 0
    toranks = sorted(rng.sample(range(0, 14), min(nt, 14)))
    dup = rng.random() < 0.06
    A, B = {}, {}
    for t in toranks:
        ns = rng.choice([1, 1, 2, 3, 6])
        senders = sorted(rng.sample(range(0, 12), ns))
        where = rng.choice(["a", "b", "ab", "ab", "ab"])
        for s in senders:
            pay = tuple(rng.choice([0, 1, -1, 7, 0x7fffffff, -0x80000000, rng.randrange(-99, 99)]) for _ in range(npay))
            side = where if where != "ab" else rng.choice(["a", "b"])
            (A if side == "a" else B).setdefault(t, {})[s] = pay
            if dup and rng.random() < 0.3:
                pay2 = tuple(rng.randrange(-9, 9) for _ in range(npay))
                (B if side == "a" else A).setdefault(t, {})[s] = pay2
    def enc(M, marks):
        out = []
        ts = sorted(M)
        for k, t in enumerate(ts + [None]):
            if marks and rng.random() < 0.35:
                # a record the binary recursion has sent away: torank overwritten by -1, rest left in place
                cnt = rng.choice([1, 1, 2, 3])
                out += [-1, cnt]
                for _ in range(cnt):
                    out += [rng.randrange(0, 12)] + [rng.randrange(-5, 5) for _ in range(npay)]
            if t is None:
                break
            out += [t, len(M[t])]
            for s in sorted(M[t]):
                out += [s] + list(M[t][s])
        return out
    a, b = enc(A, True), enc(B, False)
    line = "merge %s | %s | %s" % (_hx(npay), " ".join(_hx(v) for v in a), " ".join(_hx(v) for v in b))
    return line, npay, A, B, dup


def merge_oracle(npay, A, B, out):
    """independent restatement: the output is the ascending record list of the union of the two maps, every
    payload still behind its sender"""
    exp = []
    for t in sorted(set(A) | set(B)):
        m = dict(A.get(t, {}))
        m.update(B.get(t, {}))
        exp += [t, len(m)]
        for s in sorted(m):
            exp += [s] + list(m[s])
    return exp == out, exp


def merge_tie(ctx, npays, ncases):
    """returns number of cases run"""
    rng = ctx.rng
    v = ctx.variant(mpi="sim", san=True, cflags_extra=("-fno-sanitize=nonnull-attribute,alignment",))
    exe = os.path.join(ctx.scratch, "c01m_harness")
    if not os.path.exists(exe):
        ctx.cc([os.path.join(vlib.TOOLS, "harness", "c01m_harness.c"), os.path.join(vlib.TOOLS, "simmpi", "simmpi.c")], exe, v)
    cases = [gen_merge_case(rng, npays) for _ in range(ncases)]
    text = "\n".join(c[0] for c in cases) + "\n"
    env = dict(os.environ, ASAN_OPTIONS="detect_leaks=0")
    rc, ilines, err = ctx.run_lines([exe], text, timeout=600, env=env)
    ilines = [l for l in ilines if l != ""]
    if rc != 0 or len(ilines) != len(cases):
        ctx.violation("merge-harness-crash", "sc_notify_merge harness ended with status %s after %d of %d cases: %s" % (rc, len(ilines), len(cases), err[-600:]),
                      dict(stderr=err[-3000:], next_case=cases[min(len(ilines), len(cases) - 1)][0]))
    try:
        mexe = ctx.model("c01")
        rc2, mlines, err2 = ctx.run_lines([mexe], text, timeout=600)
        mlines = [l for l in mlines if l != ""]
        if rc2 != 0 or len(mlines) != len(cases):
            ctx.tie_broken("c01 model run (merge)", "exit %s, %d of %d lines: %s" % (rc2, len(mlines), len(cases), err2[-500:]))
    except vlib.BuildError as e:
        ctx.tie_broken("c01 model build", str(e)[-1500:])
        mlines = []
    ndis = 0
    for i, c in enumerate(cases):
        line, npay, A, B, dup = c
        ctx.count_case(line, nontrivial=bool(A) and bool(B))
        if i >= len(ilines):
            break
        out = [] if ilines[i].strip() == "-" else [int(x, 16) for x in ilines[i].split()]
        if not dup:
            ok, exp = merge_oracle(npay, A, B, out)
            if not ok:
                ctx.violation("merge:npay%d" % npay, "sc_notify_merge: output is not the ascending record list of the union of its operands (a notification or its payload is lost, duplicated or misplaced): %s" % line,
                              dict(case=line, got=out, expected=exp))
        if i < len(mlines) and mlines[i].strip() != ilines[i].strip():
            ndis += 1
            if ndis <= 3:
                ctx.tie_broken("sc_notify_merge vs model, case %d" % i, "case %s | impl %s | model %s" % (line, ilines[i][:300], mlines[i][:300]))
    ctx.cov["disagreements_checked"] += len(cases)
    ctx.notes["merge_cases"] = len(cases)
    ctx.notes["merge_model_disagreements"] = ndis
    return len(cases)


# ---------------------------------------------------------------------------------------------------------
# T3 tie: per-rank trace co-simulation of the extracted programs coq/C01/NotifyProgs.notify_prog
# (allgather, binary, nary, pex, pcx, rsx; without payload and with fixed-size items below/above the eager
# threshold) against the traces of the real code on the simulated MPI.
# ---------------------------------------------------------------------------------------------------------
TAG_RECURSIVE = 228          # only used to decide how to PRINT a message (ints vs bytes); the tags themselves are
                             # compared against the generated constants inside the extracted model
COLL_KIND = {"MPI_Allgather": 1, "MPI_Allgatherv": 2, "MPI_Alltoall": 3, "MPI_Reduce_scatter_block": 4, "MPI_Allreduce": 10}
TAG_RANGES = 224
COSIM_TYPES = [0, 1, 2, 3, 4, 5, 6, 7, 8]
TAG_SUPER_TRUE, TAG_SUPER_EXTRA = 226, 227


def _npay(sz):
    return ((sz - 1) if sz > 4 else 0) // 4 + 1


def _mask_records(b, npay, sz):
    """zero the padding bytes behind every payload item inside an int record array (n-ary records with payload)"""
    if npay == 0 or sz % 4 == 0:
        return b
    b = bytearray(b)
    n = len(b) // 4
    ints = [int.from_bytes(b[4 * k:4 * k + 4], "little", signed=True) for k in range(n)]
    i = 0
    multi = 1 + npay
    while i + 1 < n:
        cnt = ints[i + 1]
        if cnt < 0 or i + 2 + multi * cnt > n:
            break
        for s in range(cnt):
            base = 4 * (i + 2 + multi * s + 1)
            for k in range(sz, 4 * npay):
                b[base + k] = 0
        i += 2 + multi * cnt
    return bytes(b)


def nbx_events(raw, q):
    """events of rank q for the nbx program: every Iprobe is a wildcard receive whose matched source is -1 when flag = 0
    (a successful Iprobe and the Recv that follows it are one receive), Testall / Ibarrier / Test are poll actions with
    their flag as reply; the second phase of the dispatcher (Isend / named Recv) follows unchanged"""
    evs = []
    mine = sorted([e for e in raw if e.get("r") == q], key=lambda e: e.get("s", 0))
    pending = None
    for e in mine:
        f = e.get("f", "")
        if f in ("MPI_Issend", "MPI_Isend", "MPI_Send"):
            evs.append("S %x %x %s" % (e["dest"], e["tag"], mpitrace.hexints(bytes.fromhex(e.get("d", "")), 1)))
        elif f == "MPI_Iprobe":
            if e.get("flag", 0):
                pending = e
            else:
                evs.append("R -1 %x -1 -" % e["tag"])
        elif f == "MPI_Recv":
            data = mpitrace.hexints(bytes.fromhex(e.get("d", "")), 1)
            if pending is not None and pending.get("msrc") == e.get("src"):
                evs.append("R -1 %x %x %s" % (e["tag"], e.get("msrc", 0), data))
                pending = None
            else:
                evs.append("R %x %x %x %s" % (e["src"], e["tag"], e.get("msrc", 0), data))
        elif f == "MPI_Testall":
            evs.append("C 6 -1 - %x" % (1 if e.get("flag") else 0))
        elif f == "MPI_Ibarrier":
            evs.append("C 7 -1 - -")
        elif f == "MPI_Test":
            evs.append("C 8 -1 - %x" % (1 if e.get("flag") else 0))
    return evs


def sup_extra(case, p, q):
    """the superset pattern of tools/harness/c01_harness.c (call 0): p additionally contacts q"""
    x = (case.superseed + p * 104729 + q * 1299709) & 0xffffffff
    x ^= x >> 11
    x = (x * 0x9e3779b1) & 0xffffffff
    x ^= x >> 14
    return (x % 4) == 0


def superset_sets(case, me):
    P = case.P
    R = case.patterns[0]
    extra = [q for q in range(P) if q not in R[me] and sup_extra(case, me, q)]
    supers = [q for q in range(P) if me in R[q] or sup_extra(case, q, me)]
    return extra, supers


def cosim_line(case, run, q, trace_by_rank, accum_targets):
    c = case
    P = c.P
    R = c.patterns[0][q]
    haspay = 1 if c.paymode == 1 else 0
    sz = c.paysize if haspay else 0
    eager = 1 if (haspay and sz <= c.threshold) else 0
    npay = _npay(sz) if (haspay and eager and c.type == 2) else 0
    evs = []
    if c.type == 5:
        # RMA census of rsx: contribution = the targets of this rank's MPI_Accumulate calls, reply = the number of
        # accumulates that hit this rank's window
        vec = [1 if t in accum_targets[q] else 0 for t in range(P)]
        hits = sum(1 for r in range(P) for t in accum_targets[r] if t == q)
        evs.append("C 5 -1 %s %x" % (",".join("%x" % v for v in vec) if vec else "-", hits))
    if c.type in (6, 8):
        evs += nbx_events(run.trace, q)
    for e in ([] if c.type in (6, 8) else mpitrace.canonical_windows(mpitrace.merge_probe_recv(trace_by_rank[q]))):
        if e[0] == "S":
            unit = 4 if e[2] >= TAG_RECURSIVE else 1
            data = _mask_records(e[3], npay, sz) if e[2] >= TAG_RECURSIVE + 32 else e[3]
            if e[2] == TAG_RANGES and data[:4] == b"\0\0\0\0":
                data = bytes(len(data))          # nothing behind a 0 flag is initialised by the code
            evs.append("S %x %x %s" % (e[1], e[2], mpitrace.hexints(data, unit, signed=(unit == 4))))
        elif e[0] == "R":
            unit = 4 if e[2] >= TAG_RECURSIVE else 1
            data = e[4] or b""
            data = _mask_records(data, npay, sz) if e[2] >= TAG_RECURSIVE + 32 else data
            if e[2] == TAG_RANGES and data[:4] == b"\0\0\0\0":
                data = bytes(len(data))
            evs.append("R %s %x %x %s" % (("-1" if e[1] < 0 else "%x" % e[1]), e[2], e[3] if e[3] is not None else 0, mpitrace.hexints(data, unit, signed=(unit == 4))))
        elif e[0] == "C":
            kind = COLL_KIND.get(e[1])
            if kind is None:
                evs.append("C 63 -1 - -")      # a collective the model does not know: makes the co-simulation fail visibly
            else:
                evs.append("C %x -1 %s %s" % (kind, mpitrace.hexints(e[3], 4, signed=True), mpitrace.hexints(e[4], 4, signed=True)))
    # final output of the call on this rank
    out = None
    for o in run.outs:
        left, pay, rest = o.split(" | ")
        w = left.split()
        if int(w[0]) == 0 and int(w[1]) == q:
            ns = int(w[2])
            senders = [int(x) for x in w[3:3 + ns]]
            pb = b"" if pay.strip() == "-" else bytes.fromhex(pay.strip())
            out = [ns] + senders + list(pb)
    if out is None:
        return None
    evs.append("O " + ",".join(_hx(v) for v in out))
    items = "-"
    if haspay and R:
        items = "/".join(",".join("%x" % pay_byte(0, q, r, k) for k in range(sz)) for r in R)
    rs = ",".join("%x" % r for r in R) if R else "-"
    more = ""
    if c.type == 8:
        ex, su = superset_sets(c, q)
        more = " %s %s" % (",".join("%x" % v for v in ex) or "-", ",".join("%x" % v for v in su) or "-")
    return "prog %x %x %x %x %x %x %d %d %x %d %s %s%s | %s" % (c.type, P, q, (c.nranges if c.type == 7 else c.ntop), c.nint, c.nbot, 1 if c.sorted else 0, haspay, sz, eager, rs, items, more, " ; ".join(evs))


def gen_cosim_cases(ctx, paymodes, n):
    rng = ctx.rng
    cases = []
    sizes = [1, 2, 3, 4, 5, 7, 8, 9, 12, 13, 16]
    for i in range(n):
        typ = COSIM_TYPES[i % len(COSIM_TYPES)]
        P = rng.choice([1, 2, 3, 4, 5, 6, 7, 8, 9, 11, 12, 13, 16, 17])
        pm = rng.choice(paymodes)
        sz = rng.choice(sizes) if pm else 0
        thr = rng.choice([0, sz - 1, sz, 1024, 1024]) if pm else 1024
        c = make_case(rng, P, typ, paymode=pm, paysize=sz, threshold=max(thr, 0))
        if typ == 2:
            c.ntop, c.nint, c.nbot = rng.randrange(2, 6), rng.randrange(2, 5), rng.randrange(2, 6)
        cases.append(c)
    return cases


def cosim_tie(ctx, paymodes, ncases):
    """co-simulate every rank of every case; returns number of rank traces walked"""
    cases = gen_cosim_cases(ctx, paymodes, ncases)
    rc, runs, err = run_cases(ctx, cases, trace=True)
    if rc != 0:
        crash_violation(ctx, cases, runs, rc, err, what="notify harness (co-simulation cases)")
    if len(runs) < len(cases):
        ctx.tie_broken("cosim harness run", "status %s, %d of %d runs: %s" % (rc, len(runs), len(cases), err[-600:]))
    lines, index = [], []
    for c, r in zip(cases, runs):
        ctx.count_case("cosim " + c.text(), nontrivial=c.P > 1 and any(len(x) for x in c.patterns[0]))
        probs = judge(c, r)
        for kind, text, detail in probs:
            rep = dict(case=c.to_json(), kind=kind)
            rep.update(detail)
            ctx.violation("%s:%s" % (kind, c.key()), "%s [%s]" % (text, c.header()), rep)
        if r.rc != 0 or probs:
            continue
        per = mpitrace.rank_events(r.trace, c.P)
        acc = [[] for _ in range(c.P)]
        for e in r.trace:
            if e.get("f") == "MPI_Accumulate" and 0 <= e.get("r", -1) < c.P:
                acc[e["r"]].append(e.get("target"))
        for q in range(c.P):
            l = cosim_line(c, r, q, per, acc)
            if l is not None:
                lines.append(l)
                index.append((c, q))
    nmis = 0
    try:
        mexe = ctx.model("c01")
        rc2, mout, err2 = ctx.run_lines([mexe], "\n".join(lines) + "\n", timeout=900)
        mout = [l for l in mout if l != ""]
        if rc2 != 0 or len(mout) != len(lines):
            ctx.tie_broken("c01 model run (co-simulation)", "exit %s, %d of %d lines: %s" % (rc2, len(mout), len(lines), err2[-500:]))
        for (c, q), l, src in zip(index, mout, lines):
            if not l.startswith("OK"):
                nmis += 1
                if nmis <= 3:
                    ctx.tie_broken("co-simulation %s rank %d of [%s]" % (TYPES[c.type], q, c.header()), (l[:400] + " || " + src[:600]))
    except vlib.BuildError as e:
        ctx.tie_broken("c01 model build", str(e)[-1500:])
    ctx.cov["disagreements_checked"] += len(lines)
    ctx.notes["cosimulated_rank_traces"] = len(lines)
    ctx.notes["cosim_mismatches"] = nmis
    ctx.notes["cosim_types"] = [TYPES[t] for t in COSIM_TYPES]
    return len(lines)


def crash_violation(ctx, cases, runs, rc, err, what="notify harness"):
    """A harness that died or printed a foreign sanitizer report: VIOLATION text with the first sanitizer line and the top
    libsc frame; the replay carries the case that was running (index = number of completed runs)."""
    idx = sum(1 for r in runs if r.mem is not None)
    # the harness writes "CASE k" to stderr before every run: the report belongs to the last marker in front of it
    pos = -1
    for pat in ("ERROR: AddressSanitizer", "runtime error:"):
        for mm in re.finditer(re.escape(pat), err):
            tail = err[mm.start():mm.start() + 1500]
            if pat == "ERROR: AddressSanitizer" and re.search(r"#0 0x[0-9a-f]+ in msg_free [^\n]*simmpi\.c[^\n]*\n\s*#1 0x[0-9a-f]+ in cleanup", tail):
                continue
            if pos < 0 or mm.start() < pos:
                pos = mm.start()
            break
    if pos >= 0:
        marks = re.findall(r"^CASE (\d+)$", err[:pos], re.M)
        if marks:
            idx = int(marks[-1])
        err = err[pos:]
    err = re.sub(r"^CASE \d+\n", "", err, flags=re.M)
    first = None
    for l in err.split("\n"):
        if "ERROR: AddressSanitizer" in l or "runtime error:" in l or "ERROR: LeakSanitizer" in l or "SUMMARY: UndefinedBehaviorSanitizer" in l:
            first = l.strip()
            first = re.sub(r"^=+\d+=+", "", first).strip()
            break
    frame = None
    m = re.search(r"#\d+ 0x[0-9a-f]+ in (\S+) [^\n]*?/(sc_notify\.c:\d+)", err)
    if not m:
        m = re.search(r"#\d+ 0x[0-9a-f]+ in (\S+) [^\n]*?/src/(sc_[a-z_0-9]+\.c:\d+)", err)
    if m:
        frame = "%s (%s)" % (m.group(1), m.group(2))
    elif first and "runtime error" in first:
        mm = re.search(r"(sc_[a-z_0-9]+\.c:\d+)", first)
        frame = mm.group(1) if mm else None
    case = cases[idx] if idx < len(cases) else None
    text = "%s ended with status %s while running case %d%s: %s; top libsc frame: %s" % (
        what, rc, idx, (" [%s]" % case.header()) if case is not None else "", first or ("no sanitizer line; stderr tail: " + err[-300:].replace("\n", " | ")), frame or "none")
    key = "crash:%s" % (case.key() if case is not None else "unknown")
    rep = dict(kind="crash", sanitizer=first, libsc_frame=frame, case_index=idx, stderr=err[-3000:])
    if case is not None:
        rep["case"] = case.to_json()
    ctx.violation(key, text, rep)


# ---------------------------------------------------------------------------------------------------------
# T3 for sc_notify_payloadv with pcx / rsx (sc_notify_payloadv_census): variable slices, output offsets
# ---------------------------------------------------------------------------------------------------------
TAG_CENSUSV = 219


def cosimv_line(case, run, q, trace_by_rank, raw):
    c = case
    P = c.P
    R = c.patterns[0][q]
    lens = c.lengths[0][q]
    msz = c.paysize
    evs = []
    if c.type == 5:
        vec = [0, 0] * P
        for e in raw:
            if e.get("f") == "MPI_Accumulate" and e.get("r") == q:
                d = bytes.fromhex(e.get("d", ""))
                t = e.get("target")
                vec[2 * t] = int.from_bytes(d[0:4], "little", signed=True)
                vec[2 * t + 1] = int.from_bytes(d[4:8], "little", signed=True)
        hits = [0, 0]
        for e in raw:
            if e.get("f") == "MPI_Accumulate" and e.get("target") == q:
                d = bytes.fromhex(e.get("d", ""))
                hits[0] += int.from_bytes(d[0:4], "little", signed=True)
                hits[1] += int.from_bytes(d[4:8], "little", signed=True)
        evs.append("C 5 -1 %s %x,%x" % (",".join("%x" % v for v in vec), hits[0], hits[1]))
    for e in mpitrace.canonical_windows(mpitrace.merge_probe_recv(trace_by_rank[q])):
        if e[0] == "S":
            evs.append("S %x %x %s" % (e[1], e[2], mpitrace.hexints(e[3], 1)))
        elif e[0] == "R":
            evs.append("R %s %x %x %s" % (("-1" if e[1] < 0 else "%x" % e[1]), e[2], e[3] if e[3] is not None else 0, mpitrace.hexints(e[4] or b"", 1)))
        elif e[0] == "C":
            kind = COLL_KIND.get(e[1])
            evs.append("C %x -1 %s %s" % (kind if kind is not None else 63, mpitrace.hexints(e[3], 4, signed=True), mpitrace.hexints(e[4], 4, signed=True)))
    out = None
    for o in run.outs:
        left, pay, rest = o.split(" | ")
        w = left.split()
        if int(w[0]) == 0 and int(w[1]) == q:
            ns = int(w[2])
            senders = [int(x) for x in w[3:3 + ns]]
            pb = b"" if pay.strip() == "-" else bytes.fromhex(pay.strip())
            rw = rest.split()
            offs = [] if rw[1] == "-" else [int(x) for x in rw[1].split(",") if x != ""]
            out = [ns] + senders + offs + list(pb)
    if out is None:
        return None
    evs.append("O " + ",".join(_hx(v) for v in out))
    rs = ",".join("%x" % r for r in R) if R else "-"
    ls = ",".join("%x" % l for l in lens[:len(R)]) if R else "-"
    sl = "/".join((",".join("%x" % pay_byte(0, q, r, k) for k in range(l * msz)) or ".") for r, l in zip(R, lens)) if R else "-"
    return "progv %x %x %x %d %x %s %s %s | %s" % (c.type, P, q, 1 if c.sorted else 0, msz, rs, ls, sl, " ; ".join(evs))


def cosimv_tie(ctx, ncases):
    rng = ctx.rng
    cases = []
    for i in range(ncases):
        c = make_case(rng, rng.choice([1, 2, 3, 4, 5, 7, 8, 9, 12]), rng.choice([4, 5]), paymode=2, paysize=rng.choice([1, 2, 3, 4, 5, 8]))
        cases.append(c)
    rc, runs, err = run_cases(ctx, cases, trace=True)
    if rc != 0:
        crash_violation(ctx, cases, runs, rc, err, what="notify harness (payloadv co-simulation cases)")
    lines, index = [], []
    for c, r in zip(cases, runs):
        ctx.count_case("cosimv " + c.text(), nontrivial=c.P > 1 and any(len(x) for x in c.patterns[0]))
        probs = judge(c, r)
        for kind, text, detail in probs:
            rep = dict(case=c.to_json(), kind=kind)
            rep.update(detail)
            ctx.violation("%s:%s" % (kind, c.key()), "%s [%s]" % (text, c.header()), rep)
        if r.rc != 0 or probs:
            continue
        per = mpitrace.rank_events(r.trace, c.P)
        for q in range(c.P):
            l = cosimv_line(c, r, q, per, r.trace)
            if l is not None:
                lines.append(l)
                index.append((c, q))
    nmis = 0
    try:
        mexe = ctx.model("c01")
        rc2, mout, err2 = ctx.run_lines([mexe], "\n".join(lines) + "\n", timeout=900)
        mout = [l for l in mout if l != ""]
        if rc2 != 0 or len(mout) != len(lines):
            ctx.tie_broken("c01 model run (payloadv co-simulation)", "exit %s, %d of %d lines: %s" % (rc2, len(mout), len(lines), err2[-500:]))
        for (c, q), l, src in zip(index, mout, lines):
            if not l.startswith("OK"):
                nmis += 1
                if nmis <= 3:
                    ctx.tie_broken("payloadv co-simulation %s rank %d of [%s]" % (TYPES[c.type], q, c.header()), (l[:400] + " || " + src[:600]))
    except vlib.BuildError as e:
        ctx.tie_broken("c01 model build", str(e)[-1500:])
    ctx.cov["disagreements_checked"] += len(lines)
    ctx.notes["cosimulated_payloadv_rank_traces"] = len(lines)
    ctx.notes["cosimv_mismatches"] = nmis
    return len(lines)


def reuse_cases(rng, paymodes, per_type):
    """the caller keeps its OUTPUT arrays (senders, out_payload, out_offsets) over several calls, as in a time loop, without
    resetting them (reuse 1), or passes arrays that already hold junk elements (reuse 2); separate output arrays are forced,
    sorted 0/1 both; a barrier separates the calls where back-to-back calls are a recorded finding"""
    cases = []
    for typ in range(9):
        for k in range(per_type):
            pm = paymodes[k % len(paymodes)]
            c = make_case(rng, rng.choice([2, 3, 4, 5, 7, 9]), typ, ncalls=rng.choice([1, 2, 3, 3]), paymode=pm,
                          paysize=(rng.choice([1, 3, 4, 5, 8]) if pm else 0),
                          barrier=(1 if TYPES[typ] in WILDCARD_UNFENCED else rng.randrange(2)), sorted_=k % 2, reuse=1 + (k // 2) % 2,
                          style=rng.choice(["dense", "rand", "all", "ring"]))
            c.sep_senders, c.sep_payload = 1, 1
            if c.reuse == 1 and c.ncalls == 1:
                c.ncalls = 2
                c.patterns.append(gen_pattern(rng, c.P, "dense"))
                c.lengths.append([[rng.choice([0, 1, 2, 3]) for _ in c.patterns[1][p]] for p in range(c.P)])
            cases.append(c)
    return cases
