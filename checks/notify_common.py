"""Shared by C01 (pattern inversion) and C02 (payload delivery): case generation, harness I/O and the oracle
for the notify operations of libsc running on the simulated MPI."""
import os, json, re
import vlib, mpitrace

TYPES = ["allgather", "binary", "nary", "pex", "pcx", "rsx", "nbx", "ranges", "superset"]
ALWAYS_SORTED = {"allgather", "binary", "nary", "pex", "ranges"}   # these deliver ascending senders whatever `sorted` says
WILDCARD_UNFENCED = {"nary", "nbx", "superset"}                     # known finding: back-to-back calls (DESIGN.md 9, F-C01a)


def model_exe(ctx):
    """the extracted c01 driver, built (or found up to date) once per check run"""
    if getattr(ctx, "_c01_model_exe", None) is None:
        ctx._c01_model_exe = ctx.model("c01")
    return ctx._c01_model_exe


def pay_byte(call, s, r, k):
    x = (call * 2654435761 + s * 40503 + r * 2246822519 + k * 9176 + 12345) & 0xffffffff
    x ^= x >> 13
    x = (x * 0x5bd1e995) & 0xffffffff
    x ^= x >> 15
    return x & 0xff


def pay_bytes(call, s, r, n):
    return bytes(pay_byte(call, s, r, k) for k in range(n))


def gen_pattern(rng, P, style):
    """family of receiver sets R_p, each sorted and duplicate free"""
    R = []
    for p in range(P):
        if style == "empty":
            s = set()
        elif style == "self":
            s = {p} if rng.random() < 0.7 else set()
        elif style == "all":
            s = set(range(P))
        elif style == "ring":
            s = {(p + 1) % P, (p - 1) % P}
        elif style == "star":
            s = {0} if p else set(range(P))
        elif style == "sparse":
            s = set(rng.sample(range(P), min(P, rng.choice([0, 1, 1, 2]))))
        elif style == "high":
            s = set(q for q in range(P) if q >= P - 2 and rng.random() < 0.8)
        elif style == "dense":
            s = set(q for q in range(P) if rng.random() < 0.6)
        else:
            s = set(q for q in range(P) if rng.random() < rng.choice([0.1, 0.3]))
        if style not in ("empty",) and rng.random() < 0.15:
            s.add(p)      # self notification
        R.append(sorted(s))
    return R


STYLES = ["rand", "rand", "sparse", "dense", "ring", "star", "all", "empty", "self", "high"]


class Case:
    def __init__(self, **kw):
        self.__dict__.update(kw)

    def header(self):
        c = self
        return "%d %d %d %d %d %d %d %d %d %d %d %d %d %d %d %d %d %d %d%s" % (
            c.P, c.seed, c.adv, c.type, c.ntop, c.nint, c.nbot, c.nranges, c.ncalls, c.sorted, c.sep_senders, c.paymode, c.paysize,
            c.sep_payload, c.threshold, c.api, c.superseed, c.barrier, getattr(c, "reuse", 0), " 1" if getattr(c, "hist", 0) else "")

    def text(self):
        lines = [self.header()]
        for call in range(self.ncalls):
            if getattr(self, "hist", 0):
                lines.append("H " + ops_text(self.ops[call]))      # reconfiguration of the ONE notify object before this round
            for p in range(self.P):
                R = self.patterns[call][p]
                l = [str(len(R))] + [str(q) for q in R]
                if self.paymode == 2:
                    l += [str(self.lengths[call][p][i]) for i in range(len(R))]
                lines.append(" ".join(l))
        return "\n".join(lines) + "\n"

    def key(self):
        c = self
        if getattr(c, "hist", 0):
            return "history:%s-P%d-rounds%d-pay%d" % (getattr(c, "family", "x"), c.P, c.ncalls, c.paymode)
        return "%s-P%d-calls%d%s-pay%d%s" % (TYPES[c.type] if c.api in (0,) else ["", "legacy-binary", "legacy-allgather", "ext", "nary-fn"][c.api],
                                             c.P, c.ncalls, "b" if c.barrier else "", c.paymode, ("-reuse%d" % c.reuse) if getattr(c, "reuse", 0) else "")

    def to_json(self):
        return dict(self.__dict__)


def make_case(rng, P, typ, ncalls=1, paymode=0, paysize=0, api=0, barrier=0, sorted_=None, threshold=None, style=None, reuse=0):
    pats, lens = [], []
    for call in range(ncalls):
        R = gen_pattern(rng, P, style or rng.choice(STYLES))
        pats.append(R)
        lens.append([[rng.choice([0, 0, 1, 2, 3, 7]) for _ in R[p]] for p in range(P)])
    return Case(P=P, seed=rng.randrange(1 << 30), adv=rng.randrange(8), type=typ,
                ntop=rng.choice([2, 2, 3, 4, 5]), nint=rng.choice([2, 2, 3, 4]), nbot=rng.choice([2, 2, 3, 4, 5]),
                nranges=rng.choice([1, 2, 3, 5, 25]), ncalls=ncalls,
                sorted=(rng.randrange(2) if sorted_ is None else sorted_), sep_senders=rng.randrange(2), paymode=paymode, paysize=paysize,
                sep_payload=rng.randrange(2), threshold=(rng.choice([0, 4, 8, 1024, 1024]) if threshold is None else threshold),
                api=api, superseed=rng.randrange(1 << 30), barrier=barrier, patterns=pats, lengths=lens, reuse=reuse)


def judge(case, run):
    """oracle: returns list of (kind, text, detail) problems found in one run"""
    c = case
    probs = []
    if run.rc != 0:
        probs.append(("schedule", "run did not end normally (simmpi %s): %s" % (run.rc, run.report[:400]), dict(report=run.report[:2500])))
        return probs
    outs = {}
    for o in run.outs:
        left, pay, rest = o.split(" | ")
        w = left.split()
        call, rank, ns = int(w[0]), int(w[1]), int(w[2])
        senders = [int(x) for x in w[3:3 + ns]]
        rw = rest.split()
        npay = int(rw[0])
        offs = None if rw[1] == "-" else [int(x) for x in rw[1].split(",") if x != ""]
        outs[(call, rank)] = (senders, b"" if pay.strip() == "-" else bytes.fromhex(pay.strip()), npay, offs)
    tname = TYPES[c.type] if c.api == 0 else {1: "binary", 2: "allgather", 3: "ext", 4: "nary"}[c.api]
    must_sort = c.sorted or tname in ALWAYS_SORTED or c.api in (1, 2, 3, 4)
    if getattr(c, "hist", 0):
        probs += judge_config(c, run)
    for call in range(c.ncalls):
        if getattr(c, "hist", 0):
            # history on one object: the round is judged as a single call with the parameters in force
            must_sort = c.sorted or TYPES[in_force(c)[call]["type"]] in ALWAYS_SORTED
        for p in range(c.P):
            if (call, p) not in outs:
                probs.append(("output", "call %d rank %d produced no output" % (call, p), {}))
                continue
            senders, pay, npay, offs = outs[(call, p)]
            exp = sorted(q for q in range(c.P) if p in c.patterns[call][q])
            if sorted(senders) != exp:
                missing = sorted(set(exp) - set(senders))
                extra = sorted(set(senders) - set(exp))
                dup = len(senders) != len(set(senders))
                probs.append(("senders", "call %d rank %d: senders %s, expected %s (missing %s, extra %s%s)" % (call, p, senders, exp, missing, extra, ", duplicates" if dup else ""),
                              dict(call=call, rank=p, got=senders, expected=exp)))
                continue
            if must_sort and senders != exp:
                probs.append(("order", "call %d rank %d: senders %s not ascending although sorted output is due" % (call, p, senders), dict(call=call, rank=p, got=senders)))
            if c.paymode == 1:
                want = b"".join(pay_bytes(call, s, p, c.paysize) for s in senders)
                if npay != len(senders) or pay != want:
                    bad = [i for i, s in enumerate(senders) if pay[i * c.paysize:(i + 1) * c.paysize] != pay_bytes(call, s, p, c.paysize)]
                    probs.append(("payload", "call %d rank %d: payload array has %d items for %d senders; wrong item(s) at sender position(s) %s" % (call, p, npay, len(senders), bad[:6]),
                                  dict(call=call, rank=p, senders=senders, got=pay.hex(), expected=want.hex())))
            elif c.paymode == 2:
                lens = []
                for s in senders:
                    i = c.patterns[call][s].index(p)
                    lens.append(c.lengths[call][s][i])
                wantoff = [0]
                for l in lens:
                    wantoff.append(wantoff[-1] + l)
                want = b"".join(pay_bytes(call, s, p, l * c.paysize) for s, l in zip(senders, lens))
                if offs != wantoff:
                    probs.append(("offsets", "call %d rank %d: output offsets %s, expected %s" % (call, p, offs, wantoff), dict(call=call, rank=p, senders=senders, got=offs, expected=wantoff)))
                elif pay != want or npay != wantoff[-1]:
                    probs.append(("payloadv", "call %d rank %d: variable payload differs from what the senders addressed to this rank" % (call, p),
                                  dict(call=call, rank=p, senders=senders, got=pay.hex(), expected=want.hex())))
    if run.mem not in (0, None):
        probs.append(("memory", "sc_memory_status changed by %s over the calls" % run.mem, {}))
    return probs


def run_cases(ctx, cases, trace=False, cflags_extra=("-fno-sanitize=nonnull-attribute,alignment",)):
    v = ctx.variant(mpi="sim", san=True, cflags_extra=cflags_extra)
    exe = os.path.join(ctx.scratch, "c01_harness")
    if not os.path.exists(exe):
        # the harness translation units (NOT libsc) are compiled with recoverable ASan reports: tools/simmpi's cleanup
        # after a run that ended abnormally (the recorded back-to-back findings) sometimes touches a freed request in
        # msg_free; such a report must not kill the harness and hide the remaining cases.  Reports are classified below.
        ctx.cc([os.path.join(vlib.TOOLS, "harness", "c01_harness.c"), os.path.join(vlib.TOOLS, "simmpi", "simmpi.c")], exe, v,
               extra=("-fsanitize-recover=address", "-DTRACE_MAXPAYLOAD=4194304"))   # collective contributions with large items must not be cut in the trace
    env = dict(os.environ, VERIF_SCRATCH=ctx.scratch, ASAN_OPTIONS="detect_leaks=0:halt_on_error=0")
    if trace:
        env["VERIF_TRACE"] = "1"
    text = "".join(c.text() for c in cases)
    rc, lines, err = ctx.run_lines([exe], text, timeout=3000, env=env)
    runs = mpitrace.parse_runs(lines)
    # classify sanitizer reports: anything that is not the simulator's own cleanup counts as a crash of the run
    reports = err.split("==ERROR: AddressSanitizer")[1:]
    foreign = [r for r in reports if not re.search(r"#0 0x[0-9a-f]+ in msg_free [^\n]*simmpi\.c[^\n]*\n\s*#1 0x[0-9a-f]+ in cleanup [^\n]*simmpi\.c", r)]
    if reports:
        ctx.notes["simmpi_cleanup_reports"] = ctx.notes.get("simmpi_cleanup_reports", 0) + (len(reports) - len(foreign))
    if foreign and rc == 0:
        rc = 1
    return rc, runs, err


def known_key(case, kind, text=""):
    """violations that fall under a recorded finding get that finding's key"""
    tname = TYPES[case.type] if case.api == 0 else {1: "binary", 2: "allgather", 3: "ext", 4: "nary"}[case.api]
    if case.ncalls > 1 and not case.barrier and tname in WILDCARD_UNFENCED:
        return "back-to-back:" + tname
    return None


# ---------------------------------------------------------------------------------------------------------
# T2 tie for the record merge: the STATIC sc_notify_merge of the working tree (harness includes sc_notify.c)
# against the extracted int-level model coq/C01/MergeModel.notify_merge, plus an independent oracle.
# ---------------------------------------------------------------------------------------------------------
def _hx(v):
    return ("-%x" % -v) if v < 0 else ("%x" % v)


def gen_merge_case(rng, npays):
    """two well-formed record arrays over the same destinations with disjoint sender sets (the precondition the
    callers guarantee); the first one additionally carries records marked as sent (torank -1).  Returns
    (line, npay, map_a, map_b, dup) with map_x: torank -> {fromrank: payload tuple}."""
    npay = rng.choice(npays)
    style = rng.randrange(8)
    nt = rng.choice([0, 1, 2, 3, 5, 8]) if style else 0
    toranks = sorted(rng.sample(range(0, 14), min(nt, 14)))
    dup = rng.random() < 0.06
    A, B = {}, {}
    for t in toranks:
        ns = rng.choice([1, 1, 2, 3, 6])
        senders = sorted(rng.sample(range(0, 12), ns))
        where = rng.choice(["a", "b", "ab", "ab", "ab"])
        for s in senders:
            pay = tuple(rng.choice([0, 1, -1, 7, 0x7fffffff, -0x80000000, rng.randrange(-99, 99)]) for _ in range(npay))
            side = where if where != "ab" else rng.choice(["a", "b"])
            (A if side == "a" else B).setdefault(t, {})[s] = pay
            if dup and rng.random() < 0.3:
                pay2 = tuple(rng.randrange(-9, 9) for _ in range(npay))
                (B if side == "a" else A).setdefault(t, {})[s] = pay2
    def enc(M, marks):
        out = []
        ts = sorted(M)
        for k, t in enumerate(ts + [None]):
            if marks and rng.random() < 0.35:
                # a record the binary recursion has sent away: torank overwritten by -1, rest left in place
                cnt = rng.choice([1, 1, 2, 3])
                out += [-1, cnt]
                for _ in range(cnt):
                    out += [rng.randrange(0, 12)] + [rng.randrange(-5, 5) for _ in range(npay)]
            if t is None:
                break
            out += [t, len(M[t])]
            for s in sorted(M[t]):
                out += [s] + list(M[t][s])
        return out
    a, b = enc(A, True), enc(B, False)
    line = "merge %s | %s | %s" % (_hx(npay), " ".join(_hx(v) for v in a), " ".join(_hx(v) for v in b))
    return line, npay, A, B, dup


def merge_oracle(npay, A, B, out):
    """independent restatement: the output is the ascending record list of the union of the two maps, every
    payload still behind its sender"""
    exp = []
    for t in sorted(set(A) | set(B)):
        m = dict(A.get(t, {}))
        m.update(B.get(t, {}))
        exp += [t, len(m)]
        for s in sorted(m):
            exp += [s] + list(m[s])
    return exp == out, exp


def merge_tie(ctx, npays, ncases):
    """returns number of cases run"""
    rng = ctx.rng
    v = ctx.variant(mpi="sim", san=True, cflags_extra=("-fno-sanitize=nonnull-attribute,alignment",))
    exe = os.path.join(ctx.scratch, "c01m_harness")
    if not os.path.exists(exe):
        ctx.cc([os.path.join(vlib.TOOLS, "harness", "c01m_harness.c"), os.path.join(vlib.TOOLS, "simmpi", "simmpi.c")], exe, v)
    cases = [gen_merge_case(rng, npays) for _ in range(ncases)]
    text = "\n".join(c[0] for c in cases) + "\n"
    env = dict(os.environ, ASAN_OPTIONS="detect_leaks=0")
    rc, ilines, err = ctx.run_lines([exe], text, timeout=600, env=env)
    ilines = [l for l in ilines if l != ""]
    if rc != 0 or len(ilines) != len(cases):
        ctx.violation("merge-harness-crash", "sc_notify_merge harness ended with status %s after %d of %d cases: %s" % (rc, len(ilines), len(cases), err[-600:]),
                      dict(stderr=err[-3000:], next_case=cases[min(len(ilines), len(cases) - 1)][0]))
    try:
        mexe = model_exe(ctx)
        rc2, mlines, err2 = ctx.run_lines([mexe], text, timeout=600)
        mlines = [l for l in mlines if l != ""]
        if rc2 != 0 or len(mlines) != len(cases):
            ctx.tie_broken("c01 model run (merge)", "exit %s, %d of %d lines: %s" % (rc2, len(mlines), len(cases), err2[-500:]))
    except vlib.BuildError as e:
        ctx.tie_broken("c01 model build", str(e)[-1500:])
        mlines = []
    ndis = 0
    for i, c in enumerate(cases):
        line, npay, A, B, dup = c
        ctx.count_case(line, nontrivial=bool(A) and bool(B))
        if i >= len(ilines):
            break
        out = [] if ilines[i].strip() == "-" else [int(x, 16) for x in ilines[i].split()]
        if not dup:
            ok, exp = merge_oracle(npay, A, B, out)
            if not ok:
                ctx.violation("merge:npay%d" % npay, "sc_notify_merge: output is not the ascending record list of the union of its operands (a notification or its payload is lost, duplicated or misplaced): %s" % line,
                              dict(case=line, got=out, expected=exp))
        if i < len(mlines) and mlines[i].strip() != ilines[i].strip():
            ndis += 1
            if ndis <= 3:
                ctx.tie_broken("sc_notify_merge vs model, case %d" % i, "case %s | impl %s | model %s" % (line, ilines[i][:300], mlines[i][:300]))
    ctx.cov["disagreements_checked"] += len(cases)
    ctx.notes["merge_cases"] = len(cases)
    ctx.notes["merge_model_disagreements"] = ndis
    return len(cases)


# ---------------------------------------------------------------------------------------------------------
# T3 tie: per-rank trace co-simulation of the extracted programs coq/C01/NotifyProgs.notify_prog
# (allgather, binary, nary, pex, pcx, rsx; without payload and with fixed-size items below/above the eager
# threshold) against the traces of the real code on the simulated MPI.
# ---------------------------------------------------------------------------------------------------------
TAG_RECURSIVE = 228          # only used to decide how to PRINT a message (ints vs bytes); the tags themselves are
                             # compared against the generated constants inside the extracted model
COLL_KIND = {"MPI_Allgather": 1, "MPI_Allgatherv": 2, "MPI_Alltoall": 3, "MPI_Reduce_scatter_block": 4, "MPI_Allreduce": 10}
TAG_RANGES = 224
COSIM_TYPES = [0, 1, 2, 3, 4, 5, 6, 7, 8]
TAG_SUPER_TRUE, TAG_SUPER_EXTRA = 226, 227


def _npay(sz):
    return ((sz - 1) if sz > 4 else 0) // 4 + 1


def _mask_records(b, npay, sz):
    """zero the padding bytes behind every payload item inside an int record array (n-ary records with payload)"""
    if npay == 0 or sz % 4 == 0:
        return b
    b = bytearray(b)
    n = len(b) // 4
    ints = [int.from_bytes(b[4 * k:4 * k + 4], "little", signed=True) for k in range(n)]
    i = 0
    multi = 1 + npay
    while i + 1 < n:
        cnt = ints[i + 1]
        if cnt < 0 or i + 2 + multi * cnt > n:
            break
        for s in range(cnt):
            base = 4 * (i + 2 + multi * s + 1)
            for k in range(sz, 4 * npay):
                b[base + k] = 0
        i += 2 + multi * cnt
    return bytes(b)


def nbx_events(raw, q):
    """events of rank q for the nbx program: every Iprobe is a wildcard receive whose matched source is -1 when flag = 0
    (a successful Iprobe and the Recv that follows it are one receive), Testall / Ibarrier / Test are poll actions with
    their flag as reply; the second phase of the dispatcher (Isend / named Recv) follows unchanged"""
    evs = []
    mine = sorted([e for e in raw if e.get("r") == q], key=lambda e: e.get("s", 0))
    pending = None
    for e in mine:
        f = e.get("f", "")
        if f in ("MPI_Issend", "MPI_Isend", "MPI_Send"):
            evs.append("S %x %x %s" % (e["dest"], e["tag"], mpitrace.hexints(bytes.fromhex(e.get("d", "")), 1)))
        elif f == "MPI_Iprobe":
            if e.get("flag", 0):
                pending = e
            else:
                evs.append("R -1 %x -1 -" % e["tag"])
        elif f == "MPI_Recv":
            data = mpitrace.hexints(bytes.fromhex(e.get("d", "")), 1)
            if pending is not None and pending.get("msrc") == e.get("src"):
                evs.append("R -1 %x %x %s" % (e["tag"], e.get("msrc", 0), data))
                pending = None
            else:
                evs.append("R %x %x %x %s" % (e["src"], e["tag"], e.get("msrc", 0), data))
        elif f == "MPI_Testall":
            evs.append("C 6 -1 - %x" % (1 if e.get("flag") else 0))
        elif f == "MPI_Ibarrier":
            evs.append("C 7 -1 - -")
        elif f == "MPI_Test":
            evs.append("C 8 -1 - %x" % (1 if e.get("flag") else 0))
    return evs


def sup_extra(case, p, q):
    """the superset pattern of tools/harness/c01_harness.c (call 0; for a round cut out of a history: call `paycall`, salted with
    the ctx of the callback in force): p additionally contacts q"""
    x = (case.superseed + getattr(case, "supsalt", 0) * 15485863 + getattr(case, "paycall", 0) * 7919 + p * 104729 + q * 1299709) & 0xffffffff
    x ^= x >> 11
    x = (x * 0x9e3779b1) & 0xffffffff
    x ^= x >> 14
    return (x % 4) == 0


def superset_sets(case, me):
    P = case.P
    R = case.patterns[0]
    extra = [q for q in range(P) if q not in R[me] and sup_extra(case, me, q)]
    supers = [q for q in range(P) if me in R[q] or sup_extra(case, q, me)]
    if getattr(case, "supsalt", 0) % 2:
        extra, supers = extra[::-1], supers[::-1]      # the harness's second callback function pushes in descending order
    return extra, supers


def cosim_line(case, run, q, trace_by_rank, accum_targets):
    c = case
    P = c.P
    R = c.patterns[0][q]
    haspay = 1 if c.paymode == 1 else 0
    sz = c.paysize if haspay else 0
    eager = 1 if (haspay and sz <= c.threshold) else 0
    npay = _npay(sz) if (haspay and eager and c.type == 2) else 0
    evs = []
    if c.type == 5:
        # RMA census of rsx: contribution = the targets of this rank's MPI_Accumulate calls, reply = the number of
        # accumulates that hit this rank's window
        vec = [1 if t in accum_targets[q] else 0 for t in range(P)]
        hits = sum(1 for r in range(P) for t in accum_targets[r] if t == q)
        evs.append("C 5 -1 %s %x" % (",".join("%x" % v for v in vec) if vec else "-", hits))
    if c.type in (6, 8):
        evs += nbx_events(run.trace, q)
    for e in ([] if c.type in (6, 8) else mpitrace.canonical_windows(mpitrace.merge_probe_recv(trace_by_rank[q]))):
        if e[0] == "S":
            unit = 4 if e[2] >= TAG_RECURSIVE else 1
            data = _mask_records(e[3], npay, sz) if e[2] >= TAG_RECURSIVE + 32 else e[3]
            if e[2] == TAG_RANGES and data[:4] == b"\0\0\0\0":
                data = bytes(len(data))          # nothing behind a 0 flag is initialised by the code
            evs.append("S %x %x %s" % (e[1], e[2], mpitrace.hexints(data, unit, signed=(unit == 4))))
        elif e[0] == "R":
            unit = 4 if e[2] >= TAG_RECURSIVE else 1
            data = e[4] or b""
            data = _mask_records(data, npay, sz) if e[2] >= TAG_RECURSIVE + 32 else data
            if e[2] == TAG_RANGES and data[:4] == b"\0\0\0\0":
                data = bytes(len(data))
            evs.append("R %s %x %x %s" % (("-1" if e[1] < 0 else "%x" % e[1]), e[2], e[3] if e[3] is not None else 0, mpitrace.hexints(data, unit, signed=(unit == 4))))
        elif e[0] == "C":
            kind = COLL_KIND.get(e[1])
            if kind is None:
                evs.append("C 63 -1 - -")      # a collective the model does not know: makes the co-simulation fail visibly
            else:
                evs.append("C %x -1 %s %s" % (kind, mpitrace.hexints(e[3], 4, signed=True), mpitrace.hexints(e[4], 4, signed=True)))
    # final output of the call on this rank
    out = None
    for o in run.outs:
        left, pay, rest = o.split(" | ")
        w = left.split()
        if int(w[0]) == 0 and int(w[1]) == q:
            ns = int(w[2])
            senders = [int(x) for x in w[3:3 + ns]]
            pb = b"" if pay.strip() == "-" else bytes.fromhex(pay.strip())
            out = [ns] + senders + list(pb)
    if out is None:
        return None
    evs.append("O " + ",".join(_hx(v) for v in out))
    items = "-"
    if haspay and R:
        items = "/".join(",".join("%x" % pay_byte(getattr(c, "paycall", 0), q, r, k) for k in range(sz)) for r in R)
    rs = ",".join("%x" % r for r in R) if R else "-"
    more = ""
    if c.type == 8:
        ex, su = superset_sets(c, q)
        more = " %s %s" % (",".join("%x" % v for v in ex) or "-", ",".join("%x" % v for v in su) or "-")
    return "prog %x %x %x %x %x %x %d %d %x %d %s %s%s | %s" % (c.type, P, q, (c.nranges if c.type == 7 else c.ntop), c.nint, c.nbot, 1 if c.sorted else 0, haspay, sz, eager, rs, items, more, " ; ".join(evs))


def gen_cosim_cases(ctx, paymodes, n, sizes=None):
    rng = ctx.rng
    cases = []
    sizes = sizes or [1, 2, 3, 4, 5, 7, 8, 9, 12, 13, 16]
    for i in range(n):
        typ = COSIM_TYPES[i % len(COSIM_TYPES)]
        P = rng.choice([1, 2, 3, 4, 5, 6, 7, 8, 9, 11, 12, 13, 16, 17])
        pm = rng.choice(paymodes)
        sz = rng.choice(sizes) if pm else 0
        thr = rng.choice([0, sz - 1, sz, 1024, 1024]) if pm else 1024
        c = make_case(rng, P, typ, paymode=pm, paysize=sz, threshold=max(thr, 0))
        if typ == 2:
            c.ntop, c.nint, c.nbot = rng.randrange(2, 6), rng.randrange(2, 5), rng.randrange(2, 6)
        cases.append(c)
    return cases


def cosim_tie(ctx, paymodes, ncases, sizes=None):
    """co-simulate every rank of every case; returns number of rank traces walked"""
    cases = gen_cosim_cases(ctx, paymodes, ncases, sizes)
    rc, runs, err = run_cases(ctx, cases, trace=True)
    if rc != 0:
        crash_violation(ctx, cases, runs, rc, err, what="notify harness (co-simulation cases)")
    if len(runs) < len(cases):
        ctx.tie_broken("cosim harness run", "status %s, %d of %d runs: %s" % (rc, len(runs), len(cases), err[-600:]))
    lines, index = [], []
    for c, r in zip(cases, runs):
        ctx.count_case("cosim " + c.text(), nontrivial=c.P > 1 and any(len(x) for x in c.patterns[0]))
        probs = judge(c, r)
        for kind, text, detail in probs:
            rep = dict(case=c.to_json(), kind=kind)
            rep.update(detail)
            ctx.violation("%s:%s" % (kind, c.key()), "%s [%s]" % (text, c.header()), rep)
        if r.rc != 0 or probs:
            continue
        per = mpitrace.rank_events(r.trace, c.P)
        acc = [[] for _ in range(c.P)]
        for e in r.trace:
            if e.get("f") == "MPI_Accumulate" and 0 <= e.get("r", -1) < c.P:
                acc[e["r"]].append(e.get("target"))
        for q in range(c.P):
            l = cosim_line(c, r, q, per, acc)
            if l is not None:
                lines.append(l)
                index.append((c, q))
    nmis = 0
    try:
        mexe = model_exe(ctx)
        rc2, mout, err2 = ctx.run_lines([mexe], "\n".join(lines) + "\n", timeout=900)
        mout = [l for l in mout if l != ""]
        if rc2 != 0 or len(mout) != len(lines):
            ctx.tie_broken("c01 model run (co-simulation)", "exit %s, %d of %d lines: %s" % (rc2, len(mout), len(lines), err2[-500:]))
        for (c, q), l, src in zip(index, mout, lines):
            if not l.startswith("OK"):
                nmis += 1
                if nmis <= 3:
                    ctx.tie_broken("co-simulation %s rank %d of [%s]" % (TYPES[c.type], q, c.header()), (l[:400] + " || " + src[:600]))
    except vlib.BuildError as e:
        ctx.tie_broken("c01 model build", str(e)[-1500:])
    ctx.cov["disagreements_checked"] += len(lines)
    ctx.notes["cosimulated_rank_traces"] = len(lines)
    ctx.notes["cosim_mismatches"] = nmis
    ctx.notes["cosim_types"] = [TYPES[t] for t in COSIM_TYPES]
    return len(lines)


def crash_violation(ctx, cases, runs, rc, err, what="notify harness"):
    """A harness that died or printed a foreign sanitizer report: VIOLATION text with the first sanitizer line and the top
    libsc frame; the replay carries the case that was running (index = number of completed runs)."""
    idx = sum(1 for r in runs if r.mem is not None)
    # the harness writes "CASE k" to stderr before every run: the report belongs to the last marker in front of it
    pos = -1
    for pat in ("ERROR: AddressSanitizer", "runtime error:"):
        for mm in re.finditer(re.escape(pat), err):
            tail = err[mm.start():mm.start() + 1500]
            if pat == "ERROR: AddressSanitizer" and re.search(r"#0 0x[0-9a-f]+ in msg_free [^\n]*simmpi\.c[^\n]*\n\s*#1 0x[0-9a-f]+ in cleanup", tail):
                continue
            if pos < 0 or mm.start() < pos:
                pos = mm.start()
            break
    if pos >= 0:
        marks = re.findall(r"^CASE (\d+)$", err[:pos], re.M)
        if marks:
            idx = int(marks[-1])
        err = err[pos:]
    err = re.sub(r"^CASE \d+\n", "", err, flags=re.M)
    first = None
    for l in err.split("\n"):
        if "ERROR: AddressSanitizer" in l or "runtime error:" in l or "ERROR: LeakSanitizer" in l or "SUMMARY: UndefinedBehaviorSanitizer" in l:
            first = l.strip()
            first = re.sub(r"^=+\d+=+", "", first).strip()
            break
    frame = None
    m = re.search(r"#\d+ 0x[0-9a-f]+ in (\S+) [^\n]*?/(sc_notify\.c:\d+)", err)
    if not m:
        m = re.search(r"#\d+ 0x[0-9a-f]+ in (\S+) [^\n]*?/src/(sc_[a-z_0-9]+\.c:\d+)", err)
    if m:
        frame = "%s (%s)" % (m.group(1), m.group(2))
    elif first and "runtime error" in first:
        mm = re.search(r"(sc_[a-z_0-9]+\.c:\d+)", first)
        frame = mm.group(1) if mm else None
    case = cases[idx] if idx < len(cases) else None
    hist = ""
    if case is not None and getattr(case, "hist", 0):
        hist = " [history on ONE notify object, P=%d, reconfiguration before the rounds: %s]" % (case.P, " | ".join(ops_text(o) or "-" for o in case.ops))
    text = "%s ended with status %s while running case %d%s%s: %s; top libsc frame: %s" % (
        what, rc, idx, hist, (" [%s]" % case.header()) if case is not None else "", first or ("no sanitizer line; stderr tail: " + err[-300:].replace("\n", " | ")), frame or "none")
    key = "crash:%s" % (case.key() if case is not None else "unknown")
    rep = dict(kind="crash", sanitizer=first, libsc_frame=frame, case_index=idx, stderr=err[-3000:])
    if case is not None:
        rep["case"] = case.to_json()
        if getattr(case, "hist", 0):
            rep["history"] = [ops_text(o) for o in case.ops]
    ctx.violation(key, text, rep)
    return idx


# ---------------------------------------------------------------------------------------------------------
# T3 for sc_notify_payloadv with pcx / rsx (sc_notify_payloadv_census): variable slices, output offsets
# ---------------------------------------------------------------------------------------------------------
TAG_CENSUSV = 219


def cosimv_line(case, run, q, trace_by_rank, raw):
    c = case
    P = c.P
    R = c.patterns[0][q]
    lens = c.lengths[0][q]
    msz = c.paysize
    evs = []
    if c.type == 5:
        vec = [0, 0] * P
        for e in raw:
            if e.get("f") == "MPI_Accumulate" and e.get("r") == q:
                d = bytes.fromhex(e.get("d", ""))
                t = e.get("target")
                vec[2 * t] = int.from_bytes(d[0:4], "little", signed=True)
                vec[2 * t + 1] = int.from_bytes(d[4:8], "little", signed=True)
        hits = [0, 0]
        for e in raw:
            if e.get("f") == "MPI_Accumulate" and e.get("target") == q:
                d = bytes.fromhex(e.get("d", ""))
                hits[0] += int.from_bytes(d[0:4], "little", signed=True)
                hits[1] += int.from_bytes(d[4:8], "little", signed=True)
        evs.append("C 5 -1 %s %x,%x" % (",".join("%x" % v for v in vec), hits[0], hits[1]))
    for e in mpitrace.canonical_windows(mpitrace.merge_probe_recv(trace_by_rank[q])):
        if e[0] == "S":
            evs.append("S %x %x %s" % (e[1], e[2], mpitrace.hexints(e[3], 1)))
        elif e[0] == "R":
            evs.append("R %s %x %x %s" % (("-1" if e[1] < 0 else "%x" % e[1]), e[2], e[3] if e[3] is not None else 0, mpitrace.hexints(e[4] or b"", 1)))
        elif e[0] == "C":
            kind = COLL_KIND.get(e[1])
            evs.append("C %x -1 %s %s" % (kind if kind is not None else 63, mpitrace.hexints(e[3], 4, signed=True), mpitrace.hexints(e[4], 4, signed=True)))
    out = None
    for o in run.outs:
        left, pay, rest = o.split(" | ")
        w = left.split()
        if int(w[0]) == 0 and int(w[1]) == q:
            ns = int(w[2])
            senders = [int(x) for x in w[3:3 + ns]]
            pb = b"" if pay.strip() == "-" else bytes.fromhex(pay.strip())
            rw = rest.split()
            offs = [] if rw[1] == "-" else [int(x) for x in rw[1].split(",") if x != ""]
            out = [ns] + senders + offs + list(pb)
    if out is None:
        return None
    evs.append("O " + ",".join(_hx(v) for v in out))
    rs = ",".join("%x" % r for r in R) if R else "-"
    ls = ",".join("%x" % l for l in lens[:len(R)]) if R else "-"
    sl = "/".join((",".join("%x" % pay_byte(0, q, r, k) for k in range(l * msz)) or ".") for r, l in zip(R, lens)) if R else "-"
    return "progv %x %x %x %d %x %s %s %s | %s" % (c.type, P, q, 1 if c.sorted else 0, msz, rs, ls, sl, " ; ".join(evs))


def cosimv_tie(ctx, ncases):
    rng = ctx.rng
    cases = []
    for i in range(ncases):
        c = make_case(rng, rng.choice([1, 2, 3, 4, 5, 7, 8, 9, 12]), rng.choice([4, 5]), paymode=2, paysize=rng.choice([1, 2, 3, 4, 5, 8]))
        cases.append(c)
    rc, runs, err = run_cases(ctx, cases, trace=True)
    if rc != 0:
        crash_violation(ctx, cases, runs, rc, err, what="notify harness (payloadv co-simulation cases)")
    lines, index = [], []
    for c, r in zip(cases, runs):
        ctx.count_case("cosimv " + c.text(), nontrivial=c.P > 1 and any(len(x) for x in c.patterns[0]))
        probs = judge(c, r)
        for kind, text, detail in probs:
            rep = dict(case=c.to_json(), kind=kind)
            rep.update(detail)
            ctx.violation("%s:%s" % (kind, c.key()), "%s [%s]" % (text, c.header()), rep)
        if r.rc != 0 or probs:
            continue
        per = mpitrace.rank_events(r.trace, c.P)
        for q in range(c.P):
            l = cosimv_line(c, r, q, per, r.trace)
            if l is not None:
                lines.append(l)
                index.append((c, q))
    nmis = 0
    try:
        mexe = model_exe(ctx)
        rc2, mout, err2 = ctx.run_lines([mexe], "\n".join(lines) + "\n", timeout=900)
        mout = [l for l in mout if l != ""]
        if rc2 != 0 or len(mout) != len(lines):
            ctx.tie_broken("c01 model run (payloadv co-simulation)", "exit %s, %d of %d lines: %s" % (rc2, len(mout), len(lines), err2[-500:]))
        for (c, q), l, src in zip(index, mout, lines):
            if not l.startswith("OK"):
                nmis += 1
                if nmis <= 3:
                    ctx.tie_broken("payloadv co-simulation %s rank %d of [%s]" % (TYPES[c.type], q, c.header()), (l[:400] + " || " + src[:600]))
    except vlib.BuildError as e:
        ctx.tie_broken("c01 model build", str(e)[-1500:])
    ctx.cov["disagreements_checked"] += len(lines)
    ctx.notes["cosimulated_payloadv_rank_traces"] = len(lines)
    ctx.notes["cosimv_mismatches"] = nmis
    return len(lines)


def reuse_cases(rng, paymodes, per_type):
    """the caller keeps its OUTPUT arrays (senders, out_payload, out_offsets) over several calls, as in a time loop, without
    resetting them (reuse 1), or passes arrays that already hold junk elements (reuse 2); separate output arrays are forced,
    sorted 0/1 both; a barrier separates the calls where back-to-back calls are a recorded finding"""
    cases = []
    for typ in range(9):
        for k in range(per_type):
            pm = paymodes[k % len(paymodes)]
            c = make_case(rng, rng.choice([2, 3, 4, 5, 7, 9]), typ, ncalls=rng.choice([1, 2, 3, 3]), paymode=pm,
                          paysize=(rng.choice([1, 3, 4, 5, 8]) if pm else 0),
                          barrier=(1 if TYPES[typ] in WILDCARD_UNFENCED else rng.randrange(2)), sorted_=k % 2, reuse=1 + (k // 2) % 2,
                          style=rng.choice(["dense", "rand", "all", "ring"]))
            c.sep_senders, c.sep_payload = 1, 1
            if c.reuse == 1 and c.ncalls == 1:
                c.ncalls = 2
                c.patterns.append(gen_pattern(rng, c.P, "dense"))
                c.lengths.append([[rng.choice([0, 1, 2, 3]) for _ in c.patterns[1][p]] for p in range(c.P)])
            cases.append(c)
    return cases


# ---------------------------------------------------------------------------------------------------------
# HISTORIES ON ONE NOTIFY OBJECT: several rounds on the same sc_notify_t, separated by a barrier, with
# reconfiguration between the rounds (set_type back and forth, set_widths shrinking / growing / permuted,
# set_num_ranges, set_eager_threshold, superset callback replaced, object re-created).  Every round is judged by
# the oracle and co-simulated exactly like a single call with the PARAMETERS IN FORCE; what is in force is computed
# by a small state model of the object (below), by the extracted Rocq model coq/C01/Reconfig.v (driver line `cfg`)
# and by the getters of the real object (harness lines CFG) - all three must agree after every prefix.
# ---------------------------------------------------------------------------------------------------------
DEFAULT_TYPE = 3                    # sc_notify_type_default = SC_NOTIFY_PEX
NARY_DEFAULT = (2, 2, 2)            # sc_notify_nary_{ntop,nint,nbot}_default
RANGES_DEFAULT = 25                 # sc_notify_ranges_num_ranges_default


def ops_text(ops):
    return " ".join(" ".join(str(x) for x in op) for op in ops)


def obj_fresh(thr0):
    return dict(type=DEFAULT_TYPE, thr=thr0, widths=None, nranges=None, cb=None)


def obj_apply(o, op, thr0):
    """state model of the notify object: a type CHANGE initialises the data of the new type (n-ary: default widths, ranges:
    default number of ranges, superset: no callback yet); set_type to the current type changes nothing; the setters of a
    type are legal only while the object has that type"""
    o = dict(o)
    k = op[0]
    if k == "N":
        return obj_fresh(thr0)
    if k == "T":
        t = op[1]
        if t != o["type"]:
            o["type"] = t
            o["widths"], o["nranges"], o["cb"] = None, None, None
            if t == 2:
                o["widths"] = NARY_DEFAULT
            if t == 7:
                o["nranges"] = RANGES_DEFAULT
    elif k == "W":
        assert o["type"] == 2, "illegal history: set_widths on type %d" % o["type"]
        o["widths"] = (op[1], op[2], op[3])
    elif k == "R":
        assert o["type"] == 7, "illegal history: set_num_ranges on type %d" % o["type"]
        o["nranges"] = op[1]
    elif k == "E":
        o["thr"] = op[1]
    elif k == "S":
        assert o["type"] == 8, "illegal history: set_callback on type %d" % o["type"]
        o["cb"] = op[1]
    else:
        raise ValueError("unknown op %r" % (op,))
    return o


def in_force(case):
    """per round: the parameters in force when the round starts"""
    o = obj_fresh(case.threshold)
    out = []
    for call in range(case.ncalls):
        for op in case.ops[call]:
            o = obj_apply(o, op, case.threshold)
        assert o["type"] != 8 or o["cb"] is not None, "illegal history: superset round without callback"
        out.append(dict(o))
    return out


def cfg_expected(o):
    x, y, z = (o["widths"] if o["type"] == 2 else ((o["nranges"], 0, 0) if o["type"] == 7 else (0, 0, 0)))
    return [o["type"], o["thr"], x, y, z]


def judge_config(case, run):
    """what the getters of the real object report before every round against the parameters in force"""
    probs = []
    want = [cfg_expected(o) for o in in_force(case)]
    seen = set()
    for l in run.extra:
        if not l.startswith("CFG "):
            continue
        w = [int(x) for x in l.split()[1:]]
        call, rank, got = w[0], w[1], w[2:]
        seen.add((call, rank))
        if call < len(want) and got != want[call]:
            probs.append(("config", "round %d rank %d after `%s`: getters report type/threshold/parameters %s, in force are %s" % (
                call, rank, ops_text(case.ops[call]), got, want[call]), dict(call=call, rank=rank, got=got, expected=want[call])))
    if run.rc == 0 and len(seen) != case.ncalls * case.P:
        probs.append(("config", "only %d of %d configuration reports" % (len(seen), case.ncalls * case.P), {}))
    return probs[:4]


def nary_depth(P, w):
    """depth of the n-ary tree the code must use for P ranks and widths w = (ntop, nint, nbot) (used to AIM generators only)"""
    ntop, nint, nbot = w
    if P <= nbot:
        return 1
    d, prod = 2, nbot * ntop
    while prod < P:
        prod *= nint
        d += 1
    return d


HIST_FAMILIES = ["shrink", "shrink", "grow", "permute", "randw", "types", "backdefault", "sametype", "ranges", "thresh", "superset", "fresh", "mixed"]


def _type_setup(rng, t, force=False):
    """ops that put type-specific parameters in force after a switch to t (sometimes none: the defaults are in force)"""
    if t == 2 and (force or rng.random() < 0.7):
        return [("W", rng.choice([2, 2, 3, 4, 5, 8]), rng.choice([2, 2, 3, 4]), rng.choice([2, 2, 3, 4, 5, 16]))]
    if t == 7 and (force or rng.random() < 0.7):
        return [("R", rng.choice([1, 2, 3, 5, 25, 40]))]
    if t == 8:
        return [("S", rng.randrange(0, 6))]
    return []


def make_history(rng, family, paymode=0, P=None):
    Ps = [3, 4, 5, 6, 7, 8, 9, 10, 12, 13, 16, 17]
    P = P or rng.choice(Ps)
    pool = [2, 3, 4, 5, 8, 16, max(2, P - 1), P, P + 1]
    ops = []
    if family in ("shrink", "grow"):
        # widths whose tree depth for this P strictly increases (shrink) / decreases (grow) from round to round
        fixed = [((8, 8, 8), (3, 3, 3)), ((3, 3, 3), (2, 2, 2)), ((2, 2, 16), (2, 2, 2)), ((8, 8, 8), (3, 3, 3), (2, 2, 2))]
        seq = None
        if rng.random() < 0.45:
            seq = list(rng.choice(fixed))
            P = rng.choice([5, 9, 12, 16] if seq[0] != (3, 3, 3) else [9, 10, 13])
        else:
            for _ in range(200):
                cand = [(rng.choice(pool), rng.choice([2, 2, 3, 4]), rng.choice(pool)) for _ in range(rng.choice([2, 3, 3, 4]))]
                cand.sort(key=lambda w: nary_depth(P, w))
                ds = [nary_depth(P, w) for w in cand]
                if all(a < b for a, b in zip(ds, ds[1:])):
                    seq = cand
                    break
            if seq is None:
                seq = [(P + 1, 2, P + 1), (2, 2, 2)]
        if family == "grow":
            seq = seq[::-1]
        ops = [[("T", 2), ("W",) + seq[0]]] + [[("W",) + w] for w in seq[1:]]
    elif family == "permute":
        a, b, c = rng.sample([2, 3, 4, 5, 7, P], 3)
        perms = [(a, b, c), (c, a, b), (b, c, a), (c, b, a), (a, c, b), (b, a, c)]
        rng.shuffle(perms)
        n = rng.choice([2, 3, 4])
        ops = [[("T", 2), ("W",) + perms[0]]] + [[("W",) + w] for w in perms[1:n]]
    elif family == "randw":
        n = rng.choice([2, 3, 4, 5])
        ops = [[("T", 2)] + ([("W", rng.choice(pool), rng.choice([2, 3, 4, 6]), rng.choice(pool))] if rng.random() < 0.8 else [])]
        for _ in range(n - 1):
            ops.append([("W", rng.choice(pool), rng.choice([2, 3, 4, 6]), rng.choice(pool))] if rng.random() < 0.85 else [])
    elif family == "types":
        # type switches back and forth; after switching back the DEFAULTS are in force unless set again
        n = rng.choice([3, 4, 5])
        t0 = rng.choice([2, 2, 7, 8, 1, 6])
        seqt = [t0]
        while len(seqt) < n:
            seqt.append(rng.choice([t for t in range(9) if t != seqt[-1]]) if len(seqt) % 2 else rng.choice([t0, t0, 2, 7]))
        cur = DEFAULT_TYPE
        for t in seqt:
            o = [("T", t)]
            if t != cur or t == 8:
                o += _type_setup(rng, t)
            cur = t
            ops.append(o)
    elif family == "backdefault":
        # non-default parameters, a switch to another type and back WITHOUT calling the setter again: the defaults are in force
        t = rng.choice([2, 2, 7])
        other = rng.choice([x for x in range(9) if x != t])
        first = [("W", rng.choice([3, 4, 5, 8, P]), rng.choice([3, 4]), rng.choice([3, 4, 5, 16, P + 1]))] if t == 2 else [("R", rng.choice([1, 2, 3, 60]))]
        ops = [[("T", t)] + first, [("T", other)] + _type_setup(rng, other), [("T", t)]]
        if rng.random() < 0.5:
            ops.append(_type_setup(rng, t, force=True))
    elif family == "sametype":
        # set_type to the type the object already has must keep the parameters
        t = rng.choice([2, 2, 7, 8])
        n = rng.choice([2, 3, 4])
        ops = [[("T", t)] + _type_setup(rng, t, force=True)]
        for _ in range(n - 1):
            ops.append([("T", t)] if rng.random() < 0.7 else [])
    elif family == "ranges":
        n = rng.choice([2, 3, 4])
        ops = [[("T", 7)] + ([("R", rng.choice([1, 2, 25]))] if rng.random() < 0.7 else [])]
        for _ in range(n - 1):
            ops.append([("R", rng.choice([1, 1, 2, 3, 5, 25, 60]))])
    elif family == "thresh":
        t = rng.randrange(9)
        n = rng.choice([2, 3, 4])
        ops = [[("T", t)] + _type_setup(rng, t, force=True)]
        for _ in range(n - 1):
            ops.append([("E", rng.choice([0, 1, 3, 4, 7, 8, 9, 64, 1024]))])
    elif family == "superset":
        n = rng.choice([2, 3, 4])
        ks = rng.sample(range(0, 8), n)
        ops = [[("T", 8), ("S", ks[0])]] + [[("S", k)] if rng.random() < 0.8 else [] for k in ks[1:]]
    elif family == "fresh":
        # control: the object is destroyed and created anew before every round
        n = rng.choice([2, 3])
        for _ in range(n):
            t = rng.randrange(9)
            ops.append([("N",), ("T", t)] + _type_setup(rng, t))
    else:  # mixed: anything legal
        n = rng.choice([3, 4, 5, 6])
        cur, havecb = DEFAULT_TYPE, False
        for _ in range(n):
            o = []
            for _ in range(rng.choice([0, 1, 1, 2, 3])):
                r = rng.random()
                if r < 0.35:
                    t = rng.randrange(9)
                    if t != cur:
                        havecb = False
                    cur = t
                    o.append(("T", t))
                elif r < 0.5:
                    o.append(("E", rng.choice([0, 2, 4, 8, 1024])))
                elif r < 0.55:
                    o.append(("N",))
                    cur, havecb = DEFAULT_TYPE, False
                elif cur == 2:
                    o.append(("W", rng.choice(pool), rng.choice([2, 3, 4]), rng.choice(pool)))
                elif cur == 7:
                    o.append(("R", rng.choice([1, 2, 3, 25])))
                elif cur == 8:
                    o.append(("S", rng.randrange(0, 8)))
                    havecb = True
            if cur == 8 and not havecb:
                o.append(("S", rng.randrange(0, 8)))
                havecb = True
            ops.append(o)
    n = len(ops)
    sz = rng.choice([1, 3, 4, 5, 8, 9]) if paymode else 0
    c = make_case(rng, P, 0, ncalls=n, paymode=paymode, paysize=sz, barrier=1,
                  threshold=(rng.choice([0, sz - 1, sz, 1024]) if paymode else None),
                  style=rng.choice(["dense", "all", "rand", "ring", "star", "high", None]))
    c.threshold = max(c.threshold, 0)
    c.hist, c.family = 1, family
    c.ops = [[list(op) for op in o] for o in ops]
    c.type = in_force(c)[0]["type"]        # header field only; the harness ignores it for histories
    return c


def history_cases(rng, paymodes, n):
    cases = []
    for i in range(n):
        fam = HIST_FAMILIES[i % len(HIST_FAMILIES)]
        pm = paymodes[i % len(paymodes)]
        if fam == "thresh" and any(paymodes):
            pm = max(paymodes[0], 1) if 1 in paymodes else pm
        cases.append(make_history(rng, fam, paymode=pm if pm in (0, 1) else 1))
    return cases


def split_history(case, run):
    """one (case, run) pair per round, shaped like a single call: parameters in force in the header fields, the OUT lines of
    the round renumbered to call 0, the trace events of the round (every rank's events between its k-th and (k+1)-th
    MPI_Barrier; no notify algorithm calls MPI_Barrier itself)"""
    force = in_force(case)
    byround = [[] for _ in range(case.ncalls)]
    nb = [0] * case.P
    for e in sorted(run.trace, key=lambda e: e.get("s", 0)):
        r = e.get("r", -1)
        if not (0 <= r < case.P):
            continue
        if e.get("f") == "MPI_Barrier":
            nb[r] += 1
            continue
        if nb[r] < case.ncalls:
            byround[nb[r]].append(e)
    out = []
    for k in range(case.ncalls):
        o = force[k]
        w = o["widths"] or (2, 2, 2)
        d = dict(case.__dict__)
        d.update(type=o["type"], ntop=w[0], nint=w[1], nbot=w[2], nranges=(o["nranges"] or 25), ncalls=1, threshold=o["thr"],
                 patterns=[case.patterns[k]], lengths=[case.lengths[k]], hist=0, paycall=k, supsalt=(o["cb"] or 0), round=k)
        sub = Case(**d)
        r = mpitrace.Run(run.idx)
        r.rc, r.mem, r.trace = run.rc, None, byround[k]
        for ol in run.outs:
            w0 = ol.split(" ", 1)
            if int(w0[0]) == k:
                r.outs.append("0 " + w0[1])
        out.append((sub, r))
    return out


def history_tie(ctx, paymodes, ncases, cases=None):
    """histories on one object: oracle on every round, configuration reports, co-simulation of every round's rank traces
    against the extracted program with the parameters in force, and the extracted state model of the object (Reconfig.v)
    against the getters.  Returns the cases."""
    cases = cases if cases is not None else history_cases(ctx.rng, paymodes, ncases)
    # a history that crashes the harness process (heap corruption) is reported with its case; the histories behind it are run
    # in a new process (at most 4 restarts), so that one crash does not hide the other findings
    runs, todo, ncrash = [], list(cases), 0
    while todo:
        rc, rs, err = run_cases(ctx, todo, trace=True)
        if rc == 0 or ncrash >= 4:
            runs += rs
            if rc != 0:
                crash_violation(ctx, todo, rs, rc, err, what="notify harness (histories on one notify object)")
            break
        idx = crash_violation(ctx, todo, rs, rc, err, what="notify harness (histories on one notify object)")
        ncrash += 1
        idx = max(0, min(idx if idx is not None else len(rs), len(todo) - 1))
        keep = rs[:idx]
        runs += keep + [None]
        todo = todo[idx + 1:]
    pairs = [(c, r) for c, r in zip(cases, runs) if r is not None]
    if len(runs) < len(cases):
        ctx.tie_broken("history harness run", "%d of %d runs reported" % (len(runs), len(cases)))
    ctx.notes["history_harness_crashes"] = ctx.notes.get("history_harness_crashes", 0) + ncrash
    lines, index, cfg_lines, cfg_index = [], [], [], []
    fams = {}
    nrounds = 0
    for c, r in pairs:
        fams[c.family] = fams.get(c.family, 0) + 1
        ctx.count_case("history " + c.text(), nontrivial=c.P > 1 and any(len(x) for pat in c.patterns for x in pat))
        probs = judge(c, r)
        for kind, text, detail in probs:
            rep = dict(case=c.to_json(), kind=kind, history=[ops_text(o) for o in c.ops])
            rep.update(detail)
            ctx.violation("%s:%s" % (kind, c.key()), "%s [history on one notify object, P=%d, rounds: %s] [%s]" % (
                text, c.P, " | ".join(ops_text(o) or "-" for o in c.ops), c.header()), rep)
        # the extracted state model after every prefix of the history
        acc_ops = []
        force = in_force(c)
        for k in range(c.ncalls):
            acc_ops = acc_ops + [op for op in c.ops[k]]
            cfg_lines.append("cfg %x %x 0 | %s" % (c.threshold, c.P, " ".join(" ".join(("%x" % x) if isinstance(x, int) else x for x in op) for op in acc_ops)))
            cfg_index.append((c, k, force[k]))
        if r.rc != 0 or probs:
            continue
        for sub, sr in split_history(c, r):
            nrounds += 1
            per = mpitrace.rank_events(sr.trace, c.P)
            acc = [[] for _ in range(c.P)]
            for e in sr.trace:
                if e.get("f") == "MPI_Accumulate" and 0 <= e.get("r", -1) < c.P:
                    acc[e["r"]].append(e.get("target"))
            for q in range(c.P):
                l = cosim_line(sub, sr, q, per, acc)
                if l is not None:
                    # the same rank trace against the round the extracted STATE MODEL executes after the history so far
                    head, evs = l.split(" | ", 1)
                    w = head.split()
                    more = w[13:15] if len(w) >= 15 else ["-", "-"]
                    hist = [op for o in c.ops[:sub.round + 1] for op in o]
                    lines.append("hprog %x %s %s %s %s %s %s %s %s %s OPS %s | %s" % (
                        c.threshold, w[2], w[3], w[7], w[8], w[9], w[11], w[12], more[0], more[1],
                        " ".join(" ".join(("%x" % x) if isinstance(x, int) else x for x in op) for op in hist), evs))
                    index.append((c, sub, q))
    nmis = 0
    try:
        mexe = model_exe(ctx)
        rc2, mout, err2 = ctx.run_lines([mexe], "\n".join(lines + cfg_lines) + "\n", timeout=900)
        mout = [l for l in mout if l != ""]
        if rc2 != 0 or len(mout) != len(lines) + len(cfg_lines):
            ctx.tie_broken("c01 model run (histories)", "exit %s, %d of %d lines: %s" % (rc2, len(mout), len(lines) + len(cfg_lines), err2[-500:]))
        for (c, sub, q), l, src in zip(index, mout, lines):
            if not l.startswith("OK"):
                nmis += 1
                if nmis <= 3:
                    ctx.tie_broken("co-simulation of round %d (%s with the parameters in force) rank %d of history [%s] [%s]" % (
                        sub.round, TYPES[sub.type], q, " | ".join(ops_text(o) or "-" for o in c.ops), c.header()), (l[:400] + " || " + src[:600]))
        for (c, k, o), l in zip(cfg_index, mout[len(lines):]):
            want = " ".join(_hx(v) for v in cfg_expected(o) + [o["cb"] if (o["type"] == 8 and o["cb"] is not None) else -1])
            if l.strip() != want:
                nmis += 1
                if nmis <= 3:
                    ctx.tie_broken("state model of the notify object (Reconfig.v) after round-%d prefix of [%s]" % (k, " | ".join(ops_text(x) or "-" for x in c.ops)),
                                   "model says `%s`, parameters in force `%s`" % (l.strip(), want))
    except vlib.BuildError as e:
        ctx.tie_broken("c01 model build", str(e)[-1500:])
    ctx.cov["disagreements_checked"] += len(lines) + len(cfg_lines)
    ctx.notes["history_cases"] = ctx.notes.get("history_cases", 0) + len(cases)
    ctx.notes["history_rounds_cosimulated"] = ctx.notes.get("history_rounds_cosimulated", 0) + nrounds
    ctx.notes["history_rank_traces"] = ctx.notes.get("history_rank_traces", 0) + len(lines)
    ctx.notes["history_families"] = fams
    ctx.notes["history_mismatches"] = nmis
    return cases
