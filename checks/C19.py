"""C19 - a log message reaches the handler exactly when category and thresholds say so.

T1: sc_log / sc_logv / sc_set_log_defaults and the SC_GEN_LOG* macros (group LogC19) and the package registry -
sc_package_register / unregister / is_registered / set_verbosity, sc_finalize_noabort, sc_log_indent_*, the decisions
of the built-in handler (group PkgC19) - are regenerated from /repo (tools/c2g/groups_C19.py) and the theorems of
Props/Properties_C19.v are re-checked against them.
Correspondence: the extracted state machine (generated decision functions inside) against the real
library on the COMPLETE finite table of the property (exhaustive) plus seeded histories; the
implementation side counts handler invocations with recording handlers installed through the public
API and reads what the built-in handler printed.  An independent Python oracle restates the
property on every implementation output."""
import os, sys, json, itertools
import vlib
sys.path.insert(0, os.path.join(vlib.TOOLS, "c2g"))

BUILTIN = 99
CATS = [-1, 0, 1, 2, 3]
PRIOS = list(range(-2, 12))


# ------------------------------------------------------------------------------------------------
# independent oracle: the property, restated over an abstract state (dictionary of registered ids)
# ------------------------------------------------------------------------------------------------
class Oracle:
    def __init__(self, rank, dbg):
        self.rank, self.THR = rank, (1 if dbg else 4)
        self.dthr, self.dh, self.stream, self.ident = self.THR, BUILTIN, 0, -1
        self.tfile, self.tprio, self.pkgid, self.pk = 0, 5, -1, {}

    def deliver(self, p, c, q, m):
        eff = p if p in self.pk else -1
        if eff == -1:
            h, thr = self.dh, self.dthr
        else:
            h, thr = self.pk[eff]
            h = self.dh if h == 0 else h
            thr = self.dthr if thr == -1 else thr
        out = []
        if c not in (1, 2) or not (0 < q < 9) or (c == 1 and self.ident > 0):
            return out

        def ev(s):
            if h == BUILTIN:
                return (0, BUILTIN, s, int(eff != -1), int(c == 2 and self.ident >= 0), int(q == 1), m)
            return (0, h, s, eff, c, q, m)
        if self.tfile and q >= self.tprio:
            out.append(ev(3))
        if q >= thr:
            out.append(ev(self.stream or 1))
        return out

    def log(self, p, c, q, m):
        side = self.deliver(self.pkgid, 2, 8, -8) if p < -1 else []
        return side + self.deliver(p, c, q, m)

    def op(self, tok, impl_events):
        """expected multiset of events of one operation (None = not judged); updates the state"""
        w = tok.split()
        name, a = w[0], [int(x) for x in w[1:]]
        if name == "D":
            self.stream, self.dh, self.dthr = a[0], (a[1] or BUILTIN), (self.THR if a[2] == -1 else a[2])
            return []
        if name == "R":
            ids = [e[3] for e in impl_events if e[0] == 5]
            if len(ids) != 1 or len(impl_events) != 1 or ids[0] < 0 or ids[0] in self.pk:
                return [("fresh-package-id",)]
            self.pk[ids[0]] = (a[0], a[1])
            return list(impl_events)
        if name == "U":
            self.pk.pop(a[0], None)
            return []
        if name == "V":
            self.pk[a[0]] = (self.pk[a[0]][0], a[1])
            return []
        if name == "I":
            ids = [e[3] for e in impl_events if e[0] == 5]
            if len(ids) != 1 or ids[0] < 0 or ids[0] in self.pk:
                return [("fresh-package-id",)]
            self.ident = self.rank if a[0] else -1
            self.pkgid = ids[0]
            self.pk[ids[0]] = (a[1], a[2])
            exp = self.deliver(ids[0], 1, 7, -1)
            for m in range(-2, -8, -1):
                exp += self.deliver(ids[0], 1, 6, m)
            return exp + [(5, 0, 0, ids[0], 0, 0, 0)]
        if name == "F":
            self.pk, self.ident, self.tfile, self.pkgid = {}, -1, 0, -1
            return []
        if name == "T":
            self.tfile, self.tprio = (3 if a[0] else 0), a[1]
            return []
        if name in ("L", "Lv"):
            return self.log(*a[:4])
        if name in ("G", "Gf"):
            return [] if a[2] < self.THR else self.log(*a[:4])
        if name in ("W", "Wv"):          # sweep through sc_log / through sc_logf: the same demand for EVERY package id
            out, m = [], a[1]
            for c in CATS:
                for q in PRIOS:
                    out += self.log(a[0], c, q, m)
                    m += 1
            return out
        raise ValueError(tok)


def parse_groups(line):
    groups = []
    for g in line.split("|"):
        evs = []
        for e in g.split():
            if e == "ABORT":
                evs.append(("ABORT",))
            else:
                evs.append(tuple(int(x) for x in e.split(",")))
        groups.append(sorted(evs))
    return groups


# ------------------------------------------------------------------------------------------------
# scenarios
# ------------------------------------------------------------------------------------------------
def table_scenarios(full):
    """the complete finite table of the property"""
    out = ["W -1 0"]                 # first scenario: pristine library (static initial values)
    # sc_logf with an id that is not registered must reach the DEFAULT handler and must not end the process
    # (repair 622fcc2 of sc_logv; the mutex of such an id is destroyed, never initialised or out of bounds).
    # The registered-then-unregistered case comes first: a library that locks the id as given dies there at once.
    for dh in (0, 1):
        for init in (None, 0, 1):
            pre = ["D 0 %d 0" % dh] + (["I %d 0 -1" % init] if init is not None else [])
            reg = 0 if init is None else 1
            # ids reg, reg+1 registered, reg+1 unregistered again
            out.append(";".join(pre + ["R 2 0", "R 3 0", "U %d" % (reg + 1), "Lv %d 2 5 1" % (reg + 1), "Wv %d 10" % (reg + 1),
                                       "Gf %d 2 5 2" % (reg + 1), "Lv %d 1 7 3" % (reg + 1), "R 4 0", "Lv %d 2 5 4" % (reg + 1)]))
            # the table has 3 slots now: the last one was never registered; 3 is the first id beyond the table
            nv = 2
            out.append(";".join(pre + ["R 2 0"] + (["R 3 0"] if init is None else []) + ["Lv %d 2 5 1" % nv, "Wv %d 10" % nv, "Gf %d 2 5 2" % nv]))
            out.append(";".join(pre + ["R 2 0"] + (["R 3 0"] if init is None else []) + ["Lv 3 2 5 1", "Wv 3 10", "Gf 3 2 5 2", "Lv 1000 2 5 3", "Wv 1000 100"]))
            out.append(";".join(pre + ["Lv 0 2 5 1", "Wv 7 10"] if init is None else pre + ["Lv 1 2 5 1", "Wv 7 10"]))   # empty / one-slot table
            out.append(";".join(pre + ["R 2 0", "Lv -7 2 5 1", "Wv -2 10", "Gf -3 2 5 2"]))
    thr = list(range(-1, 10))
    nprod = 0
    for dthr, pthr, dh, ph, s, init in itertools.product(thr, thr, (0, 1), (0, 2), (0, 2), (None, 0, 1)):
        ops = ["D %d %d %d" % (s, dh, dthr)]
        reg = 0
        if init is not None:
            ops.append("I %d 0 -1" % init)
            reg = 1
        ops.append("R %d %d" % (ph, pthr))
        # a second package (custom handler, threshold ALWAYS) registered and unregistered again
        ops += ["R 3 0", "U %d" % (reg + 1)]
        # registered id, default package, id unregistered after use, [id inside the allocated table that was never
        # registered: handler NULL, threshold SILENT in its slot], first id beyond the table, far id, negative id
        # (the table has 3 slots after these registrations: 3 is the first id beyond it)
        ids = [reg, -1, reg + 1] + ([2] if init is None else []) + [3, 1000, -7]
        for k, p in enumerate(ids):
            ops.append("W %d %d" % (p, 70 * k))
        # the same sweep through sc_logf for one of the ids (all kinds in turn over the table)
        ops.append("Wv %d %d" % (ids[nprod % len(ids)], 70 * len(ids)))
        nprod += 1
        out.append(";".join(ops))
    # a slot that was registered (custom handler, threshold ALWAYS) and unregistered again; reuse of the slot
    for dthr in thr:
        for t2 in thr:
            out.append("D 0 1 %d;R 2 0;R 3 5;U 0;W 0 0;Wv 0 350;W 1 70;R 4 %d;W 0 140;V 0 %d;W 0 210;V 1 -1;W 1 280;Wv 1 420" % (dthr, t2, (t2 + 3) % 11 - 1))
    # trace stream: its own bound, independent of thresholds, for every bound
    for tprio in range(-1, 11):
        for dthr in (-1, 3, 9):
            for dh in (0, 1):
                for init in (None, 1):
                    ops = ["T 3 %d" % tprio, "D 0 %d %d" % (dh, dthr)]
                    reg = 0
                    if init is not None:
                        ops.append("I 1 0 -1"); reg = 1
                    ops += ["R 0 -1", "W %d 0" % reg, "W -1 70", "T 0 %d" % tprio, "W %d 140" % reg]
                    out.append(";".join(ops))
    # the registry: holes below live packages (an id at or above the COUNT of packages stays registered), reuse of ids,
    # growth 1 -> 3 -> 7 -> 15 slots (first and last slot of every generation, never registered slots inside the table,
    # first id beyond it), finalize with holes and a new life afterwards
    for dthr in (0, 4, 9):
        for pthr in (-1, 1, 8):
            out.append(";".join(["D 0 1 %d" % dthr, "R 2 %d" % pthr, "R 3 %d" % pthr, "R 4 %d" % pthr, "R 5 %d" % pthr, "U 1",
                                 "W 3 0", "W 2 70", "W 1 140", "U 0", "W 3 210", "W 2 280", "Wv 3 350", "R 2 1", "W 0 420", "W 3 490",
                                 "R 3 2", "W 1 560", "U 2", "U 3", "W 3 630", "W 1 700", "V 1 %d" % pthr, "W 1 770"]))
            regs = ["R %d %d" % (2 + k % 4, (pthr if k % 2 else k % 10)) for k in range(9)]
            out.append(";".join(["D 0 1 %d" % dthr] + regs + ["W %d %d" % (p, 70 * k) for k, p in enumerate((0, 1, 2, 3, 6, 7, 8, 9, 14, 15, 16))]
                                + ["U 7", "U 3", "W 8 800", "W 7 870", "R 5 0", "W 3 940", "R 5 1", "W 7 1010", "Wv 8 1080"]))
            out.append(";".join(["D 0 1 %d" % dthr, "I 1 2 %d" % pthr, "R 3 %d" % pthr, "R 4 0", "R 5 1", "U 2", "F", "W 0 0", "W 3 70", "L 1 2 5 140",
                                 "R 2 %d" % pthr, "W 0 150", "W 1 220", "I 0 3 1", "W 1 290", "F", "F", "W 0 360"]))
    # the macros in front of sc_log / sc_logf
    for init in (None, 1):
        ops = ["D 0 1 0"]
        reg = 0
        if init is not None:
            ops.append("I 1 0 0"); reg = 1
        ops += ["R 2 0", "R 3 0", "U %d" % (reg + 1)]          # reg + 1: registered and unregistered again
        m = 0
        for c in CATS:
            for q in PRIOS:
                for p in (reg, -1, 500, -3, reg + 1):
                    ops.append("G %d %d %d %d" % (p, c, q, m)); m += 1
                for p in (reg, -1, 500, -3, reg + 1):
                    ops.append("Gf %d %d %d %d" % (p, c, q, m)); m += 1
                    ops.append("Lv %d %d %d %d" % (p, c, q, m)); m += 1
        out.append(";".join(ops))
    return out


def history_scenarios(rng, n):
    out = []
    for _ in range(n):
        pk, inited, pkgid = {}, False, -1
        ops = []
        m = 0
        nreg = 0
        for _ in range(rng.randrange(5, 40)):
            r = rng.random()
            legal = [-1] + sorted(pk)
            anyp = legal + [rng.randrange(0, 12), 1000, -rng.randrange(2, 9)]
            if r < 0.10:
                ops.append("D %d %d %d" % (rng.choice((0, 2)), rng.choice((0, 1, 2)), rng.randrange(-1, 10)))
            elif r < 0.28 and nreg < 40:
                i = 0
                while i in pk:
                    i += 1
                pk[i] = 1
                nreg += 1
                ops.append("R %d %d" % (rng.choice((0, 3, 4)), rng.randrange(-1, 10)))
            elif r < 0.38 and [i for i in pk if i != pkgid]:
                i = rng.choice([i for i in pk if i != pkgid])
                del pk[i]
                ops.append("U %d" % i)
            elif r < 0.52 and pk:
                ops.append("V %d %d" % (rng.choice(sorted(pk)), rng.randrange(-1, 10)))
            elif r < 0.57 and not inited and nreg < 40:
                i = 0
                while i in pk:
                    i += 1
                pk[i] = 1
                pkgid, inited = i, True
                nreg += 1
                ops.append("I %d %d %d" % (rng.choice((0, 1)), rng.choice((0, 5)), rng.randrange(-1, 10)))
            elif r < 0.60:
                pk, inited, pkgid = {}, False, -1
                ops.append("F")
            elif r < 0.66:
                ops.append("T %d %d" % (rng.choice((0, 3, 3)), rng.randrange(-1, 11)))
            elif r < 0.80:
                ops.append("%s %d %d" % (rng.choice(("W", "W", "Wv")), rng.choice(anyp), m)); m += 70
            elif r < 0.88:
                ops.append("L %d %d %d %d" % (rng.choice(anyp), rng.choice((1, 2, 2, 0, 3)), rng.randrange(-1, 11), m)); m += 1
            elif r < 0.93:
                ops.append("Lv %d %d %d %d" % (rng.choice(anyp), rng.choice((1, 2)), rng.randrange(0, 10), m)); m += 1
            elif r < 0.97:
                ops.append("G %d %d %d %d" % (rng.choice(anyp), rng.choice((1, 2)), rng.randrange(0, 10), m)); m += 1
            else:
                ops.append("Gf %d %d %d %d" % (rng.choice(anyp), rng.choice((1, 2)), rng.randrange(0, 10), m)); m += 1
        # always end with a look at every package
        for p in [-1] + sorted(pk)[:3]:
            ops.append("W %d %d" % (p, m)); m += 70
        out.append(";".join(ops))
    return out


# ------------------------------------------------------------------------------------------------
def compare(ctx, label, scen, impl_lines, model_lines, rank, dbg, stats):
    impl_lines = [l for l in impl_lines if l != ""] if len([l for l in impl_lines if l != ""]) == len(scen) else impl_lines[:len(scen)]
    if len(impl_lines) < len(scen):
        ctx.tie_broken("c19 harness output (%s)" % label, "expected %d scenario lines, got %d" % (len(scen), len(impl_lines)))
        return
    nbad_o = nbad_m = 0
    for i, line in enumerate(scen):
        toks = [t for t in line.split(";") if t.strip()]
        ig = parse_groups(impl_lines[i])
        mg = parse_groups(model_lines[i]) if model_lines is not None and i < len(model_lines) else None
        orc = Oracle(rank, dbg)
        calls = 0
        nontriv = False
        if len(ig) != len(toks):
            ctx.tie_broken("c19 harness output (%s)" % label, "scenario %d: %d operations, %d output groups" % (i, len(toks), len(ig)))
            continue
        for j, tok in enumerate(toks):
            exp = sorted(orc.op(tok, ig[j]))
            name = tok.split()[0]
            ncalls = 70 if name in ("W", "Wv") else (1 if name in ("L", "Lv", "G", "Gf") else 0)
            if name in ("Lv", "Gf", "Wv"):
                stats["logf_calls"] = stats.get("logf_calls", 0) + ncalls
                if int(tok.split()[1]) != -1 and not (int(tok.split()[1]) in orc.pk):
                    stats["logf_unregistered"] = stats.get("logf_unregistered", 0) + ncalls
            calls += ncalls
            stats["calls"] += ncalls
            stats["deliveries"] += sum(1 for e in ig[j] if e[0] == 0)
            if ig[j]:
                nontriv = True
            if exp != ig[j]:
                nbad_o += 1
                if nbad_o <= 2:
                    miss = [e for e in exp if e not in ig[j]][:3]
                    extra = [e for e in ig[j] if e not in exp][:3]
                    call = ""
                    w = tok.split()
                    d = (miss + extra)[0] if (miss + extra) else None
                    if w[0] in ("W", "Wv") and d is not None and len(d) == 7 and 0 <= d[6] - int(w[2]) < 70:
                        k = d[6] - int(w[2])
                        call = " first differing call: %s (package=%s, category=%d, priority=%d);" % ("sc_log" if w[0] == "W" else "sc_logf", w[1], CATS[k // 14], PRIOS[k % 14])
                    ctx.violation("filter:%s:%s" % (label.split()[0], tok.replace(" ", "_"))[:70],
                                  "libsc (%s, rank %d) operation '%s' of scenario '%s...':%s handler invocations differ from the property: "
                                  "missing %s, unexpected %s (event = kind,handler,stream,package,category,priority,msg)"
                                  % (label, rank, tok, line[:80], call, miss, extra),
                                  dict(scenario=line, scenarios=([scen[i - 1]] if i > 0 else []) + [line], op_index=j, rank=rank,
                                       variant=label, impl=impl_lines[i][:2000],
                                       note="the library is reset by sc_finalize_noabort between scenarios: the previous scenario is part of the replay"))
            if mg is not None and (j >= len(mg) or mg[j] != ig[j]):
                nbad_m += 1
                if nbad_m <= 3:
                    ctx.tie_broken("correspondence model/libsc (%s)" % label,
                                   "scenario '%s...' op %d '%s': libsc %s, model %s" % (line[:100], j, tok, ig[j][:6], (mg[j][:6] if j < len(mg) else "<missing>")))
        ctx.count_case((label, rank, line), nontrivial=nontriv)
    stats["scenarios"] += len(scen)
    stats.setdefault("oracle_mismatches", 0)
    stats["oracle_mismatches"] += nbad_o
    stats.setdefault("model_mismatches", 0)
    stats["model_mismatches"] += nbad_m


def run(ctx):
    import genall
    st = genall.run(["LogC19", "PkgC19"])
    for g, s in st.items():
        ctx.log("c2g", g, s)
        if s.startswith("FAILED"):
            ctx.tie_broken("translator group " + g, s)
    ctx.props()
    harness = os.path.join(vlib.TOOLS, "harness", "c19_harness.c")
    env = dict(os.environ, ASAN_OPTIONS="detect_leaks=0")
    env.pop("SC_TRACE_FILE", None)
    try:
        mexe = ctx.model("c19")
    except vlib.BuildError as e:
        ctx.tie_broken("c19 model build (generated definitions do not extract/compile)", str(e)[-1500:])
        mexe = None

    table = table_scenarios(True)
    hist = history_scenarios(ctx.rng, 300 if ctx.quick else 5000)
    scen = table + hist
    if ctx.replay:
        rp = json.load(open(ctx.replay)).get("replay", {})
        if "scenarios" in rp or "scenario" in rp:
            scen = list(rp.get("scenarios") or [rp["scenario"]]) + scen[:50]
    text = "\n".join(scen) + "\n"
    casefile = os.path.join(ctx.scratch, "c19_cases.txt")
    open(casefile, "w").write(text)
    stats = dict(calls=0, deliveries=0, scenarios=0)

    def model_lines(rank, dbg, txt=text):
        if mexe is None:
            return None
        rc, out, err = ctx.run_lines([mexe, str(rank)] + (["dbg"] if dbg else []), txt, timeout=1200)
        if rc != 0:
            ctx.tie_broken("c19 model run", "exit %s: %s" % (rc, err[-800:]))
            return None
        return [l for l in out[:-1]] if out and out[-1] == "" else out

    def run_serial(exe, label, scn, txt, dbg):
        """run the harness; when the process dies, localise the scenario, report it as the failing input and
        still judge the scenarios before it"""
        # the head of the file first, with a short time limit: a library that deadlocks or dies in the pristine state or in
        # sc_logf with an unregistered id (the first scenarios) is reported within seconds
        head = scn[:40]
        rc, impl, err = ctx.run_lines([exe], "\n".join(head) + "\n", timeout=30, env=env)
        if rc != 0:
            scn = head
        else:
            rc, impl, err = ctx.run_lines([exe], txt, timeout=(300 if ctx.quick else 3600), env=env)
        if rc != 0:
            impl = impl[:-1]          # the last piece is empty or the unfinished line of the scenario that died
        else:
            impl = impl[:-1] if impl and impl[-1] == "" else impl
        if rc != 0:
            k = min(len(impl), len(scn) - 1)
            if k < len(impl):
                impl = impl[:k]
            # one scenario takes milliseconds: 10 s without an answer is a process that does not return (deadlock).
            # The library is only reset, not restarted, between scenarios (a mutex left locked survives): when the scenario
            # alone is harmless, the previous one is made part of the failing input.
            def dies(lines):
                r = ctx.run_lines([exe], "\n".join(lines) + "\n", timeout=10, env=env)
                return r[0], r[2]
            pre = []
            rc1, e1 = dies([scn[k]])
            if rc1 == 0 and k > 0:
                pre = [scn[k - 1]]
                rc1, e1 = dies(pre + [scn[k]])
            if rc1 != 0:
                # shortest prefix of the scenario that still ends the process (binary search, then confirmed)
                toks = scn[k].split(";")
                lo, hi = 1, len(toks)
                while lo < hi:
                    mid = (lo + hi) // 2
                    if dies(pre + [";".join(toks[:mid])])[0] != 0:
                        hi = mid
                    else:
                        lo = mid + 1
                rc2, e2 = dies(pre + [";".join(toks[:hi])])
                short = ";".join(toks[:hi]) if rc2 != 0 else scn[k]
                if rc2 != 0:
                    rc1, e1 = rc2, e2
                last = short.split(";")[-1]
                what = ""
                if last.split()[0] in ("Lv", "Gf", "Wv"):
                    what = " (sc_logf with package id %s)" % last.split()[1]
                ctx.violation("crash:%s" % label.replace(" ", "_"),
                              "libsc (%s) %s in operation '%s'%s of scenario '%s'%s where the property demands a delivery or silence: %s"
                              % (label, ("does not return (no answer within 10 s: deadlock)" if rc1 == 124 else "ends the process (exit %s)" % rc1),
                                 last, what, short[-200:], (" run after scenario '%s'" % pre[0][-160:] if pre else ""),
                                 e1.strip()[-300:].replace("\n", " | ")),
                              dict(scenario=short, scenarios=pre + [short], full_scenario=scn[k], variant=label, stderr=e1[-1500:]))
            else:
                ctx.tie_broken("c19 harness run (%s)" % label, "exit %s in scenario %d, not reproducible in isolation nor after its predecessor: %s" % (rc, k, err[-1200:]))
            scn = scn[:len(impl)]
            txt = "\n".join(scn) + "\n"
        if scn:
            compare(ctx, label, scn, impl, model_lines(0, dbg, txt), 0, dbg, stats)
        return rc == 0

    # 1. serial build (pinned configuration): identifiers -1 and 0
    v = ctx.variant(mpi="off", san=True)
    exe = ctx.cc([harness], os.path.join(ctx.scratch, "c19_serial"), v)
    serial_ok = run_serial(exe, "serial release", scen, text, False)
    ctx.log("serial: %d scenarios, %d log calls so far" % (stats["scenarios"], stats["calls"]))

    # 2. OpenMPI build on 4 ranks: identifiers 0, 1, 2, 3 (the table needs an identifier > 0)
    try:
        if not serial_ok:
            raise RuntimeError("skipped")
        vm = ctx.variant(mpi="ompi", san=False)
        exem = ctx.cc([harness], os.path.join(ctx.scratch, "c19_mpi"), vm)
        outp = os.path.join(ctx.scratch, "c19_mpi_out")
        rc, o = vlib.sh(["mpirun", "--allow-run-as-root", "--oversubscribe", "-np", "4", exem, casefile, outp], timeout=1800, env=env)
        if rc != 0:
            ctx.tie_broken("c19 harness run (OpenMPI, 4 ranks)", "exit %s: %s" % (rc, o[-1500:]))
        else:
            ml = {0: model_lines(0, False)}
            ml[3] = model_lines(3, False)
            for r in (0, 3, 1, 2):
                lines = open("%s.%d" % (outp, r)).read().split("\n")
                lines = lines[:-1] if lines and lines[-1] == "" else lines
                # ranks 1, 2 differ from rank 3 only in the number the built-in handler prints, which is not compared
                compare(ctx, "ompi release", scen, lines, ml[0] if r == 0 else ml[3], r, False, stats)
    except RuntimeError:
        ctx.log("mpi: not run - the serial build already ends the process or hangs on the same scenario file (reported above)")
    except vlib.BuildError as e:
        ctx.tie_broken("c19 OpenMPI build (identifier > 0 cannot be exercised)", str(e)[-1200:])
    ctx.log("mpi: %d scenarios, %d log calls so far" % (stats["scenarios"], stats["calls"]))

    # 3. debug configuration (SC_LP_THRESHOLD = TRACE, assertions live): macros, histories, a slice of the table
    sub = [s for k, s in enumerate(table) if k % (7 if ctx.quick else 1) == 0 or ";G " in s] + hist
    if ctx.replay:
        sub = scen
    subtext = "\n".join(sub) + "\n"
    vd = ctx.variant(mpi="off", san=True, debug=True)
    exed = ctx.cc([harness], os.path.join(ctx.scratch, "c19_debug"), vd)
    run_serial(exed, "serial debug", sub, subtext, True)

    ctx.cov["disagreements_checked"] = stats["scenarios"]
    ctx.cov["exhaustive"] = True
    ctx.cov["rule"] = ("COMPLETE table: default threshold -1..9 x package threshold -1..9 x default handler builtin/custom x package handler "
                       "NULL/custom x log stream NULL/given x (no sc_init | sc_init without communicator | with communicator) x package id "
                       "(registered, -1, unregistered inside the table, beyond the table, negative) x category -1..3 x priority -2..11 through sc_log, and "
                       "through sc_logf for one id kind per cell in turn, on ranks "
                       "0..3 of an OpenMPI run (identifier 0..3) and in the serial build (identifier -1, 0); slots registered, unregistered and "
                       "reused with every threshold; trace bound -1..10 x thresholds x handlers; SC_GEN_LOG/SC_GEN_LOGF/sc_logf for every "
                       "category x priority x id kind (registered, -1, beyond the table, negative, registered-then-unregistered); sc_logf/SC_GEN_LOGF "
                       "sweeps with ids that are not registered (unregistered again, never registered inside the table, beyond the table, empty table, "
                       "negative) x default handler x init; the registry: holes below live packages, reuse of ids, growth 1-3-7-15 slots, "
                       "finalize with holes and a new life afterwards (thresholds 0/4/9 x -1/1/8); plus seeded histories (register/unregister/set_verbosity/set_log_defaults/init/finalize/trace "
                       "interleaved with sweeps); release and debug configuration.  evaluations = scenarios x build/rank; a scenario is "
                       "non-trivial if some handler was invoked; distinct = distinct (variant, rank, scenario)")
    ctx.notes["log_calls_evaluated"] = stats["calls"]
    ctx.notes["handler_invocations_observed"] = stats["deliveries"]
    ctx.notes["sc_logf_calls_evaluated"] = stats.get("logf_calls", 0)
    ctx.notes["sc_logf_calls_with_unregistered_id"] = stats.get("logf_unregistered", 0)
    ctx.notes["scenarios"] = dict(table=len(table), histories=len(hist), debug_subset=len(sub))
    ctx.notes["registry_scenarios"] = ("27 enumerated scenarios (default threshold 0/4/9 x package threshold -1/1/8) x 3 shapes: holes below live packages "
                                       "(ids at or above the count of packages, reuse of freed ids, set_verbosity after reuse), growth 1-3-7-15 slots with sweeps "
                                       "of the first/last slot of each generation, never registered slots, the first id beyond the table, and finalize with "
                                       "holes followed by a new life (register, sc_init, double finalize); every sweep is 70 sc_log / sc_logf calls")
    ctx.notes["oracle_mismatches"] = stats.get("oracle_mismatches", 0)
    ctx.notes["model_mismatches"] = stats.get("model_mismatches", 0)
    ctx.notes["input_distribution"] = ("table scenarios are enumerated, not sampled; histories: 5-40 operations, D 10%, R 18%, U 10%, V 14%, "
                                       "I 5%, F 3%, T 6%, sweep 14% (one third of them through sc_logf), sc_log 8%, sc_logf 5%, SC_GEN_LOG 4%, SC_GEN_LOGF 3%, "
                                       "package ids of every call from {-1, registered, 0..11, 1000, negative}")
    for s in (table[1], table[len(table) // 2], hist[0]):
        ctx.sample({"scenario": s[:300]})
    ctx.cov["trusted_base"] = ["tools/c2g translator with the event extensions EvT / RegT of tools/c2g/groups_C19.py (package pointers as slot indices, "
                               "stores / realloc / free / registry calls as events, symbolic results of libc calls, fixed parameter lists) and clang-14's JSON AST "
                               "(mitigated by the exhaustive differential run of this check)",
                               "the meaning given to the events of the generated registry functions by C19/PkgModel.v (apply_ev); the hand-written sc_init "
                               "(C19/LogModel.v), tied by the same run; register / unregister / set_verbosity / is_registered / finalize are tied by T1 and by the run",
                               "glibc: stdout is an assignable FILE* and open_memstream (the harness observes the built-in handler through them)",
                               "OpenMPI's mpirun for the ranks 1..3 (only MPI_Comm_rank is used)"]
    ctx.assumptions += ["sc_package_id is -1 or a registered id whenever libsc logs on its own behalf (SC_LERRORF inside sc_package_is_registered)",
                        "SC_TRACE_FILE is not set in the environment; handlers do not log themselves"]
    return "proof"
