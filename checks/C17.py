"""C17 - option values depend only on the input and survive a save/load cycle.

T2: hand-written model coq/C17/OptionsModel.v (sc_options.c + iniparser + key-value lookup), proofs in
coq/C17/*Proofs.v, theorems in Props/Properties_C17.v.  Correspondence: the same histories of
declarations / parse / load / load_args / save calls run on the real library (ASan+UBSan harness,
getopt_long wrapped so that model and implementation consume the same libc event stream) and on the
extracted model; every line (return value, all user variables, saved file text) is compared.
Property oracle (independent of the model, below): a Python reference for getopt_long scanning, C
base-0 integer parsing, the documented meaning of every option type, the expected content of generated
ini files, the save -> load -> save round trip into a fresh identically declared object, balanced
sc_memory_status, and "no crash / sanitizer report / hang" on every file.

iniparser's dictionary (iniparser/dictionary.c: three parallel arrays, 128 slots, doubled by mem_double) holds one entry per
section heading and per key of a file.  coq/C17/DictModel.v models the arrays, DictProofs.v proves that they refine the finite
map of OptionsModel.v for every history, DictGen.v ties the model to the slices generated from dictionary.c (group DictC17).
Large histories (hundreds of options / arguments, hand-written files with hundreds of keys) are sized by the number of
dictionary entries to cross every doubling; histories on the dictionary API itself are compared slot by slot."""
import os, sys, json, re, struct, ctypes, math
import vlib

INT_MIN, INT_MAX = -(1 << 31), (1 << 31) - 1
LONG_MIN, LONG_MAX = -(1 << 63), (1 << 63) - 1
FILE_TYPES = ("sw", "bool", "int", "size", "dbl", "str", "kvo")
SPACE = b" \t\n\v\f\r"

_libc = ctypes.CDLL("libc.so.6", use_errno=True)
_libc.strtod.restype = ctypes.c_double
_libc.strtod.argtypes = [ctypes.c_char_p, ctypes.c_void_p]
_libc.snprintf.argtypes = [ctypes.c_char_p, ctypes.c_size_t, ctypes.c_char_p, ctypes.c_double]


def libc_strtod(text):
    """(bits, erange) of strtod(text, NULL) as the libc of this machine computes it (text without NUL)"""
    ctypes.set_errno(0)
    d = _libc.strtod(bytes(text), None)
    er = ctypes.get_errno() == 34
    return struct.unpack("<Q", struct.pack("<d", d))[0], er


def dbl_range_error(bits, erange):
    """the documented rule for doubles (57534b2): a number that does not fit is one strtod answers with ERANGE AND +-0
    (underflow) or +-HUGE_VAL (overflow); a subnormal result (glibc raises ERANGE for it too) is representable"""
    mag = bits & ((1 << 63) - 1)
    return bool(erange) and (mag == 0 or mag == 0x7FF0000000000000)


def libc_fmt16(bits):
    buf = ctypes.create_string_buffer(64)
    d = struct.unpack("<d", struct.pack("<Q", bits))[0]
    _libc.snprintf(buf, 64, b"%.16g", ctypes.c_double(d))
    return buf.value


def hx(b):
    return "-" if b is None else "x" + bytes(b).hex()


def unhx(t):
    return None if t == "-" else bytes.fromhex(t[1:])


def hz(v):
    return ("-%x" % -v) if v < 0 else ("%x" % v)


def unhz(t):
    return -int(t[1:], 16) if t.startswith("-") else int(t, 16)


# ---------------------------------------------------------------------------------------------
# independent reference semantics (the property oracle)
# ---------------------------------------------------------------------------------------------
_num = re.compile(rb"^[ \t\n\v\f\r]*([+-]?)(0[xX][0-9a-fA-F]+|0[0-7]*|[1-9][0-9]*)?")


def ref_strtol(text):
    """C strtol(text, NULL, 0) on LP64: (value, ERANGE)"""
    m = _num.match(text)
    sign, digits = m.group(1), m.group(2)
    if not digits:
        return 0, False
    if digits[:2] in (b"0x", b"0X"):
        v = int(digits[2:], 16)
    elif digits[0:1] == b"0":
        v = int(digits, 8)
    else:
        v = int(digits, 10)
    if sign == b"-":
        v = -v
    if v > LONG_MAX:
        return LONG_MAX, True
    if v < LONG_MIN:
        return LONG_MIN, True
    return v, False


class Item:
    def __init__(self, ty, ch, name, var, hasarg=0, kv=0, init="n"):
        self.ty, self.ch, self.name, self.var, self.hasarg, self.kv, self.init = ty, ch, name, var, hasarg, kv, init
        if ty == "bool":
            self.hasarg = 2
        elif ty in ("int", "size", "dbl", "str", "ini", "json", "kvo"):
            self.hasarg = 1
        elif ty == "sw":
            self.hasarg = 0


def ref_getopt(argv, items):
    """GNU getopt_long (permuting, optstring without leading + - :) over the whole vector.
    Returns (events, remaining) where events = list of (item index | None for '?', optarg) and
    remaining = the non-option words in order.  Scanning stops at the first '?'."""
    shorts = {}
    for k, it in enumerate(items):
        if it.ch and it.ch not in shorts:
            shorts[it.ch] = k
    longs = [(it.name, k) for k, it in enumerate(items) if it.name is not None]
    ev, rest = [], []
    i, n = 1, len(argv)
    while i < n:
        a = argv[i]
        if a == b"--":
            rest += argv[i + 1:]
            break
        if len(a) < 2 or a[0:1] != b"-":
            rest.append(a)
            i += 1
            continue
        if a[1:2] == b"-":
            body = a[2:]
            name, eq, val = body.partition(b"=")
            exact = [k for (nm, k) in longs if nm == name]
            if exact:
                k = exact[0]
            else:
                pre = [k for (nm, k) in longs if nm.startswith(name)]
                if len(pre) != 1:
                    ev.append((None, None))
                    return ev, None
                k = pre[0]
            i += 1
            it = items[k]
            if eq:
                if it.hasarg == 0:
                    ev.append((None, None))
                    return ev, None
                ev.append((k, val))
            elif it.hasarg == 1:
                if i < n:
                    ev.append((k, argv[i]))
                    i += 1
                else:
                    ev.append((None, None))
                    return ev, None
            else:
                ev.append((k, None))
            continue
        j = 1
        i += 1
        while j < len(a):
            c = a[j]
            j += 1
            if c not in shorts or c in b":;":
                ev.append((None, None))
                return ev, None
            k = shorts[c]
            it = items[k]
            if it.hasarg == 0:
                ev.append((k, None))
            elif it.hasarg == 2:
                ev.append((k, a[j:] if j < len(a) else None))
                break
            else:
                if j < len(a):
                    ev.append((k, a[j:]))
                elif i < n:
                    ev.append((k, argv[i]))
                    i += 1
                else:
                    ev.append((None, None))
                    return ev, None
                break
    return ev, rest


def ref_parse(items, kvs, pre, argv):
    """Expected outcome of sc_options_parse as sc_options.h documents it.
    pre: dict var -> observed value before.  Returns (ret, post or None, remaining or None, judged)."""
    ev, rest = ref_getopt(argv, items)
    post = dict(pre)
    for (k, arg) in ev:
        if k is None:
            return -1, None, None, True
        it = items[k]
        if it.ty == "sw":
            post[it.var] = post[it.var] + 1
        elif it.ty == "bool":
            if arg is None or arg[:1] in (b"1", b"t", b"T", b"y", b"Y"):
                post[it.var] = 1
            elif arg[:1] in (b"0", b"f", b"F", b"n", b"N"):
                post[it.var] = 0
            else:
                return -1, None, None, True
        elif it.ty == "int":
            v, er = ref_strtol(arg)
            if er or v < INT_MIN or v > INT_MAX:
                return -1, None, None, True
            post[it.var] = v
        elif it.ty == "size":
            v, er = ref_strtol(arg)
            if er or v < 0:
                return -1, None, None, True
            post[it.var] = v
        elif it.ty == "dbl":
            bits, er = libc_strtod(arg)
            if dbl_range_error(bits, er):
                return -1, None, None, True
            post[it.var] = ("d", bits)
        elif it.ty == "str":
            post[it.var] = arg
        elif it.ty == "kvo":
            t = kvs[it.kv]
            if arg in t and t[arg] is not None:
                post[it.var] = t[arg]
            else:
                return -1, None, None, True
        elif it.ty == "cb":
            post[it.var] = post[it.var] + 1
            if arg is not None and arg[:1] == b"!":
                return -1, None, None, True
        elif it.ty == "json":
            return -1, None, None, True
        elif it.ty == "ini":
            return None, None, None, False          # values come from a file: not judged here
    return len(argv) - len(rest), post, rest, True


UNSAFE_RULES = ["newline", "semicolon", "hash", "leading-blank", "trailing-blank", "leading-quote", "trailing-backslash", "too-long"]


def ini_unsafe(value, keylen):
    """None if `value` is in the ini-safe class (mirrors ini_safe of coq/C17/IniProofs.v), else the rule it breaks"""
    if b"\n" in value:
        return "newline"
    if b";" in value:
        return "semicolon"
    if b"#" in value:
        return "hash"
    if value and value[0] in SPACE:
        return "leading-blank"
    if value and value[-1] in SPACE:
        return "trailing-blank"
    if value[:1] in (b'"', b"'"):
        return "leading-quote"
    if value[-1:] == b"\\":
        return "trailing-backslash"
    if 8 + keylen + 3 + len(value) + 1 > 1023:
        return "too-long"
    return None


# ---------------------------------------------------------------------------------------------
# generators
# ---------------------------------------------------------------------------------------------
CHARS = b"abcdefghijklmnopqrstuvwxyzABCDEFGHIJKLMNOPQRSTUVWXYZ0123456789"
KV_TABLES = {0: {b"ab": 5, b"cd": -7, b"Mixed": 11, b"zz": None}, 1: {b"on": 1, b"off": 0, b"auto": 2}}
INT_TEXTS = [b"0", b"7", b"-1", b"2147483647", b"-2147483648", b"2147483648", b"-2147483649", b"4294967296",
             b"9223372036854775807", b"9223372036854775808", b"-9223372036854775808", b"-9223372036854775809",
             b"99999999999999999999999", b"0x7fffffff", b"0x80000000", b"-0x80000000", b"-0x80000001", b"0X1f", b"017", b"08",
             b"0", b"-0", b"+5", b"  42", b"\t-3", b"12abc", b"abc", b"", b"0x", b"0xg", b"-", b"+", b"1e3", b"1 2", b"00", b"0777777777777"]
SIZE_TEXTS = [b"0", b"1", b"4096", b"4294967295", b"4294967296", b"9223372036854775807", b"9223372036854775808",
              b"18446744073709551615", b"18446744073709551616", b"-1", b"-0", b"0x10", b"010", b" 12", b"12kb", b"", b"x"]
DBL_TEXTS = [b"0", b"1.5", b"-2.5e10", b"1e308", b"1e309", b"1e-320", b"1e-400", b"inf", b"-inf", b"nan", b"0x1p3", b"abc", b"1.5xyz",
             # 57534b2: subnormal results are accepted (DBL_MIN's 16-digit text, the smallest subnormal, negative ones),
             # underflow to zero and overflow are errors
             b"2.225073858507201e-308", b"-2.225073858507201e-308", b"4.9e-324", b"-4.9e-324", b"4.940656458412465e-324", b"1e-310",
             b"1e400", b"-1e400", b"-1e-400", b"2.4e-324", b"1.7976931348623157e308", b"1.7976931348623159e308", b"-0.0", b"0x1p-1074", b"0x1p-1075",
             b"3.141592653589793", b"0.1", b"1e22", b"123456789012345678", b"2.2250738585072014e-308", b"  7.25", b""]
BOOL_TEXTS = [b"0", b"1", b"t", b"T", b"f", b"F", b"y", b"Yes", b"n", b"No", b"true", b"false", b"x", b"2", b"", b"maybe", b"10", b"01"]
STR_SAFE = [b"hello", b"a b c", b"path/to/file.txt", b"x=y", b"a=b=c", b"[x]", b"100%", b"\xc3\xa4\xff", b"a\"b", b"it's", b"q\"", b"a\\b", b"-dash", b"--", b"=", b"k = v"]
STR_UNSAFE = [b"a;b", b"a#b", b";", b"#x", b" lead", b"trail ", b"\tlead", b"trail\t", b"two\nlines", b"\"quoted\"", b"'q'", b"\"open", b"back\\", b"cr\r",
              b"\"\"", b"''", b"\n", b" ", b"x" * 1100]


def rand_name(rng, used):
    for _ in range(100):
        n = rng.randrange(1, 9)
        s = bytes([rng.choice(b"abcdefghijklmnopqrstuvwxyz")] + [rng.choice(b"abcdefghijklmnopqrstuvwxyz0123456789_-") for _ in range(n - 1)])
        if rng.random() < 0.2:
            s = s[:1].upper() + s[1:]
        if rng.random() < 0.3 and used:
            # a name sharing a prefix with an existing one (abbreviation ambiguity, exact-match priority)
            base = rng.choice(sorted(used))
            s = base[:rng.randrange(1, len(base) + 1)] + s[:rng.randrange(0, 3)]
        if b":" in s:
            continue        # ':' separates sub-option prefixes; names are identifiers (an own option "a:" has no ini key)
        if s.lower() not in used and not s.startswith(b"-"):
            used.add(s.lower())
            return s
    raise RuntimeError("no name")


def rand_str(rng, safe=True):
    k = rng.random()
    if safe:
        if k < 0.5:
            return rng.choice(STR_SAFE)
        n = rng.randrange(0, 12)
        return bytes(rng.choice(b"abcdefghijklmnopqrstuvwxyzABC0123456789_./=:,+-!@$%^&*()[]{}<>?|~") for _ in range(n))
    if k < 0.6:
        return rng.choice(STR_UNSAFE)
    n = rng.randrange(1, 10)
    return bytes(rng.randrange(1, 256) for _ in range(n))


class Decl:
    """a declared option set: base objects 0,1,2 on variables 0..vo-1 and an identical fresh copy on
    objects 4,5,6 / variables vo..2*vo-1 (vo = 32; 1024 in the large histories; the harness has 2048 variables)"""
    vo = 32

    def __init__(self, rng, rich=True):
        self.ops = []          # abstract declaration ops
        self.objs = {0: [], 1: [], 2: []}
        self.nvar = 0
        self.rng = rng
        self.used_ch = {0: set(), 1: set(), 2: set()}
        self.used_nm = {0: set(), 1: set(), 2: set()}
        self.kvs = KV_TABLES
        self.inits = {}
        self.kinds = {}
        shape = rng.choice(["flat", "flat", "sub", "sub", "nested", "twin"]) if rich else "flat"
        self.shape = shape
        self.ops += [("kv", 0), ("kv", 1)]
        if shape == "nested":
            self.ops.append(("new", 2))
            self.add_random(2, rng.randrange(1, 4))
        if shape in ("sub", "nested"):
            self.ops.append(("new", 1))
            self.add_random(1, rng.randrange(1, 4))
            if shape == "nested":
                self.sub(1, 2, rng.choice([b"in", b"B", b"lvl2"]))
                self.add_random(1, rng.randrange(0, 2))
        self.ops.append(("new", 0))
        self.add_random(0, rng.randrange(1, 6))
        if shape == "twin":
            self.twin(0, 1)
        if shape in ("sub", "nested"):
            self.sub(0, 1, rng.choice([b"pre", b"Sub", b"a", b"Section"]))          # "Section" is as long as "Options"
            self.add_random(0, rng.randrange(0, 3))

    def newvar(self):
        v = self.nvar
        self.nvar += 1
        if v >= self.vo:
            raise RuntimeError("too many variables")
        return v

    def add(self, o, it):
        self.objs[o].append(it)
        self.ops.append(("add", o, it))
        if it.ty in ("sw",):
            self.inits[it.var] = 0
        return it

    def add_random(self, o, n):
        rng = self.rng
        for _ in range(n):
            ty = rng.choices(["sw", "bool", "int", "size", "dbl", "str", "ini", "json", "cb", "kvo"], [2, 2, 3, 2, 1.5, 3, 0.5, 0.2, 1, 1.5])[0]
            r = rng.random()
            ch = 0
            name = None
            if r < 0.75:
                # ini keys are case-insensitive: -i and -I would be one key (recorded format limit, aimed history only)
                pool = [c for c in CHARS if c not in self.used_ch[o] and bytes([c]).swapcase()[0] not in self.used_ch[o]]
                ch = rng.choice(pool)
                self.used_ch[o].add(ch)
            if r > 0.25 or not ch:
                name = rand_name(rng, self.used_nm[o])
            self.add_typed(o, ty, ch, name)

    def twin(self, o, t):
        """a second options object t declared on the variables of object o (not included in it): its own names and short
        characters, its own defaults (the last declaration decides what the variable holds), another order, now and then an
        option missing or of a type of its own.  The library allows it: every object only keeps the addresses."""
        rng = self.rng
        self.ops.append(("new", t))
        src = [it for it in self.objs[o] if it.ty not in ("ini", "json", "cb")]
        rng.shuffle(src)
        for it in src:
            if rng.random() < 0.15:
                continue
            ch = 0
            if rng.random() < 0.6:
                pool = [c for c in CHARS if c not in self.used_ch[t] and bytes([c]).swapcase()[0] not in self.used_ch[t]]
                ch = rng.choice(pool)
                self.used_ch[t].add(ch)
            name = rand_name(rng, self.used_nm[t]) if (not ch or rng.random() < 0.7) else None
            if it.name is not None and rng.random() < 0.4 and it.name.lower() not in self.used_nm[t] and b":" not in it.name:
                name = it.name                       # the same name in both objects
                self.used_nm[t].add(name.lower())
            init = None
            if it.ty == "kvo":
                key = rng.choice([k for k, v in self.kvs[it.kv].items() if v is not None])          # the same table, a default of its own
                init = ("s" + hx(key), self.kvs[it.kv][key])
            self.add_typed(t, it.ty, ch, name, share=False, var=it.var, init=init)
        if rng.random() < 0.5:
            self.add_random(t, 1)

    def add_typed(self, o, ty, ch, name, share=True, init=None, var=None):
        rng = self.rng
        # an earlier option of the same type in the same object may share its variable
        same = [it for it in self.objs[o] if it.ty == ty and ty in ("bool", "int", "size", "dbl")]
        if var is not None:
            pass
        elif share and same and rng.random() < 0.15:
            var = rng.choice(same).var
            init = "keep"
        else:
            var = self.newvar() if ty not in ("ini", "json") else 0
        hasarg, kv, ini = 0, 0, "n"
        if ty == "bool":
            val = rng.choice([0, 1, 1, 5])
            ini = "i" + hz(val)
        elif ty == "int":
            val = rng.choice([0, 3, -1, INT_MAX, INT_MIN, 42, -100000])
            ini = "i" + hz(val)
        elif ty == "size":
            val = rng.choice([0, 1, 4096, (1 << 32), LONG_MAX, 77])
            ini = "i" + hz(val)
        elif ty == "dbl":
            val = ("d", struct.unpack("<Q", struct.pack("<d", rng.choice([0.0, 1.5, -2.25, 1e300, 0.1, 3.141592653589793, 2.2250738585072014e-308,
                                                                          5e-324, -2.2250738585072009e-308, 1e-310])))[0])
            ini = "d%x" % val[1]
        elif ty == "str":
            val = None if rng.random() < 0.4 else rand_str(rng, True)
            ini = "s" + hx(val)
        elif ty == "kvo":
            kv = rng.choice([0, 1])
            key = rng.choice([k for k, v in self.kvs[kv].items() if v is not None])
            val = self.kvs[kv][key]
            ini = "s" + hx(key)
        elif ty == "cb":
            hasarg = rng.choice([0, 1, 2])
            val = None
        else:
            val = 0
        if init is not None and init != "keep":
            ini, val = init
            if ty == "kvo":
                kv = 0 if unhx(ini[1:]) in self.kvs[0] else 1
        it = Item(ty, ch, name, var, hasarg, kv, ini)
        if ty == "cb":
            it.hasarg = hasarg
        if ty not in ("ini", "json"):
            self.kinds[var] = {"size": "z", "dbl": "d", "str": "s"}.get(ty, "i")
            if ty != "cb":
                self.inits[var] = val
        return self.add(o, it)

    def sub(self, o, s, prefix):
        self.ops.append(("sub", o, s, prefix))
        for it in list(self.objs[s]):
            nm = prefix + b":" + (it.name if it.name is not None else b"-" + bytes([it.ch]))
            c = Item(it.ty, 0, nm, it.var, it.hasarg, it.kv, it.init)
            c.hasarg = it.hasarg
            self.objs[o].append(c)
            self.used_nm[o].add(nm.lower())

    def lines(self, copy):
        oo, vo = (4, self.vo) if copy else (0, 0)
        out = []
        for op in self.ops:
            if op[0] == "kv":
                if not copy:
                    t = self.kvs[op[1]]
                    out.append("kv %d %d " % (op[1], len(t)) + " ".join("%s %s %s" % (hx(k), "i" if v is not None else "o", hz(v or 0)) for k, v in t.items()))
            elif op[0] == "new":
                out.append("new %d" % (op[1] + oo))
            elif op[0] == "add":
                it = op[2]
                out.append("add %d %s %d %s %d %d %d %s" % (op[1] + oo, it.ty, it.ch, hx(it.name), it.var + (vo if it.ty not in ("ini", "json") else 0), it.hasarg, it.kv, it.init))
            elif op[0] == "sub":
                out.append("sub %d %d %s" % (op[1] + oo, op[2] + oo, hx(op[3])))
        return out


def value_text(rng, it, decl, valid):
    """an option argument for item `it`; valid=True: one the reference accepts"""
    ty = it.ty
    if ty == "int":
        for _ in range(50):
            t = rng.choice(INT_TEXTS) if rng.random() < 0.7 else str(rng.randrange(-(1 << 33), 1 << 33)).encode()
            v, er = ref_strtol(t)
            if not valid or (not er and INT_MIN <= v <= INT_MAX):
                return t
        return b"1"
    if ty == "size":
        for _ in range(50):
            t = rng.choice(SIZE_TEXTS) if rng.random() < 0.7 else str(rng.randrange(0, 1 << 64)).encode()
            v, er = ref_strtol(t)
            if not valid or (not er and v >= 0):
                return t
        return b"1"
    if ty == "dbl":
        for _ in range(50):
            t = rng.choice(DBL_TEXTS) if rng.random() < 0.7 else repr(rng.uniform(-1e6, 1e6) * 10.0 ** rng.randrange(-30, 30)).encode()
            if not valid or not dbl_range_error(*libc_strtod(t)):
                return t
        return b"1"
    if ty == "bool":
        for _ in range(50):
            t = rng.choice(BOOL_TEXTS)
            if not valid or t[:1] in (b"0", b"1", b"t", b"T", b"f", b"F", b"y", b"Y", b"n", b"N") and t:
                return t
        return b"1"
    if ty == "str":
        return rand_str(rng, valid or rng.random() < 0.5)
    if ty == "kvo":
        t = decl.kvs[it.kv]
        if valid:
            return rng.choice([k for k, v in t.items() if v is not None])
        return rng.choice(list(t.keys()) + [b"nokey", b"", b"AB"])
    if ty == "cb":
        return rng.choice([b"ok", b"x!", b"!bad"]) if not valid else rng.choice([b"ok", b"x!"])
    if ty == "ini":
        return rng.choice([b"f0.ini", b"f1.ini", b"gen.ini", b"missing.ini"])
    if ty == "json":
        return b"x.json"
    return b""


def abbreviate(rng, name, items):
    """a prefix of `name` that is still unambiguous (or exact)"""
    others = [it.name for it in items if it.name is not None and it.name != name]
    for n in range(1, len(name) + 1):
        p = name[:n]
        if not any(o.startswith(p) for o in others) and b"=" not in p:
            return name[:rng.randrange(n, len(name) + 1)]
    return name


def gen_argv(rng, items, decl, valid, nuse=None):
    """an argument vector for an object.  valid=True: every word is chosen so that the reference accepts it."""
    words = [b"prog"]
    nuse = rng.randrange(0, 7) if nuse is None else nuse
    usable = [it for it in items if not (valid and it.ty in ("json",))]
    if valid:
        usable = [it for it in usable if it.ty != "ini"]
    for _ in range(nuse):
        if rng.random() < 0.2:
            words.append(rng.choice([b"arg", b"file.txt", b"-", b"a b", b"x;y", b"1"]) if valid or rng.random() < 0.7 else rand_str(rng, False))
        if not usable:
            break
        it = rng.choice(usable)
        takes = it.hasarg
        val = value_text(rng, it, decl, valid) if takes else None
        if takes == 2 and rng.random() < 0.4:
            val = None
        use_short = it.ch and (it.name is None or rng.random() < 0.5)
        if use_short:
            w = b"-"
            # cluster some switches in front
            if rng.random() < 0.3:
                sw = [x for x in items if x.ty == "sw" and x.ch]
                for x in sw[:rng.randrange(0, 3)]:
                    w += bytes([x.ch]) * rng.randrange(1, 3)
            w += bytes([it.ch])
            if takes == 0:
                if it.ty == "sw" and rng.random() < 0.3:
                    w += bytes([it.ch]) * rng.randrange(1, 12)
                words.append(w)
            elif takes == 2:
                words.append(w + (val if val is not None else b""))
            elif rng.random() < 0.5 and val != b"":
                words.append(w + val)
            else:
                words += [w, val]
        else:
            nm = it.name
            if rng.random() < 0.25:
                nm = abbreviate(rng, nm, items)
            if takes == 0:
                words.append(b"--" + nm)
            elif takes == 2:
                words.append(b"--" + nm + (b"=" + val if val is not None else b""))
            elif rng.random() < 0.5:
                words.append(b"--" + nm + b"=" + val)
            else:
                words += [b"--" + nm, val]
    if not valid:
        k = rng.random()
        pos = rng.randrange(1, len(words) + 1)
        if k < 0.15:
            words.insert(pos, b"-" + bytes([rng.choice([c for c in CHARS + b"?:;" if c not in [it.ch for it in items]])]))
        elif k < 0.3:
            words.insert(pos, b"--" + rng.choice([b"nosuchoption", b"", b"=", b"x=1", b"-"]))
        elif k < 0.4:
            req = [it for it in items if it.hasarg == 1]
            if req:
                it = rng.choice(req)
                words.append(b"-" + bytes([it.ch]) if it.ch else b"--" + it.name)      # missing argument at the end
        elif k < 0.5:
            sw = [it for it in items if it.hasarg == 0 and it.name]
            if sw:
                words.insert(pos, b"--" + rng.choice(sw).name + b"=1")
        elif k < 0.6:
            sw = [it for it in items if it.ty == "sw" and it.ch]
            if sw:
                words.insert(pos, b"-" + bytes([sw[0].ch]) + b"Z" + bytes([sw[0].ch]))          # failure inside a clustered word
    if rng.random() < 0.25:
        words.append(b"--")
        words += [rng.choice([b"-x", b"--y", b"tail", b"--"]) for _ in range(rng.randrange(0, 3))]
    elif rng.random() < 0.4:
        words += [rng.choice([b"rest", b"more", b"a=b"]) for _ in range(rng.randrange(1, 3))]
    return [w for w in words if b"\0" not in w]


def gen_ini(rng, items, decl, valid):
    """a configuration file for an object in ordinary ini syntax; returns (bytes, expect) where
    expect = dict var -> value in item order semantics, or 'error' (the reference demands -1), or None (not judged).
    An entry may be named like a section of the file ("[a]\\nb = 1\\n[a:B]", option b + nested prefix B): since cfc9e38 the
    heading leaves the entry alone, so nothing special is expected of such files."""
    entries = []
    expect = {}
    err = False
    for it in items:
        if it.ty not in FILE_TYPES or rng.random() < 0.35:
            continue
        if it.name is not None and (not it.ch or rng.random() < 0.7):
            if b":" in it.name:
                sec, key = it.name.rsplit(b":", 1)
            else:
                sec, key = b"Options", it.name
        else:
            sec, key = b"Options", b"-" + bytes([it.ch])
        ok = valid or rng.random() < 0.6
        ty = it.ty
        if ty == "sw":
            if ok:
                t, v = rng.choice([(b"true", 1), (b"false", 0), (b"1", 1), (b"0", 0), (b"2", 2), (b"10", 10), (b"17", 17), (b"100", 100), (b"yes", 1), (b"No", 0), (b"T", 1)])
            else:
                t, v = rng.choice([(b"-3", None), (b"maybe", None), (b"99999999999", None), (b"x", None)])
        elif ty == "bool":
            if ok:
                t, v = rng.choice([(b"true", 1), (b"false", 0), (b"1", 1), (b"0", 0), (b"yes", 1), (b"no", 0), (b"T", 1), (b"F", 0), (b"Y", 1), (b"N", 0)])
            else:
                t, v = rng.choice([(b"maybe", None), (b"2", None), (b"-1", None), (b"on", None)])
        elif ty in ("int", "size", "dbl"):
            t = value_text(rng, it, decl, ok).strip(SPACE)
            if b";" in t or b"#" in t or t == b"":
                t = b"5"
            if ty == "dbl":
                bits, er = libc_strtod(t)
                v = None if dbl_range_error(bits, er) else ("d", bits)
            else:
                x, er = ref_strtol(t)
                v = None if (er or (ty == "int" and not INT_MIN <= x <= INT_MAX) or (ty == "size" and x < 0)) else x
        elif ty == "str":
            t = rand_str(rng, True)
            if ini_unsafe(t, len(key)) or t == b"":
                t = b"plain"
            v = t
        else:
            t = value_text(rng, it, decl, ok)
            v = decl.kvs[it.kv].get(t)
            if ini_unsafe(t, len(key)) or t == b"":
                t, v = b"nokey", None
        if v is None:
            err = True
        deco = t
        if ty == "str" and rng.random() < 0.3 and b'"' not in t and b"'" not in t and t:
            q = rng.choice([b'"', b"'"])
            deco = q + t + q
        if rng.random() < 0.2:
            deco += rng.choice([b" ; comment", b"   # note", b" ;", b"\t"])
        if rng.random() < 0.3:
            key = key.upper() if rng.random() < 0.5 else key.lower()
        entries.append((sec, key, deco, it, v))
    if not err:
        for (sec, key, deco, it, v) in entries:
            pass
    # item order decides which entry of a shared variable wins: build the expectation in item order
    by_item = {id(e[3]): e for e in entries}
    for it in items:
        e = by_item.get(id(it))
        if e is not None and e[4] is not None:
            expect[it.var] = e[4]
    # layout: group by section, sections in random order (may be split)
    rng.shuffle(entries)
    out = []
    if rng.random() < 0.5:
        out.append(rng.choice([b"# a comment", b"; note", b"", b"   "]))
    cur = None
    secs = sorted(set(e[0] for e in entries))
    rng.shuffle(secs)
    for s in secs:
        head = s if rng.random() < 0.6 else (s.upper() if rng.random() < 0.5 else s.lower())
        out.append(rng.choice([b"[%s]", b"[%s]", b"  [%s]  ", b"[ %s ]"]) % head)
        for e in entries:
            if e[0] == s:
                out.append(rng.choice([b"%s = %s", b"%s=%s", b"    %s   =   %s", b"%s =%s", b"\t%s= %s"]) % (e[1], e[2]))
                if rng.random() < 0.15:
                    out.append(rng.choice([b"", b"# c", b"   ; c"]))
    if rng.random() < 0.3:
        out += [b"[Other]", b"unrelated = 1"]
    text = b"\n".join(out) + b"\n"
    return text, ("error" if err else expect)


def mutate(rng, data):
    b = bytearray(data)
    for _ in range(rng.randrange(1, 5)):
        k = rng.random()
        pos = rng.randrange(0, len(b) + 1)
        if k < 0.2 and b:
            b[rng.randrange(len(b))] = rng.randrange(256)
        elif k < 0.35:
            b[pos:pos] = bytes(rng.randrange(256) for _ in range(rng.randrange(1, 4)))
        elif k < 0.45 and b:
            del b[pos:pos + rng.randrange(1, 6)]
        elif k < 0.55:
            b[pos:pos] = rng.choice([b"\\\n", b"\n", b"=", b"[", b"]", b";", b"#", b"\0", b"\r\n", b'"', b"'", b" = ", b"[]\n", b"\n=\n"])
        elif k < 0.62:
            b[pos:pos] = b"x" * rng.choice([1000, 1015, 1021, 1022, 1023, 1024, 1030, 2100])
        elif k < 0.7:
            lines = bytes(b).split(b"\n")
            i = rng.randrange(len(lines))
            lines.insert(i, lines[rng.randrange(len(lines))])
            b = bytearray(b"\n".join(lines))
        elif k < 0.78:
            b = b[:pos]
        elif k < 0.9:
            # section headings that collide with keys, empty headings, stray keys
            b[pos:pos] = rng.choice([b"\n[Options:%s]\n", b"\n[%s]\n", b"\n[Arguments:count]\n", b"\n[Arguments:0]\n", b"\n[]\n"]).replace(b"%s", rng.choice([b"x", b"int", b"a", b"pre:b", b"-i"]))
        else:
            b[pos:pos] = rng.choice([b"\ncount = 3\n", b"\ncount = -1\n", b"\ncount = 99999999999\n", b"\ncount = 70000\n", b"\n0 = zero\n1 = one\n"])
    return bytes(b)


class History:
    def __init__(self, hid, decl, quiet=False):
        self.hid, self.decl = hid, decl
        # quiet: hundreds of declarations; their result lines carry no dump of the variables (`quiet 1` .. `quiet 0`)
        self.lines = ["H %d" % hid] + (["quiet 1"] if quiet else []) + decl.lines(False) + decl.lines(True) + (["quiet 0"] if quiet else [])
        self.ndecl = len(self.lines) - 1
        self.checks = []       # (line index, kind, data) evaluated by the oracle
        self.tags = set()

    def op(self, text, chk=None):
        self.lines.append(text)
        if chk is not None:
            self.checks.append((len(self.lines) - 1,) + chk)

    def parse(self, o, argv, judge=True):
        self.op("parse %d %d %s" % (o, len(argv), " ".join(hx(w) for w in argv)), ("parse", o, argv) if judge else None)

    def end(self):
        self.lines.append("E")
        return self


def _enc(x):
    if isinstance(x, (bytes, bytearray)):
        return {"b": bytes(x).hex()}
    if isinstance(x, (list, tuple)):
        return {"l": [_enc(y) for y in x]}
    if isinstance(x, dict):
        return {"d": [[_enc(k), _enc(v)] for k, v in x.items()]}
    return x


def _dec(x):
    if isinstance(x, dict):
        if "b" in x:
            return bytes.fromhex(x["b"])
        if "l" in x:
            return tuple(_dec(y) for y in x["l"])
        if "d" in x:
            return {(_dec(k)): _dec(v) for k, v in x["d"]}
    return x


def hist_to_json(h):
    d = h.decl
    return dict(history=h.lines, tags=sorted(h.tags), shape=d.shape, ndecl=getattr(h, "ndecl", 0), vo=d.vo,
                objs={str(o): [[it.ty, it.ch, hx(it.name), it.var, it.hasarg, it.kv, it.init] for it in its] for o, its in d.objs.items()},
                checks=[_enc(list(c)) for c in h.checks])


def hist_from_json(r):
    d = Decl.__new__(Decl)
    d.kvs, d.shape, d.ops, d.inits, d.kinds = KV_TABLES, r.get("shape", "flat"), [], {}, {}
    d.vo = r.get("vo", 32)
    d.objs = {}
    for o, its in r.get("objs", {}).items():
        d.objs[int(o)] = []
        for (ty, ch, name, var, hasarg, kv, init) in its:
            it = Item(ty, ch, unhx(name), var, hasarg, kv, init)
            it.hasarg = hasarg
            d.objs[int(o)].append(it)
    h = History.__new__(History)
    h.hid, h.decl, h.lines, h.tags = 0, d, ["H 0"] + list(r["history"][1:]), set(r.get("tags", []))
    h.checks = [tuple(_dec(c)) for c in r.get("checks", [])]
    h.ndecl = r.get("ndecl", 0)
    return h


def roundtrip(h, rng, fname, o=0):
    """save base object o -> load into its fresh copy o + 4 -> save again"""
    h.op("save %d %s" % (o, hx(fname)))
    h.op("load %d %s" % (o + 4, hx(fname)))
    h.op("loadargs %d %s" % (o + 4, hx(fname)))
    h.op("save %d %s" % (o + 4, hx(fname + b".2")), ("roundtrip", len(h.lines) - 3, o))
    h.tags.add("roundtrip")


def assign_token(rng, it, decl, avoid=None):
    """a value the application may assign to the variable of item `it` itself (inside the documented range of the type)"""
    ty = it.ty
    if ty in ("sw", "cb"):
        return "i" + hz(rng.choice([0, 1, 2, 7, 12]))
    if ty == "bool":
        return "i" + hz(rng.choice([0, 1, 1, 5, -1]))
    if ty == "int":
        return "i" + hz(rng.choice([INT_MIN, INT_MAX, -5, 0, 42, 99]))
    if ty == "size":
        return "z%x" % rng.choice([0, 1, 12345, 1 << 32, LONG_MAX])
    if ty == "dbl":
        return "d%x" % struct.unpack("<Q", struct.pack("<d", rng.choice([0.0, 1.5, -2.25, 1e-310, 3.25e7, 99.0])))[0]
    if ty == "kvo":
        return "i" + hz(rng.choice([v for v in decl.kvs[it.kv].values() if v is not None] + [99]))
    if ty == "str":
        v = None if rng.random() < 0.1 else rng.choice([b"override", b"foreign value", rand_str(rng, True)])
        return "s" + hx(v)
    return None


def assign(h, rng, it, decl, tok=None):
    tok = tok or assign_token(rng, it, decl)
    if tok is not None:
        h.op("assign %d %s" % (it.var, tok))
        h.tags.add("assign")


def gen_history(rng, hid, quick):
    decl = Decl(rng)
    h = History(hid, decl)
    items0 = decl.objs[0]
    nact = rng.randrange(2, 9)
    files = []
    memo = []            # successful inputs that can be given again: ("parse", o, argv) / ("load", o, file, expectation)
    twin = decl.shape == "twin"
    for _ in range(nact):
        k = rng.random()
        if k < 0.38:
            o = rng.choice([0, 0, 0, 1, 2]) if decl.shape == "nested" else (rng.choice([0, 0, 1]) if decl.shape in ("sub", "twin") else 0)
            valid = rng.random() < 0.6
            argv = gen_argv(rng, decl.objs[o], decl, valid)
            h.parse(o, argv)
            h.tags.add("parse-valid" if valid else "parse-invalid")
            if valid:
                memo.append(("parse", o, argv))
        elif k < 0.5:
            valid = rng.random() < 0.7
            o = 1 if twin and rng.random() < 0.4 else 0
            text, exp = gen_ini(rng, decl.objs[o], decl, valid)
            f = b"gen%d.ini" % len(files)
            files.append(f)
            h.op("file %s %s" % (hx(f), hx(text)))
            h.op("load %d %s" % (o, hx(f)), ("load", o, exp))
            h.tags.add("load-generated")
            if exp != "error":
                memo.append(("load", o, f, exp))
        elif k < 0.62:
            text, _ = gen_ini(rng, items0, decl, rng.random() < 0.5)
            if rng.random() < 0.4:
                text = bytes(rng.randrange(256) for _ in range(rng.randrange(0, 300)))
                h.tags.add("load-random-bytes")
            else:
                text = mutate(rng, text)
                h.tags.add("load-mutated")
            f = b"mut%d.ini" % len(files)
            files.append(f)
            h.op("file %s %s" % (hx(f), hx(text)))
            h.op("load 0 %s" % hx(f))
            if rng.random() < 0.5:
                h.op("loadargs 0 %s" % hx(f))
        elif k < 0.68:
            h.op("errno %d" % rng.choice([34, 34, 2, 22, 0]))
        elif k < 0.72:
            h.op("load 0 %s" % hx(rng.choice([b"missing.ini", b"/nonexistent-dir/x.ini"])))
        elif k < 0.74:
            h.op("summary 0")
        elif k < 0.76:
            h.op("dirty %d" % rng.choice([43, 45, 58, 63, 97, 255, 0]))          # the next parse starts from a stack full of this byte
        elif k < 0.84:
            # the application assigns one or two of its variables itself; then (mostly) an input that was accepted before is given
            # again, through the same object: the variables must hold what that text denotes, whatever they held in between
            vs = [it for o_ in (0, 1) for it in decl.objs[o_] if it.ty not in ("ini", "json")]
            for _k in range(rng.randrange(1, 3)):
                if vs:
                    assign(h, rng, rng.choice(vs), decl)
            if memo and rng.random() < 0.7:
                m = rng.choice(memo)
                if m[0] == "parse":
                    h.parse(m[1], list(m[2]))
                else:
                    h.op("load %d %s" % (m[1], hx(m[2])), ("load", m[1], m[3]))
                h.tags.add("input-given-again")
        else:
            # successful parse followed by the save / load / save round trip
            o = 1 if twin and rng.random() < 0.4 else 0
            argv = gen_argv(rng, decl.objs[o], decl, True, nuse=rng.randrange(0, 6))
            if rng.random() < 0.25:
                # unsafe strings / arguments on purpose
                ss = [it for it in decl.objs[o] if it.ty == "str"]
                if ss and rng.random() < 0.6:
                    it = rng.choice(ss)
                    argv[1:1] = [(b"-" + bytes([it.ch])) if it.ch else (b"--" + it.name), rand_str(rng, False)]
                    argv = [w for w in argv if b"\0" not in w]
                else:
                    argv.append(rand_str(rng, False) or b"x")
            h.parse(o, argv)
            memo.append(("parse", o, argv))
            f = b"f%d.ini" % len(files)
            files.append(f)
            roundtrip(h, rng, f, o)
            if rng.random() < 0.3:
                h.op("load %d %s" % (o, hx(mutate_name(rng, f))))
    if "roundtrip" not in h.tags and rng.random() < 0.7:
        h.parse(0, gen_argv(rng, items0, decl, True, nuse=rng.randrange(0, 5)))
        roundtrip(h, rng, b"last.ini")
    if rng.random() < 0.3:
        h.op("destroy 0")
    return h.end()


def mutate_name(rng, f):
    return f


# ---- aimed histories: boundaries of the proofs, repaired defects, recorded findings ----------------
def aimed_histories(rng, hid0):
    out = []
    hid = hid0

    def flat(items, kv=True):
        d = Decl.__new__(Decl)
        d.ops, d.objs, d.nvar, d.rng = [("kv", 0), ("kv", 1), ("new", 0)], {0: [], 1: [], 2: []}, 0, rng
        d.used_ch, d.used_nm, d.kvs, d.inits, d.kinds, d.shape = {0: set(), 1: set(), 2: set()}, {0: set(), 1: set(), 2: set()}, KV_TABLES, {}, {}, "flat"
        for (ty, ch, name, init) in items:
            d.add_typed(0, ty, ch, name, share=False, init=init)
        return d

    std = [("int", ord("i"), b"int", ("i3", 3)), ("sw", ord("x"), b"sw", None), ("sw", ord("q"), None, None),
           ("str", ord("s"), b"str", ("s-", None)), ("size", ord("z"), b"size", ("i0", 0)), ("bool", ord("b"), b"bool", ("i0", 0)),
           ("kvo", ord("k"), b"choice", ("s" + hx(b"ab"), 5)), ("dbl", ord("d"), b"dbl", ("d0", ("d", 0)))]

    def H():
        nonlocal hid
        h = History(hid, flat(std))
        hid += 1
        out.append(h)
        return h

    # F-C17a (repaired bb105d5): an overflowing number, then a valid one; stale errno from outside
    h = H(); h.tags.add("aimed-errno")
    h.parse(0, [b"p", b"-i", b"99999999999999999999"]); h.parse(0, [b"p", b"-i", b"7"])
    h.parse(0, [b"p", b"-z", b"99999999999999999999"]); h.parse(0, [b"p", b"-z", b"8"])
    h.parse(0, [b"p", b"-d", b"1e999"]); h.parse(0, [b"p", b"-d", b"2.5"])
    h.op("errno 34"); h.parse(0, [b"p", b"--int", b"9"])
    h.op("errno 34"); h.parse(0, [b"p", b"--size=10"])
    h.op("errno 34"); h.parse(0, [b"p", b"--dbl=1.25"])
    h.op("file %s %s" % (hx(b"n.ini"), hx(b"[Options]\nint = 11\nsize = 12\ndbl = 0.5\nsw = 3\n[Arguments]\ncount = 1\n0 = a\n")))
    h.op("errno 34"); h.op("load 0 %s" % hx(b"n.ini"), ("load", 0, {0: 11, 4: 12, 7: ("d", libc_strtod(b"0.5")[0]), 1: 3}))
    h.op("errno 34"); h.op("loadargs 0 %s" % hx(b"n.ini"))
    h.op("file %s %s" % (hx(b"o.ini"), hx(b"[Options]\nint = 99999999999999999999\n")))
    h.op("load 0 %s" % hx(b"o.ini"), ("load", 0, "error")); h.op("load 0 %s" % hx(b"n.ini"), ("load", 0, {0: 11, 4: 12, 1: 3}))
    h.end()
    # F-C17b (repaired 5b6f754): the same vector twice; a failure inside a clustered word, then a parse
    h = H(); h.tags.add("aimed-optind")
    a = [b"prog", b"-i", b"7", b"-x", b"rest"]
    h.parse(0, list(a)); h.op("seti 0 0"); h.parse(0, list(a)); h.parse(0, list(a))
    h.parse(0, [b"prog", b"-xZq", b"-i", b"5"]); h.parse(0, [b"prog", b"-i", b"9", b"-x"]); h.parse(0, [b"prog", b"-qq", b"--", b"-i", b"1"])
    h.parse(0, [b"prog", b"a", b"-x", b"b", b"-i"]); h.parse(0, [b"prog", b"a", b"-x", b"b", b"-i", b"4", b"c"])
    h.end()
    # F-C17d (repaired ede139e): switch counts whose decimal text starts with 1
    for n in (2, 9, 10, 11, 19, 20, 100, 123):
        h = H(); h.tags.add("aimed-switch-count")
        h.parse(0, [b"prog", b"-" + b"x" * n]); roundtrip(h, rng, b"sw.ini"); h.end()
    # F-C17e (repaired 69d3f48): option without long name first / behind a sub-options block
    d = flat([("int", ord("i"), None, ("i0", 0)), ("int", ord("j"), b"jj", ("i0", 0))])
    h = History(hid, d); hid += 1; out.append(h); h.tags.add("aimed-short-only")
    h.parse(0, [b"prog", b"-i", b"5", b"-j", b"6"]); roundtrip(h, rng, b"so.ini"); h.end()
    d = Decl.__new__(Decl)
    d.ops, d.objs, d.nvar, d.rng = [("kv", 0), ("kv", 1), ("new", 1)], {0: [], 1: [], 2: []}, 0, rng
    d.used_ch, d.used_nm, d.kvs, d.inits, d.kinds, d.shape = {0: set(), 1: set(), 2: set()}, {0: set(), 1: set(), 2: set()}, KV_TABLES, {}, {}, "sub"
    d.add_typed(1, "int", ord("k"), b"kk", share=False, init=("i0", 0))
    d.add_typed(1, "kvo", ord("c"), b"choice", share=False, init=("s" + hx(b"ab"), 5))
    d.add_typed(1, "str", ord("s"), None, share=False, init=("s-", None))
    d.ops.append(("new", 0))
    d.sub(0, 1, b"pre")
    d.add_typed(0, "int", ord("i"), None, share=False, init=("i0", 0))
    d.add_typed(0, "sw", ord("v"), None, share=False)
    h = History(hid, d); hid += 1; out.append(h); h.tags.add("aimed-short-only")
    h.parse(0, [b"prog", b"-i", b"5", b"--pre:kk", b"6", b"-vv", b"--pre:-s", b"text"]); roundtrip(h, rng, b"so2.ini"); h.end()
    # stale key-value text of a sub-options copy: parse through the sub-options object, save the parent
    h = History(hid, d); hid += 1; out.append(h); h.tags.add("aimed-keyvalue-copy")
    h.parse(1, [b"prog", b"-c", b"cd"]); h.parse(0, [b"prog"]); roundtrip(h, rng, b"kvc.ini"); h.end()
    # F-C17k (repaired cfc9e38): an option "pre:b" and the heading of the nested sub-options "pre:B" share one dictionary slot
    # of iniparser; the heading must leave the value of the entry alone, wherever it stands
    d = Decl.__new__(Decl)
    d.ops, d.objs, d.nvar, d.rng = [("kv", 0), ("kv", 1), ("new", 2)], {0: [], 1: [], 2: []}, 0, rng
    d.used_ch, d.used_nm, d.kvs, d.inits, d.kinds, d.shape = {0: set(), 1: set(), 2: set()}, {0: set(), 1: set(), 2: set()}, KV_TABLES, {}, {}, "nested"
    d.add_typed(2, "int", ord("k"), b"kk", share=False, init=("i0", 0))
    d.ops.append(("new", 1))
    d.add_typed(1, "sw", ord("b"), b"b", share=False)
    d.sub(1, 2, b"B")
    d.ops.append(("new", 0))
    d.sub(0, 1, b"pre")
    d.add_typed(0, "int", ord("i"), b"pre", share=False, init=("i0", 0))          # "Options:pre" is not the section "pre"
    h = History(hid, d); hid += 1; out.append(h); h.tags.add("aimed-key-section")
    h.parse(0, [b"prog", b"--pre:b", b"--pre:B:kk", b"7", b"-i", b"3"]); roundtrip(h, rng, b"ks.ini"); h.end()
    h = History(hid, d); hid += 1; out.append(h); h.tags.add("aimed-key-section")
    h.parse(0, [b"prog", b"--pre:B:kk", b"8"]); roundtrip(h, rng, b"ks2.ini"); h.end()
    h = History(hid, d); hid += 1; out.append(h); h.tags.add("aimed-key-section")
    h.op("file %s %s" % (hx(b"ks3.ini"), hx(b"[pre]\nb = 4\n[pre:B]\nkk = 7\n[Options]\npre = 5\n")))
    h.op("load 0 %s" % hx(b"ks3.ini"), ("load", 0, {1: 4, 0: 7, 2: 5}))        # heading behind the entry
    h.op("file %s %s" % (hx(b"ks4.ini"), hx(b"[pre:B]\nkk = 9\n[pre]\nb = 6\n")))
    h.op("load 0 %s" % hx(b"ks4.ini"), ("load", 0, {1: 6, 0: 9}))               # heading in front of the entry
    h.op("file %s %s" % (hx(b"ks7.ini"), hx(b"[pre]\nb = 2\n[PRE:b]\n[ pre:B ]\nkk = 1\n[pre]\n[pre:b]\n")))
    h.op("load 0 %s" % hx(b"ks7.ini"), ("load", 0, {1: 2, 0: 1}))               # repeated headings, any case
    h.op("file %s %s" % (hx(b"ks5.ini"), hx(b"[pre]\nb = maybe\n[PRE:b]\nkk = 1\n")))
    h.op("load 0 %s" % hx(b"ks5.ini"), ("load", 0, "error"))                    # an invalid value is not hidden by the heading
    h.op("file %s %s" % (hx(b"ks6.ini"), hx(b"[pre:b]\nkk = 1\n[pre]\nb = maybe\n")))
    h.op("load 0 %s" % hx(b"ks6.ini"), ("load", 0, "error"))
    h.end()
    # F-C17l (repaired bd8c44f): no option with a short name: the optstring handed to getopt_long must be the empty string
    # whatever an earlier call left on the stack.  `dirty c` fills the stack with the byte c before the next parse; the
    # reference demands the denoted result after every filler, and `samefill` demands the very same output line as after zeros
    longonly = [("bool", 0, b"flag", ("i0", 0)), ("int", 0, b"num", ("i0", 0))]
    for fill in (43, 45, 58, 97, 255):
        h = History(hid, flat(longonly)); hid += 1; out.append(h); h.tags.add("aimed-optstring")
        for argv in ([b"prog", b"input.txt", b"--flag", b"--num", b"5", b"more"], [b"prog", b"--num=7", b"--", b"--flag"], [b"prog", b"in", b"--fl=no", b"x", b"--nu", b"-3"]):
            h.op("seti 0 0"); h.op("seti 1 0"); h.op("dirty 0"); h.parse(0, list(argv))
            clean = len(h.lines) - 1
            h.op("seti 0 0"); h.op("seti 1 0"); h.op("dirty %d" % fill); h.parse(0, list(argv))
            h.checks.append((len(h.lines) - 1, "samefill", clean, fill))
        roundtrip(h, rng, b"os.ini"); h.end()
        # the same stack content in front of an object WITH short names changes nothing either
        h = H(); h.tags.add("aimed-optstring")
        h.op("dirty %d" % fill); h.parse(0, [b"prog", b"input.txt", b"-x", b"--int", b"5", b"more", b"-qq"])
        h.op("dirty %d" % fill); h.parse(0, [b"prog", b"input.txt", b"-Z", b"--int", b"5"]); h.end()
    # section headings of equal length in a row ("Options", "Section", "Sektion"; "abc", "xyz"): the writer compares prefixes, not lengths
    for (p1, p2) in ((b"Section", b"Sektion"), (b"abc", b"xyz")):
        d = Decl.__new__(Decl)
        d.ops, d.objs, d.nvar, d.rng = [("kv", 0), ("kv", 1), ("new", 1)], {0: [], 1: [], 2: []}, 0, rng
        d.used_ch, d.used_nm, d.kvs, d.inits, d.kinds, d.shape = {0: set(), 1: set(), 2: set()}, {0: set(), 1: set(), 2: set()}, KV_TABLES, {}, {}, "sub"
        d.add_typed(1, "int", ord("k"), b"kk", share=False, init=("i0", 0))
        d.ops.append(("new", 2))
        d.add_typed(2, "int", ord("m"), b"mm", share=False, init=("i0", 0))
        d.ops.append(("new", 0))
        d.add_typed(0, "int", ord("f"), b"first", share=False, init=("i0", 0))
        d.sub(0, 1, p1)
        d.sub(0, 2, p2)
        d.add_typed(0, "int", ord("l"), b"last", share=False, init=("i0", 0))
        h = History(hid, d); hid += 1; out.append(h); h.tags.add("aimed-prefix-length")
        h.parse(0, [b"prog", b"-f", b"1", b"--" + p1 + b":kk", b"2", b"--" + p2 + b":mm=3", b"-l", b"4", b"arg"]); roundtrip(h, rng, b"pl.ini"); h.end()
    # values as iniparser writes them down: quotes, comments, empty strings, key case, CR LF
    h = H(); h.tags.add("aimed-ini-values")
    for (txt, exp) in ((b"[Options]\nstr = ''\n", {3: b""}), (b"[Options]\nstr = \"\"\n", {3: b""}), (b"[Options]\nstr =\n", {3: b""}),
                       (b"[Options]\nstr = \"a;b\" tail\nint=0x10;c\nsize= 7 # c\nbool = Y\n", {3: b"a;b", 0: 16, 4: 7, 5: 1}),
                       (b"[Options]\nstr = 'it is'\nsw = 12\n", {3: b"it is", 1: 12}), (b"[OPTIONS]\nINT = 9\n-Q = 3\n", {0: 9, 2: 3}),
                       (b"[Options]\r\nint = 12\r\nstr = x y\r\n", {0: 12, 3: b"x y"}), (b"; c\n\n  [ Options ]  \n   choice   =   cd   \n\tdbl=2.5\n", {6: -7, 7: ("d", libc_strtod(b"2.5")[0])}),
                       (b"[Options]\nint = 1\n-i = 2\n", "error"), (b"[Options]\nbool = 2\n", "error"), (b"[Options]\nsize = -1\n", "error")):
        h.op("file %s %s" % (hx(b"v.ini"), hx(txt)))
        h.op("load 0 %s" % hx(b"v.ini"), ("load", 0, exp))
    h.end()
    # F-C17f (repaired 5918853): unset string followed by another option / as last item
    h = H(); h.tags.add("aimed-null-string")
    h.parse(0, [b"prog", b"-z", b"6"]); roundtrip(h, rng, b"ns.ini"); h.end()
    d = flat([("int", ord("j"), b"jj", ("i0", 0)), ("str", ord("s"), b"str", ("s-", None))])
    h = History(hid, d); hid += 1; out.append(h); h.tags.add("aimed-null-string")
    h.parse(0, [b"prog", b"-j", b"6", b"arg"]); roundtrip(h, rng, b"ns2.ini"); h.end()
    # F-C17g (repaired 6404e3e): section headings named like keys
    h = H(); h.tags.add("aimed-section-as-key")
    for sec in (b"Options:int", b"Options:sw", b"Options:bool", b"Options:size", b"Options:dbl", b"Options:str", b"Options:choice", b"options:-q", b"OPTIONS:-I"):
        h.op("file %s %s" % (hx(b"sec.ini"), hx(b"[Options]\nint = 4\n[" + sec + b"]\nx = 1\n")))
        h.op("load 0 %s" % hx(b"sec.ini"))
    h.op("file %s %s" % (hx(b"sec2.ini"), hx(b"[Arguments:0]\n[Arguments]\ncount = 1\n")))
    h.op("loadargs 0 %s" % hx(b"sec2.ini"))
    h.end()
    # F-C17c: strings outside the ini-safe class (recorded finding), and inside it
    for s in STR_UNSAFE + STR_SAFE + [b"x" * 1001, b"x" * 1002, b"x" * 1003, b"x" * 1004]:
        h = H(); h.tags.add("aimed-ini-string")
        h.parse(0, [b"prog", b"--str", s] if not s.startswith(b"-") else [b"prog", b"--str=" + s]); roundtrip(h, rng, b"s.ini"); h.end()
    for s in [b"a;b", b" x", b"y ", b"#", b"\"q\"", b"e\\", b"n\nl", b"ok", b"x" * 1011, b"x" * 1012]:
        h = H(); h.tags.add("aimed-ini-argument")
        h.parse(0, [b"prog", b"-x", s, b"second"]); roundtrip(h, rng, b"a.ini"); h.end()
    # numeric boundaries through parse, file and round trip
    for t in INT_TEXTS:
        h = H(); h.tags.add("aimed-int-boundary")
        h.parse(0, [b"prog", b"-i", t]) if t != b"" else h.parse(0, [b"prog", b"--int="])
        if not any(c in t for c in b";#\n") and t.strip(SPACE) != b"":
            x, er = ref_strtol(t)
            ok = not er and INT_MIN <= x <= INT_MAX
            h.op("file %s %s" % (hx(b"b.ini"), hx(b"[Options]\nint = " + t + b"\n")))
            h.op("load 0 %s" % hx(b"b.ini"), ("load", 0, {0: x} if ok else "error"))
        h.parse(0, [b"prog"]); roundtrip(h, rng, b"bi.ini"); h.end()
    for t in SIZE_TEXTS:
        h = H(); h.tags.add("aimed-size-boundary")
        h.parse(0, [b"prog", b"--size=" + t])
        h.parse(0, [b"prog"]); roundtrip(h, rng, b"bz.ini"); h.end()
    for v in (INT_MIN, INT_MAX, -1, 0, 1):
        h = H(); h.tags.add("aimed-int-boundary")
        h.parse(0, [b"prog"]); h.op("seti 0 %s" % hz(v)); roundtrip(h, rng, b"bv.ini"); h.end()
    for v in (0, 1, (1 << 32) - 1, 1 << 32, LONG_MAX):
        h = H(); h.tags.add("aimed-size-boundary")
        h.parse(0, [b"prog"]); h.op("seti 4 %s" % hz(v)); roundtrip(h, rng, b"bs.ini"); h.end()
    for t in DBL_TEXTS:
        h = H(); h.tags.add("aimed-double")
        h.parse(0, [b"prog", b"--dbl=" + t]); h.parse(0, [b"prog", b"-d", t or b"x"])
        if t.strip(SPACE) != b"":
            bits, er = libc_strtod(t)
            h.op("file %s %s" % (hx(b"d.ini"), hx(b"[Options]\ndbl = " + t + b"\n")))
            h.op("load 0 %s" % hx(b"d.ini"), ("load", 0, "error" if dbl_range_error(bits, er) else {7: ("d", bits)}))
        h.parse(0, [b"prog"]); roundtrip(h, rng, b"bd.ini"); h.end()
    # doubles that sit in the variable when it is saved: DBL_MIN (its 16-digit text is a subnormal), subnormals of either sign
    for v in (2.2250738585072014e-308, -2.2250738585072014e-308, 5e-324, -5e-324, 2.2250738585072009e-308, 1e-310, 1e-320, 1.0, 1e308,
              1.7976931348623157e308, -1.7976931348623157e308, 1.7976931348623155e308, 1.797693134862315e308):      # the first three: F-C17m
        h = H(); h.tags.add("aimed-double")
        h.parse(0, [b"prog"]); h.op("setd 7 %x" % struct.unpack("<Q", struct.pack("<d", v))[0]); roundtrip(h, rng, b"bs.ini"); h.end()
    # booleans and key-value choices
    for t in BOOL_TEXTS:
        h = H(); h.tags.add("aimed-bool")
        h.parse(0, [b"prog", b"-b" + t]); h.parse(0, [b"prog", b"--bool=" + t]); h.parse(0, [b"prog", b"-b", t or b"w"])
        h.parse(0, [b"prog"]); roundtrip(h, rng, b"bb.ini"); h.end()
    for t in (b"ab", b"cd", b"Mixed", b"zz", b"nokey", b"", b"AB", b"mixed"):
        h = H(); h.tags.add("aimed-keyvalue")
        h.parse(0, [b"prog", b"-k", t] if t else [b"prog", b"--choice="]); h.parse(0, [b"prog"]); roundtrip(h, rng, b"bk.ini")
        h.op("file %s %s" % (hx(b"k.ini"), hx(b"[Options]\nchoice = " + t + b"\n")))
        exp = {6: KV_TABLES[0][t]} if KV_TABLES[0].get(t) is not None else ("error" if t else None)
        h.op("load 0 %s" % hx(b"k.ini"), ("load", 0, exp) if exp is not None else None)
        h.end()
    # load_args corner cases
    h = H(); h.tags.add("aimed-load-args")
    for txt in (b"[Arguments]\ncount = 2\n0 = a\n1 = b\n", b"[Arguments]\ncount = 2\n0 = a\n", b"[Arguments]\ncount = 0\n", b"[Arguments]\ncount = -1\n",
                b"[Arguments]\ncount = 99999999999\n", b"[Arguments]\n", b"", b"count = 1\n0 = x\n", b"[Arguments]\ncount = 70000\n0 = a\n",
                b"[arguments]\nCOUNT = 1\n0 = \"quoted value\"\n"):
        h.op("file %s %s" % (hx(b"la.ini"), hx(txt)))
        h.op("loadargs 0 %s" % hx(b"la.ini"))
        h.op("save 0 %s" % hx(b"la.out"))
    h.end()
    # iniparser line structure: long lines, continuation, missing final newline, NUL bytes, error forgiveness
    h = H(); h.tags.add("aimed-ini-lines")
    for txt in (b"[Options]\nint = 5", b"[Options]\nint = 5\n" + b"x" * 1022 + b"\n", b"[Options]\nint = 5\n" + b"x" * 1021 + b"=\n", b"[Options]\nint = 5\n#" + b"x" * 1020 + b"\n",
                b"[Options]\nint = \\\n6\n", b"[Options]\nstr = ab\\\ncd\\\n\nint = 1\n", b"garbage line\n[Options]\nint = 8\n", b"[Options]\nint = 8\ngarbage line\n",
                b"[Options]\nint = 5\0junk\n", b"\0\n[Options]\nint = 2\n", b"[Options]\n=5\nint = 3\n", b"[Options]\nint = 3\n=5\n", b"[Options\nint = 3\n", b"[]\nint = 3\n[Options]\n",
                b"x\n", b"\n\n\n", b"[Options]\r\nint = 12\r\n", b"[Options]\nint=0x10;c\nsize= 7 # c\nstr = \"a;b\" tail\nbool = Y\n", b"[Options]\nstr = ''\n", b"[Options]\nstr = \"\"\n",
                b"[Options]\nstr =\nint=\n", b"[Options]\nstr = ;x\n", b"[Options]\nINT = 9\n-Z = 4\n", b"[Options]\nint = 1\n-i = 2\n", b"[Options]\nint = 1\nint = 2\n",
                b"[Options]\n" + b"k" * 1100 + b" = 1\n", b"[" + b"s" * 1010 + b"]\n" + b"k" * 20 + b" = 1\n[Options]\nint = 77\n"):
        h.op("file %s %s" % (hx(b"l.ini"), hx(txt)))
        h.op("load 0 %s" % hx(b"l.ini"))
    h.end()
    # direct validation of the strtol model
    h = H(); h.tags.add("strtol")
    texts = list(INT_TEXTS) + list(SIZE_TEXTS) + [b"0x7fffffffffffffff", b"0x8000000000000000", b"-0x8000000000000000", b"-0x8000000000000001", b"0777777777777777777777", b"01000000000000000000000",
                                                  b"\x0b\x0c\r12", b"0xAbCdEf", b"0b101", b"\xd9\xa1\xd9\xa2", b"1_000", b"0x 1", b"- 1", b"+-1", b"++1", b"0x-1", b"00x1", b"\xa01"]
    for _ in range(200):
        texts.append(bytes(rng.choice(b"0123456789abcdefxX+- \t") for _ in range(rng.randrange(0, 24))))
    for t in texts:
        if b"\0" not in t:
            h.op("strtol %s" % hx(t), ("strtol", t))
    h.end()
    return out


# ---- large histories: the dictionary of iniparser starts with DICTMINSZ = 128 slots and doubles (dictionary_set / mem_double) ----
# Every distinct section heading and every key of a file is one entry: [Options], the sections of the sub-option prefixes,
# [Arguments], count and the arguments included.  The families below are sized to cross each doubling (128, 256, 512 entries)
# by -2 .. +2 and at random sizes in between: (a) hundreds of options of mixed types (prefixed sub-options sharing variables,
# the same sub-object under two prefixes) and 0 .. 300 arguments, parsed, saved and loaded into the fresh identically declared
# object, every value compared one by one; (b) hand-written ini files with that many keys in several (split, permuted)
# sections, every declared key looked up and compared with the value the text denotes.
DICT_DOUBLINGS = (128, 256, 512)
LARGE_TYPES = ["int", "size", "dbl", "str", "bool", "sw", "kvo"]
LARGE_MAX_OPTIONS = {True: 150, False: 250}          # quick / thorough: own options of the main object (the model's guard and its
                                                      # dump of all variables are superlinear in the number of options)


def blank_decl(rng, shape, vo=32):
    d = Decl.__new__(Decl)
    d.ops, d.objs, d.nvar, d.rng = [("kv", 0), ("kv", 1)], {0: [], 1: [], 2: []}, 0, rng
    d.used_ch, d.used_nm, d.kvs, d.inits, d.kinds, d.shape = {0: set(), 1: set(), 2: set()}, {0: set(), 1: set(), 2: set()}, KV_TABLES, {}, {}, shape
    d.vo = vo
    return d


def safe_word(rng, n):
    """an ini-safe, non-empty word that is no option (for arguments and string values of the large histories)"""
    for _ in range(20):
        w = rng.choice([b"arg%d" % n, b"file_%d.txt" % n, b"a b %d" % n, b"x=%d" % n, rand_str(rng, True)])
        if w and not w.startswith(b"-") and ini_unsafe(w, 4) is None:
            return w
    return b"w%d" % n


def large_decl(rng, nmain, nsub, twice, nested):
    """object 1 (nsub options; below it object 2 with two options under the prefix `in` if nested) is included in object 0 under
    one or two prefixes somewhere between the nmain own options of object 0.  Returns (decl, number of sections a saved
    file has, number of keys)"""
    d = blank_decl(rng, "nested" if nested else "sub", vo=512)
    style = rng.choice([b"o%03d", b"Opt-%d", b"key_%d_x", b"v%d", b"LongOptionName%04d"])

    def one(o, k, name, ch=0, types=LARGE_TYPES):
        ty = types[k % len(types)] if rng.random() < 0.7 else rng.choice(types)
        init = None
        if ty == "str":
            v = safe_word(rng, k)                 # a set string: an unset one is not written, i.e. no dictionary entry
            init = ("s" + hx(v), v)
        d.add_typed(o, ty, ch, name, share=(rng.random() < 0.3), init=init)
    if nested:
        d.ops.append(("new", 2))
        one(2, 0, b"kk", ord("k"), ["int", "str", "size"])
        one(2, 1, b"deep", 0, ["bool", "dbl", "sw"])
    d.ops.append(("new", 1))
    subtypes = [t for t in LARGE_TYPES if not (twice and t == "kvo")]          # a key-value text is per copy (F-C17h)
    for k in range(nsub):
        ch = b"abcdefgh"[k] if k < 8 and rng.random() < 0.5 else 0
        one(1, k, None if (ch and rng.random() < 0.3) else b"s%d%s" % (k, rng.choice([b"", b"-x", b"_Y"])), ch, subtypes)
    if nested:
        d.sub(1, 2, b"in")
    d.ops.append(("new", 0))
    p1 = rng.randrange(0, nmain + 1)
    p2 = rng.randrange(p1, nmain + 1)
    pre1, pre2 = rng.choice([(b"Sub", b"Other"), (b"pre", b"Section"), (b"a", b"B")])
    shorts = list(b"ijlmnopqrstuvwxyz")
    rng.shuffle(shorts)
    for i in range(nmain + 1):
        if i == p1:
            d.sub(0, 1, pre1)
        if twice and i == p2:
            d.sub(0, 1, pre2)
        if i == nmain:
            break
        ch = shorts.pop() if shorts and rng.random() < 0.03 else 0
        nm = style % i
        if rng.random() < 0.2:
            nm = nm.upper() if rng.random() < 0.5 else nm.lower()
        one(0, i, None if (ch and rng.random() < 0.4) else nm, ch)
    ncopies = 2 if twice else 1
    nsec = 2 + ncopies * (2 if nested else 1)                       # options, arguments, the prefixes
    nkeys = nmain + ncopies * (nsub + (2 if nested else 0))
    return d, nsec, nkeys


def large_argv(rng, decl, frac, nargs):
    """a valid vector: a share `frac` of the options of object 0 in random order, each once (switches up to three times), nargs arguments
    in between (GNU permutation) or behind `--`"""
    groups = []
    for it in decl.objs[0]:
        if rng.random() >= frac:
            continue
        val = value_text(rng, it, decl, True) if it.hasarg else None
        if it.ty == "str":
            val = safe_word(rng, len(groups))
        if it.ty in ("int", "size", "dbl") and rng.random() < 0.5:
            val = {"int": lambda: str(rng.randrange(INT_MIN, INT_MAX + 1)).encode(), "size": lambda: str(rng.randrange(0, 1 << 63)).encode(),
                   "dbl": lambda: repr(rng.uniform(-1e6, 1e6) * 10.0 ** rng.randrange(-30, 30)).encode()}[it.ty]()
        if it.ty == "dbl":
            # F-C17m (recorded): a double within 16 digits of DBL_MAX makes the load of the saved file fail as a whole
            b_, _ = libc_strtod(val)
            b2_, er_ = libc_strtod(libc_fmt16(b_))
            if er_ and (b2_ & ((1 << 63) - 1)) == 0x7FF0000000000000 and (b_ & ((1 << 63) - 1)) < 0x7FF0000000000000:
                val = b"1e308"
        if it.hasarg == 2 and rng.random() < 0.3:
            val = None
        nm = (b"--" + it.name) if it.name is not None else (b"-" + bytes([it.ch]))
        if it.hasarg == 0:
            g = [nm] * (rng.randrange(1, 4) if it.ty == "sw" else 1)
        elif val is None:
            g = [nm]
        elif it.name is None:
            g = [nm + val] if (it.hasarg == 2 or (rng.random() < 0.5 and val != b"")) else [nm, val]
        else:
            g = [nm + b"=" + val] if (it.hasarg == 2 or rng.random() < 0.6) else [nm, val]
        groups.append(g)
    rng.shuffle(groups)
    args = [safe_word(rng, n) for n in range(nargs)]
    ntail = rng.randrange(0, nargs + 1) if rng.random() < 0.4 else 0
    mid, tail = args[:nargs - ntail], args[nargs - ntail:]
    slots = sorted(rng.randrange(0, len(groups) + 1) for _ in mid)
    words, k = [b"prog"], 0
    for gi in range(len(groups) + 1):
        while k < len(mid) and slots[k] == gi:
            words.append(mid[k])
            k += 1
        if gi < len(groups):
            words += groups[gi]
    if tail or rng.random() < 0.2:
        words.append(b"--")
        words += tail
    return [w for w in words if b"\0" not in w]


def large_roundtrip_history(rng, hid, quick, entries=None, nopt=None, nargs=None):
    """entries: the number of dictionary entries the saved file shall have (sections + keys + count + arguments)"""
    twice, nested = rng.random() < 0.5, rng.random() < 0.4
    nsub = rng.randrange(2, 7)
    ncopies = 2 if twice else 1
    over = 2 + ncopies * (2 if nested else 1) + ncopies * (nsub + (2 if nested else 0)) + 1
    if entries is not None:
        # at most LARGE_MAX_OPTIONS options, the rest are arguments
        lo = max(0, entries - over - LARGE_MAX_OPTIONS[quick])
        nargs = rng.randrange(lo, max(lo + 1, min(301, entries - over - 60)))
        nmain = entries - over - nargs
    else:
        nmain = nopt
    d, nsec, nkeys = large_decl(rng, nmain, nsub, twice, nested)
    h = History(hid, d, quiet=True)
    h.tags.add("large-roundtrip")
    h.want_entries = nsec + nkeys + 1 + nargs
    h.parse(0, large_argv(rng, d, rng.choice([0.3, 0.7, 1.0]), nargs))
    roundtrip(h, rng, b"big.ini")
    # the same objects once more: a few options and another argument list, saved again, loaded over what is there
    n2 = max(0, nargs + rng.choice([-3, -1, 0, 1, 2, 5]))
    h.parse(0, large_argv(rng, d, 8.0 / (len(d.objs[0]) + 1), n2))
    roundtrip(h, rng, b"big2.ini")
    return h.end()


def ini_value(rng, it, decl):
    """(text, value) of a valid entry for item `it` in a hand-written file"""
    ty = it.ty
    if ty == "sw":
        return rng.choice([(b"true", 1), (b"false", 0), (b"1", 1), (b"0", 0), (b"2", 2), (b"10", 10), (b"17", 17), (b"100", 100), (b"yes", 1), (b"No", 0), (b"T", 1)])
    if ty == "bool":
        return rng.choice([(b"true", 1), (b"false", 0), (b"1", 1), (b"0", 0), (b"yes", 1), (b"no", 0), (b"T", 1), (b"F", 0), (b"Y", 1), (b"N", 0)])
    if ty in ("int", "size", "dbl"):
        t = value_text(rng, it, decl, True).strip(SPACE)
        if b";" in t or b"#" in t or t == b"":
            t = b"5"
        if ty == "dbl":
            return t, ("d", libc_strtod(t)[0])
        return t, ref_strtol(t)[0]
    if ty == "str":
        t = safe_word(rng, it.var)
        return t, t
    t = value_text(rng, it, decl, True)
    return t, decl.kvs[it.kv][t]


def big_ini_history(rng, hid, entries):
    """a hand-written file with exactly `entries` dictionary entries: most keys of a large declared option set, in several
    sections that are split and permuted, keys in any case, some keys given twice (the later line wins), padded with keys
    nobody declared; [Arguments] with a few arguments.  Every declared key is looked up by sc_options_load."""
    twice, nested = rng.random() < 0.5, rng.random() < 0.4
    nsub = rng.randrange(2, 7)
    nargs = rng.choice([0, 0, 1, 3, 17])
    ndecl_keys = min(rng.randrange(int(entries * 0.5), max(int(entries * 0.5) + 1, entries - 20 - nargs)), rng.randrange(200, 300))
    ncopies = 2 if twice else 1
    nmain = max(1, ndecl_keys - ncopies * (nsub + (2 if nested else 0)))
    d, _, _ = large_decl(rng, nmain, nsub, twice, nested)
    items = [it for it in d.objs[0]]
    present = []
    for it in items:
        if rng.random() < 0.06:
            continue                                      # not in the file: the variable keeps its value
        if it.name is not None:
            sec, key = it.name.rsplit(b":", 1) if b":" in it.name else (b"Options", it.name)
        else:
            sec, key = b"Options", b"-" + bytes([it.ch])
        t, v = ini_value(rng, it, d)
        present.append([sec, key, t, it, v])
    dbl_texts = [e[2] for e in present if e[3].ty == "dbl"]
    expect = {}
    by_item = {id(e[3]): e for e in present}
    for it in items:                                      # item order decides which entry of a shared variable wins
        if id(it) in by_item:
            expect[it.var] = by_item[id(it)][4]
    lines = []                                            # (section, text line)
    for (sec, key, t, it, v) in present:
        if rng.random() < 0.05:
            # the key twice: an earlier line with another valid value (dictionary_set must find and replace the entry)
            t0, _ = ini_value(rng, it, d)
            if it.ty == "dbl":
                dbl_texts.append(t0)
            lines.append((sec, key, t0, -1))
            lines.append((sec, key, t, 2))
        else:
            lines.append((sec, key, t, rng.random()))
    secs = set(e[0].lower() for e in present)
    keys = set((e[0] + b":" + e[1]).lower() for e in present)
    have = len(secs) + len(keys) + ((2 + nargs) if nargs or rng.random() < 0.5 else 0)
    with_args = have > len(secs) + len(keys)
    pads = [b"Other", b"Pad-2", b"zz"]
    used = sorted(set(e[0] for e in present))
    npad = 0
    while have < entries:
        sec = rng.choice(pads + used[:2])
        if sec.lower() not in secs:
            if have + 2 > entries:
                continue                                   # no room for a heading and a key: pad an existing section
            secs.add(sec.lower())
            used.append(sec)
            have += 1
        lines.append((sec, b"pad%d" % npad, rng.choice([b"1", b"text", b"", b"a b"]), rng.random()))
        npad += 1
        have += 1
    # layout: every section in 1..3 chunks, chunks permuted; within a section the lines in random order, but the first line of a
    # pair at the beginning and the second at the end
    lines.sort(key=lambda l: l[3])
    chunks = []
    for sec in sorted(set(l[0] for l in lines)):
        mine = [l for l in lines if l[0] == sec]
        n = rng.randrange(1, 4)
        cut = sorted(rng.randrange(0, len(mine) + 1) for _ in range(n - 1))
        prev = 0
        parts = []
        for c in cut + [len(mine)]:
            parts.append(mine[prev:c])
            prev = c
        for pi, part in enumerate(parts):
            if part:
                chunks.append((sec, pi, part))
    # chunks of one section keep their order (a pair may span two chunks), different sections interleave at random
    order = list(range(len(chunks)))
    rng.shuffle(order)
    seq, taken = [], {}
    for ci in order:
        sec = chunks[ci][0]
        mine = [c for c in chunks if c[0] == sec]
        k = taken.get(sec, 0)
        taken[sec] = k + 1
        seq.append(mine[k])
    out = [b"# a large hand-written file"]
    for (sec, _, part) in seq:
        head = sec if rng.random() < 0.6 else (sec.upper() if rng.random() < 0.5 else sec.lower())
        out.append(rng.choice([b"[%s]", b"[%s]", b"  [%s]  ", b"[ %s ]"]) % head)
        for (_, key, t, _) in part:
            if rng.random() < 0.3:
                key = key.upper() if rng.random() < 0.5 else key.lower()
            out.append(rng.choice([b"%s = %s", b"%s=%s", b"    %s   =   %s", b"\t%s= %s"]) % (key, t))
            if rng.random() < 0.05:
                out.append(rng.choice([b"", b"# c", b"   ; c"]))
    args = [safe_word(rng, n) for n in range(nargs)]
    if with_args:
        out.append(b"[Arguments]")
        body = [b"count = %d" % nargs] + [b"%d = %s" % (n, a) for n, a in enumerate(args)]
        rng.shuffle(body)
        out += body
    text = b"\n".join(out) + b"\n"
    h = History(hid, d, quiet=True)
    h.tags.add("large-ini")
    h.dbl_texts = dbl_texts
    h.want_entries = entries
    h.op("file %s %s" % (hx(b"hand.ini"), hx(text)))
    h.op("load 0 %s" % hx(b"hand.ini"), ("load", 0, expect))
    if with_args:
        h.op("loadargs 0 %s" % hx(b"hand.ini"), ("ret", 0, "sc_options_load_args of a valid file with %d arguments" % nargs))
        h.op("save 0 %s" % hx(b"hand.out"), ("args", args))
    # the same text once more into the fresh copy: the result is a function of the text
    h.op("load 4 %s" % hx(b"hand.ini"), ("load", 4, dict((v + d.vo, x) for v, x in expect.items())))
    return h.end()


def large_histories(rng, hid0, quick):
    out, hid = [], hid0
    for T in DICT_DOUBLINGS:
        for delta in (-2, -1, 0, 1, 2):
            out.append(large_roundtrip_history(rng, hid, quick, entries=T + delta)); hid += 1
    for _ in range(3 if quick else 10):
        out.append(large_roundtrip_history(rng, hid, quick, nopt=rng.randrange(100, LARGE_MAX_OPTIONS[quick] + 1), nargs=rng.randrange(0, 301))); hid += 1
    if not quick:
        for nopt in (300, 400):
            out.append(large_roundtrip_history(rng, hid, quick, nopt=nopt, nargs=rng.randrange(0, 301))); hid += 1
    sizes = [T + delta for T in DICT_DOUBLINGS[:2] for delta in (-1, 0, 1, 2)] + [DICT_DOUBLINGS[2] + 1]
    sizes += [rng.randrange(129, 700) for _ in range(3 if quick else 30)]
    if not quick:
        sizes += [1023, 1024, 1025, 1026]
    for n in sizes:
        out.append(big_ini_history(rng, hid, n)); hid += 1
    return out


# ---- iniparser's dictionary directly (dictionary_new / _set / _get / _unset): histories that cross every doubling ----
# pairs of keys with the same dictionary_hash (found by search; if the hash function is ever changed they are ordinary keys)
DICT_COLLISIONS = [(b"c:naaa", b"c:rdqe"), (b"c:naab", b"c:rdqf"), (b"c:naac", b"c:rdqg"), (b"c:naad", b"c:rdqh")]


def dict_history(rng, hid, size0, peaks):
    """dictionary_new (size0); for each peak: entries are added (with replacements, removals, lookups of present and absent keys
    in between) until the dictionary holds `peak` entries, then every slot is printed and every key of the pool is looked up;
    between two peaks a block of entries is removed, so that the next insertions re-use freed slots (the insertion loop wraps)."""
    d = blank_decl(rng, "flat")
    d.ops = []
    h = History(hid, d)
    h.tags.add("dictionary")
    ref = {}
    npool = max(peaks) + 30
    style = rng.choice([b"sec%d:key%d", b"options:o%03d_%d", b"%d:%d", b"a:LongKeyName%04d-%d"])
    pool = [style % (i % 7, i) for i in range(npool)] + [k for pr in DICT_COLLISIONS for k in pr] + [b"k\xc3\xa4y:\xff", b"arguments:count", b"arguments"]
    rng.shuffle(pool)
    fresh = list(pool)

    def val():
        r = rng.random()
        return None if r < 0.12 else (b"" if r < 0.17 else rng.choice([b"v%d" % rng.randrange(1000), b"true", b"1.5e3", b"a b c", b"x" * rng.randrange(1, 40)]))

    def dset(k):
        v = val()
        ref[k] = v
        h.op("dset %s %s" % (hx(k), hx(v)), ("dict", len(ref), None, None))

    def dunset(k):
        ref.pop(k, None)
        h.op("dunset %s" % hx(k), ("dict", len(ref), None, None))

    def dget(k):
        h.op("dget %s" % hx(k), ("dict", len(ref), "get", ref.get(k, "!")))

    h.op("dnew %d" % size0, ("dict", 0, None, None))
    for pi, peak in enumerate(peaks):
        if pi > 0 and ref:
            # remove a block: the oldest entries, or a random third
            ks = list(ref.keys())
            block = ks[:rng.randrange(1, max(2, len(ks) // 2))] if rng.random() < 0.5 else rng.sample(ks, max(1, len(ks) // 3))
            for k in block:
                dunset(k)
                fresh.append(k)
        while len(ref) < peak:
            r = rng.random()
            if r < 0.72 and fresh:
                dset(fresh.pop())
            elif r < 0.82 and ref:
                dset(rng.choice(list(ref.keys())))                 # replace
            elif r < 0.88 and ref and len(ref) > 2:
                k = rng.choice(list(ref.keys()))
                dunset(k)
                fresh.insert(0, k)
            elif r < 0.91:
                dunset(rng.choice(fresh) if fresh else b"never:there")   # not present: nothing happens
            else:
                dget(rng.choice(pool))
            if not fresh and len(ref) < peak:
                break
        h.op("dall", ("dict", len(ref), "all", dict(ref)))
        for k in pool:
            dget(k)
    return h.end()


def dict_histories(rng, hid0, quick):
    out, hid = [], hid0
    plans = [(0, [T + dl]) for T in (128, 256) for dl in (-2, -1, 0, 1, 2)]
    plans += [(0, [129, 257, 513]), (0, [130, 120, 258, 1025]), (1, [127, 129]), (127, [128, 129, 257]), (128, [129]), (129, [129, 130, 259]), (200, [199, 201, 401]),
              (0, [rng.randrange(129, 600), rng.randrange(129, 600)]), (rng.randrange(2, 400), [rng.randrange(100, 900)])]
    if not quick:
        plans += [(rng.choice([0, 0, 1, 64, 300]), sorted(rng.randrange(1, 2100) for _ in range(rng.randrange(1, 4)))) for _ in range(60)]
    for size0, peaks in plans:
        out.append(dict_history(rng, hid, size0, peaks)); hid += 1
    return out


# ---- the application's variables between two calls; two options objects on the same variables ----
# sc_options.h: the variables belong to the application, the library keeps their addresses.  A parse / load that succeeds stores the
# value the text denotes - whatever the variable holds at that moment and whatever the library remembers of earlier calls (the copy
# of a string it keeps for freeing it, the key text of a key-value option).  Pattern: a value T goes in through the library
# (default, command line, file, parent or sub-options object), the variable is changed WITHOUT that object (op `assign`, or a second
# object declared on the same variable), then the same text T is given again.
STD_ITEMS = [("int", ord("i"), b"int", ("i3", 3)), ("sw", ord("x"), b"sw", None), ("sw", ord("q"), None, None),
             ("str", ord("s"), b"str", ("s" + hx(b"alpha"), b"alpha")), ("size", ord("z"), b"size", ("i7", 7)), ("bool", ord("b"), b"bool", ("i0", 0)),
             ("kvo", ord("k"), b"choice", ("s" + hx(b"ab"), 5)), ("dbl", ord("d"), b"dbl", ("d%x" % struct.unpack("<Q", struct.pack("<d", 0.5))[0], ("d", 0)))]
#                  variable: 0 int, 1 sw, 2 sw, 3 str, 4 size, 5 bool, 6 kvo, 7 dbl
SAME_TEXTS = [   # (variable, words that set it to T, foreign values the application assigns)
    (3, [b"-s", b"alpha"], ["s" + hx(b"override"), "s-", "s" + hx(b"alpha"), "s" + hx(b"")]),
    (3, [b"--str=two words"], ["s" + hx(b"two"), "s" + hx(b"two words and more")]),
    (0, [b"-i", b"3"], ["i63", "i0"]), (0, [b"--int=-2147483648"], ["i7fffffff"]),
    (4, [b"-z", b"7"], ["z0", "z7fffffffffffffff"]), (5, [b"-b1"], ["i0"]), (5, [b"--bool=no"], ["i1", "i5"]), (5, [b"-b"], ["i0"]),
    (6, [b"-k", b"cd"], ["i5", "ib", "i63"]), (6, [b"--choice=ab"], ["i-7"]),
    (7, [b"-d", b"0.5"], ["d%x" % struct.unpack("<Q", struct.pack("<d", 2.5))[0], "d0"]),
    (1, [b"-x"], ["i5", "i0", "i-3"]), (1, [b"-xxx"], ["i7"])]


def assign_histories(rng, hid0):
    out, hid = [], hid0

    def std_decl(shape="flat"):
        d = blank_decl(rng, shape)
        d.ops.append(("new", 0))
        for (ty, ch, name, init) in STD_ITEMS:
            d.add_typed(0, ty, ch, name, share=False, init=init)
        return d

    def H(d):
        nonlocal hid
        h = History(hid, d)
        hid += 1
        out.append(h)
        h.tags.add("aimed-assign")
        return h

    ini_of = {0: b"int = %s", 3: b"str = %s", 4: b"size = %s", 5: b"bool = %s", 6: b"choice = %s", 7: b"dbl = %s", 1: b"sw = %s"}
    for (var, words, foreign) in SAME_TEXTS:
        # the same command line before and after the application's assignment; then saved and loaded
        for tok in foreign:
            h = H(std_decl())
            argv = [b"prog"] + words + [b"rest"]
            h.parse(0, list(argv)); h.op("assign %d %s" % (var, tok)); h.parse(0, list(argv))
            if not (var in (1, 2) and tok.startswith("i-")):
                roundtrip(h, rng, b"as.ini")
            h.op("assign %d %s" % (var, tok)); h.parse(0, list(argv)); h.parse(0, [b"prog"] + words)
            h.end()
    # the declared default is T: nothing parsed yet, the variable assigned, then T on the command line and in a file
    defaults = [(3, "s" + hx(b"zz"), [b"--str=alpha"], b"[Options]\nstr = alpha\n", {3: b"alpha"}), (0, "i-5", [b"-i3"], b"[Options]\nint = 3\n", {0: 3}),
                (4, "z9", [b"--size", b"7"], b"[Options]\n-z = 7\n", {4: 7}), (5, "i1", [b"--bool=0"], b"[Options]\nbool = false\n", {5: 0}),
                (6, "i-7", [b"-kab"], b"[Options]\nchoice = ab\n", {6: 5}), (7, "d0", [b"--dbl=0.5"], b"[Options]\ndbl = 0.5\n", {7: ("d", libc_strtod(b"0.5")[0])})]
    for (var, tok, words, text, exp) in defaults:
        h = H(std_decl())
        h.op("assign %d %s" % (var, tok)); h.parse(0, [b"prog"] + words); roundtrip(h, rng, b"df.ini")
        h.op("file %s %s" % (hx(b"t.ini"), hx(text)))
        h.op("assign %d %s" % (var, tok)); h.op("load 0 %s" % hx(b"t.ini"), ("load", 0, exp))
        h.op("assign %d %s" % (var, tok)); h.op("load 0 %s" % hx(b"t.ini"), ("load", 0, exp))
        h.op("assign %d %s" % (var, tok)); h.parse(0, [b"prog"] + words)
        h.end()
    # T through a file, the assignment, the same file again; T through the file, then the same T on the command line
    h = H(std_decl())
    text = b"[Options]\nint = 11\nstr = from the file\nsize = 12\nbool = yes\nchoice = Mixed\ndbl = 2.5\nsw = 3\n"
    exp = {0: 11, 3: b"from the file", 4: 12, 5: 1, 6: 11, 7: ("d", libc_strtod(b"2.5")[0]), 1: 3}
    h.op("file %s %s" % (hx(b"all.ini"), hx(text)))
    h.op("load 0 %s" % hx(b"all.ini"), ("load", 0, exp))
    for (var, tok) in ((0, "i0"), (3, "s" + hx(b"not the file")), (4, "z0"), (5, "i0"), (6, "i5"), (7, "d0"), (1, "i0")):
        h.op("assign %d %s" % (var, tok))
    h.op("load 0 %s" % hx(b"all.ini"), ("load", 0, exp))
    h.op("assign 3 s-"); h.op("assign 0 i1")
    h.parse(0, [b"prog", b"--str=from the file", b"--int=11"]); roundtrip(h, rng, b"ff.ini")
    h.op("assign 3 %s" % ("s" + hx(b"x"))); h.op("load 0 %s" % hx(b"ff.ini"), ("load", 0, {3: b"from the file", 0: 11}))
    h.end()
    # parent and sub-options object share the string holder and the variables: T through one, assignment, T through the other
    d = blank_decl(rng, "sub")
    d.ops.append(("new", 1))
    for (ty, ch, name, init) in STD_ITEMS:
        d.add_typed(1, ty, ch, name, share=False, init=init)
    d.ops.append(("new", 0))
    d.add_typed(0, "int", ord("n"), b"own", share=False, init=("i0", 0))
    d.sub(0, 1, b"pre")
    d.sub(0, 1, b"Second")
    for (var, long_, val, tok) in ((3, b"str", b"alpha", "s" + hx(b"override")), (3, b"str", b"beta", "s-"), (0, b"int", b"3", "i9"), (6, b"choice", b"cd", "i5"), (7, b"dbl", b"0.5", "d0")):
        h = H(d)
        h.parse(0, [b"prog", b"--pre:" + long_ + b"=" + val]); h.op("assign %d %s" % (var, tok)); h.parse(1, [b"prog", b"--" + long_, val])
        h.op("assign %d %s" % (var, tok)); h.parse(0, [b"prog", b"--Second:" + long_, val]); h.op("assign %d %s" % (var, tok))
        h.parse(0, [b"prog", b"--pre:" + long_ + b"=" + val])
        if var != 6:
            roundtrip(h, rng, b"ps.ini")            # key-value: each copy has its own key text (F-C17h, recorded)
        h.op("assign %d %s" % (var, tok)); h.op("load 0 %s" % hx(b"ps.ini")) if var != 6 else None
        h.end()
    # two objects declared on the same variables, used alternately
    for rep_ in range(6):
        d = std_decl("twin")
        d.twin(0, 1)
        by_var = {}
        for it in d.objs[1]:
            by_var.setdefault(it.var, it)

        def word(it, val):
            if it.name is not None:
                return [b"--" + it.name + (b"=" + val if val is not None else b"")] if it.hasarg != 1 or rng.random() < 0.5 else [b"--" + it.name, val]
            return [b"-" + bytes([it.ch]) + (val or b"")]
        h = H(d)
        h.tags.add("aimed-twin")
        seq = [(3, b"alpha", b"beta"), (0, b"3", b"44"), (4, b"7", b"8"), (7, b"0.5", b"1.25"), (6, b"cd", b"ab"), (5, b"1", b"0")]
        rng.shuffle(seq)
        for (var, T, U) in seq:
            it0 = [it for it in d.objs[0] if it.var == var][0]
            it1 = by_var.get(var)
            if it1 is None or it1.ty != it0.ty:
                continue
            h.parse(0, [b"prog"] + word(it0, T))
            h.parse(1, [b"prog"] + word(it1, U))
            h.parse(0, [b"prog"] + word(it0, T))              # the same text through the first object again
            if rng.random() < 0.5:
                roundtrip(h, rng, b"tw%d.ini" % var, rng.choice([0, 1]))
            h.parse(1, [b"prog"] + word(it1, U))
            h.parse(1, [b"prog"] + word(it1, T))
            h.parse(0, [b"prog"] + word(it0, T))
        if 1 in by_var and by_var[1].ty == "sw":
            sw0 = [it for it in d.objs[0] if it.var == 1][0]
            h.parse(0, [b"prog", b"-x"]); h.parse(1, [b"prog"] + word(by_var[1], None) * 2); h.parse(0, [b"prog", b"--sw"])
        h.parse(0, [b"prog"]); roundtrip(h, rng, b"twa.ini", 0)
        h.parse(1, [b"prog"]); roundtrip(h, rng, b"twb.ini", 1)
        h.end()
    return out


def dict_entries(text):
    """number of dictionary entries of an ini file in ordinary layout: distinct lower-case section names + distinct section:key"""
    sec, seen = b"", set()
    for l in text.split(b"\n"):
        l = l.strip(SPACE)
        if l.startswith(b"[") and l.endswith(b"]"):
            sec = l[1:-1].strip(SPACE).lower()
            seen.add(sec)
        elif b"=" in l and not l.startswith((b"#", b";")):
            seen.add(sec + b":" + l.split(b"=", 1)[0].strip(SPACE).lower())
    return len(seen)


# ---------------------------------------------------------------------------------------------
# running
# ---------------------------------------------------------------------------------------------
def run_harness(ctx, exe, tmpdir, histories):
    """runs all histories; returns dict hid -> list of output lines (EV lines included), crashes: list of (hid, stderr tail)"""
    env = dict(os.environ, ASAN_OPTIONS="detect_leaks=0:abort_on_error=0", UBSAN_OPTIONS="print_stacktrace=1")
    env.pop("POSIXLY_CORRECT", None)
    out = {}
    crashes = []
    todo = list(histories)
    while todo:
        text = "\n".join("\n".join(h.lines) for h in todo) + "\n"
        rc, lines, err = ctx.run_lines([exe, tmpdir], text, timeout=600, env=env)
        cur = None
        done = set()
        for l in lines:
            if l.startswith("H "):
                cur = int(l.split()[1])
                out[cur] = [l]
            elif cur is not None and l != "":
                out[cur].append(l)
                if l.startswith("E "):
                    done.add(cur)
                    cur = None
        if rc == 0 and cur is None:
            break
        # the process died (or hung) inside history `cur`
        idx = [i for i, h in enumerate(todo) if h.hid == cur]
        if not idx:
            idx = [min([i for i, h in enumerate(todo) if h.hid not in done] or [len(todo) - 1])]
            cur = todo[idx[0]].hid
            out.setdefault(cur, ["H %d" % cur])
        m = re.search(r"(ERROR: AddressSanitizer[^\n]*|[^\n]*runtime error:[^\n]*|SEGV[^\n]*)", err)
        crashes.append((cur, "timeout (hang)" if rc == 124 else (m.group(1) if m else "exit %s: %s" % (rc, err[-300:]))))
        todo = todo[idx[0] + 1:]
    return out, crashes


def model_input(h, impl_lines):
    """the history with the getopt record of the implementation spliced into the parse lines"""
    evs = [l for l in impl_lines if l.startswith("EV")]
    k = 0
    out = []
    for l in h.lines:
        if l.startswith("parse "):
            if k >= len(evs):
                break              # the implementation died before this parse
            out.append("parse %s %s | %s" % (l.split()[1], evs[k], " ".join(l.split()[3:])))
            k += 1
        else:
            out.append(l)
    if out[-1] != "E":
        out.append("E")
    return out


def parse_dump(line):
    """'op r=.. | v0=i5 v1=s- .. [| f=x..]' -> (op, ret, vars dict, file bytes or None)"""
    parts = line.split(" |")
    head = parts[0].split()
    ret = int(head[1][2:]) if len(head) > 1 and head[1].startswith("r=") and re.match(r"-?\d+$", head[1][2:]) else None
    vs = {}
    for t in (parts[1].split() if len(parts) > 1 else []):
        m = re.match(r"v(\d+)=([izds])(.*)$", t)
        if m:
            k, body = m.group(2), m.group(3)
            vs[int(m.group(1))] = unhz(body) if k == "i" else int(body, 16) if k == "z" else ("d", int(body, 16)) if k == "d" else unhx(body)
    f = None
    if len(parts) > 2 and parts[2].strip().startswith("f="):
        f = unhx(parts[2].strip()[2:])
    return head[0], ret, vs, f


def dbl_close(a, b):
    x = struct.unpack("<d", struct.pack("<Q", a))[0]
    y = struct.unpack("<d", struct.pack("<Q", b))[0]
    if math.isnan(x) or math.isnan(y):
        return math.isnan(x) and math.isnan(y)
    if math.isinf(x) or math.isinf(y):
        return x == y
    return abs(x - y) <= 1e-15 * max(abs(x), abs(y))


def saved_key(it):
    """lower-case 'section:key' under which sc_options_save writes an item"""
    if it.name is None:
        return b"options:-" + bytes([it.ch]).lower()
    return (it.name if b":" in it.name else b"Options:" + it.name).lower()


def saved_entries(text):
    """entries of a file written by sc_options_save (plain reader for the writer's own layout)"""
    sec, out = b"", {}
    for l in text.split(b"\n"):
        if l.startswith(b"[") and l.endswith(b"]"):
            sec = l[1:-1]
        elif l.startswith(b"        ") and b" = " in l:
            k, v = l[8:].split(b" = ", 1)
            out[(sec + b":" + k).lower()] = v
    return out


def args_of(text):
    """the [Arguments] part of a saved file"""
    i = text.rfind(b"[Arguments]\n")
    return text[i:] if i >= 0 else None


def oracle(ctx, h, impl):
    """property oracle on the implementation's output of one history; returns number of judged facts"""
    res = [l for l in impl if not l.startswith("EV") and not l.startswith("H ")]
    # output line k of `res` belongs to op line k+... : decl lines and ops map one to one
    oplines = [l for l in h.lines[1:]]
    judged = 0
    by_idx = {}
    for (k, l) in enumerate(oplines):
        if k < len(res):
            by_idx[k + 1] = res[k]
    decl = h.decl

    def viol(key, text, extra=None):
        ctx.violation(key, "history %d: %s" % (h.hid, text), dict(hist_to_json(h), detail=extra))

    if res and res[-1].startswith("E ") and "mem=ok" not in res[-1]:
        viol("memory-unbalanced", "sc_memory_status is not balanced at the end of the history")
    for chk in h.checks:
        idx, kind = chk[0], chk[1]
        if idx not in by_idx or idx - 1 not in by_idx:
            continue
        line = by_idx[idx]
        prev = by_idx[idx - 1]
        op, ret, post, _ = parse_dump(line)
        _, _, pre, _ = parse_dump(prev)
        if kind == "strtol":
            v, er = ref_strtol(chk[2])
            exp = "strtol r=%s %d" % (hz(v), int(er))
            judged += 1
            if line != exp:
                viol("strtol-reference", "libc strtol(%r) gives %s, reference %s" % (chk[2], line, exp))
        elif kind == "samefill":
            judged += 1
            if by_idx.get(chk[2]) != line:
                viol("parse:depends-on-stack", "sc_options_parse of the same text gives `%s` after a stack of zero bytes and `%s` after a stack of bytes %d"
                     % (by_idx.get(chk[2], "?")[:120], line[:120], chk[3]))
        elif kind == "parse":
            o, argv = chk[2], chk[3]
            items = decl.objs[o if o < 4 else o - 4]
            eret, epost, erest, ok = ref_parse(items, decl.kvs, pre, argv)
            if not ok:
                continue
            judged += 1
            sig = "parse:" + ("fail" if eret == -1 else "ok")
            if eret != ret:
                viol(sig + ":return", "sc_options_parse(%s) returned %s, the text denotes %s" % (b" ".join(argv)[:200], ret, eret), dict(argv=[hx(a) for a in argv]))
            elif epost is not None:
                for v, x in epost.items():
                    if v in post and post[v] != x:
                        viol(sig + ":value", "sc_options_parse(%s): variable %d is %r, the text denotes %r" % (b" ".join(argv)[:200], v, post[v], x), dict(argv=[hx(a) for a in argv]))
                        break
        elif kind == "load":
            exp = chk[3]
            judged += 1
            if exp == "error":
                if ret != -1:
                    viol("load:invalid-accepted", "sc_options_load returned %s on a file with an invalid value" % ret)
            elif exp is not None:
                if ret != 0:
                    viol("load:valid-rejected", "sc_options_load returned %s on a valid file" % ret)
                else:
                    for v, x in exp.items():
                        same = dbl_close(post[v][1], x[1]) if isinstance(x, tuple) else post.get(v) == x
                        if not same:
                            viol("load:value", "sc_options_load: variable %d is %r, the file says %r" % (v, post.get(v), x))
                            break
        elif kind == "dict":
            judged += 1
            m_ = re.match(r"(\w+) r=(-?\d+) \| n=(-?\d+) size=(-?\d+)(.*)$", line)
            if not m_ or int(m_.group(2)) != 0:
                viol("dictionary:return", "operation `%s` on iniparser's dictionary answered `%s`" % (h.lines[idx][:80], line[:120]))
                continue
            n_, size_, rest_ = int(m_.group(3)), int(m_.group(4)), m_.group(5).split()
            if n_ != chk[2] or size_ < n_ or size_ < 128:
                viol("dictionary:count", "after `%s` the dictionary reports n=%d size=%d; it holds %d entries" % (h.lines[idx][:80], n_, size_, chk[2]))
            elif chk[3] == "get":
                want = "v=!" if chk[4] == "!" else "v=" + hx(chk[4])
                if rest_[:1] != [want]:
                    viol("dictionary:get", "dictionary_get (%r) gives %s, the history says %s (%d entries, size %d)"
                         % (unhx(h.lines[idx].split()[1]), rest_[:1], want, n_, size_))
            elif chk[3] == "all":
                got_ = {}
                dup_ = False
                for t_ in rest_:
                    p_ = t_.split(":")
                    if len(p_) != 3 or not re.match(r"^x([0-9a-f]{2})*$", p_[1]) or not re.match(r"^(-|x([0-9a-f]{2})*)$", p_[2]):
                        dup_ = True            # a line cut short by a crash: reported as a content mismatch (and as the crash)
                        continue
                    _, k_, v_ = p_
                    dup_ = dup_ or unhx(k_) in got_
                    got_[unhx(k_)] = unhx(v_)
                if dup_ or got_ != chk[4]:
                    bad_ = [k_ for k_ in set(got_) | set(chk[4]) if got_.get(k_, "!") != chk[4].get(k_, "!")]
                    viol("dictionary:content", "the slots of the dictionary (n=%d size=%d) do not hold the entries of the history: e.g. key %r is %r, expected %r%s"
                         % (n_, size_, bad_[:1], got_.get(bad_[0], "absent") if bad_ else None, chk[4].get(bad_[0], "absent") if bad_ else None, "; a key sits in two slots (or the line is incomplete)" if dup_ else ""))
        elif kind == "ret":
            judged += 1
            if ret != chk[2]:
                viol("return:" + op, "%s returned %s, expected %s" % (chk[3], ret, chk[2]))
        elif kind == "args":
            judged += 1
            _, r_, _, f_ = parse_dump(line)
            want = b"[Arguments]\n        count = %d\n" % len(chk[2]) + b"".join(b"        %d = %s\n" % (n, a) for n, a in enumerate(chk[2]))
            if r_ != 0 or args_of(f_) != want:
                viol("loadargs:arguments", "the argument list loaded from a hand-written file (%d arguments) is saved as %r (save returned %s)"
                     % (len(chk[2]), (args_of(f_) or b"")[:120] if f_ is not None else None, r_))
        elif kind == "roundtrip":
            i_save = chk[2]
            l_save, l_load, l_args, l_save2 = (by_idx.get(i_save + j) for j in range(4))
            if None in (l_save, l_load, l_args, l_save2):
                continue
            _, r1, vars1, f1 = parse_dump(l_save)
            _, r2, _, _ = parse_dump(l_load)
            _, r3, _, _ = parse_dump(l_args)
            _, r4, vars4, f2 = parse_dump(l_save2)
            if r1 != 0:
                continue            # nothing was saved (precondition not met)
            judged += 1
            ro = chk[3] if len(chk) > 3 else 0
            items = decl.objs[ro]
            # which ini format limits does this state touch?
            unsafe = None
            for it in items:
                if it.ty == "str" and vars1.get(it.var) is not None:
                    key = it.name.rsplit(b":", 1)[-1] if it.name is not None else b"-" + bytes([it.ch])
                    unsafe = unsafe or ini_unsafe(vars1[it.var], len(key))
            a1 = args_of(f1)
            argtxt = a1.split(b"\n        ")[2:] if a1 else []
            # the arguments themselves are known from the save text only when they are safe; take them from the parse line
            last_args = None
            for (ci, ck, *cd) in h.checks:
                if ck == "parse" and ci < i_save and cd[0] == ro:
                    last_args = ref_getopt(cd[1], items)[1]
            if last_args:
                for n, a in enumerate(last_args):
                    unsafe = unsafe or ini_unsafe(a, len(str(n)))
            fails = []
            if r2 != 0:
                fails.append("load of the saved file returned %s" % r2)
            if r3 != 0:
                fails.append("load_args of the saved file returned %s" % r3)
            nullstr = None
            if not fails:
                for it in items:
                    if it.ty not in FILE_TYPES:
                        continue
                    a, b = vars1.get(it.var), vars4.get(it.var + decl.vo)
                    if it.ty == "str" and a is None and b is not None and b == vars1.get(it.var + decl.vo):
                        # F-C17n: the variable holds NULL (assigned by the application), an unset string is not written (5918853), the load
                        # left the fresh variable exactly as it was.  The theorem speaks about written items only; recorded finding.
                        nullstr = nullstr or (it, b)
                        continue
                    if it.ty == "dbl":
                        same = dbl_close(a[1], b[1])
                    elif it.ty == "bool":
                        same = (a != 0) == (b != 0)
                    else:
                        same = a == b
                    if not same:
                        fails.append("%s option %s: saved %r, reloaded %r" % (it.ty, (it.name or bytes([it.ch])).decode("latin1"), a, b))
                if r4 == 0 and args_of(f1) != args_of(f2):
                    fails.append("argument list differs after the round trip")
                kvstale = False
                if r4 == 0 and not fails:
                    # key-value choices are observable only through the saved text
                    t1 = [l for l in f1.split(b"\n") if not l.startswith(b"[")]
                    t2 = [l for l in f2.split(b"\n") if not l.startswith(b"[")]
                    if not any(it.ty == "dbl" for it in items) and f1 != f2 and not nullstr:
                        fails.append("second save differs from the first")
            guard = getattr(h, "guards", {}).get(i_save)
            if nullstr and not fails:
                viol("null-string:unset-string-is-not-saved", "save/load round trip: str option %s holds NULL, nothing is written for it, the fresh object keeps %r"
                     % ((nullstr[0].name or bytes([nullstr[0].ch])).decode("latin1"), nullstr[1]), dict(saved=hx(f1)))
            note = ""
            if fails and "large-roundtrip" in h.tags:
                note = " [the saved file has %d dictionary entries: sections + keys + arguments]" % dict_entries(f1)
            if fails and guard:
                # the guard of C17_save_load_roundtrip holds for this state, so the theorem promises the round trip
                viol("roundtrip-under-guard:" + fails[0].split(":")[0].replace(" ", "-")[:40],
                     "roundtrip_ok_b holds for the saved state but the library does not reproduce it: " + "; ".join(fails[:3]) + note, dict(saved=hx(f1)))
            elif fails:
                # a key-value item whose SAVED text does not denote the value its (shared) variable holds:
                # the text copy of a sub-options item went stale because the variable was set through another object
                stale = False
                saved = saved_entries(f1)
                for it in items:
                    if it.ty == "kvo":
                        t = saved.get(saved_key(it))
                        if t is not None and decl.kvs[it.kv].get(t) != vars1.get(it.var):
                            stale = True
                # F-C17m: a finite double whose "%.16g" text lies above DBL_MAX (DBL_MAX prints as 1.797693134862316e+308): the saved
                # text overflows when it is read, the load fails as a whole
                def overflows(bits):
                    b2, er = libc_strtod(libc_fmt16(bits))
                    return (bits & ((1 << 63) - 1)) < 0x7FF0000000000000 and er and (b2 & ((1 << 63) - 1)) == 0x7FF0000000000000
                huge = any(it.ty == "dbl" and overflows(vars1[it.var][1]) for it in items)
                if unsafe:
                    key = "ini-unsafe-string:" + unsafe
                elif huge and r2 != 0:
                    key = "double-overflow:16-digit-text-exceeds-DBL_MAX"
                elif stale:
                    key = "keyvalue-stale-copy:saved-text-differs-from-variable"
                else:
                    key = "roundtrip:" + fails[0].split(":")[0].replace(" ", "-")[:40]
                viol(key, "save/load round trip: " + "; ".join(fails[:3]) + note, dict(saved=hx(f1)))
    return judged


def close_chain(tabs, kind, key):
    """close the libc oracle tables under text -> bits -> "%.16g" text -> bits ..., the chain a save/load cycle follows"""
    for _step in range(6):
        if kind == "T":
            bits, er = libc_strtod(unhx(key))
            tabs["T " + key] = "T %s %x %d" % (key, bits, int(er))
            kind, key = "F", "%x" % bits
        else:
            t = libc_fmt16(int(key, 16))
            tabs["F " + key] = "F %s %s" % (key, hx(t))
            kind, key = "T", hx(t)
        if kind + " " + key in tabs:
            break


def seed_tables(tabs, hs):
    """the large histories carry dozens of doubles each; the model reports one missing table entry per run, so their
    entries are computed beforehand (the same libc calls the rounds would make)"""
    for h in hs:
        if not (h.tags & {"large-roundtrip", "large-ini"}):
            continue
        items = h.decl.objs[0]
        for it in items:
            if it.ty == "dbl" and it.init.startswith("d"):
                close_chain(tabs, "F", it.init[1:])
        for chk in h.checks:
            if chk[1] == "parse":
                for (k, arg) in ref_getopt(chk[3], items)[0]:
                    if k is not None and items[k].ty == "dbl" and arg is not None:
                        close_chain(tabs, "T", hx(arg))
        for t in getattr(h, "dbl_texts", []):
            close_chain(tabs, "T", hx(t))


def translate_and_prove(ctx, groups):
    """T1 + proof obligations: regenerate the translator groups from the working tree, then re-check the theorems (which
    include `model = generated definition`).  A group that no longer translates, or a theorem that no longer checks against
    the regenerated definitions, is a broken tie.  coq/Gen is shared by all checks: if another process regenerated the group
    from another tree while the theorems were being checked, the step is repeated."""
    sys.path.insert(0, os.path.join(vlib.TOOLS, "c2g"))
    import genall
    r = None
    for attempt in range(3):
        st = genall.run(list(groups))
        nb, ob, di = len(ctx.broken), ctx.cov["obligations"], ctx.cov["discharged"]
        for g, s_ in st.items():
            ctx.log("c2g", g, s_)
            if s_.startswith("FAILED"):
                ctx.tie_broken("translator group " + g, s_)
        r = ctx.props()
        st2 = genall.run(list(groups))
        if not any("(changed)" in v for v in st2.values()):
            return r
        ctx.log("coq/Gen was regenerated by another process during the proof step: repeating")
        del ctx.broken[nb:]
        ctx.cov["obligations"], ctx.cov["discharged"] = ob, di
    return r


def run(ctx):
    translate_and_prove(ctx, ["OptionsC17", "DictC17"])
    v = ctx.variant(mpi="off", san=True)
    exe = ctx.cc([os.path.join(vlib.TOOLS, "harness", "c17_harness.c")], os.path.join(ctx.scratch, "c17_harness"), v, extra=["-Wl,--wrap=getopt_long"])
    tmpdir = os.path.join(ctx.scratch, "files")
    os.makedirs(tmpdir, exist_ok=True)
    rng = ctx.rng
    hs = []
    if ctx.replay:
        rp = json.load(open(ctx.replay)).get("replay", {})
        if "history" in rp:
            h = hist_from_json(rp)
            ctx.log("replaying the recorded history first (%d lines, %d oracle checks)" % (len(h.lines), len(h.checks)))
            hs.append(h)
    aimed = aimed_histories(rng, 1)
    aimed += large_histories(rng, 1 + len(aimed), ctx.quick)
    aimed += dict_histories(rng, 1 + len(aimed), ctx.quick)
    aimed += assign_histories(rng, 1 + len(aimed))
    hs += aimed
    nrand = 400 if ctx.quick else 12000
    hid = 1 + len(aimed)
    for _ in range(nrand):
        for _try in range(20):
            try:
                hs.append(gen_history(rng, hid, ctx.quick))
                break
            except RuntimeError:
                continue
        hid += 1
    impl, crashes = run_harness(ctx, exe, tmpdir, hs)
    ctx.log("library: %d histories run (%d aimed incl. %d large and dictionary histories)" % (len(hs), len(aimed), sum(1 for h in aimed if h.tags & {"large-roundtrip", "large-ini", "dictionary"})))
    byid = {h.hid: h for h in hs}
    for (hid_, what) in crashes:
        h = byid[hid_]
        n = len([l for l in impl.get(hid_, []) if not l.startswith("EV")])
        failing = h.lines[n] if n < len(h.lines) else "?"
        sig = failing.split()[0]
        if sig == "loadargs":
            # F-C17i: a heading [Arguments:count] stores the key with a NULL value
            fname = failing.split()[2]
            content = [unhx(l.split()[2]) for l in h.lines[:n] if l.startswith("file " + fname + " ")]
            if content and re.search(rb"(?mi)^\s*\[\s*arguments:count\s*\]\s*$", content[-1]) and "null pointer" in what:
                sig = "loadargs:heading-named-arguments-count"
        ctx.violation("crash:" + sig, "history %d: the library crashed (%s) in operation `%s`" % (hid_, what, failing[:200]),
                      dict(hist_to_json(h), sanitizer=what))
    # model run on the same histories (+ recorded getopt events, + libc oracle tables for doubles).  The model reports the
    # first table entry a history misses; the run is repeated with the completed tables for the histories that missed one
    # (a history without ORACLE_MISS line is complete: the driver starts every history from the empty world)
    minput = {}
    for h in hs:
        if h.hid in impl:
            minput[h.hid] = model_input(h, impl[h.hid])
    tabs = {}
    seed_tables(tabs, hs)
    model = {}
    try:
        mexe = ctx.model("c17")
        pending = [h.hid for h in hs if h.hid in minput]
        for _round in range(14):
            text = "\n".join(list(tabs.values()) + [l for hid_ in pending for l in minput[hid_]]) + "\n"
            rc2, mlines, err2 = ctx.run_lines([mexe], text, timeout=1200)
            if rc2 != 0:
                ctx.tie_broken("c17 model run", "exit %s: %s" % (rc2, err2[-1500:]))
                break
            got = {}
            cur = None
            for l in mlines:
                if l.startswith("H "):
                    cur = int(l.split()[1])
                    got[cur] = [l]
                elif cur is not None and l != "":
                    got[cur].append(l)
            miss = set()
            still = []
            for hid_ in pending:
                m_ = [l for l in got.get(hid_, []) if l.startswith("ORACLE_MISS")]
                if m_:
                    miss.update(m_)
                    still.append(hid_)
                else:
                    model[hid_] = got.get(hid_, [])
            pending = still
            if not pending:
                break
            for m in sorted(miss):
                _, kind, key = m.split()
                close_chain(tabs, kind, key)
        else:
            ctx.tie_broken("c17 model run", "libc oracle tables did not converge")
    except vlib.BuildError as e:
        ctx.tie_broken("c17 model build", str(e)[-1500:])
    ctx.log("model: %d histories run, %d libc oracle table entries" % (len(model), len(tabs)))
    dist = {}
    ndis = 0
    judged = 0
    crashed = set(c[0] for c in crashes)
    nguard = [0, 0]
    for h in hs:
        il = [l for l in impl.get(h.hid, []) if not l.startswith("EV")]
        ml_all = model.get(h.hid, [])
        # "G b" lines: the Coq guard roundtrip_ok_b on the state of the save that follows
        guards = {}
        ml = []
        for l in ml_all:
            if l.startswith("G "):
                guards[len(ml)] = l == "G 1"
            else:
                ml.append(l)
        h.guards = guards
        for t in h.tags:
            dist[t] = dist.get(t, 0) + 1
        dist["shape-" + h.decl.shape] = dist.get("shape-" + h.decl.shape, 0) + 1
        nops = len(h.lines) - 2 - h.ndecl
        ctx.count_case(tuple(h.lines[1:]), nontrivial=nops >= 1)
        judged += oracle(ctx, h, impl.get(h.hid, []))
        nguard[0] += sum(1 for g in guards.values() if g)
        nguard[1] += sum(1 for g in guards.values() if not g)
        if h.hid in crashed:
            continue
        if len(il) != len(ml) or any(a != b for a, b in zip(il, ml)):
            ndis += 1
            k = next((i for i, (a, b) in enumerate(zip(il, ml)) if a != b), min(len(il), len(ml)))
            if ndis <= 3:
                ctx.tie_broken("correspondence (history %d, operation `%s`)" % (h.hid, h.lines[k][:120] if k < len(h.lines) else "?"),
                               "library: %s | model: %s" % (il[k][:400] if k < len(il) else "<missing>", ml[k][:400] if k < len(ml) else "<missing>"))
                path = os.path.join(vlib.VERIF, "evidence", "replay", "C17-disagreement-%d.json" % ndis)
                json.dump(dict(property="C17", replay=hist_to_json(h), library=il[k:k + 1], model=ml[k:k + 1]), open(path, "w"), indent=1)
    # the large histories: how many dictionary entries did the files really have (the aim is checked, not assumed)
    ent = {"large-roundtrip": [], "large-ini": []}
    for h in hs:
        for tag in ent:
            if tag in h.tags:
                il = [l for l in impl.get(h.hid, []) if not l.startswith("EV") and not l.startswith("H ")]
                got = None
                for k, l in enumerate(h.lines[1:]):
                    if tag == "large-ini" and l.startswith("file "):
                        got = dict_entries(unhx(l.split()[2]))
                        break
                    if tag == "large-roundtrip" and l.startswith("save ") and k < len(il):
                        f_ = parse_dump(il[k])[3]
                        got = dict_entries(f_) if f_ else None
                        break
                ent[tag].append(got)
                if getattr(h, "want_entries", got) != got:
                    ctx.log("note: history %d (%s) was aimed at %s dictionary entries and has %s" % (h.hid, tag, h.want_entries, got))
    ctx.notes["large_history_dictionary_entries"] = dict((k, sorted(x for x in v_ if x is not None)) for k, v_ in ent.items())
    ctx.cov["disagreements_checked"] = sum(len(v_) for v_ in impl.values())
    ctx.cov["rule"] = ("histories = a declared option set (all ten option types, short/long names, flat / sub-options / nested sub-options with shared "
                       "variables, declared twice: base + fresh copy) followed by 2-9 random operations (parse of generated valid / invalid vectors, load of "
                       "generated / mutated / random-byte files, load_args, errno perturbation, save -> load -> load_args -> save round trip; every parse starts "
                       "from a zero-filled stack, `dirty c` fills it with the byte c), plus aimed "
                       "histories at every numeric boundary text, boolean / key-value spelling, ini-unsafe string class, line-length boundary, and at each "
                       "repaired defect; large histories sized by the number of entries of iniparser's dictionary (sections + keys + count + arguments; it starts with 128 "
                       "slots and doubles): 100..150 options (thorough: ..400) of mixed types with the same sub-options object under one or two prefixes and 0..400 "
                       "arguments, parsed, saved, loaded into the fresh copy and compared value by value, at 126..130, 254..258, 510..514 entries and random sizes, each "
                       "twice on the same objects; hand-written ini files with 127..1026 entries in split and permuted sections, keys in any case, repeated keys, "
                       "undeclared keys, every declared key looked up, loaded into both copies; histories on iniparser's dictionary itself (dictionary_new with "
                       "several initial sizes, set / replace / unset / get of present and absent keys incl. keys with equal hash, filled to 126..130, 254..258, 513, "
                       "1025 entries, blocks removed and refilled, every slot printed and every key looked up at each peak); "
                       "the application's own assignments to option variables between calls (op `assign`, every type) followed by an input that was accepted before, "
                       "and a second options object declared on the same variables (shape `twin`) used alternately for parse / load / save, in the random histories and "
                       "in 43 aimed ones (same text before and after the assignment through command line, default, file, parent / sub-options object, twin object); "
                       "every output line (return value, all variables, saved text; n, size and the slots of the dictionary) is compared with the model; a history is non-trivial if "
                       "it contains at least one operation after the declarations; distinct = distinct history text")
    ctx.cov["exhaustive"] = False
    ctx.notes["history_tags"] = dist
    ctx.notes["oracle_facts_judged"] = judged
    ctx.notes["model_disagreements"] = ndis
    ctx.notes["crashes"] = len(crashes)
    ctx.notes["libc_oracle_entries"] = len(tabs)
    ctx.notes["roundtrip_guard_true_false"] = nguard
    for h in hs[:: max(1, len(hs) // 5)][:5]:
        ctx.sample({"history": h.hid, "tags": sorted(h.tags), "ops": [l[:80] for l in h.lines[-6:-1]]})
    ctx.cov["trusted_base"] = ["T1: sc_options_string_set / sc_options_string_get (what they free, duplicate, compare and store) are proved EQUAL to the model's string_set / string_get (the variable is written unconditionally; get returns the text of the variable): holder_set / holder_get of Gen/OptionsC17.v (SC_FREE / SC_STRDUP are effects, strcmp symbolic, `X = Y = e` read as `Y = e; X = Y`)",
                               "T1 (group DictC17): mem_double, the growth step / search loops / insertion loop / stores of dictionary_set, dictionary_get, the search and removal of dictionary_unset and the sizes of dictionary_new are proved EQUAL to Gen/DictC17.v, regenerated from iniparser/dictionary.c on every run (d->key / d->val / d->hash are read through functions of the slot index, strcmp (key, d->key[i]) and xstrdup are function parameters, the branch of a found key in dictionary_set is read as `break`, `if (++i == n)` as `++i; if (i == n)`; dictionary_hash is an arbitrary function of the key in every theorem and is not compared)",
                               "T1: the range rules of the int / size_t / double conversions (.ini reader and command line), the boolean spellings, the switch increment, the getopt reset, the colon test of the loader and the heading / prefix decisions of sc_options_save are proved EQUAL to Gen/OptionsC17.v, regenerated from the working tree on every run (tools/c2g + tools/c2g/slicelib.py + clang-14 JSON AST trusted; strtol / strtod / strspn / strncmp / strrchr results and HUGE_VAL are symbolic parameters)",
                               "getopt_long of libc is an oracle: model and library consume the recorded event stream; GetoptModel.v is validated against it",
                               "strtod / \"%.16g\" of libc are oracle tables (Section variables in the theorems)",
                               "strtol model of OptionsModel.v: validated against libc on every run (op strtol) and through every int/size_t option",
                               "isspace/tolower/sscanf of libc in the \"C\" locale as transcribed in ini_line"]
    ctx.assumptions += ["documented preconditions: size_t values <= LLONG_MAX, key-value default exists, save only after a successful parse/load_args",
                        "option names and prefixes are identifiers ([A-Za-z0-9_-], not starting with '-'), distinct case-insensitively within one object",
                        "\"C\" locale, POSIXLY_CORRECT unset, JSON support not configured"]
    return "proof"
