"""C15 - rank ranges cover every peer and decode symmetrically.

T2: the extracted model (coq/C15/RangesModel.v) against sc_ranges_compute / sc_ranges_decode /
sc_ranges_statistics of the freshly built library: exhaustively for P <= 7 (all 0/1 vectors, all own ranks,
budgets 1..4) and for all families of vectors with P <= 3 (P = 4 in the thorough tier), random up to P = 200;
a P-rank run is emulated in one process (compute per rank, maxima and gather in the harness, decode per rank);
sc_ranges_adaptive + sc_ranges_decode themselves run on the simulated MPI (tools/simmpi, all schedule adversaries)
and under OpenMPI for a few P; sc_notify_payload with type ranges (num_ranges 1..5) runs on the simulated MPI as the user of the
ranges.  An independent Python oracle restates the property on every implementation output.
T1: group RangesC15 (tools/c2g/groups_C15.py) is regenerated from the working tree before the 85 theorems are checked: scalar slices of
sc_ranges_compute / sc_ranges_decode and, with ranges[e] / procs[e] as memory reads, the claim loop, the whole eviction scan, the qsort call and
its comparator, the whole bodies of sc_ranges_adaptive and sc_ranges_statistics (coq/C15/RangesGen.v, RangesGenLoops.v)."""
import os, sys, json, itertools
import vlib


def hx(v):
    return ("-%x" % -v) if v < 0 else ("%x" % v)


def unhx(s):
    return -int(s[1:], 16) if s.startswith("-") else int(s, 16)


def errsum(err):
    """the informative lines of a sanitizer / abort report"""
    m = [l.strip() for l in err.split("\n") if "ERROR" in l or "runtime error" in l or "SUMMARY" in l or "Abort" in l or "abort" in l]
    return (" | ".join(m)[:500]) or err.strip()[-400:].replace("\n", " | ")


def first_last(v, rank):
    ps = [j for j in range(len(v)) if v[j] != 0 and j != rank]
    return (ps[0], ps[-1]) if ps else (len(v), -1)


# ------------------------------------------------------------------------------------------------
# oracle
# ------------------------------------------------------------------------------------------------
def check_compute(v, rank, nr, n, ranges):
    """the property on one output of sc_ranges_compute; returns None or a description of the violation"""
    P = len(v)
    peers = [j for j in range(P) if v[j] != 0 and j != rank]
    if len(ranges) != nr:
        return "array has %d pairs instead of %d" % (len(ranges), nr)
    if n > nr or n < 0:
        return "%d ranges with a budget of %d" % (n, nr)
    if any(r != (-1, -2) for r in ranges[n:]):
        return "unused entries are not (-1,-2): %s" % (ranges[n:],)
    if not peers:
        return None if n == 0 else "ranges %s without peers" % (ranges[:n],)
    f = ranges[:n]
    if n == 0:
        return "no range although there are peers %s" % peers[:5]
    if any(lo > hi for lo, hi in f):
        return "range with first > last: %s" % f
    if f[0][0] != peers[0] or f[-1][1] != peers[-1]:
        return "ranges %s do not start at the first peer %d / end at the last peer %d" % (f, peers[0], peers[-1])
    for (a, b), (c, d) in zip(f, f[1:]):
        if not b + 1 < c:
            return "ranges %s are not sorted and separated by a non-member" % f
        if any(v[j] != 0 and j != rank for j in range(b + 1, c)):
            return "a peer lies between the ranges (%d,%d) and (%d,%d)" % (a, b, c, d)
    pset = set(peers)
    for lo, hi in f:
        if lo not in pset or hi not in pset:
            return "range (%d,%d) does not begin and end at a peer: the gap next to it is not a whole run of non-peers" % (lo, hi)
    cov = set(j for lo, hi in f for j in range(lo, hi + 1))
    miss = [p for p in peers if p not in cov]
    if miss:
        return "peer %d is not covered by %s" % (miss[0], f)
    omitted = [c - b - 1 for (a, b), (c, d) in zip(f, f[1:])]
    absorbed = []
    for p, q in zip(peers, peers[1:]):
        if q - p > 1 and any(lo <= p and q <= hi for lo, hi in f):
            absorbed.append(q - p - 1)
    if omitted and absorbed and min(omitted) < max(absorbed):
        return "an omitted gap of length %d is shorter than an absorbed gap of length %d (ranges %s)" % (min(omitted), max(absorbed), f)
    return None


def check_decode(P, rows, R, S, peers_of=None):
    """rows[p] = list of (lo,hi) of rank p (only the filled ones); R, S = decoded receivers/senders per rank"""
    for p in range(P):
        for name, l in (("receivers", R[p]), ("senders", S[p])):
            if p in l:
                return "rank %d is among its own %s" % (p, name)
            if any(not (x < y) for x, y in zip(l, l[1:])):
                return "%s of rank %d are not ascending: %s" % (name, p, l)
            if any(not (0 <= x < P) for x in l):
                return "%s of rank %d out of range: %s" % (name, p, l)
        want = sorted(set(j for lo, hi in rows[p] for j in range(lo, hi + 1) if j != p))
        if R[p] != want:
            return "receivers of rank %d are %s, its ranges %s contain %s" % (p, R[p], rows[p], want)
        if peers_of is not None:
            miss = [q for q in peers_of[p] if q not in R[p]]
            if miss:
                return "peer %d of rank %d is not among its decoded receivers %s" % (miss[0], p, R[p])
    for p in range(P):
        for q in range(P):
            if p != q and ((q in R[p]) != (p in S[q])):
                return "asymmetric: %d %s receivers(%d) but %d %s senders(%d)" % (q, "in" if q in R[p] else "not in", p, p, "in" if p in S[q] else "not in", q)
    return None


def parse_rank_part(part, nr):
    """'n lo hi .. :R a b:S c d[:G ...]' -> n, ranges, R, S, G"""
    secs = part.split(":")
    w = secs[0].split()
    n = unhx(w[0]) if w else None
    ranges = [(unhx(w[1 + 2 * i]), unhx(w[2 + 2 * i])) for i in range((len(w) - 1) // 2)]
    d = {}
    for s in secs[1:]:
        d[s[0]] = [unhx(x) for x in s[1:].split()]
    return n, ranges, d.get("R", []), d.get("S", []), d.get("G")


def check_adaptive(vecs, nr, lines):
    """lines[r] = what rank r printed after sc_ranges_adaptive + sc_ranges_decode ('maxpeers maxwin;n lo hi ..:R ..:S ..:G table')"""
    P = len(vecs)
    heads = [lines[r].split(";")[0] for r in range(P)]
    parts = [parse_rank_part(lines[r].split(";")[1], nr) for r in range(P)]
    if len(set(heads)) != 1:
        return "the maxima differ between the ranks: %s" % heads
    if len(set(tuple(p[4]) for p in parts)) != 1:
        return "the global table differs between the ranks"
    for r in range(P):
        d2 = check_compute(vecs[r], r, nr, parts[r][0], parts[r][1])
        if d2:
            return "rank %d: %s" % (r, d2)
    mp, mw = [unhx(x) for x in heads[0].split()]
    want_mp = max([sum(1 for j in range(P) if vecs[r][j] > 0 and j != r) for r in range(P)] + [0])
    want_mw = max([parts[r][0] for r in range(P)] + [0])
    if (mp, mw) != (want_mp, want_mw):
        return "maxima (%d, %d), the largest peer count / number of ranges are (%d, %d)" % (mp, mw, want_mp, want_mw)
    want_tbl = [x for r in range(P) for pr in parts[r][1][:mw] for x in pr]
    if list(parts[0][4]) != want_tbl:
        return "the global table %s is not the ranks' first %d ranges in rank order %s" % (parts[0][4][:24], mw, want_tbl[:24])
    peers_of = [[j for j in range(P) if vecs[r][j] != 0 and j != r] for r in range(P)]
    return check_decode(P, [parts[r][1][:parts[r][0]] for r in range(P)], [p[2] for p in parts], [p[3] for p in parts], peers_of)


def gen_adaptive(rng, P, n):
    acases = []
    for _ in range(n):
        dens = rng.choice([0.1, 0.4, 0.8])
        vals = rng.choice([[1], [1], [1, 2, -1], [1, 5, -3]])       # negative entries are peers but are not counted by the first maximum
        vecs = [[(rng.choice(vals) if rng.random() < dens else 0) for _ in range(P)] for _ in range(P)]
        nr = rng.choice([1, 2, 3, 4, 5])
        acases.append((vecs, nr, "A %x %x %s" % (nr, P, " ".join(hx(x) for vv in vecs for x in vv))))
    return acases


# ------------------------------------------------------------------------------------------------
# cases
# ------------------------------------------------------------------------------------------------
def gen_cases(ctx):
    rng = ctx.rng
    cases = []          # (kind, meta, text)
    # exhaustive: P <= 7, all 0/1 vectors, all own ranks, budgets 1..4
    for P in range(1, 8):
        for bits in range(1 << P):
            v = [(bits >> j) & 1 for j in range(P)]
            for rank in range(P):
                f, l = first_last(v, rank)
                for nr in range(1, 5):
                    cases.append(("C", (v, rank, nr), "C %s %s %s %x %x %s" % (hx(rank), hx(f), hx(l), nr, P, " ".join(map(hx, v)))))
    nex = len(cases)
    # all families for P <= 3 (4 in the thorough tier)
    for P in range(1, 4 if ctx.quick else 5):
        for fam in itertools.product(range(1 << P), repeat=P):
            vecs = [[(b >> j) & 1 for j in range(P)] for b in fam]
            for nr in range(1, 5):
                cases.append(("T", (vecs, nr), "T %x %x %s" % (nr, P, " ".join(hx(x) for v in vecs for x in v))))
    nfam = len(cases) - nex
    # random compute cases up to P = 200: densities from almost empty to almost full, gaps of equal length (ties)
    nrand = 1500 if ctx.quick else 30000
    for _ in range(nrand):
        P = rng.choice([8, 9, 12, 16, 31, 32, 33, 64, 100, 199, 200, rng.randrange(8, 201)])
        style = rng.random()
        if style < 0.3:
            dens = rng.choice([0.02, 0.1, 0.5, 0.9, 0.98])
            v = [rng.choice([1, 1, 2, 7, -1]) if rng.random() < dens else 0 for _ in range(P)]
        elif style < 0.7:
            # blocks of peers separated by gaps drawn from a small set of lengths: many ties for the eviction
            v, j = [0] * P, rng.randrange(0, 4)
            lens = rng.choice([[1], [1, 2], [2, 2, 3], [1, 2, 3, 5], [4]])
            while j < P:
                for _ in range(rng.randrange(1, 4)):
                    if j < P:
                        v[j] = 1
                        j += 1
                j += rng.choice(lens)
        else:
            v = [0] * P
            for _ in range(rng.randrange(0, 6)):
                v[rng.randrange(P)] = 1
        rank = rng.randrange(P)
        if rng.random() < 0.5:
            v[rank] = rng.choice([0, 1])
        nr = rng.choice([1, 2, 3, 4, 5, 8, 25, rng.randrange(1, 40)])
        f, l = first_last(v, rank)
        cases.append(("C", (v, rank, nr), "C %s %s %s %x %x %s" % (hx(rank), hx(f), hx(l), nr, P, " ".join(map(hx, v)))))
    # random LARGE compute cases: P up to 2000, budgets 1..30, peer densities from sparse to dense, own flag set or not; aimed at the
    # case splits of the eviction proofs: many evictions (gaps >> budget), ties at the threshold length (block patterns with few
    # gap lengths), all gaps different (no ties: the kept set is unique), no eviction at all (budget > gaps)
    nlarge = 120 if ctx.quick else 1500
    for k in range(nlarge):
        P = rng.choice([500, 1000, 1999, 2000, rng.randrange(201, 2001)])
        style = k % 5
        small_nr = False
        if style == 4:
            # two to four peers far apart, budget 1..3: EVERY slot holds a gap of many hundred ranks when the eviction scan runs
            # (its start value num_procs + 1 must exceed all of them)
            v = [0] * P
            for _ in range(rng.randrange(2, 5)):
                v[rng.randrange(P)] = 1
            v[0] = v[P - 1] = rng.choice([0, 1])
            small_nr = True
        elif style == 0:
            dens = rng.choice([0.002, 0.01, 0.05, 0.3, 0.7, 0.95, 0.995])
            v = [1 if rng.random() < dens else 0 for _ in range(P)]
        elif style == 1:
            v, j = [0] * P, rng.randrange(0, 10)
            lens = rng.choice([[1], [1, 2], [3, 3, 4], [1, 2, 3, 5, 8], [7]])
            while j < P:
                for _ in range(rng.randrange(1, 5)):
                    if j < P:
                        v[j] = rng.choice([1, 1, 3, -2])
                        j += 1
                j += rng.choice(lens)
        elif style == 2:
            # gaps of pairwise different lengths 1, 2, 3, .. in random order: no ties
            v, j = [0] * P, 0
            ls = list(range(1, 60))
            rng.shuffle(ls)
            for L in ls:
                if j >= P:
                    break
                v[j] = 1
                j += 1 + L
            if j < P:
                v[j] = 1
        else:
            v = [0] * P
            for _ in range(rng.randrange(2, 40)):
                v[rng.randrange(P)] = 1
        rank = rng.randrange(P)
        v[rank] = rng.choice([0, 1, 1, 5])
        nr = rng.randrange(1, 4) if small_nr else rng.randrange(1, 31)
        f, l = first_last(v, rank)
        cases.append(("C", (v, rank, nr), "C %s %s %s %x %x %s" % (hx(rank), hx(f), hx(l), nr, P, " ".join(map(hx, v)))))
    # random families (emulated P-rank runs)
    for _ in range(150 if ctx.quick else 3000):
        P = rng.choice([2, 3, 4, 5, 6, 7, 8, 12, 17, 32, rng.randrange(2, 41)])
        if rng.random() < 0.03:
            P = rng.choice([100, 200])
        dens = rng.choice([0.05, 0.2, 0.5, 0.8])
        vals = rng.choice([[1, 1, 3], [1], [1, -1, 2], [-2, 4]])
        vecs = [[(rng.choice(vals) if rng.random() < dens else 0) for _ in range(P)] for _ in range(P)]
        if rng.random() < 0.3:
            for r in range(P):
                vecs[r][r] = rng.choice(vals)          # procs[rank] != 0 on every rank: the own rank is never a peer
        nr = rng.choice([1, 2, 3, 4, 5, 6, 25])
        cases.append(("T", (vecs, nr), "T %x %x %s" % (nr, P, " ".join(hx(x) for v in vecs for x in v))))
    # random well-formed tables for decode alone
    for _ in range(300 if ctx.quick else 5000):
        P = rng.randrange(1, 30)
        M = rng.randrange(0, 5)
        rows = []
        for p in range(P):
            k = rng.randrange(0, M + 1)
            pts = sorted(rng.sample(range(0, 2 * P), min(2 * k, 2 * P)))
            row, prev = [], -2
            for i in range(0, len(pts) - 1, 2):
                lo, hi = pts[i] // 2 + 0, pts[i + 1] // 2
                if lo > prev + 1 and lo <= hi < P:
                    row.append((lo, hi))
                    prev = hi
            row = row[:M]
            rows.append(row + [(-1, -2)] * (M - len(row)))
        cases.append(("D", (P, M, rows), "D %x %x %s" % (P, M, " ".join("%s %s" % (hx(a), hx(b)) for r in rows for a, b in r))))
    return cases, nex, nfam


def translate_and_prove(ctx, groups):
    """T1 + proof obligations: regenerate the translator groups from the working tree, then re-check the theorems (which
    include `model = generated definition`).  A group that no longer translates, or a theorem that no longer checks against
    the regenerated definitions, is a broken tie.  coq/Gen is shared by all checks: if another process regenerated the group
    from another tree while the theorems were being checked, the step is repeated."""
    sys.path.insert(0, os.path.join(vlib.TOOLS, "c2g"))
    import genall
    r = None
    for attempt in range(3):
        st = genall.run(list(groups))
        nb, ob, di = len(ctx.broken), ctx.cov["obligations"], ctx.cov["discharged"]
        for g, s_ in st.items():
            ctx.log("c2g", g, s_)
            if s_.startswith("FAILED"):
                ctx.tie_broken("translator group " + g, s_)
        r = ctx.props()
        st2 = genall.run(list(groups))
        if not any("(changed)" in v for v in st2.values()):
            return r
        ctx.log("coq/Gen was regenerated by another process during the proof step: repeating")
        del ctx.broken[nb:]
        ctx.cov["obligations"], ctx.cov["discharged"] = ob, di
    return r


def run(ctx):
    translate_and_prove(ctx, ["RangesC15"])
    harness = os.path.join(vlib.TOOLS, "harness", "c15_harness.c")
    env = dict(os.environ, ASAN_OPTIONS="detect_leaks=0")
    v = ctx.variant(mpi="off", san=True)
    exe = ctx.cc([harness], os.path.join(ctx.scratch, "c15_serial"), v)
    cases, nex, nfam = gen_cases(ctx)
    rp = {}
    if ctx.replay:
        rp = json.load(open(ctx.replay)).get("replay", {}) or {}
        if "case" in rp:
            kind = rp["case"][0]
            w = rp["case"].split()
            if kind == "C":
                vv = [unhx(x) for x in w[6:]]
                cases = [("C", (vv, unhx(w[1]), unhx(w[4])), rp["case"])] + cases[:20]
            elif kind == "T":
                P, nr = unhx(w[2]), unhx(w[1])
                xs = [unhx(x) for x in w[3:]]
                cases = [("T", ([xs[r * P:(r + 1) * P] for r in range(P)], nr), rp["case"])] + cases[:20]
    text = "\n".join(c[2] for c in cases) + "\n"
    rc, impl, err = ctx.run_lines([exe], text, timeout=300 if ctx.quick else 1800, env=env)
    impl = impl[:-1] if impl and impl[-1] == "" else impl
    if rc != 0:
        k = min(len(impl), len(cases) - 1)
        ctx.violation("crash:serial", "libsc ends the process (exit %s) in case '%s...': %s" % (rc, cases[k][2][:200], errsum(err)),
                      dict(case=cases[k][2], stderr=err[-1500:]))
        cases = cases[:len(impl)]
        text = "\n".join(c[2] for c in cases) + "\n"
    try:
        mexe = ctx.model("c15")
        rc2, model, err2 = ctx.run_lines([mexe], text, timeout=1200)
        if rc2 != 0:
            ctx.tie_broken("c15 model run", "exit %s: %s" % (rc2, err2[-800:]))
            model = None
    except vlib.BuildError as e:
        ctx.tie_broken("c15 model build", str(e)[-1500:])
        model = None
    nviol = ndis = 0
    dist = {}
    for i, (kind, meta, line) in enumerate(cases):
        io = impl[i] if i < len(impl) else "<missing>"
        dev = None
        nontriv = True
        try:
            if kind == "C":
                vv, rank, nr = meta
                w = io.split(" E ")
                nums = [unhx(x) for x in w[0].split()]
                n, ranges = nums[0], [(nums[1 + 2 * k], nums[2 + 2 * k]) for k in range((len(nums) - 1) // 2)]
                dev = check_compute(vv, rank, nr, n, ranges)
                if dev is None:
                    cov = set(j for lo, hi in ranges[:n] for j in range(lo, hi + 1))
                    want = sum(1 for j in cov if j != rank and vv[j] == 0)
                    if w[1].strip() != hx(want):
                        dev = "sc_ranges_statistics counts %s covered non-peers, the ranges cover %d" % (w[1].strip(), want)
                nontriv = n > 0
                dk = "C P<=7" if len(vv) <= 7 else ("C 7<P<=200" if len(vv) <= 200 else "C 200<P<=2000")
                dist[dk] = dist.get(dk, 0) + 1
                if len(vv) > 7:
                    ps_ = [j for j in range(len(vv)) if vv[j] != 0 and j != rank]
                    ngaps = sum(1 for a_, b_ in zip(ps_, ps_[1:]) if b_ - a_ > 1)
                    ek = "C P>7: no eviction (gaps < budget)" if ngaps < nr else "C P>7: evictions (gaps >= budget)"
                    dist[ek] = dist.get(ek, 0) + 1
                    if vv[rank] != 0:
                        dist["C P>7: procs[rank] != 0"] = dist.get("C P>7: procs[rank] != 0", 0) + 1
            elif kind == "T":
                vecs, nr = meta
                P = len(vecs)
                parts = io.split(";")
                head = [unhx(x) for x in parts[0].split()]
                R, S, rows = [], [], []
                for r in range(P):
                    n, ranges, rr, ss, _g = parse_rank_part(parts[1 + r], nr)
                    d2 = check_compute(vecs[r], r, nr, n, ranges)
                    if d2 and not dev:
                        dev = "rank %d: %s" % (r, d2)
                    R.append(rr); S.append(ss); rows.append(ranges[:n])
                if not dev:
                    peers_of = [[j for j in range(P) if vecs[r][j] != 0 and j != r] for r in range(P)]
                    dev = check_decode(P, rows, R, S, peers_of)
                if not dev and head[1] != max([len(x) for x in rows] + [0]):
                    dev = "maximum number of ranges %d differs from the largest return value" % head[1]
                nontriv = any(len(x) > 0 for x in rows)
                dist["T"] = dist.get("T", 0) + 1
            elif kind == "D":
                P, M, rows = meta
                parts = io.split(";")[1:]
                R, S = [], []
                for r in range(P):
                    _n, _ra, rr, ss, _g = parse_rank_part(parts[r], 0)
                    R.append(rr); S.append(ss)
                dev = check_decode(P, [[x for x in row if x[0] >= 0] for row in rows], R, S)
                dist["D"] = dist.get("D", 0) + 1
        except (IndexError, ValueError) as e:
            dev = "unparsable output '%s' (%s)" % (io[:120], e)
        ctx.count_case(line, nontrivial=nontriv)
        if dev:
            nviol += 1
            if nviol <= 4:
                ctx.violation("ranges:%s" % line[:60].replace(" ", "_"), "libsc on case '%s%s': %s (output '%s')" % (line[:160], "..." if len(line) > 160 else "", dev, io[:200]),
                              dict(case=line, impl=io[:3000], model=(model[i][:3000] if model and i < len(model) else None)))
        if model is not None and (i >= len(model) or model[i] != io):
            ndis += 1
            if ndis <= 3:
                ctx.tie_broken("correspondence model/libsc", "case '%s...': libsc '%s', model '%s'" % (line[:120], io[:200], model[i][:200] if i < len(model) else "<missing>"))
    # sc_ranges_adaptive on the simulated MPI: every schedule adversary, replayable (seed, adversary)
    nsim = nnot = 0
    try:
        vs = ctx.variant(mpi="sim", san=True)
        exes = ctx.cc([harness, os.path.join(vlib.TOOLS, "simmpi", "simmpi.c")], os.path.join(ctx.scratch, "c15_sim"), vs, extra=("-DC15_SIM",))
        scases = []
        if ctx.replay and rp.get("sim") and not str(rp["sim"][4]).startswith("N"):
            scases.append(tuple(rp["sim"]))
        for P in ((1, 2, 3, 4, 5, 8, 13) if ctx.quick else (1, 2, 3, 4, 5, 6, 7, 8, 9, 13, 16, 24, 32)):
            for (vecs, nr, line) in gen_adaptive(ctx.rng, P, 24 if ctx.quick else 200):
                scases.append((ctx.rng.randrange(1 << 30), ctx.rng.randrange(8), nr, [list(v) for v in vecs], line))
        # the USE of the ranges: sc_notify_payload with type SC_NOTIFY_RANGES, num_ranges 1..5 (N cases, no model: the oracle is the transpose)
        ncases = []
        if ctx.replay and rp.get("sim") and str(rp["sim"][4]).startswith("N"):
            ncases.append(tuple(rp["sim"]))
        for P in ((1, 2, 3, 5, 8, 13, 21) if ctx.quick else (1, 2, 3, 4, 5, 6, 7, 8, 9, 13, 16, 24, 32, 48)):
            for k in range(10 if ctx.quick else 60):
                dens = ctx.rng.choice([0.05, 0.2, 0.5, 0.9])
                vecs = [[(1 if ctx.rng.random() < dens else 0) for _ in range(P)] for _ in range(P)]
                nr = 1 + k % 5
                ncases.append((ctx.rng.randrange(1 << 30), ctx.rng.randrange(8), nr, vecs,
                               "N %x %x %s" % (nr, P, " ".join(hx(x) for vv in vecs for x in vv))))
        stext = "".join("S %x %x %s\n" % (sd, adv, line[2:]) for (sd, adv, nr, vecs, line) in scases)
        stext += "".join("N %x %x %s\n" % (sd, adv, line[2:]) for (sd, adv, nr, vecs, line) in ncases)
        rc, sl, serr = ctx.run_lines([exes], stext, timeout=300 if ctx.quick else 1800, env=env)
        sl = [l for l in sl if l != ""]
        ml = None
        if model is not None:
            rcm, ml, em = ctx.run_lines([mexe], "".join(c[4] + "\n" for c in scases), timeout=600)
            ml = [l for l in ml if l != ""]
        pos = mpos = 0
        for (sd, adv, nr, vecs, line) in scases:
            P = len(vecs)
            rep = dict(sim=[sd, adv, nr, vecs, line], case=line)
            key = "adaptive-sim:P%d:nr%d:adv%d" % (P, nr, adv)
            if pos >= len(sl) or not sl[pos].startswith("RUN "):
                ctx.violation("crash:sim", "the simulated run of '%s' (seed %d, adversary %d) ended the harness (exit %s): %s" % (line[:120], sd, adv, rc, errsum(serr)), rep)
                break
            head, per = sl[pos], sl[pos + 1:pos + 1 + P]
            pos += 1 + P
            ctx.count_case(("sim", sd, adv, line), nontrivial=P > 1)
            nsim += 1
            if not head.startswith("RUN rc=0 mem=0"):
                nviol += 1
                if nviol <= 8:
                    ctx.violation(key, "sc_ranges_adaptive on the simulated MPI, case '%s' seed %d adversary %d: %s" % (line[:120], sd, adv, head[:400]), rep)
                continue
            try:
                outs = [l.split(": ", 1)[1] for l in per]
                dev = check_adaptive(vecs, nr, outs)
            except (IndexError, ValueError) as e:
                outs, dev = None, "unparsable output (%s)" % e
            if dev:
                nviol += 1
            if dev and nviol <= 8:
                ctx.violation(key, "sc_ranges_adaptive on the simulated MPI, case '%s' seed %d adversary %d: %s" % (line[:120], sd, adv, dev), rep)
            if ml is not None and outs is not None:
                if ml[mpos:mpos + P] != outs:
                    ndis += 1
                    if ndis <= 3:
                        b = [r for r in range(P) if mpos + r >= len(ml) or ml[mpos + r] != outs[r]][0]
                        ctx.tie_broken("correspondence model/libsc (simulated MPI)", "case '%s' rank %d: libsc '%s', model '%s'" % (
                            line[:100], b, outs[b][:200], ml[mpos + b][:200] if mpos + b < len(ml) else "<missing>"))
            mpos += P
        for (sd, adv, nr, vecs, line) in ncases:
            P = len(vecs)
            rep = dict(sim=[sd, adv, nr, vecs, line], case=line)
            key = "notify-ranges-sim:P%d:nr%d:adv%d" % (P, nr, adv)
            if pos >= len(sl) or not sl[pos].startswith("RUN "):
                ctx.violation("crash:sim", "the simulated run of '%s' (seed %d, adversary %d) ended the harness (exit %s): %s" % (line[:120], sd, adv, rc, errsum(serr)), rep)
                break
            head, per = sl[pos], sl[pos + 1:pos + 1 + P]
            pos += 1 + P
            ctx.count_case(("sim", sd, adv, line), nontrivial=P > 1)
            nnot += 1
            dev = None
            if not head.startswith("RUN rc=0 mem=0"):
                dev = head[:400]
            else:
                try:
                    for q in range(P):
                        body = per[q].split(": ", 1)[1]
                        snd = [unhx(x) for x in body.split(":P")[0][1:].split()]
                        pay = [unhx(x) for x in body.split(":P")[1].split()]
                        want = [p_ for p_ in range(P) if vecs[p_][q] != 0]
                        if snd != want:
                            dev = "rank %d is notified by %s, the ranks that list it as receiver are %s" % (q, snd, want)
                            break
                        if pay != [p_ * 4096 + q for p_ in want]:
                            dev = "rank %d receives the payloads %s from %s" % (q, pay[:12], want[:12])
                            break
                except (IndexError, ValueError) as e:
                    dev = "unparsable output (%s)" % e
            if dev:
                nviol += 1
                if nviol <= 8:
                    ctx.violation(key, "sc_notify_payload (ranges, num_ranges %d) on the simulated MPI, case '%s' seed %d adversary %d: %s" % (nr, line[:120], sd, adv, dev), rep)
    except vlib.BuildError as e:
        ctx.tie_broken("c15 simmpi build", str(e)[-1000:])
    dist["A (simulated MPI, 8 adversaries)"] = nsim
    dist["N (sc_notify type ranges on the simulated MPI, num_ranges 1..5)"] = nnot
    # sc_ranges_adaptive for real under OpenMPI
    nmpi = 0
    try:
        vm = ctx.variant(mpi="ompi", san=False)
        exem = ctx.cc([harness], os.path.join(ctx.scratch, "c15_mpi"), vm)
        for P in ((2, 5) if ctx.quick else (1, 2, 3, 4, 5, 7, 8)):
            acases = gen_adaptive(ctx.rng, P, 30 if ctx.quick else 300)
            cf = os.path.join(ctx.scratch, "c15_mpi_%d.txt" % P)
            atext = "\n".join(c[2] for c in acases) + "\n"
            open(cf, "w").write(atext)
            outp = os.path.join(ctx.scratch, "c15_mpi_out_%d" % P)
            rc, o = vlib.sh(["mpirun", "--allow-run-as-root", "--oversubscribe", "-np", str(P), exem, cf, outp], timeout=120 if ctx.quick else 900, env=env)
            if rc != 0:
                ctx.tie_broken("c15 OpenMPI run (P=%d)" % P, "exit %s: %s" % (rc, o[-800:]))
                continue
            per = []
            for r in range(P):
                lines = open("%s.%d" % (outp, r)).read().split("\n")
                per.append(lines[:-1] if lines and lines[-1] == "" else lines)
                if model is not None:
                    rcm, ml, em = ctx.run_lines([mexe, str(r)], atext, timeout=600)
                    ml = ml[:-1] if ml and ml[-1] == "" else ml
                    bad = [k for k in range(len(acases)) if k >= len(ml) or k >= len(per[r]) or ml[k] != per[r][k]]
                    if bad:
                        ctx.tie_broken("correspondence model/libsc (OpenMPI, P=%d, rank %d)" % (P, r),
                                       "case '%s': libsc '%s', model '%s'" % (acases[bad[0]][2][:100], per[r][bad[0]][:200] if bad[0] < len(per[r]) else "<missing>",
                                                                              ml[bad[0]][:200] if bad[0] < len(ml) else "<missing>"))
            for k, (vecs, nr, line) in enumerate(acases):
                try:
                    dev = check_adaptive(vecs, nr, [per[r][k] for r in range(P)])
                except (IndexError, ValueError) as e:
                    dev = "unparsable output (%s)" % e
                ctx.count_case(("mpi", line), nontrivial=True)
                nmpi += 1
                if dev:
                    nviol += 1
                if dev and nviol <= 8:
                    ctx.violation("adaptive:P%d:%s" % (P, line[:40].replace(" ", "_")), "sc_ranges_adaptive under OpenMPI, case '%s': %s" % (line[:160], dev), dict(case=line, P=P))
    except vlib.BuildError as e:
        ctx.tie_broken("c15 OpenMPI build", str(e)[-1000:])
    dist["A (OpenMPI)"] = nmpi
    ctx.cov["disagreements_checked"] = len(cases) + nmpi + nsim
    ctx.cov["exhaustive"] = True
    ctx.cov["rule"] = ("EXHAUSTIVE: sc_ranges_compute for every P in 1..7, every 0/1 indicator vector, every own rank, budgets 1..4 (%d cases), and complete "
                       "emulated runs (compute per rank, maxima, gather, decode per rank) for every family of vectors with P <= %d and budgets 1..4 (%d "
                       "cases); plus seeded random cases: compute up to P = 200 (densities 2%%..98%%, block patterns with equal gap lengths, values "
                       "0/1/2/7/-1) and up to P = 2000 (budgets 1..30, densities 0.2%%..99.5%%, block patterns with few gap lengths = ties at the threshold, "
                       "pairwise different gap lengths = no ties, a handful of peers, 2..4 peers far apart with budgets 1..3, procs[rank] set in 3 of 4), families up to P = 40 (some 100/200, negative entries included), decode on random well-formed tables, "
                       "sc_ranges_adaptive + decode on the simulated MPI (P up to 13, 32 in the thorough tier, all 8 schedule adversaries, random seeds) "
                       "and under OpenMPI for a few P; sc_notify_payload with type ranges and num_ranges 1..5 on the simulated MPI (P up to 21, 48 in the thorough "
                       "tier; oracle: senders and payloads = the transpose of the receiver lists, run ends normally without leftover); a case is non-trivial if at least one range is produced (simulated runs: P > 1); "
                       "distinct = distinct case text (and schedule)"
                       % (nex, 3 if ctx.quick else 4, nfam))
    ctx.notes["case_distribution"] = dist
    ctx.notes["oracle_violations"] = nviol
    ctx.notes["model_disagreements"] = ndis
    for c in (cases[100], cases[nex + 5], cases[-1]):
        ctx.sample({"case": c[2][:200]})
    ctx.cov["trusted_base"] = ["hand-written model coq/C15/RangesModel.v: its loop structure is tied by this correspondence run; T1: its integer decisions (unused constants, peer / gap tests, claimed range, "
                               "the scan for the shortest slot and the eviction, the inversion step, the receiver / sender membership tests of decode) are proved EQUAL to Gen/RangesC15.v, regenerated "
                               "from the working tree on every run (tools/c2g + tools/c2g/slicelib.py + clang-14 JSON AST trusted; ranges[2 * x] / ranges[2 * x + 1] are translated as the locations lo_x / hi_x)",
                               "T1, loops and whole bodies (class RangesT in tools/c2g/groups_C15.py: ranges[e] / procs[e] as memory reads): the claim loop, the whole eviction scan, the unconditional qsort call and its comparator, "
                               "the whole bodies of sc_ranges_adaptive and sc_ranges_statistics are proved equal to the model (C15/RangesGenLoops.v)",
                               "insertion sort stands for qsort: the keys (starts of the empty ranges) are pairwise different, so the sorted result is unique (proved: C15_sort_unique)",
                               "MPI/SemColl.coll_reply: the contract of MPI_Allreduce (MAX) / MPI_Allgather under which C15_adaptive_every_schedule is proved",
                               "tools/simmpi and OpenMPI: MPI_Allreduce (MAX) / MPI_Allgather return their specified values on every rank"]
    ctx.assumptions += ["first_peer / last_peer are the smallest / largest peer, or (num_procs, -1) without peers (asserted by the debug build, computed like sc_notify.c does)",
                        "0 <= rank < num_procs, num_ranges >= 1, the same num_ranges on all ranks of an adaptive call",
                        "decode: rows are filled prefixes of sorted, separated ranges inside [0, num_procs) followed by (-1,-2) (asserted by the debug build)"]
    return "proof"
