(* C14: the write_start / write_end protocol of the window flavours on one node, for every interleaving of the
   ranks' events (every event list accepted by prun / prun_sync). *)
From Coq Require Import ZArith Arith List Bool PeanoNat Lia.
From ScV Require Import C14.ShmemModel.
Import ListNotations.

Lemma upd_same {B} (f : nat -> B) i v : upd f i v i = v.
Proof. unfold upd. rewrite Nat.eqb_refl. reflexivity. Qed.
Lemma upd_other {B} (f : nat -> B) i v j : j <> i -> upd f i v j = f j.
Proof. intros H. unfold upd. destruct (j =? i) eqn:E; [apply Nat.eqb_eq in E; contradiction|reflexivity]. Qed.

Definition Inv (n : nat) (s : pstate) : Prop :=
  (forall i, ph s i = Writer -> i = 0) /\
  (forall i, lk s i = ExclLock -> ph s i = Writer) /\
  (forall i, ph s i = InBarrier -> arrived s i = S (left_ s i)) /\
  (forall i, ph s i <> InBarrier -> arrived s i = left_ s i) /\
  (forall i j, j < n -> left_ s i <= arrived s j).

Lemma Inv_init n v : Inv n (pinit v).
Proof.
  unfold Inv, pinit; cbn. repeat split; intros; try discriminate; try reflexivity; lia.
Qed.

Lemma forallb_seq (f : nat -> bool) n : forallb f (seq 0 n) = true -> forall j, j < n -> f j = true.
Proof. intros H j Hj. rewrite forallb_forall in H. apply H. apply in_seq. lia. Qed.

Lemma Inv_step n s e s' : Inv n s -> pstep n s e = Some s' -> Inv n s'.
Proof.
  intros (I1 & I2 & I3 & I4 & I5) H. destruct e as [i|i v|i|i]; cbn [pstep] in H.
  - (* WS *)
    destruct ((i <? n) && match ph s i with Reading => true | _ => false end) eqn:G; [|discriminate].
    apply andb_true_iff in G. destruct G as [_ G]. assert (Hp : ph s i = Reading) by (destruct (ph s i); try discriminate; reflexivity).
    destruct (i =? 0) eqn:E0; injection H as <-; unfold Inv; cbn [ph lk arrived left_].
    + apply Nat.eqb_eq in E0. subst i. repeat split.
      * intros j Hj. destruct (Nat.eq_dec j 0) as [->|N]; [reflexivity|]. rewrite (upd_other _ _ _ _ N) in Hj. apply I1. exact Hj.
      * intros j Hj. destruct (Nat.eq_dec j 0) as [->|N]; [apply upd_same|]. rewrite (upd_other _ _ _ _ N) in Hj; rewrite (upd_other _ _ _ _ N). apply I2. exact Hj.
      * intros j Hj. destruct (Nat.eq_dec j 0) as [->|N]; [rewrite upd_same in Hj; discriminate|]. rewrite (upd_other _ _ _ _ N) in Hj. apply I3. exact Hj.
      * intros j Hj. destruct (Nat.eq_dec j 0) as [->|N]; [apply I4; rewrite Hp; discriminate|]. rewrite (upd_other _ _ _ _ N) in Hj. apply I4. exact Hj.
      * exact I5.
    + apply Nat.eqb_neq in E0. repeat split.
      * intros j Hj. destruct (Nat.eq_dec j i) as [->|N]; [rewrite upd_same in Hj; discriminate|]. rewrite (upd_other _ _ _ _ N) in Hj. apply I1. exact Hj.
      * intros j Hj. destruct (Nat.eq_dec j i) as [->|N]; [rewrite upd_same in Hj; discriminate|]. rewrite (upd_other _ _ _ _ N) in Hj; rewrite (upd_other _ _ _ _ N). apply I2. exact Hj.
      * intros j Hj. destruct (Nat.eq_dec j i) as [->|N]; [rewrite upd_same in Hj; discriminate|]. rewrite (upd_other _ _ _ _ N) in Hj. apply I3. exact Hj.
      * intros j Hj. destruct (Nat.eq_dec j i) as [->|N]; [apply I4; rewrite Hp; discriminate|]. rewrite (upd_other _ _ _ _ N) in Hj. apply I4. exact Hj.
      * exact I5.
  - (* WR *)
    destruct ((i <? n) && match ph s i with Writer => true | _ => false end); [|discriminate].
    injection H as <-. unfold Inv; cbn [ph lk arrived left_]. repeat split; assumption.
  - (* WE_arrive *)
    destruct ((i <? n) && match ph s i with Writer | NonWriter => true | _ => false end) eqn:G; [|discriminate].
    apply andb_true_iff in G. destruct G as [_ G].
    assert (Hp : ph s i <> InBarrier) by (destruct (ph s i); try discriminate; congruence).
    injection H as <-. unfold Inv; cbn [ph lk arrived left_]. repeat split.
    + intros j Hj. destruct (Nat.eq_dec j i) as [->|N]; [rewrite upd_same in Hj; discriminate|]. rewrite (upd_other _ _ _ _ N) in Hj. apply I1. exact Hj.
    + intros j Hj. destruct (Nat.eq_dec j i) as [->|N]; [rewrite upd_same in Hj; discriminate|]. rewrite (upd_other _ _ _ _ N) in Hj; rewrite (upd_other _ _ _ _ N). apply I2. exact Hj.
    + intros j Hj. destruct (Nat.eq_dec j i) as [->|N]; [rewrite upd_same; f_equal; apply I4; exact Hp|].
      rewrite (upd_other _ _ _ _ N) in Hj; rewrite (upd_other _ _ _ _ N). apply I3. exact Hj.
    + intros j Hj. destruct (Nat.eq_dec j i) as [->|N]; [rewrite upd_same in Hj; congruence|].
      rewrite (upd_other _ _ _ _ N) in Hj; rewrite (upd_other _ _ _ _ N). apply I4. exact Hj.
    + intros j k Hk. destruct (Nat.eq_dec k i) as [->|N]; [rewrite upd_same; specialize (I5 j i Hk); lia|].
      rewrite upd_other by exact N. apply I5. exact Hk.
  - (* WE_leave *)
    destruct ((i <? n) && match ph s i with InBarrier => true | _ => false end
              && forallb (fun j => arrived s i <=? arrived s j) (seq 0 n)) eqn:G; [|discriminate].
    apply andb_true_iff in G. destruct G as [G G2]. apply andb_true_iff in G. destruct G as [_ G].
    assert (Hp : ph s i = InBarrier) by (destruct (ph s i); try discriminate; reflexivity).
    injection H as <-. unfold Inv; cbn [ph lk arrived left_]. repeat split.
    + intros j Hj. destruct (Nat.eq_dec j i) as [->|N]; [rewrite upd_same in Hj; discriminate|]. rewrite (upd_other _ _ _ _ N) in Hj. apply I1. exact Hj.
    + intros j Hj. destruct (Nat.eq_dec j i) as [->|N]; [rewrite upd_same in Hj; discriminate|]. rewrite (upd_other _ _ _ _ N) in Hj; rewrite (upd_other _ _ _ _ N). apply I2. exact Hj.
    + intros j Hj. destruct (Nat.eq_dec j i) as [->|N]; [rewrite upd_same in Hj; discriminate|].
      rewrite (upd_other _ _ _ _ N) in Hj; rewrite (upd_other _ _ _ _ N). apply I3. exact Hj.
    + intros j Hj. destruct (Nat.eq_dec j i) as [->|N]; [rewrite upd_same; apply I3; exact Hp|].
      rewrite (upd_other _ _ _ _ N) in Hj; rewrite (upd_other _ _ _ _ N). apply I4. exact Hj.
    + intros j k Hk. destruct (Nat.eq_dec j i) as [->|N]; [|rewrite upd_other by exact N; apply I5; exact Hk].
      rewrite upd_same. pose proof (forallb_seq _ _ G2 k Hk) as L. apply Nat.leb_le in L. rewrite (I3 i Hp) in L. exact L.
Qed.

Lemma Inv_run n es : forall s s', Inv n s -> prun n s es = Some s' -> Inv n s'.
Proof.
  induction es as [|e es IH]; intros s s' I H; cbn [prun] in H; [injection H as <-; exact I|].
  destruct (pstep n s e) as [s1|] eqn:E; [|discriminate]. eapply IH; [eapply Inv_step; eassumption|exact H].
Qed.

(* exactly one rank of the node is between write_start and write_end WITH write access: intranode rank 0, and only it
   holds the exclusive lock *)
Theorem one_writer n v es s : prun n (pinit v) es = Some s ->
  (forall i, ph s i = Writer -> i = 0) /\ (forall i, lk s i = ExclLock -> i = 0)
  /\ (forall i j, ph s i = Writer -> ph s j = Writer -> i = j).
Proof.
  intros H. destruct (Inv_run n es _ _ (Inv_init n v) H) as (I1 & I2 & _).
  split; [exact I1|]. split; [intros i Hi; apply I1, I2; exact Hi|]. intros i j Hi Hj. rewrite (I1 i Hi), (I1 j Hj). reflexivity.
Qed.

(* write access is granted to rank 0 and to nobody else, and only rank 0 in that phase can change the array *)
Theorem write_access n s i s' : pstep n s (WS i) = Some s' -> (ph s' i = Writer <-> i = 0).
Proof.
  cbn [pstep]. destruct ((i <? n) && match ph s i with Reading => true | _ => false end); [|discriminate].
  destruct (i =? 0) eqn:E; intros H; injection H as <-; cbn [ph]; rewrite upd_same.
  - apply Nat.eqb_eq in E. tauto.
  - apply Nat.eqb_neq in E. split; [discriminate|contradiction].
Qed.
Theorem array_changes_only_by_writer n s e s' : pstep n s e = Some s' -> mem s' <> mem s ->
  exists i v, e = WR i v /\ ph s i = Writer.
Proof.
  destruct e as [i|i v|i|i]; cbn [pstep].
  - destruct ((i <? n) && _); [|discriminate]. destruct (i =? 0); intros H; injection H as <-; cbn [mem]; congruence.
  - destruct ((i <? n) && match ph s i with Writer => true | _ => false end) eqn:G; [|discriminate]. intros _ _.
    exists i, v. split; [reflexivity|]. apply andb_true_iff in G. destruct G as [_ G]. destruct (ph s i); try discriminate; reflexivity.
  - destruct ((i <? n) && _); [|discriminate]. intros H; injection H as <-; cbn [mem]; congruence.
  - destruct ((i <? n) && _ && _); [|discriminate]. intros H; injection H as <-; cbn [mem]; congruence.
Qed.

(* after write_end: when a rank returns from its k-th write_end the writer has entered its k-th write_end, so
   everything the writer stored in rounds 1 .. k is in the array *)
Theorem leave_after_writer_end n v es s i s' : 0 < n -> prun n (pinit v) es = Some s -> pstep n s (WE_leave i) = Some s' ->
  left_ s' i <= arrived s 0 /\ ph s' i = Reading /\ mem s' = mem s.
Proof.
  intros Hn H L. destruct (Inv_run n es _ _ (Inv_init n v) H) as (_ & _ & I3 & _).
  cbn [pstep] in L.
  destruct ((i <? n) && match ph s i with InBarrier => true | _ => false end
            && forallb (fun j => arrived s i <=? arrived s j) (seq 0 n)) eqn:G; [|discriminate].
  apply andb_true_iff in G. destruct G as [G G2]. apply andb_true_iff in G. destruct G as [_ G].
  assert (Hp : ph s i = InBarrier) by (destruct (ph s i); try discriminate; reflexivity).
  injection L as <-. cbn [left_ ph mem]. rewrite !upd_same. split; [|split; reflexivity].
  pose proof (forallb_seq _ _ G2 0 Hn) as X. apply Nat.leb_le in X. rewrite (I3 i Hp) in X. exact X.
Qed.

(* ---- non-overlapping rounds ------------------------------------------------------------------------------------ *)
Definition InvS (n : nat) (s : pstate) : Prop :=
  Inv n s /\ (ph s 0 = Writer -> forall j, j < n -> arrived s 0 <= left_ s j) /\ (forall j, j < n -> wround s <= S (left_ s j)).

Lemma pstep_sync_pstep n s e s' : pstep_sync n s e = Some s' -> pstep n s e = Some s'.
Proof. unfold pstep_sync. destruct e as [[|i]|i v|i|i]; try tauto. destruct (all_returned n s); [tauto|discriminate]. Qed.

Lemma InvS_init n v : InvS n (pinit v).
Proof. split; [apply Inv_init|]. split; [discriminate|]. intros j _. cbn. lia. Qed.

Lemma InvS_step n s e s' : InvS n s -> pstep_sync n s e = Some s' -> InvS n s'.
Proof.
  intros (I & S1 & S2) H. pose proof (pstep_sync_pstep _ _ _ _ H) as H'. pose proof (Inv_step _ _ _ _ I H') as I'.
  split; [exact I'|]. destruct I as (I1 & I2 & I3 & I4 & I5).
  destruct e as [i|i v|i|i].
  - (* WS *)
    destruct i as [|i].
    + unfold pstep_sync in H. destruct (all_returned n s) eqn:A; [|discriminate]. clear H. cbn [pstep] in H'.
      destruct ((0 <? n) && _); [|discriminate]. cbn [Nat.eqb] in H'. injection H' as <-. cbn [ph arrived left_ wround]. split; [|exact S2].
      intros _ j Hj. pose proof (forallb_seq _ _ A j Hj) as X. apply Nat.eqb_eq in X. lia.
    + cbn [pstep] in H'. destruct ((S i <? n) && _); [|discriminate]. cbn [Nat.eqb] in H'. injection H' as <-.
      cbn [ph arrived left_ wround]. split; [|exact S2]. rewrite upd_other by discriminate. exact S1.
  - (* WR *)
    cbn [pstep] in H'. destruct ((i <? n) && match ph s i with Writer => true | _ => false end) eqn:G; [|discriminate].
    apply andb_true_iff in G. destruct G as [_ G]. assert (Hp : ph s i = Writer) by (destruct (ph s i); try discriminate; reflexivity).
    assert (i = 0) by (apply I1; exact Hp). subst i.
    injection H' as <-. cbn [ph arrived left_ wround]. split; [exact S1|]. intros j Hj. specialize (S1 Hp j Hj). lia.
  - (* WE_arrive *)
    cbn [pstep] in H'. destruct ((i <? n) && match ph s i with Writer | NonWriter => true | _ => false end); [|discriminate].
    injection H' as <-. cbn [ph arrived left_ wround]. split; [|exact S2].
    destruct (Nat.eq_dec i 0) as [->|N]; [rewrite upd_same; discriminate|].
    rewrite !(upd_other _ i _ 0) by (intro X; apply N; symmetry; exact X). exact S1.
  - (* WE_leave *)
    cbn [pstep] in H'. destruct ((i <? n) && _ && _); [|discriminate].
    injection H' as <-. cbn [ph arrived left_ wround]. split.
    + destruct (Nat.eq_dec i 0) as [->|N]; [rewrite upd_same; discriminate|].
      rewrite (upd_other _ i _ 0) by (intro X; apply N; symmetry; exact X). intros Hw j Hj. specialize (S1 Hw j Hj).
      destruct (Nat.eq_dec j i) as [->|Nj]; [rewrite upd_same; lia|rewrite upd_other by exact Nj; exact S1].
    + intros j Hj. specialize (S2 j Hj). destruct (Nat.eq_dec j i) as [->|Nj]; [rewrite upd_same; lia|rewrite upd_other by exact Nj; exact S2].
Qed.

Lemma InvS_run n es : forall s s', InvS n s -> prun_sync n s es = Some s' -> InvS n s'.
Proof.
  induction es as [|e es IH]; intros s s' I H; cbn [prun_sync] in H; [injection H as <-; exact I|].
  destruct (pstep_sync n s e) as [s1|] eqn:E; [|discriminate]. eapply IH; [eapply InvS_step; eassumption|exact H].
Qed.

(* when the writer starts a round only after every rank has returned from the previous write_end: a rank that
   returns from its k-th write_end finds in the array what was stored in a round <= k (nothing of a later round),
   and the writer is not writing at that moment *)
Theorem synced_rounds_visible n v es s i s' : 0 < n -> prun_sync n (pinit v) es = Some s -> pstep_sync n s (WE_leave i) = Some s' ->
  wround s' <= left_ s' i /\ left_ s' i <= arrived s' 0 /\ ph s' 0 <> Writer /\ mem s' = mem s.
Proof.
  intros Hn H L. destruct (InvS_run n es _ _ (InvS_init n v) H) as ((I1 & I2 & I3 & I4 & I5) & S1 & S2).
  cbn [pstep_sync pstep] in L.
  destruct ((i <? n) && match ph s i with InBarrier => true | _ => false end
            && forallb (fun j => arrived s i <=? arrived s j) (seq 0 n)) eqn:G; [|discriminate].
  apply andb_true_iff in G. destruct G as [G G2]. apply andb_true_iff in G. destruct G as [Gi G]. apply Nat.ltb_lt in Gi.
  assert (Hp : ph s i = InBarrier) by (destruct (ph s i); try discriminate; reflexivity).
  injection L as <-. cbn [left_ ph mem wround arrived]. rewrite !upd_same.
  pose proof (forallb_seq _ _ G2 0 Hn) as X. apply Nat.leb_le in X. rewrite (I3 i Hp) in X.
  split; [apply S2; exact Gi|]. split; [exact X|]. split; [|reflexivity].
  destruct (Nat.eq_dec i 0) as [->|N]; [rewrite upd_same; discriminate|].
  rewrite upd_other by (intro Y; apply N; symmetry; exact Y). intros Hw. specialize (S1 Hw i Gi). lia.
Qed.

(* ---- F-C14b: without that convention the rounds overlap --------------------------------------------------------- *)
(* two ranks on the node; round 1 stores 11; rank 0 returns from write_end, starts round 2 and stores 22 while rank 1
   is still inside the write_end of round 1 (the exclusive lock is taken with MPI_MODE_NOCHECK and does not wait);
   rank 1 then returns from its FIRST write_end and reads 22 *)
Definition b2b_events : list event :=
  [WS 0; WS 1; WR 0 11%Z; WE_arrive 0; WE_arrive 1; WE_leave 0; WS 0; WR 0 22%Z; WE_leave 1].

Theorem back_to_back_refuted :
  option_map (fun s => (left_ s 1, wround s, mem s, conflict s)) (prun 2 (pinit 0%Z) b2b_events) = Some (1, 2, 22%Z, true)
  /\ prun_sync 2 (pinit 0%Z) b2b_events = None.
Proof. vm_compute. split; reflexivity. Qed.

(* the MPI_MODE_NOCHECK assertion itself ("no conflicting lock is held") is false in the very first round: the writer
   takes the exclusive lock while the other ranks still hold the shared lock of sc_shmem_malloc *)
Theorem nocheck_conflict_reachable :
  option_map conflict (prun_sync 2 (pinit 0%Z) [WS 0]) = Some true.
Proof. vm_compute. reflexivity. Qed.

(* the synchronised convention is satisfiable: two complete rounds *)
Example synced_two_rounds :
  option_map (fun s => (left_ s 0, left_ s 1, wround s, mem s))
    (prun_sync 2 (pinit 0%Z) [WS 1; WS 0; WR 0 11%Z; WE_arrive 1; WE_arrive 0; WE_leave 1; WE_leave 0;
                              WS 0; WR 0 22%Z; WS 1; WE_arrive 0; WE_arrive 1; WE_leave 0; WE_leave 1])
  = Some (2, 2, 2, 22%Z).
Proof. vm_compute. reflexivity. Qed.
