(* C14: the write_start / write_end protocol of the window flavours on one node, for EVERY interleaving of the ranks' events
   (every event list accepted by prun from pinit), every number of ranks and of rounds, without any calling convention;
   and the protocol of libsc before the repair of F-C14b (no barrier in write_start, `prun_old`) as regression guard. *)
From Coq Require Import ZArith Arith List Bool PeanoNat Lia.
From ScV Require Import C14.ShmemModel.
Import ListNotations.

Lemma upd_same {B} (f : nat -> B) i v : upd f i v i = v.
Proof. unfold upd. rewrite Nat.eqb_refl. reflexivity. Qed.
Lemma upd_other {B} (f : nat -> B) i v j : j <> i -> upd f i v j = f j.
Proof. intros H. unfold upd. destruct (j =? i) eqn:E; [apply Nat.eqb_eq in E; contradiction|reflexivity]. Qed.

Lemma forallb_seq (f : nat -> bool) n : forallb f (seq 0 n) = true -> forall j, j < n -> f j = true.
Proof. intros H j Hj. rewrite forallb_forall in H. apply H. apply in_seq. lia. Qed.
Lemma barrier_done_le n cnt i : barrier_done n cnt i = true -> forall j, j < n -> cnt i <= cnt j.
Proof. intros H j Hj. apply Nat.leb_le. exact (forallb_seq _ _ H j Hj). Qed.
Lemma existsb_seq_false (f : nat -> bool) n : (forall j, j < n -> f j = false) -> existsb f (seq 0 n) = false.
Proof.
  intros H. destruct (existsb f (seq 0 n)) eqn:E; [|reflexivity].
  apply existsb_exists in E. destruct E as (j & Hj & Fj). apply in_seq in Hj. rewrite H in Fj by lia. discriminate.
Qed.

(* how far a rank in a given phase is ahead of the number of write_end calls it has returned from:
   (write_start calls begun, write_start calls returned from, write_end calls begun) *)
Definition ahead (p : phase) : nat * nat * nat :=
  match p with
  | Reading => (0, 0, 0) | InStart => (1, 0, 0) | Writer | NonWriter => (1, 1, 0) | InBarrier => (1, 1, 1)
  end.
Definition lock_of (p : phase) : lock := match p with Reading => SharedLock | Writer => ExclLock | _ => NoLock end.

Record Inv (n : nat) (s : pstate) : Prop := mk_Inv {
  I_writer : forall i, ph s i = Writer -> i = 0;
  I_nonwriter : forall i, ph s i = NonWriter -> i <> 0;
  I_lock : forall i, lk s i = lock_of (ph s i);
  I_cnt : forall i, (sarrived s i, sleft s i, arrived s i) =
                    (left_ s i + fst (fst (ahead (ph s i))), left_ s i + snd (fst (ahead (ph s i))), left_ s i + snd (ahead (ph s i)));
  I_end : forall i j, j < n -> left_ s i <= arrived s j;          (* barrier of write_end *)
  I_start : forall i j, j < n -> sleft s i <= sarrived s j;       (* barrier of write_start *)
  I_mem : ph s 0 <> Writer -> mem s = snap s (arrived s 0);
  I_wround : wround s <= sleft s 0;
  I_conflict : conflict s = false
}.

Lemma Inv_init n v : Inv n (pinit v).
Proof. constructor; cbn; intros; try reflexivity; try lia; try discriminate. Qed.

Ltac phase_of H := match type of H with
  | match ?p with _ => _ end = true => destruct p eqn:?; try discriminate H
  end.

Ltac cnt_at I i := let X := fresh "C" in pose proof (I_cnt _ _ I i) as X; cbn [ph lk sarrived sleft arrived left_] in X.

Lemma Inv_step n s e s' : Inv n s -> pstep n s e = Some s' -> Inv n s'.
Proof.
  intros I H. destruct e as [i|i|i v|i|i]; unfold pstep in H; cbn [pstep_gen] in H.
  - (* WS_arrive *)
    destruct ((i <? n) && _) eqn:G; [|discriminate]. apply andb_true_iff in G. destruct G as [Gi G]. apply Nat.ltb_lt in Gi.
    phase_of G. injection H as <-. pose proof (I_cnt _ _ I i) as Ci. rewrite Heqp in Ci. cbn in Ci. injection Ci as C1 C2 C3.
    constructor; cbn [ph lk sarrived sleft arrived left_ mem snap wround conflict].
    + intros j Hj. destruct (Nat.eq_dec j i) as [->|N]; [rewrite upd_same in Hj; discriminate|]. rewrite upd_other in Hj by exact N. exact (I_writer _ _ I j Hj).
    + intros j Hj. destruct (Nat.eq_dec j i) as [->|N]; [rewrite upd_same in Hj; first [discriminate|exact E0]|]. rewrite upd_other in Hj by exact N. exact (I_nonwriter _ _ I j Hj).
    + intros j. destruct (Nat.eq_dec j i) as [->|N]; [rewrite !upd_same; reflexivity|]. rewrite !upd_other by exact N. exact (I_lock _ _ I j).
    + intros j. destruct (Nat.eq_dec j i) as [->|N]; [rewrite !upd_same; cbn; repeat f_equal; lia|]. rewrite !upd_other by exact N. exact (I_cnt _ _ I j).
    + exact (I_end _ _ I).
    + intros j k Hk. pose proof (I_start _ _ I j k Hk). destruct (Nat.eq_dec k i) as [->|N]; [rewrite upd_same; lia|]. rewrite upd_other by exact N. assumption.
    + intros Hw. apply (I_mem _ _ I). destruct (Nat.eq_dec 0 i) as [<-|N]; [congruence|]. rewrite upd_other in Hw by exact N. exact Hw.
    + exact (I_wround _ _ I).
    + exact (I_conflict _ _ I).
  - (* WS_leave *)
    destruct ((i <? n) && _ && _) eqn:G; [|discriminate]. apply andb_true_iff in G. destruct G as [G Gb]. cbn [negb orb] in Gb.
    apply andb_true_iff in G. destruct G as [Gi G]. apply Nat.ltb_lt in Gi. phase_of G. assert (Hn : 0 < n) by lia.
    pose proof (barrier_done_le _ _ _ Gb) as B.
    pose proof (I_cnt _ _ I i) as Ci. rewrite Heqp in Ci. cbn in Ci. injection Ci as C1 C2 C3.
    destruct (i =? 0) eqn:E0; injection H as <-.
    + apply Nat.eqb_eq in E0. subst i.
      constructor; cbn [ph lk sarrived sleft arrived left_ mem snap wround conflict].
      * intros j Hj. destruct (Nat.eq_dec j 0) as [->|N]; [reflexivity|]. rewrite upd_other in Hj by exact N. exact (I_writer _ _ I j Hj).
      * intros j Hj. destruct (Nat.eq_dec j 0) as [->|N]; [rewrite upd_same in Hj; discriminate|]. rewrite upd_other in Hj by exact N. exact (I_nonwriter _ _ I j Hj).
      * intros j. destruct (Nat.eq_dec j 0) as [->|N]; [rewrite !upd_same; reflexivity|]. rewrite !upd_other by exact N. exact (I_lock _ _ I j).
      * intros j. destruct (Nat.eq_dec j 0) as [->|N]; [rewrite !upd_same; cbn; repeat f_equal; lia|]. rewrite !upd_other by exact N. exact (I_cnt _ _ I j).
      * exact (I_end _ _ I).
      * intros j k Hk. destruct (Nat.eq_dec j 0) as [->|N]; [rewrite upd_same; specialize (B k Hk); lia|]. rewrite upd_other by exact N. exact (I_start _ _ I j k Hk).
      * rewrite upd_same. congruence.
      * rewrite upd_same. pose proof (I_wround _ _ I). lia.
      * rewrite (I_conflict _ _ I). cbn [orb]. unfold others_hold. apply existsb_seq_false. intros j Hj.
        destruct (Nat.eq_dec j 0) as [->|N]; [reflexivity|]. replace (j =? 0) with false by (symmetry; apply Nat.eqb_neq; exact N). cbn [negb andb].
        rewrite (I_lock _ _ I j). pose proof (I_cnt _ _ I j) as Cj. pose proof (I_end _ _ I j 0 Hn) as E. specialize (B j Hj).
        destruct (ph s j) eqn:Pj; cbn in Cj |- *; try reflexivity.
        -- injection Cj as D1 D2 D3. lia.
        -- exfalso. apply N. exact (I_writer _ _ I j Pj).
    + apply Nat.eqb_neq in E0.
      constructor; cbn [ph lk sarrived sleft arrived left_ mem snap wround conflict].
      * intros j Hj. destruct (Nat.eq_dec j i) as [->|N]; [rewrite upd_same in Hj; discriminate|]. rewrite upd_other in Hj by exact N. exact (I_writer _ _ I j Hj).
      * intros j Hj. destruct (Nat.eq_dec j i) as [->|N]; [rewrite upd_same in Hj; first [discriminate|exact E0]|]. rewrite upd_other in Hj by exact N. exact (I_nonwriter _ _ I j Hj).
      * intros j. destruct (Nat.eq_dec j i) as [->|N]; [rewrite !upd_same; rewrite (I_lock _ _ I i), Heqp; reflexivity|]. rewrite !upd_other by exact N. exact (I_lock _ _ I j).
      * intros j. destruct (Nat.eq_dec j i) as [->|N]; [rewrite !upd_same; cbn; repeat f_equal; lia|]. rewrite !upd_other by exact N. exact (I_cnt _ _ I j).
      * exact (I_end _ _ I).
      * intros j k Hk. destruct (Nat.eq_dec j i) as [->|N]; [rewrite upd_same; specialize (B k Hk); lia|]. rewrite upd_other by exact N. exact (I_start _ _ I j k Hk).
      * rewrite upd_other by (intro X; apply E0; symmetry; exact X). exact (I_mem _ _ I).
      * rewrite upd_other by (intro X; apply E0; symmetry; exact X). exact (I_wround _ _ I).
      * exact (I_conflict _ _ I).
  - (* WR *)
    destruct ((i <? n) && _) eqn:G; [|discriminate]. apply andb_true_iff in G. destruct G as [Gi G]. phase_of G.
    assert (i = 0) by (exact (I_writer _ _ I i Heqp)). subst i. injection H as <-.
    pose proof (I_cnt _ _ I 0) as Ci. rewrite Heqp in Ci. cbn in Ci. injection Ci as C1 C2 C3.
    constructor; cbn [ph lk sarrived sleft arrived left_ mem snap wround conflict];
      try (first [exact (I_writer _ _ I)|exact (I_nonwriter _ _ I)|exact (I_lock _ _ I)|exact (I_cnt _ _ I)|exact (I_end _ _ I)|exact (I_start _ _ I)|exact (I_conflict _ _ I)]).
    + congruence.
    + lia.
  - (* WE_arrive *)
    destruct ((i <? n) && _) eqn:G; [|discriminate]. apply andb_true_iff in G. destruct G as [Gi G]. apply Nat.ltb_lt in Gi.
    assert (Hp : ph s i = Writer \/ ph s i = NonWriter) by (destruct (ph s i); try discriminate; tauto). clear G.
    pose proof (I_cnt _ _ I i) as Ci. assert (C : sarrived s i = left_ s i + 1 /\ sleft s i = left_ s i + 1 /\ arrived s i = left_ s i + 0)
      by (destruct Hp as [Hp|Hp]; rewrite Hp in Ci; cbn in Ci; injection Ci; auto). clear Ci. destruct C as (C1 & C2 & C3).
    injection H as <-.
    constructor; cbn [ph lk sarrived sleft arrived left_ mem snap wround conflict].
    + intros j Hj. destruct (Nat.eq_dec j i) as [->|N]; [rewrite upd_same in Hj; discriminate|]. rewrite upd_other in Hj by exact N. exact (I_writer _ _ I j Hj).
    + intros j Hj. destruct (Nat.eq_dec j i) as [->|N]; [rewrite upd_same in Hj; first [discriminate|exact E0]|]. rewrite upd_other in Hj by exact N. exact (I_nonwriter _ _ I j Hj).
    + intros j. destruct (Nat.eq_dec j i) as [->|N]; [rewrite !upd_same; reflexivity|]. rewrite !upd_other by exact N. exact (I_lock _ _ I j).
    + intros j. destruct (Nat.eq_dec j i) as [->|N]; [rewrite !upd_same; cbn; repeat f_equal; lia|]. rewrite !upd_other by exact N. exact (I_cnt _ _ I j).
    + intros j k Hk. pose proof (I_end _ _ I j k Hk). destruct (Nat.eq_dec k i) as [->|N]; [rewrite upd_same; lia|]. rewrite upd_other by exact N. assumption.
    + exact (I_start _ _ I).
    + destruct (Nat.eq_dec i 0) as [->|N].
      * intros _. cbn [Nat.eqb]. rewrite !upd_same. reflexivity.
      * replace (i =? 0) with false by (symmetry; apply Nat.eqb_neq; exact N).
        rewrite !(upd_other _ i _ 0) by (intro X; apply N; symmetry; exact X). exact (I_mem _ _ I).
    + exact (I_wround _ _ I).
    + exact (I_conflict _ _ I).
  - (* WE_leave *)
    destruct ((i <? n) && _ && _) eqn:G; [|discriminate]. apply andb_true_iff in G. destruct G as [G Gb].
    apply andb_true_iff in G. destruct G as [Gi G]. apply Nat.ltb_lt in Gi. phase_of G. assert (Hn : 0 < n) by lia.
    pose proof (barrier_done_le _ _ _ Gb) as B.
    pose proof (I_cnt _ _ I i) as Ci. rewrite Heqp in Ci. cbn in Ci. injection Ci as C1 C2 C3.
    injection H as <-.
    constructor; cbn [ph lk sarrived sleft arrived left_ mem snap wround conflict].
    + intros j Hj. destruct (Nat.eq_dec j i) as [->|N]; [rewrite upd_same in Hj; discriminate|]. rewrite upd_other in Hj by exact N. exact (I_writer _ _ I j Hj).
    + intros j Hj. destruct (Nat.eq_dec j i) as [->|N]; [rewrite upd_same in Hj; first [discriminate|exact E0]|]. rewrite upd_other in Hj by exact N. exact (I_nonwriter _ _ I j Hj).
    + intros j. destruct (Nat.eq_dec j i) as [->|N]; [rewrite !upd_same; reflexivity|]. rewrite !upd_other by exact N. exact (I_lock _ _ I j).
    + intros j. destruct (Nat.eq_dec j i) as [->|N]; [rewrite !upd_same; cbn; repeat f_equal; lia|]. rewrite !upd_other by exact N. exact (I_cnt _ _ I j).
    + intros j k Hk. destruct (Nat.eq_dec j i) as [->|N]; [rewrite upd_same; specialize (B k Hk); lia|]. rewrite upd_other by exact N. exact (I_end _ _ I j k Hk).
    + exact (I_start _ _ I).
    + intros Hw. apply (I_mem _ _ I). destruct (Nat.eq_dec 0 i) as [<-|N]; [congruence|]. rewrite upd_other in Hw by exact N. exact Hw.
    + exact (I_wround _ _ I).
    + rewrite (I_conflict _ _ I). cbn [orb]. unfold others_excl. apply existsb_seq_false. intros j Hj.
      destruct (Nat.eq_dec j i) as [->|N]; [rewrite Nat.eqb_refl; reflexivity|]. replace (j =? i) with false by (symmetry; apply Nat.eqb_neq; exact N). cbn [negb andb].
      rewrite (I_lock _ _ I j). destruct (ph s j) eqn:Pj; cbn; try reflexivity. exfalso.
      assert (j = 0) by exact (I_writer _ _ I j Pj). subst j.
      pose proof (I_cnt _ _ I 0) as C0. rewrite Pj in C0. cbn in C0. injection C0 as D1 D2 D3.
      pose proof (I_start _ _ I 0 i Gi). specialize (B 0 Hn). lia.
Qed.

Lemma Inv_run n es : forall s s', Inv n s -> prun n s es = Some s' -> Inv n s'.
Proof.
  induction es as [|e es IH]; intros s s' I H; unfold prun in *; cbn [prun_gen] in H; [injection H as <-; exact I|].
  destruct (pstep_gen true n s e) as [s1|] eqn:E; [|discriminate]. eapply IH; [eapply Inv_step; eassumption|exact H].
Qed.
Lemma reach_Inv n v es s : prun n (pinit v) es = Some s -> Inv n s.
Proof. apply Inv_run, Inv_init. Qed.

(* (a) both MPI_MODE_NOCHECK assertions are true in every reachable state: no lock is ever taken while a conflicting one is held *)
Theorem nocheck_assertions_hold n v es s : prun n (pinit v) es = Some s -> conflict s = false.
Proof. intros H. exact (I_conflict _ _ (reach_Inv _ _ _ _ H)). Qed.

(* (b) locks and write access: a rank holds the exclusive lock exactly while it is the writer, the shared lock exactly while it
   reads; only intranode rank 0 is ever the writer, and exactly between its return from write_start and its entry into write_end *)
Theorem one_writer n v es s : prun n (pinit v) es = Some s ->
  (forall i, ph s i = Writer -> i = 0) /\
  (forall i, lk s i = ExclLock <-> ph s i = Writer) /\
  (forall i, lk s i = SharedLock <-> ph s i = Reading) /\
  (forall i j, ph s i = Writer -> ph s j = Writer -> i = j) /\
  (ph s 0 = Writer <-> sleft s 0 = S (arrived s 0)).
Proof.
  intros H. pose proof (reach_Inv _ _ _ _ H) as I. split; [exact (I_writer _ _ I)|]. split; [|split; [|split]].
  - intros i. rewrite (I_lock _ _ I i). destruct (ph s i); cbn; split; congruence.
  - intros i. rewrite (I_lock _ _ I i). destruct (ph s i); cbn; split; congruence.
  - intros i j Hi Hj. rewrite (I_writer _ _ I i Hi), (I_writer _ _ I j Hj). reflexivity.
  - pose proof (I_cnt _ _ I 0) as C. pose proof (I_nonwriter _ _ I 0) as NW.
    destruct (ph s 0); cbn in C; injection C as C1 C2 C3; split; intros X; try reflexivity; try discriminate; try lia; exfalso; apply NW; reflexivity.
Qed.

Theorem write_access n s i s' : pstep n s (WS_leave i) = Some s' -> (ph s' i = Writer <-> i = 0).
Proof.
  unfold pstep; cbn [pstep_gen]. destruct ((i <? n) && _ && _); [|discriminate].
  destruct (i =? 0) eqn:E; intros H; injection H as <-; cbn [ph]; rewrite upd_same.
  - apply Nat.eqb_eq in E. tauto.
  - apply Nat.eqb_neq in E. split; [discriminate|contradiction].
Qed.

(* (c) the array changes only by a store of the rank that is the writer at that moment *)
Theorem array_changes_only_by_writer n s e s' : pstep n s e = Some s' -> mem s' <> mem s ->
  exists i v, e = WR i v /\ ph s i = Writer.
Proof.
  destruct e as [i|i|i v|i|i]; unfold pstep; cbn [pstep_gen].
  - destruct ((i <? n) && _); [|discriminate]. intros H; injection H as <-; cbn [mem]; congruence.
  - destruct ((i <? n) && _ && _); [|discriminate]. destruct (i =? 0); intros H; injection H as <-; cbn [mem]; congruence.
  - destruct ((i <? n) && match ph s i with Writer => true | _ => false end) eqn:G; [|discriminate]. intros _ _.
    exists i, v. split; [reflexivity|]. apply andb_true_iff in G. destruct G as [_ G]. destruct (ph s i); try discriminate; reflexivity.
  - destruct ((i <? n) && _); [|discriminate]. intros H; injection H as <-; cbn [mem]; congruence.
  - destruct ((i <? n) && _ && _); [|discriminate]. intros H; injection H as <-; cbn [mem]; congruence.
Qed.
Theorem array_changes_only_in_write_round n v es s e s' : prun n (pinit v) es = Some s -> pstep n s e = Some s' -> mem s' <> mem s ->
  exists x, e = WR 0 x /\ ph s 0 = Writer /\ lk s 0 = ExclLock /\ sleft s 0 = S (arrived s 0) /\
            forall j, j < n -> j <> 0 -> lk s j = NoLock /\ ph s j <> Reading.
Proof.
  intros H St D. destruct (array_changes_only_by_writer _ _ _ _ St D) as (i & x & -> & Hw).
  pose proof (reach_Inv _ _ _ _ H) as I. assert (i = 0) by exact (I_writer _ _ I i Hw). subst i.
  exists x. split; [reflexivity|]. split; [exact Hw|]. split; [rewrite (I_lock _ _ I 0), Hw; reflexivity|].
  pose proof (I_cnt _ _ I 0) as C0. rewrite Hw in C0. cbn in C0. injection C0 as D1 D2 D3. split; [lia|].
  intros j Hj N. assert (Hn : 0 < n) by lia. pose proof (I_start _ _ I 0 j Hj) as S1. pose proof (I_end _ _ I j 0 Hn) as E1.
  pose proof (I_cnt _ _ I j) as Cj. rewrite (I_lock _ _ I j).
  destruct (ph s j) eqn:Pj; cbn in Cj |- *; injection Cj as F1 F2 F3; split; try reflexivity; try discriminate; try lia.
  exfalso. apply N. exact (I_writer _ _ I j Pj).
Qed.

(* after write_end: when a rank returns from its k-th write_end the writer has entered its k-th write_end *)
Theorem leave_after_writer_end n v es s i s' : prun n (pinit v) es = Some s -> pstep n s (WE_leave i) = Some s' ->
  left_ s' i <= arrived s 0 /\ ph s' i = Reading /\ mem s' = mem s.
Proof.
  intros H L. pose proof (reach_Inv _ _ _ _ H) as I. unfold pstep in L; cbn [pstep_gen] in L.
  destruct ((i <? n) && _ && _) eqn:G; [|discriminate]. apply andb_true_iff in G. destruct G as [G Gb].
  apply andb_true_iff in G. destruct G as [Gi G]. apply Nat.ltb_lt in Gi. phase_of G.
  injection L as <-. cbn [left_ ph mem]. rewrite !upd_same. split; [|split; reflexivity].
  pose proof (barrier_done_le _ _ _ Gb 0 ltac:(lia)) as B. pose proof (I_cnt _ _ I i) as C. rewrite Heqp in C. cbn in C. injection C as C1 C2 C3. lia.
Qed.

(* (d) ROUNDS DO NOT OVERLAP.  Whenever a rank is reading (it has returned from its k-th write_end and has not entered its next
   write_start; k = 0: before the first round) the array is exactly what the writer left when it entered ITS k-th write_end:
   the writer has completed exactly k rounds, it is not writing, and the last store into the array happened in a round <= k *)
Theorem rounds_do_not_overlap n v es s i : prun n (pinit v) es = Some s -> i < n -> ph s i = Reading ->
  mem s = snap s (left_ s i) /\ wround s <= left_ s i /\ arrived s 0 = left_ s i /\ sleft s 0 = left_ s i /\ ph s 0 <> Writer.
Proof.
  intros H Hi Hr. pose proof (reach_Inv _ _ _ _ H) as I. assert (Hn : 0 < n) by lia.
  pose proof (I_cnt _ _ I i) as Ci. rewrite Hr in Ci. cbn in Ci. injection Ci as C1 C2 C3.
  pose proof (I_start _ _ I 0 i Hi) as S1. pose proof (I_end _ _ I i 0 Hn) as E1. pose proof (I_wround _ _ I) as W.
  pose proof (I_cnt _ _ I 0) as C0.
  assert (NW : ph s 0 <> Writer) by (intros X; rewrite X in C0; cbn in C0; injection C0 as D1 D2 D3; lia).
  assert (A : arrived s 0 = left_ s i /\ sleft s 0 = left_ s i) by (destruct (ph s 0); cbn in C0; injection C0 as D1 D2 D3; lia).
  destruct A as [A1 A2]. split; [rewrite <- A1; exact (I_mem _ _ I NW)|]. repeat split; try assumption. lia.
Qed.

(* the same seen from the writer: it cannot begin a round before every rank of the node has entered the write_start of that round,
   i.e. has finished reading the previous one *)
Theorem writer_waits_for_readers n v es s i : prun n (pinit v) es = Some s -> i < n ->
  sleft s 0 <= sarrived s i /\ (ph s 0 = Writer -> ph s i <> Reading /\ left_ s i < sarrived s i).
Proof.
  intros H Hi. pose proof (reach_Inv _ _ _ _ H) as I. assert (Hn : 0 < n) by lia.
  pose proof (I_start _ _ I 0 i Hi) as S1. split; [exact S1|]. intros Hw.
  pose proof (I_cnt _ _ I 0) as C0. rewrite Hw in C0. cbn in C0. injection C0 as D1 D2 D3. pose proof (I_end _ _ I i 0 Hn) as E1.
  pose proof (I_cnt _ _ I i) as Ci. destruct (ph s i); cbn in Ci; injection Ci as F1 F2 F3; split; try discriminate; lia.
Qed.

(* ---- F-C14b (repaired): the protocol WITHOUT the barrier of write_start (libsc before the repair) ---------------------------- *)
Definition b2b_events : list event :=
  WS 0 ++ WS 1 ++ [WR 0 11%Z; WE_arrive 0; WE_arrive 1; WE_leave 0] ++ WS 0 ++ [WR 0 22%Z; WE_leave 1].

Theorem back_to_back_refuted :
  option_map (fun s => (ph s 1, left_ s 1, wround s, mem s, snap s 1, conflict s)) (prun_old 2 (pinit 0%Z) b2b_events)
    = Some (Reading, 1, 2, 22%Z, 11%Z, true)
  /\ prun 2 (pinit 0%Z) b2b_events = None.
Proof. vm_compute. split; reflexivity. Qed.

Theorem nocheck_conflict_reachable :
  option_map conflict (prun_old 2 (pinit 0%Z) (WS 0)) = Some true /\ prun 2 (pinit 0%Z) (WS 0) = None.
Proof. vm_compute. split; reflexivity. Qed.

(* ---- the repaired protocol runs: two complete rounds on 2 and on 3 ranks, rounds back to back ------------------------------------ *)
Definition two_rounds_2 : list event :=
  [WS_arrive 1; WS_arrive 0; WS_leave 0; WR 0 11%Z; WS_leave 1; WE_arrive 1; WE_arrive 0; WE_leave 0;
   WS_arrive 0; WE_leave 1; WS_arrive 1; WS_leave 0; WR 0 21%Z; WR 0 22%Z; WS_leave 1; WE_arrive 0; WE_arrive 1; WE_leave 1; WE_leave 0].
Example two_rounds_on_2 :
  option_map (fun s => (map (left_ s) [0; 1], map (ph s) [0; 1], wround s, mem s, (snap s 0, snap s 1, snap s 2), conflict s))
    (prun 2 (pinit 0%Z) two_rounds_2)
  = Some ([2; 2], [Reading; Reading], 2, 22%Z, (0%Z, 11%Z, 22%Z), false).
Proof. vm_compute. reflexivity. Qed.

Definition two_rounds_3 : list event :=
  [WS_arrive 2; WS_arrive 0; WS_arrive 1; WS_leave 1; WS_leave 0; WR 0 11%Z; WE_arrive 1; WS_leave 2; WE_arrive 0; WE_arrive 2;
   WE_leave 0; WS_arrive 0; WE_leave 2; WE_leave 1; WS_arrive 1; WS_arrive 2; WS_leave 0; WR 0 22%Z; WS_leave 2; WS_leave 1;
   WE_arrive 0; WE_arrive 1; WE_arrive 2; WE_leave 2; WE_leave 1; WE_leave 0].
Example two_rounds_on_3 :
  option_map (fun s => (map (left_ s) [0; 1; 2], map (lk s) [0; 1; 2], wround s, mem s, (snap s 1, snap s 2), conflict s))
    (prun 3 (pinit 0%Z) two_rounds_3)
  = Some ([2; 2; 2], [SharedLock; SharedLock; SharedLock], 2, 22%Z, (11%Z, 22%Z), false).
Proof. vm_compute. reflexivity. Qed.

(* ---- the barriers cannot deadlock: in every reachable state some rank can take its next step ----------------------------------- *)
Lemma argmin (f : nat -> nat) n : 0 < n -> exists r, r < n /\ forall j, j < n -> f r <= f j.
Proof.
  induction n as [|n IH]; [lia|]. intros _. destruct n as [|n]; [exists 0; split; [lia|]; intros j Hj; replace j with 0 by lia; lia|].
  destruct (IH ltac:(lia)) as (r & Hr & M). destruct (le_lt_dec (f r) (f (S n))) as [L|L].
  - exists r. split; [lia|]. intros j Hj. destruct (Nat.eq_dec j (S n)) as [->|N]; [exact L|apply M; lia].
  - exists (S n). split; [lia|]. intros j Hj. destruct (Nat.eq_dec j (S n)) as [->|N]; [lia|]. specialize (M j ltac:(lia)). lia.
Qed.
Lemma barrier_done_intro n cnt i : (forall j, j < n -> cnt i <= cnt j) -> barrier_done n cnt i = true.
Proof. intros H. unfold barrier_done. apply forallb_forall. intros j Hj. apply in_seq in Hj. apply Nat.leb_le. apply H. lia. Qed.

Theorem no_deadlock n v es s : 0 < n -> prun n (pinit v) es = Some s -> exists e s', pstep n s e = Some s'.
Proof.
  intros Hn H. pose proof (reach_Inv _ _ _ _ H) as I.
  destruct (argmin (fun j => sarrived s j + arrived s j) n Hn) as (r & Hr & M).
  assert (Lt : (r <? n) = true) by (apply Nat.ltb_lt; exact Hr).
  pose proof (I_cnt _ _ I r) as Cr. destruct (ph s r) eqn:Pr; cbn in Cr; injection Cr as C1 C2 C3.
  - exists (WS_arrive r). unfold pstep; cbn [pstep_gen]. rewrite Lt, Pr. cbn. eexists; reflexivity.
  - exists (WS_leave r). unfold pstep; cbn [pstep_gen]. rewrite Lt, Pr. cbn [andb negb orb].
    rewrite barrier_done_intro.
    + destruct (r =? 0); eexists; reflexivity.
    + intros j Hj. specialize (M j Hj). cbn beta in M. pose proof (I_cnt _ _ I j) as Cj.
      destruct (ph s j); cbn in Cj; injection Cj as D1 D2 D3; lia.
  - exists (WE_arrive r). unfold pstep; cbn [pstep_gen]. rewrite Lt, Pr. cbn. eexists; reflexivity.
  - exists (WE_arrive r). unfold pstep; cbn [pstep_gen]. rewrite Lt, Pr. cbn. eexists; reflexivity.
  - exists (WE_leave r). unfold pstep; cbn [pstep_gen]. rewrite Lt, Pr. cbn [andb].
    rewrite barrier_done_intro; [eexists; reflexivity|].
    intros j Hj. specialize (M j Hj). cbn beta in M. pose proof (I_cnt _ _ I j) as Cj.
    destruct (ph s j); cbn in Cj; injection Cj as D1 D2 D3; lia.
Qed.
