(* C14: the node grid.  Explicit processes-per-node (P = nn * ppn): rows are the blocks of ppn consecutive ranks,
   columns the ranks of equal offset; every rank lies in exactly one row and one column, its position in the
   intranode / internode communicator is (offset, node), the sizes are ppn and nn, their product is P.
   Node classes reported by MPI_Comm_split_type (an arbitrary colouring nd): the pair (node, intrarank) identifies a
   rank, intrarank ranges over 0 .. |node|-1, and every such pair is taken. *)
From Coq Require Import Arith List Bool PeanoNat Lia Sorted.
From ScV Require Import C14.ShmemModel.
Import ListNotations.

(* ---- filters over seq ---- *)
Lemma filter_all_true {B} (f : B -> bool) l : (forall x, In x l -> f x = true) -> filter f l = l.
Proof. induction l; simpl; intros H; [reflexivity|]. rewrite H by (left; reflexivity). f_equal. apply IHl. intros x Hx. apply H. right. exact Hx. Qed.
Lemma filter_all_false {B} (f : B -> bool) l : (forall x, In x l -> f x = false) -> filter f l = [].
Proof. induction l; simpl; intros H; [reflexivity|]. rewrite H by (left; reflexivity). apply IHl. intros x Hx. apply H. right. exact Hx. Qed.

Lemma filter_range a b P (f : nat -> bool) : a <= b -> b <= P ->
  (forall q, q < P -> f q = (a <=? q) && (q <? b)) -> filter f (seq 0 P) = seq a (b - a).
Proof.
  intros Hab HbP Hf.
  replace P with (a + ((b - a) + (P - b))) by lia. rewrite !seq_app, !filter_app. simpl.
  rewrite filter_all_false, filter_all_true, filter_all_false; [apply app_nil_r| | |].
  - intros q Hq. apply in_seq in Hq. rewrite Hf by lia. apply andb_false_iff. right. apply Nat.ltb_ge. lia.
  - intros q Hq. apply in_seq in Hq. rewrite Hf by lia. apply andb_true_iff. split; [apply Nat.leb_le|apply Nat.ltb_lt]; lia.
  - intros q Hq. apply in_seq in Hq. rewrite Hf by lia. apply andb_false_iff. left. apply Nat.leb_gt. lia.
Qed.

Lemma filter_eq_seq j s n : s <= j < s + n -> filter (fun i => i =? j) (seq s n) = [j].
Proof.
  intros H. replace n with ((j - s) + (1 + (s + n - j - 1))) by lia. rewrite !seq_app, !filter_app.
  replace (s + (j - s)) with j by lia. simpl. rewrite Nat.eqb_refl.
  rewrite !filter_all_false; [reflexivity| |]; intros q Hq; apply in_seq in Hq; apply Nat.eqb_neq; lia.
Qed.

Lemma index_in_seq r a n : a <= r < a + n -> index_in r (seq a n) = r - a.
Proof.
  revert a; induction n; intros a H; [lia|]. simpl. destruct (a =? r) eqn:E.
  - apply Nat.eqb_eq in E. lia.
  - apply Nat.eqb_neq in E. rewrite IHn by lia. lia.
Qed.

Lemma seq_as_map b n : seq b n = map (fun i => b + i) (seq 0 n).
Proof.
  revert b; induction n; intros b; simpl; [reflexivity|]. f_equal; [lia|].
  rewrite (IHn (S b)). rewrite <- (seq_shift n 0), map_map. apply map_ext. intros; lia.
Qed.

Section Explicit.
  Variables nn ppn : nat.
  Hypothesis ppn_pos : 0 < ppn.
  Let P := nn * ppn.

  Lemma div_block q k : q / ppn = k <-> k * ppn <= q < (k + 1) * ppn.
  Proof.
    split.
    - intros <-. pose proof (Nat.div_mod q ppn ltac:(lia)). pose proof (Nat.mod_upper_bound q ppn ltac:(lia)). nia.
    - intros H. symmetry. apply (Nat.div_unique q ppn k (q - k * ppn)); lia.
  Qed.

  (* rows *)
  Lemma row_members k : k < nn -> members P (fun q => q / ppn) k = seq (k * ppn) ppn.
  Proof.
    intros Hk. unfold members.
    rewrite (filter_range (k * ppn) ((k + 1) * ppn) P); [f_equal; lia|lia|unfold P; nia|].
    intros q Hq. destruct (q / ppn =? k) eqn:E.
    - apply Nat.eqb_eq in E. apply div_block in E. symmetry. apply andb_true_iff. split; [apply Nat.leb_le|apply Nat.ltb_lt]; lia.
    - apply Nat.eqb_neq in E. symmetry. apply andb_false_iff.
      destruct (Nat.lt_ge_cases q (k * ppn)); [left; apply Nat.leb_gt; lia|].
      right. apply Nat.ltb_ge. destruct (Nat.lt_ge_cases q ((k + 1) * ppn)); [|lia].
      exfalso. apply E. apply div_block. lia.
  Qed.

  (* columns *)
  Lemma col_block j k : j < ppn -> filter (fun q => q mod ppn =? j) (seq (k * ppn) ppn) = [k * ppn + j].
  Proof.
    intros Hj.
    assert (E : seq (k * ppn) ppn = map (fun i => k * ppn + i) (seq 0 ppn)).
    { apply seq_as_map. }
    rewrite E. clear E.
    assert (F : forall l, (forall i, In i l -> i < ppn) ->
              filter (fun q => q mod ppn =? j) (map (fun i => k * ppn + i) l) = map (fun i => k * ppn + i) (filter (fun i => i =? j) l)).
    { induction l as [|i l IH]; intros H; [reflexivity|]. simpl.
      assert (Hi : i < ppn) by (apply H; left; reflexivity).
      replace ((k * ppn + i) mod ppn) with i.
      2:{ rewrite Nat.add_comm, Nat.mod_add by lia. symmetry. apply Nat.mod_small. exact Hi. }
      destruct (i =? j); simpl; f_equal; apply IH; intros x Hx; apply H; right; exact Hx. }
    rewrite F by (intros i Hi; apply in_seq in Hi; lia).
    rewrite filter_eq_seq by lia. reflexivity.
  Qed.

  Lemma col_members_upto j m : j < ppn ->
    filter (fun q => q mod ppn =? j) (seq 0 (m * ppn)) = map (fun k => k * ppn + j) (seq 0 m).
  Proof.
    intros Hj. induction m; [reflexivity|].
    replace (S m * ppn) with (m * ppn + ppn) by lia. rewrite seq_app, filter_app, IHm. rewrite Nat.add_0_l.
    rewrite col_block by exact Hj. rewrite seq_S, map_app. reflexivity.
  Qed.
  Lemma col_members j : j < ppn -> members P (fun q => q mod ppn) j = map (fun k => k * ppn + j) (seq 0 nn).
  Proof. intros Hj. unfold members, P. apply col_members_upto. exact Hj. Qed.

  Lemma index_in_col j k m : k < m -> index_in (k * ppn + j) (map (fun k => k * ppn + j) (seq 0 m)) = k.
  Proof.
    intros Hk.
    assert (G : forall s n, s <= k < s + n -> index_in (k * ppn + j) (map (fun k => k * ppn + j) (seq s n)) = k - s).
    { intros s n; revert s; induction n; intros s H; [lia|]. simpl.
      destruct (s * ppn + j =? k * ppn + j) eqn:E.
      - apply Nat.eqb_eq in E. assert (s = k) by nia. lia.
      - apply Nat.eqb_neq in E. assert (s <> k) by (intros ->; apply E; reflexivity). rewrite IHn by lia. lia. }
    rewrite G by lia. lia.
  Qed.

  (* position of every rank: (offset, ppn, node, nn) *)
  Theorem explicit_grid_position r : r < P ->
    grid_position (attach_explicit P ppn r) r = (r mod ppn, ppn, r / ppn, nn).
  Proof.
    intros Hr. unfold grid_position, attach_explicit. simpl.
    assert (Hk : r / ppn < nn) by (apply Nat.div_lt_upper_bound; [lia|unfold P in Hr; lia]).
    assert (Hj : r mod ppn < ppn) by (apply Nat.mod_upper_bound; lia).
    rewrite row_members by exact Hk. rewrite col_members by exact Hj.
    pose proof (Nat.div_mod r ppn ltac:(lia)) as D.
    rewrite index_in_seq by lia. rewrite seq_length, map_length, seq_length.
    replace r with (r / ppn * ppn + r mod ppn) at 3 by lia.
    rewrite index_in_col by exact Hk.
    replace (r - r / ppn * ppn) with (r mod ppn) by lia. reflexivity.
  Qed.

  (* complete grid: every cell (node k, offset j) holds exactly one rank *)
  Theorem explicit_grid_complete k j : k < nn -> j < ppn ->
    exists r, r < P /\ r / ppn = k /\ r mod ppn = j /\
              (forall r', r' < P -> r' / ppn = k -> r' mod ppn = j -> r' = r).
  Proof.
    intros Hk Hj. exists (k * ppn + j). split; [unfold P; nia|]. split; [apply div_block; lia|]. split.
    - rewrite Nat.add_comm, Nat.mod_add by lia. apply Nat.mod_small. exact Hj.
    - intros r' _ H1 H2. pose proof (Nat.div_mod r' ppn ltac:(lia)). subst. lia.
  Qed.

  (* each rank belongs to exactly its own row and its own column *)
  Theorem explicit_row_col r q : r < P -> q < P ->
    (In q (intra (attach_explicit P ppn r)) <-> q / ppn = r / ppn) /\
    (In q (inter (attach_explicit P ppn r)) <-> q mod ppn = r mod ppn).
  Proof.
    intros Hr Hq. unfold attach_explicit, members. simpl. rewrite !filter_In, !in_seq, !Nat.eqb_eq. split; split; intros H; try tauto; (split; [lia|exact H]).
  Qed.

  (* the member lists are in the order MPI_Comm_split prescribes for the keys used (offset resp. node) *)
  Definition key_lt (key : nat -> nat) (a b : nat) : Prop := key a < key b \/ (key a = key b /\ a < b).
  Theorem explicit_key_order r : r < P ->
    StronglySorted (key_lt (fun q => q mod ppn)) (intra (attach_explicit P ppn r)) /\
    StronglySorted (key_lt (fun q => q / ppn)) (inter (attach_explicit P ppn r)).
  Proof.
    intros Hr. unfold attach_explicit. simpl.
    assert (Hk : r / ppn < nn) by (apply Nat.div_lt_upper_bound; [lia|unfold P in Hr; lia]).
    assert (Hj : r mod ppn < ppn) by (apply Nat.mod_upper_bound; lia).
    rewrite row_members by exact Hk. rewrite col_members by exact Hj. split.
    - set (k := r / ppn).
      assert (G : forall n s, s + n <= ppn -> StronglySorted (key_lt (fun q => q mod ppn)) (seq (k * ppn + s) n)).
      { induction n; intros s H; [constructor|]. simpl. constructor.
        - replace (S (k * ppn + s)) with (k * ppn + S s) by lia. apply IHn. lia.
        - apply Forall_forall. intros x Hx. apply in_seq in Hx. left.
          replace x with ((x - k * ppn) + k * ppn) by lia. rewrite Nat.mod_add by lia.
          rewrite (Nat.add_comm (k * ppn) s), Nat.mod_add by lia. rewrite !Nat.mod_small by lia. lia. }
      specialize (G ppn 0 ltac:(lia)). rewrite Nat.add_0_r in G. exact G.
    - set (j := r mod ppn) in *.
      assert (G : forall n s, StronglySorted (key_lt (fun q => q / ppn)) (map (fun k => k * ppn + j) (seq s n))).
      { induction n; intros s; [constructor|]. simpl. constructor; [apply IHn|].
        apply Forall_forall. intros x Hx. apply in_map_iff in Hx. destruct Hx as [k' [<- Hk']]. apply in_seq in Hk'. left.
        assert (E : forall k, (k * ppn + j) / ppn = k) by (intros k; apply div_block; lia).
        rewrite !E. lia. }
      apply G.
  Qed.

  (* with MPI_Comm_split_type and nodes that are contiguous in rank order the same communicators result *)
  Lemma intrarank_contig q : q < P -> intrarank P (fun q => q / ppn) q = q mod ppn.
  Proof.
    intros Hq. unfold intrarank.
    assert (Hk : q / ppn < nn) by (apply Nat.div_lt_upper_bound; [lia|unfold P in Hq; lia]).
    rewrite row_members by exact Hk. pose proof (Nat.div_mod q ppn ltac:(lia)).
    pose proof (Nat.mod_upper_bound q ppn ltac:(lia)). rewrite index_in_seq by lia. lia.
  Qed.

  Theorem split_type_contiguous r : r < P ->
    attach_split_type P (fun q => q / ppn) r = Some (attach_explicit P ppn r).
  Proof.
    intros Hr. unfold attach_split_type.
    assert (ES : equal_sizes P (fun q => q / ppn) = true).
    { unfold equal_sizes.
      assert (E : map (fun q => length (members P (fun q0 => q0 / ppn) (q / ppn))) (seq 0 P) = map (fun _ => ppn) (seq 0 P)).
      { apply map_ext_in. intros q Hq. apply in_seq in Hq.
        rewrite row_members; [apply seq_length|]. apply Nat.div_lt_upper_bound; [lia|unfold P in Hq; lia]. }
      rewrite E. destruct (seq 0 P); simpl; [reflexivity|]. apply forallb_forall. intros x Hx.
      apply in_map_iff in Hx. destruct Hx as [? [<- _]]. apply Nat.eqb_refl. }
    rewrite ES. f_equal. unfold attach_explicit. f_equal.
    unfold members. rewrite intrarank_contig by exact Hr. apply filter_ext_in. intros q Hq. apply in_seq in Hq.
    rewrite intrarank_contig by lia. reflexivity.
  Qed.
End Explicit.

(* ---- arbitrary node classes ---- *)
Section Classes.
  Variable P : nat.
  Variable nd : nat -> nat.

  Lemma member_self r : r < P -> In r (members P nd (nd r)).
  Proof. intros H. unfold members. apply filter_In. split; [apply in_seq; lia|apply Nat.eqb_refl]. Qed.

  Lemma index_in_app_notin r l t : (forall x, In x l -> x <> r) -> index_in r (l ++ r :: t) = length l.
  Proof.
    induction l as [|x l IH]; intros H; simpl; [rewrite Nat.eqb_refl; reflexivity|].
    destruct (x =? r) eqn:E; [apply Nat.eqb_eq in E; exfalso; apply (H x); [left; reflexivity|exact E]|].
    f_equal. apply IH. intros y Hy. apply H. right. exact Hy.
  Qed.

  Lemma index_in_filter_seq (f : nat -> bool) r n : r < n -> f r = true ->
    index_in r (filter f (seq 0 n)) = length (filter f (seq 0 r)).
  Proof.
    intros Hr Hf. replace n with (r + (1 + (n - r - 1))) by lia. rewrite !seq_app, !filter_app.
    change (seq (0 + r) 1) with [r]. cbn [filter]. rewrite Hf. cbn [app].
    apply index_in_app_notin. intros x Hx. apply filter_In in Hx. destruct Hx as [Hx _]. apply in_seq in Hx. lia.
  Qed.

  Lemma intrarank_count r : r < P -> intrarank P nd r = length (filter (fun q => nd q =? nd r) (seq 0 r)).
  Proof. intros H. unfold intrarank, members. apply index_in_filter_seq; [exact H|apply Nat.eqb_refl]. Qed.

  (* two ranks of one node have different intraranks (ordered like the ranks) *)
  Theorem intrarank_increasing r r' : r < r' -> r' < P -> nd r = nd r' -> intrarank P nd r < intrarank P nd r'.
  Proof.
    intros H1 H2 E. rewrite !intrarank_count by lia. rewrite <- E.
    replace r' with (r + (1 + (r' - r - 1))) by lia. rewrite !seq_app, !filter_app, !app_length. simpl.
    rewrite Nat.eqb_refl. simpl. lia.
  Qed.
  Theorem grid_cell_unique r r' : r < P -> r' < P -> nd r = nd r' -> intrarank P nd r = intrarank P nd r' -> r = r'.
  Proof.
    intros H1 H2 E1 E2. destruct (Nat.lt_trichotomy r r') as [L|[L|L]]; [|exact L|].
    - pose proof (intrarank_increasing r r' L H2 E1). lia.
    - pose proof (intrarank_increasing r' r L H1 (eq_sym E1)). lia.
  Qed.

  Theorem intrarank_bound r : r < P -> intrarank P nd r < length (members P nd (nd r)).
  Proof.
    intros H. rewrite intrarank_count by exact H. unfold members.
    replace P with (r + (1 + (P - r - 1))) by lia. rewrite !seq_app, !filter_app, !app_length. simpl.
    rewrite Nat.eqb_refl. simpl. lia.
  Qed.

  (* every cell (node k, position j < size of node k) is taken *)
  Theorem grid_cell_exists k j : j < length (members P nd k) ->
    exists r, r < P /\ nd r = k /\ intrarank P nd r = j.
  Proof.
    intros Hj. set (l := members P nd k) in *.
    destruct (nth_error l j) as [r|] eqn:E; [|apply nth_error_None in E; lia].
    assert (Hin : In r l) by (eapply nth_error_In; exact E).
    unfold l, members in Hin. apply filter_In in Hin. destruct Hin as [Hs Hc]. apply in_seq in Hs. apply Nat.eqb_eq in Hc.
    exists r. split; [lia|split; [exact Hc|]].
    unfold intrarank. rewrite Hc. fold l.
    assert (ND : NoDup l) by (unfold l, members; apply NoDup_filter, seq_NoDup).
    clear -E ND. revert j E. induction l as [|x t IH]; intros j E; [destruct j; discriminate|].
    destruct j; simpl in *.
    - injection E as ->. rewrite Nat.eqb_refl. reflexivity.
    - inversion ND as [|? ? Hx ND']; subst. destruct (x =? r) eqn:Ex.
      + apply Nat.eqb_eq in Ex. subst. exfalso. apply Hx. eapply nth_error_In. exact E.
      + f_equal. apply IH; assumption.
  Qed.
End Classes.
