(* C14 - model of the node communicators (sc_mpi_comm_attach_node_comms) and of the shared arrays of sc_shmem.c.

   1. NODE GRID.  A communicator of P ranks; `MPI_Comm_split (comm, color, key)` puts the ranks of equal colour
      into one communicator, ordered by key and then by rank.  Both call sites use keys that grow with the rank
      inside a colour class, so the new communicator lists the class in ascending rank order (`members`); that this
      IS the order MPI prescribes is the lemma `members_key_sorted` of the proofs.
        explicit processes_per_node:  intranode = split (rank / ppn, rank mod ppn), internode = split (rank mod ppn, rank / ppn)
        MPI_Comm_split_type:          intranode = the node classes `nd` the MPI library reports (key = rank); accepted
                                      only if all classes have the same size; internode = split (intrarank, rank)
   2. FLAVOURS.  basic / prescan keep one private copy of the array per rank; window / window_prescan keep one copy
      per node (MPI_Win_allocate_shared on the intranode communicator), written by the rank with intrarank 0.
      allgather / prefix / memcpy are compositions of the collective specifications below.
   3. WRITE PROTOCOL.  write_start / write_end of the window flavours as a transition system over the ranks of one
      node (window locks taken with MPI_MODE_NOCHECK never block; the barriers of write_start and write_end do). *)
From Coq Require Import ZArith Arith List Bool PeanoNat.
Import ListNotations.

(* ---- communicators as member lists --------------------------------------------------------------------- *)
Definition members (P : nat) (color : nat -> nat) (c : nat) : list nat :=
  filter (fun q => color q =? c) (seq 0 P).
Fixpoint index_in (r : nat) (l : list nat) : nat :=
  match l with [] => 0 | x :: t => if x =? r then 0 else S (index_in r t) end.

(* the pair of communicators attached to rank r: member lists in communicator-rank order *)
Record node_comms := mk_nc { intra : list nat; inter : list nat }.

(* position of a rank inside its node under a colouring `nd` *)
Definition intrarank (P : nat) (nd : nat -> nat) (r : nat) : nat := index_in r (members P nd (nd r)).

Definition attach_explicit (P ppn r : nat) : node_comms :=
  mk_nc (members P (fun q => q / ppn) (r / ppn)) (members P (fun q => q mod ppn) (r mod ppn)).

(* all node classes have the same size (the MPI_Allreduce MAX / MIN test) *)
Definition equal_sizes (P : nat) (nd : nat -> nat) : bool :=
  match map (fun q => length (members P nd (nd q))) (seq 0 P) with
  | [] => true
  | s :: t => forallb (Nat.eqb s) t
  end.
Definition attach_split_type (P : nat) (nd : nat -> nat) (r : nat) : option node_comms :=
  if equal_sizes P nd
  then Some (mk_nc (members P nd (nd r)) (members P (intrarank P nd) (intrarank P nd r)))
  else None.

(* what the harness reads back with MPI_Comm_rank / MPI_Comm_size on the two communicators *)
Definition grid_position (nc : node_comms) (r : nat) : nat * nat * nat * nat :=
  (index_in r (intra nc), length (intra nc), index_in r (inter nc), length (inter nc)).

(* ---- collective specifications (items are integers, `wr` is the wrap of the C type) ----------------------- *)
Section Coll.
  Variable wr : Z -> Z.
  Definition vec := list Z.                       (* `count` items *)
  Variable contrib : nat -> vec.                  (* what each rank of the parent communicator passes in *)

  (* MPI_Gather at the root / MPI_Allgather on a communicator given by its member list *)
  Definition gather (ms : list nat) (f : nat -> list Z) : list Z := concat (map f ms).

  Definition vadd (a b : vec) : vec := map (fun p => wr (fst p + snd p)) (combine a b).
  (* MPI_Scan (SUM) on rank r of a communicator: left fold over the members up to and including r *)
  Fixpoint scan_upto (ms : list nat) (r : nat) (acc : option vec) : vec :=
    match ms with
    | [] => match acc with Some a => a | None => [] end
    | q :: t =>
      let a := match acc with Some a => vadd a (contrib q) | None => contrib q end in
      if q =? r then a else scan_upto t r (Some a)
    end.

  (* sc_scan_on_array on an array of size+1 slots of `count` items: slot p += slot p-1, p = 1 .. size *)
  Fixpoint scan_rows (prev : vec) (rows : list vec) : list vec :=
    match rows with [] => [] | x :: t => let s := vadd x prev in s :: scan_rows s t end.
  Definition scan_on_array (slots : list vec) : list vec :=
    match slots with [] => [] | z :: t => z :: scan_rows z t end.
End Coll.

(* ---- the shared-array operations ------------------------------------------------------------------------- *)
Inductive flavour := Basic | Prescan | Window | WindowPrescan.
Definition is_shared (f : flavour) : bool := match f with Window | WindowPrescan => true | _ => false end.
Definition is_prescan (f : flavour) : bool := match f with Prescan | WindowPrescan => true | _ => false end.

Section Shmem.
  Variable wr : Z -> Z.
  Variable P : nat.
  Variable comms : nat -> option node_comms.       (* what sc_mpi_comm_get_node_comms returns on each rank *)
  Variable count : nat.

  (* without attached communicators every flavour behaves like the basic one (sc_shmem.c: `type = SC_SHMEM_BASIC`) *)
  Definition prescan_on (f : flavour) (r : nat) : bool :=
    match comms r with Some _ => is_prescan f | None => false end.
  Definition shared_on (f : flavour) (r : nat) : bool :=
    match comms r with Some _ => is_shared f | None => false end.

  (* the rank whose copy rank r reads: itself, or the first member of its node *)
  Definition writer_of (f : flavour) (r : nat) : nat :=
    match comms r with
    | Some nc => if is_shared f then hd r (intra nc) else r
    | None => r
    end.
  (* return value of sc_shmem_write_start *)
  Definition write_start (f : flavour) (r : nat) : bool := writer_of f r =? r.

  (* node-major gather order used by the window flavours: the node roots in internode order, each followed by
     its node in intranode order *)
  Definition node_major (root : nat) : list nat :=
    match comms root with
    | Some nc => concat (map (fun q => match comms q with Some ncq => intra ncq | None => [q] end) (inter nc))
    | None => seq 0 P
    end.
  Definition gather_order (f : flavour) (r : nat) : list nat :=
    if shared_on f r then node_major (writer_of f r) else seq 0 P.

  (* sc_shmem_allgather: the array rank r reads afterwards *)
  Definition shmem_allgather (f : flavour) (contrib : nat -> vec) (r : nat) : list Z :=
    gather (gather_order f r) contrib.

  Fixpoint chunks (n : nat) (k : nat) (l : list Z) : list vec :=
    match k with O => [] | S k' => firstn n l :: chunks n k' (skipn n l) end.

  (* sc_shmem_prefix with MPI_SUM: count zeros, then either the gathered contributions summed up on the array, or
     the gathered results of MPI_Scan over the whole communicator *)
  Definition shmem_prefix (f : flavour) (contrib : nat -> vec) (r : nat) : list Z :=
    let order := gather_order f r in
    let zero := repeat 0%Z count in
    if prescan_on f r
    then zero ++ gather order (fun q => scan_upto wr contrib (seq 0 P) q None)
    else concat (scan_on_array wr (zero :: map contrib order)).

  (* sc_shmem_memcpy: every rank copies its source (private copies) or the writer does (shared copy) *)
  Definition shmem_memcpy (f : flavour) (src : nat -> list Z) (r : nat) : list Z := src (writer_of f r).
End Shmem.

(* ---- sc_shmem_allgather with separate send and receive signatures ------------------------------------------------ *)
(* A signature (count, size of the datatype in bytes) describes count * size bytes.  The data are BYTES here: `contrib q`
   is the send buffer of rank q.  MPI_Gather at the root / MPI_Allgather on a communicator with member list ms: every
   member sends what `snd` describes, the receiver describes ONE block by `rcv` and provides a buffer of `room` bytes; the
   call is defined (MPI: matching signatures, no truncation, no overrun) when both describe the same number of bytes, every
   send buffer holds that many, and the blocks fit; block i then sits at byte i * sig_bytes rcv. *)
Record sig := mk_sig { sg_count : nat; sg_size : nat }.
Definition sig_bytes (g : sig) : nat := sg_count g * sg_size g.
Definition sig_times (k : nat) (g : sig) : sig := mk_sig (sg_count g * k) (sg_size g).      (* count * intrasize *)
Definition coll_gather (ms : list nat) (f : nat -> list Z) (snd rcv : sig) (room : nat) : option (list Z) :=
  if (sig_bytes snd =? sig_bytes rcv) && forallb (fun q => length (f q) =? sig_bytes snd) ms && (length ms * sig_bytes rcv <=? room)
  then Some (concat (map f ms)) else None.

Section ShmemSig.
  Variable P : nat.
  Variable comms : nat -> option node_comms.
  Variable contrib : nat -> list Z.
  Variables snd rcv : sig.            (* (sendcount, size of sendtype), (recvcount, size of recvtype) as passed to sc_shmem_allgather *)
  Variable room : nat.                (* bytes of the array passed as recvbuf *)

  (* sc_shmem_allgather_common, the node root q: SC_ALLOC (intrasize * recvcount * sizeof (recvtype)), then
     MPI_Gather (sendbuf, sendcount, sendtype, buffer, recvcount, recvtype, 0, intranode) *)
  Definition node_buffer (q : nat) : option (list Z) :=
    match comms q with
    | Some ncq => coll_gather (intra ncq) contrib snd rcv (length (intra ncq) * (sg_count rcv * sg_size rcv))
    | None => None
    end.
  Definition is_some {B} (o : option B) : bool := match o with Some _ => true | None => false end.
  Definition or_nil (o : option (list Z)) : list Z := match o with Some l => l | None => [] end.

  (* basic flavours: MPI_Allgather (sendbuf, sendcount, sendtype, recvbuf, recvcount, recvtype, comm);
     window flavours: the node roots, then MPI_Allgather (buffer, sendcount * intrasize, sendtype, recvbuf,
     recvcount * intrasize, recvtype, internode) by the writer.  None: some MPI call is erroneous. *)
  Definition shmem_allgather_sig (f : flavour) (r : nat) : option (list Z) :=
    if shared_on comms f r then
      match comms (writer_of comms f r) with
      | Some nc =>
        let k := length (intra nc) in
        if forallb (fun q => is_some (node_buffer q)) (inter nc)
        then coll_gather (inter nc) (fun q => or_nil (node_buffer q)) (sig_times k snd) (sig_times k rcv) room
        else None
      | None => None
      end
    else coll_gather (seq 0 P) contrib snd rcv room.
End ShmemSig.

(* ---- the lock / barrier protocol of the window flavours on one node ------------------------------------- *)
(* sc_shmem_write_start_window: unlock the shared lock, barrier on the node, then intranode rank 0 takes the exclusive lock;
   sc_shmem_write_end_window: the writer unlocks, barrier on the node, everybody takes the shared lock again.  Both locks are
   taken with MPI_MODE_NOCHECK ("no conflicting lock is held"): they never block, a false assertion is recorded in `conflict`.
   phases of a rank: holding the shared lock and reading; inside write_start (shared lock released, waiting in its barrier);
   between write_start and write_end as the writer (exclusive lock) or as a non-writer (no lock); waiting in the barrier of
   write_end.
   events: WS_arrive i  rank i calls write_start: unlocks and enters the barrier
           WS_leave i   that barrier is complete for rank i (every rank of the node has entered it): write_start returns, rank 0
                        with the exclusive lock
           WR i v       rank i stores v into the array
           WE_arrive i  rank i calls write_end: unlocks if it is the writer, enters the barrier
           WE_leave i   that barrier is complete for rank i: shared lock, write_end returns
   `pstep_gen wait`: wait = true is the code as it is; wait = false is libsc BEFORE the repair of finding F-C14b, whose write_start
   had no barrier (WS_leave did not wait for anybody): kept as `pstep_old` for the regression theorems. *)
Inductive phase := Reading | InStart | Writer | NonWriter | InBarrier.
Inductive lock := NoLock | SharedLock | ExclLock.

Record pstate := mk_ps {
  ph : nat -> phase;            (* per intranode rank *)
  lk : nat -> lock;
  sarrived : nat -> nat;        (* barriers of write_start entered so far = write_start calls begun *)
  sleft : nat -> nat;           (* barriers of write_start left so far = write_start calls returned from *)
  arrived : nat -> nat;         (* barriers of write_end entered so far = write_end calls begun *)
  left_ : nat -> nat;           (* barriers of write_end left so far = write_end calls returned from *)
  mem : Z;                      (* content of the shared array (abstract) *)
  conflict : bool;              (* some lock was taken (MPI_MODE_NOCHECK) while a conflicting lock was held *)
  wround : nat;                 (* the writer's round in which `mem` was stored last (0: never); book-keeping only *)
  snap : nat -> Z               (* the array as the writer left it when it entered its k-th write_end (snap 0: initially); book-keeping only *)
}.
Definition upd {B} (f : nat -> B) (i : nat) (v : B) : nat -> B := fun j => if j =? i then v else f j.

Inductive event :=
| WS_arrive (i : nat)
| WS_leave (i : nat)
| WR (i : nat) (v : Z)
| WE_arrive (i : nat)
| WE_leave (i : nat).

Definition others_hold (n : nat) (lk : nat -> lock) (i : nat) : bool :=
  existsb (fun j => negb (j =? i) && match lk j with NoLock => false | _ => true end) (seq 0 n).
Definition others_excl (n : nat) (lk : nat -> lock) (i : nat) : bool :=
  existsb (fun j => negb (j =? i) && match lk j with ExclLock => true | _ => false end) (seq 0 n).
Definition barrier_done (n : nat) (cnt : nat -> nat) (i : nat) : bool := forallb (fun j => cnt i <=? cnt j) (seq 0 n).

Definition pstep_gen (wait : bool) (n : nat) (s : pstate) (e : event) : option pstate :=
  match e with
  | WS_arrive i =>
    if (i <? n) && match ph s i with Reading => true | _ => false end
    then Some (mk_ps (upd (ph s) i InStart) (upd (lk s) i NoLock) (upd (sarrived s) i (S (sarrived s i))) (sleft s)
                     (arrived s) (left_ s) (mem s) (conflict s) (wround s) (snap s))
    else None
  | WS_leave i =>
    if (i <? n) && match ph s i with InStart => true | _ => false end && (negb wait || barrier_done n (sarrived s) i) then
      if i =? 0
      then Some (mk_ps (upd (ph s) i Writer) (upd (lk s) i ExclLock) (sarrived s) (upd (sleft s) i (S (sleft s i)))
                       (arrived s) (left_ s) (mem s) (conflict s || others_hold n (lk s) i) (wround s) (snap s))
      else Some (mk_ps (upd (ph s) i NonWriter) (lk s) (sarrived s) (upd (sleft s) i (S (sleft s i)))
                       (arrived s) (left_ s) (mem s) (conflict s) (wround s) (snap s))
    else None
  | WR i v =>
    if (i <? n) && match ph s i with Writer => true | _ => false end
    then Some (mk_ps (ph s) (lk s) (sarrived s) (sleft s) (arrived s) (left_ s) v (conflict s) (S (arrived s 0)) (snap s))
    else None
  | WE_arrive i =>
    if (i <? n) && match ph s i with Writer | NonWriter => true | _ => false end
    then Some (mk_ps (upd (ph s) i InBarrier) (upd (lk s) i NoLock) (sarrived s) (sleft s)
                     (upd (arrived s) i (S (arrived s i))) (left_ s) (mem s) (conflict s) (wround s)
                     (if i =? 0 then upd (snap s) (S (arrived s 0)) (mem s) else snap s))
    else None
  | WE_leave i =>
    if (i <? n) && match ph s i with InBarrier => true | _ => false end && barrier_done n (arrived s) i
    then Some (mk_ps (upd (ph s) i Reading) (upd (lk s) i SharedLock) (sarrived s) (sleft s)
                     (arrived s) (upd (left_ s) i (S (left_ s i))) (mem s) (conflict s || others_excl n (lk s) i) (wround s) (snap s))
    else None
  end.

Definition pstep := pstep_gen true.
Definition pstep_old := pstep_gen false.

Definition pinit (v : Z) : pstate :=
  mk_ps (fun _ => Reading) (fun _ => SharedLock) (fun _ => 0) (fun _ => 0) (fun _ => 0) (fun _ => 0) v false 0 (fun _ => v).

Fixpoint prun_gen (wait : bool) (n : nat) (s : pstate) (es : list event) : option pstate :=
  match es with
  | [] => Some s
  | e :: t => match pstep_gen wait n s e with Some s' => prun_gen wait n s' t | None => None end
  end.
Definition prun := prun_gen true.
Definition prun_old := prun_gen false.
Definition WS (i : nat) : list event := [WS_arrive i; WS_leave i].

(* ---- per-rank sequence of MPI calls (compared with the trace of the real code) ---------------------------- *)
(* call codes: 1 Allgather(world) 2 Scan(world) 3 Gather(intranode, root 0) 4 Allgather(internode) 5 Barrier(intranode)
               6 Win_unlock 7 Win_lock exclusive 8 Win_lock shared *)
Definition calls_write_start (shared writer : bool) : list nat :=
  if shared then 6 :: 5 :: (if writer then [7] else []) else [].
Definition calls_write_end (shared writer : bool) : list nat :=
  if shared then (if writer then [6] else []) ++ [5; 8] else [].
Definition calls_allgather (shared writer : bool) : list nat :=
  if shared then 3 :: calls_write_start shared writer ++ (if writer then [4] else []) ++ calls_write_end shared writer
  else [1].
Definition calls_prefix (prescan shared writer : bool) : list nat :=
  (if prescan then [2] else []) ++ calls_allgather shared writer.
Definition calls_memcpy (shared writer : bool) : list nat :=
  calls_write_start shared writer ++ calls_write_end shared writer.
(* 9 Win_allocate_shared(intranode) 10 Win_free: sc_shmem_malloc gathers the window handles in front of the array *)
Definition calls_malloc (shared : bool) : list nat := if shared then [9; 3; 5; 8] else [].
Definition calls_free (shared : bool) : list nat := if shared then [6; 10] else [].

(* wrap of the supported integer datatypes, numbered as in the harness:
   0 char 1 short 2 unsigned short 3 int 4 unsigned 5 long 6 unsigned long 7 long long *)
From ScV Require Import Base.CInt.
Definition wrap_of (d : nat) : Z -> Z :=
  match d with
  | 0 => s8 | 1 => s16 | 2 => u16 | 3 => s32 | 4 => u32 | 5 => s64 | 6 => u64 | _ => s64
  end.

(* everything the harness prints for one rank *)
Definition rank_report (d P : nat) (comms : nat -> option node_comms) (count : nat) (f : flavour)
           (contrib : nat -> vec) (r : nat) :=
  let sh := shared_on comms f r in
  let w := write_start comms f r in
  (shmem_allgather P comms f contrib r, shmem_prefix (wrap_of d) P comms count f contrib r, w,
   (calls_malloc sh, calls_allgather sh w, calls_prefix (prescan_on comms f r) sh w, calls_memcpy sh w, calls_free sh)).

(* ---- life cycle of the attached communicators (sc_mpi.c: attach / detach / the attribute callbacks) ------------- *)
(* `live`: the communicators created through this communicator's node-comm attribute and not yet freed (ids in
   creation order); `attr`: the value of the attribute sc_mpi_node_comm_keyval = the pair (intranode, internode). *)
Record lstate := mk_ls { live : list nat; next_id : nat; attr : option (nat * nat) }.
Definition l_new (s : lstate) : nat * lstate := (next_id s, mk_ls (next_id s :: live s) (S (next_id s)) (attr s)).
Definition l_free (c : nat) (s : lstate) : lstate := mk_ls (remove Nat.eq_dec c (live s)) (next_id s) (attr s).
(* MPI_Comm_delete_attr runs sc_mpi_node_comms_destroy: both communicators are freed *)
Definition l_detach (s : lstate) : lstate :=
  match attr s with
  | Some (a, b) => mk_ls (remove Nat.eq_dec b (remove Nat.eq_dec a (live s))) (next_id s) None
  | None => s
  end.
(* MPI_Comm_set_attr deletes an old value first (delete callback), then stores the new one *)
Definition l_set_attr (v : nat * nat) (s : lstate) : lstate :=
  let s' := l_detach s in mk_ls (live s') (next_id s') (Some v).
(* sc_mpi_comm_attach_node_comms: explicit -> two splits; split_type -> one split_type, then either the second
   split or (node sizes differ) the first communicator is freed again and nothing is attached *)
Definition l_attach (explicit equal : bool) (s : lstate) : lstate :=
  let '(a, s1) := l_new s in
  if explicit || equal then let '(b, s2) := l_new s1 in l_set_attr (a, b) s2 else l_free a s1.
Definition l_get (s : lstate) : option (nat * nat) := attr s.

(* ---- MPI_Comm_dup of a communicator that carries the attachment (sc_mpi_node_comms_copy) -------------------------- *)
(* MPI_Comm_dup: a new communicator with the same group in the same rank order *)
Definition comm_dup (l : list nat) : list nat := l.
(* the copy callback: slot 0 of the duplicate is a duplicate of slot 0 (intranode), slot 1 of slot 1 (internode) *)
Definition dup_comms (nc : node_comms) : node_comms := mk_nc (comm_dup (intra nc)) (comm_dup (inter nc)).
Definition comms_dup (comms : nat -> option node_comms) (r : nat) : option node_comms := option_map dup_comms (comms r).
(* life cycle: the duplicate's attribute value is a pair of NEW communicators (ids in creation order: first the
   duplicate of slot 0, then of slot 1); the original's attribute is untouched.  Without attachment nothing happens. *)
Definition l_dup (s : lstate) : lstate * option (nat * nat) :=
  match attr s with
  | Some _ => (mk_ls (S (next_id s) :: next_id s :: live s) (S (S (next_id s))) (attr s), Some (next_id s, S (next_id s)))
  | None => (s, None)
  end.
(* which slot of the original each slot of the duplicate was copied from *)
Definition dup_sources (s : lstate) : option (nat * nat) := attr s.
(* MPI_Comm_free of the duplicate runs the delete callback on ITS attribute value: exactly its two communicators go *)
Definition l_free_dup (d : option (nat * nat)) (s : lstate) : lstate :=
  match d with
  | Some (a, b) => mk_ls (remove Nat.eq_dec b (remove Nat.eq_dec a (live s))) (next_id s) (attr s)
  | None => s
  end.
(* MPI calls of MPI_Comm_dup on this rank: 11 Comm_dup (intranode), 12 Comm_dup (internode) inside the copy callback,
   13 the duplication of the communicator itself *)
Definition calls_dup (attached : bool) : list nat := (if attached then [11; 12] else []) ++ [13].

(* ---- HISTORIES of attach / detach / dup / free on one communicator and its duplicate ------------------------------------------ *)
(* communicator 0 = the original, 1 = its duplicate (exists between HDup and HFreeDup).  D = a division of the ranks into nodes
   (what an attach that succeeds attaches: the processes_per_node passed, or the equally sized classes MPI_Comm_split_type reported).
   h_attr c = the attribute value of communicator c: the ids of its (intranode, internode) pair and the division they realise.
   HAttach c (Some d): sc_mpi_comm_attach_node_comms creates two communicators and MPI_Comm_set_attr replaces the attribute - the delete
                       callback frees the pair attached before; HAttach c None: MPI_Comm_split_type reported nodes of different sizes,
                       the communicator just created is freed, NOTHING else changes (an older attachment stays);
   HDetach c: MPI_Comm_delete_attr (delete callback); HDup: MPI_Comm_dup of the original (copy callback: two new communicators realising
   the same division); HFreeDup: MPI_Comm_free of the duplicate (delete callback). *)
Section History.
  Variable D : Type.
  Record hstate := mk_hs { h_live : list nat; h_next : nat; h_attr : nat -> option (nat * nat * D); h_dup : bool }.
  Inductive hop := HAttach (c : nat) (d : option D) | HDetach (c : nat) | HDup | HFreeDup.
  Definition h_valid (s : hstate) (c : nat) : bool := (c =? 0) || ((c =? 1) && h_dup s).
  Definition release (o : option (nat * nat * D)) (l : list nat) : list nat :=
    match o with Some (a, b, _) => remove Nat.eq_dec b (remove Nat.eq_dec a l) | None => l end.
  Definition hstep (s : hstate) (o : hop) : option hstate :=
    match o with
    | HAttach c (Some d) =>
      if h_valid s c then
        let a := h_next s in let b := S a in
        Some (mk_hs (release (h_attr s c) (b :: a :: h_live s)) (S b) (upd (h_attr s) c (Some (a, b, d))) (h_dup s))
      else None
    | HAttach c None =>
      if h_valid s c then Some (mk_hs (remove Nat.eq_dec (h_next s) (h_next s :: h_live s)) (S (h_next s)) (h_attr s) (h_dup s)) else None
    | HDetach c =>
      if h_valid s c then Some (mk_hs (release (h_attr s c) (h_live s)) (h_next s) (upd (h_attr s) c None) (h_dup s)) else None
    | HDup =>
      if h_dup s then None else
      match h_attr s 0 with
      | Some (_, _, d) => let a := h_next s in let b := S a in
                          Some (mk_hs (b :: a :: h_live s) (S b) (upd (h_attr s) 1 (Some (a, b, d))) true)
      | None => Some (mk_hs (h_live s) (h_next s) (upd (h_attr s) 1 None) true)
      end
    | HFreeDup =>
      if h_dup s then Some (mk_hs (release (h_attr s 1) (h_live s)) (h_next s) (upd (h_attr s) 1 None) false) else None
    end.
  Definition hinit : hstate := mk_hs [] 0 (fun _ => None) false.
  Fixpoint hrun (s : hstate) (h : list hop) : option hstate :=
    match h with [] => Some s | o :: t => match hstep s o with Some s' => hrun s' t | None => None end end.
  Definition h_division (s : hstate) (c : nat) : option D := match h_attr s c with Some (_, _, d) => Some d | None => None end.

  (* SPECIFICATION: the division in force, without any communicator ids: the last attach that attached, until a detach / free *)
  Definition dstep (cur : nat -> option D) (o : hop) : nat -> option D :=
    match o with
    | HAttach c (Some d) => upd cur c (Some d)
    | HAttach c None => cur
    | HDetach c => upd cur c None
    | HDup => upd cur 1 (cur 0)
    | HFreeDup => upd cur 1 None
    end.
  Definition in_force (h : list hop) : nat -> option D := fold_left dstep h (fun _ => None).
End History.
Arguments HDup {D}. Arguments HFreeDup {D}. Arguments HDetach {D} c. Arguments hinit {D}.
