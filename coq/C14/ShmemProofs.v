(* C14: what the shared-array operations leave in the array, who may write, and the life cycle of the attached
   communicators.  The statements are about C14/ShmemModel.v. *)
From Coq Require Import ZArith Arith List Bool PeanoNat Lia Permutation.
From ScV Require Import Base.CInt C14.ShmemModel C14.GridProofs.
Import ListNotations.

(* ---- specification of the results --------------------------------------------------------------------------- *)
Definition rank_order (P : nat) (contrib : nat -> vec) : list Z := concat (map contrib (seq 0 P)).

(* (0, s0, s0+s1, ...) as the C code computes it: every partial sum wrapped into the item type *)
Fixpoint prefix_rows (wr : Z -> Z) (acc : vec) (cs : list vec) : list vec :=
  match cs with [] => [] | c :: t => let a := vadd wr acc c in a :: prefix_rows wr a t end.
Definition prefix_spec (wr : Z -> Z) (P count : nat) (contrib : nat -> vec) : list Z :=
  concat (repeat 0%Z count :: prefix_rows wr (repeat 0%Z count) (map contrib (seq 0 P))).

(* the mathematical sums, wrapped once *)
Definition vsum (a b : vec) : vec := map (fun p => (fst p + snd p)%Z) (combine a b).
Fixpoint sum_rows (acc : vec) (cs : list vec) : list vec :=
  match cs with [] => [] | c :: t => let a := vsum acc c in a :: sum_rows a t end.

Lemma vadd_comm wr a b : vadd wr a b = vadd wr b a.
Proof.
  unfold vadd. revert b; induction a as [|x a IH]; intros [|y b]; simpl; try reflexivity.
  rewrite IH. f_equal. f_equal. lia.
Qed.

Lemma vadd_length wr a b : length (vadd wr a b) = Nat.min (length a) (length b).
Proof. unfold vadd. rewrite map_length, combine_length. reflexivity. Qed.

Lemma vadd_zero_l wr n c : length c = n -> (forall x, In x c -> wr x = x) -> vadd wr (repeat 0%Z n) c = c.
Proof.
  intros <-. unfold vadd. induction c as [|x c IH]; intros H; simpl; [reflexivity|].
  rewrite (H x) by (left; reflexivity). f_equal. apply IH. intros y Hy. apply H. right. exact Hy.
Qed.

(* a wrap that commutes with addition (every two's complement / modular wrap does) *)
Definition wrap_hom (wr : Z -> Z) : Prop := forall a b, wr (wr a + b)%Z = wr (a + b)%Z.

Lemma wrapu_hom m : wrap_hom (wrapu m).
Proof. intros a b. unfold wrapu. apply Zplus_mod_idemp_l. Qed.
Lemma wraps_hom m : wrap_hom (wraps m).
Proof.
  intros a b. unfold wraps. f_equal.
  replace ((a + m / 2) mod m - m / 2 + b + m / 2)%Z with ((a + m / 2) mod m + b)%Z by lia.
  rewrite Zplus_mod_idemp_l. f_equal. lia.
Qed.
Lemma wrap_of_hom d : wrap_hom (wrap_of d).
Proof.
  unfold wrap_of. do 7 (destruct d as [|d]; [first [apply wraps_hom | apply wrapu_hom]|]). apply wraps_hom.
Qed.

(* the wrapped partial sums are the wrapped mathematical sums *)
Lemma prefix_rows_sums wr : wrap_hom wr -> forall cs acc acc', map wr acc' = acc ->
  prefix_rows wr acc cs = map (map wr) (sum_rows acc' cs).
Proof.
  intros H. induction cs as [|c cs IH]; intros acc acc' E; [reflexivity|]. simpl.
  assert (E2 : map wr (vsum acc' c) = vadd wr acc c).
  { subst acc. unfold vsum, vadd. clear IH. revert c. induction acc' as [|x a IHa]; intros [|y c]; simpl; try reflexivity.
    rewrite IHa. f_equal. symmetry. apply H. }
  rewrite <- E2. f_equal. apply IH. reflexivity.
Qed.

(* ---- gather orders ------------------------------------------------------------------------------------------ *)
Lemma concat_blocks ppn nn : concat (map (fun k => seq (k * ppn) ppn) (seq 0 nn)) = seq 0 (nn * ppn).
Proof.
  induction nn as [|n IH]; [reflexivity|].
  rewrite seq_S, map_app, concat_app, IH. simpl. rewrite app_nil_r.
  replace (ppn + n * ppn) with (n * ppn + ppn) by lia. rewrite seq_app. reflexivity.
Qed.

Lemma map_nth_all {A} (l : list A) d : map (fun q => nth q l d) (seq 0 (length l)) = l.
Proof.
  induction l as [|x l IH]; [reflexivity|]. simpl. f_equal. rewrite <- seq_shift, map_map. exact IH.
Qed.

Section Results.
  Variable wr : Z -> Z.
  Variables nn ppn count : nat.
  Hypothesis ppn_pos : 0 < ppn.
  Let P := nn * ppn.

  (* node communicators of a contiguous equal-size partition: explicit processes_per_node, or MPI_Comm_split_type
     reporting blocks of ppn consecutive ranks (GridProofs.split_type_contiguous: these are the same) *)
  Definition comms_explicit (r : nat) : option node_comms := Some (attach_explicit P ppn r).

  Lemma writer_explicit f r : r < P ->
    writer_of comms_explicit f r = if is_shared f then r / ppn * ppn else r.
  Proof.
    intros Hr. unfold writer_of, comms_explicit. destruct (is_shared f); [|reflexivity].
    unfold attach_explicit. cbn [intra].
    assert (Hk : r / ppn < nn) by (apply Nat.div_lt_upper_bound; [lia|unfold P in Hr; lia]).
    unfold P. rewrite (row_members nn ppn ppn_pos _ Hk). destruct ppn; [lia|reflexivity].
  Qed.

  Lemma node_major_explicit k : k < nn -> node_major P comms_explicit (k * ppn) = seq 0 P.
  Proof.
    intros Hk. unfold node_major, comms_explicit, attach_explicit. cbn [inter intra].
    replace ((k * ppn) mod ppn) with 0 by (symmetry; apply Nat.mod_mul; lia).
    unfold P. rewrite (col_members nn ppn ppn_pos 0 ppn_pos), map_map.
    rewrite <- (concat_blocks ppn nn). f_equal. apply map_ext_in. intros j Hj. apply in_seq in Hj.
    rewrite Nat.add_0_r, Nat.div_mul by lia.
    apply (row_members nn ppn ppn_pos). lia.
  Qed.

  Lemma gather_order_explicit f r : r < P -> gather_order P comms_explicit f r = seq 0 P.
  Proof.
    intros Hr. unfold gather_order, shared_on, comms_explicit. destruct (is_shared f) eqn:E; [|reflexivity].
    fold comms_explicit. rewrite writer_explicit, E by exact Hr. apply node_major_explicit.
    apply Nat.div_lt_upper_bound; [lia|unfold P in Hr; lia].
  Qed.

  (* who may write: every rank for the private flavours, the first rank of each node for the window flavours *)
  Theorem write_start_explicit f r : r < P ->
    write_start comms_explicit f r = if is_shared f then (r mod ppn =? 0) else true.
  Proof.
    intros Hr. unfold write_start. rewrite writer_explicit by exact Hr. destruct (is_shared f); [|apply Nat.eqb_refl].
    pose proof (Nat.div_mod r ppn ltac:(lia)) as D.
    destruct (r mod ppn =? 0) eqn:E; [apply Nat.eqb_eq in E; apply Nat.eqb_eq; lia|apply Nat.eqb_neq in E; apply Nat.eqb_neq; lia].
  Qed.

  (* sc_shmem_memcpy: every rank afterwards reads its writer's source; identical sources give identical copies *)
  Theorem memcpy_explicit f (src : nat -> list Z) r : (forall q q', src q = src q') ->
    shmem_memcpy comms_explicit f src r = src r.
  Proof. intros H. unfold shmem_memcpy. apply H. Qed.

  Variable contrib : nat -> vec.

  (* sc_shmem_allgather: contributions of ranks 0 .. P-1 in rank order, whatever the flavour and the reading rank *)
  Theorem allgather_explicit f r : r < P -> shmem_allgather P comms_explicit f contrib r = rank_order P contrib.
  Proof. intros Hr. unfold shmem_allgather, gather. rewrite gather_order_explicit by exact Hr. reflexivity. Qed.

  Hypothesis Hlen : forall q, q < P -> length (contrib q) = count.
  Hypothesis Hrange : forall q x, q < P -> In x (contrib q) -> wr x = x.      (* the items are values of the C type *)

  Lemma scan_rows_prefix prev rows : scan_rows wr prev rows = prefix_rows wr prev rows.
  Proof.
    revert prev; induction rows as [|x t IH]; intros prev; [reflexivity|]. simpl.
    rewrite (vadd_comm wr x prev). f_equal. apply IH.
  Qed.

  Lemma scan_upto_prefix n : forall a acc q, a <= q < a + n ->
    scan_upto wr contrib (seq a n) q (Some acc) = nth (q - a) (prefix_rows wr acc (map contrib (seq a n))) [].
  Proof.
    induction n as [|n IH]; intros a acc q H; [lia|]. simpl.
    destruct (a =? q) eqn:E.
    - apply Nat.eqb_eq in E. subst. rewrite Nat.sub_diag. reflexivity.
    - apply Nat.eqb_neq in E. rewrite IH by lia. replace (q - a) with (S (q - S a)) by lia. reflexivity.
  Qed.

  Lemma prefix_rows_length acc cs : length (prefix_rows wr acc cs) = length cs.
  Proof. revert acc; induction cs as [|c t IH]; intros acc; simpl; [reflexivity|]. rewrite IH. reflexivity. Qed.

  Lemma scan_is_row q : q < P ->
    scan_upto wr contrib (seq 0 P) q None = nth q (prefix_rows wr (repeat 0%Z count) (map contrib (seq 0 P))) [].
  Proof.
    intros Hq.
    assert (E : seq 0 P = 0 :: seq 1 (P - 1)).
    { generalize Hq. generalize P. intros [|p] H; [lia|]. cbn [seq]. f_equal. f_equal. lia. }
    rewrite E. cbn [map prefix_rows scan_upto].
    assert (Z0 : vadd wr (repeat 0%Z count) (contrib 0) = contrib 0).
    { apply vadd_zero_l; [apply Hlen; lia|intros x Hx; apply (Hrange 0); [lia|exact Hx]]. }
    rewrite Z0. destruct q as [|q]; [reflexivity|]. cbn [Nat.eqb nth].
    rewrite scan_upto_prefix by lia. replace (S q - 1) with q by lia. reflexivity.
  Qed.

  (* sc_shmem_prefix (SUM): (0, s0, s0+s1, ...), whatever the flavour and the reading rank *)
  Theorem prefix_explicit f r : r < P ->
    shmem_prefix wr P comms_explicit count f contrib r = prefix_spec wr P count contrib.
  Proof.
    intros Hr. unfold shmem_prefix, prefix_spec. rewrite gather_order_explicit by exact Hr.
    destruct (prescan_on comms_explicit f r).
    - cbn [concat]. f_equal. unfold gather.
      set (rows := prefix_rows wr (repeat 0%Z count) (map contrib (seq 0 P))).
      assert (L : length rows = P) by (unfold rows; rewrite prefix_rows_length, map_length, seq_length; reflexivity).
      f_equal. rewrite <- (map_nth_all rows []), L. apply map_ext_in. intros q Hq. apply in_seq in Hq.
      apply scan_is_row. lia.
    - unfold scan_on_array. rewrite scan_rows_prefix. reflexivity.
  Qed.

  (* the same as mathematical sums wrapped once *)
  Theorem prefix_spec_sums : wrap_hom wr -> wr 0%Z = 0%Z ->
    prefix_spec wr P count contrib
    = concat (repeat 0%Z count :: map (map wr) (sum_rows (repeat 0%Z count) (map contrib (seq 0 P)))).
  Proof.
    intros H H0. unfold prefix_spec. f_equal. f_equal. apply prefix_rows_sums; [exact H|].
    clear -H0. induction count as [|n IH]; [reflexivity|]. simpl. rewrite H0, IH. reflexivity.
  Qed.

End Results.

(* not attached at all: every flavour is the basic one *)
Section Unattached.
  Variable wr : Z -> Z.
  Variables P count : nat.
  Variable contrib : nat -> vec.
  Definition comms_none (r : nat) : option node_comms := None.

  Theorem allgather_unattached f r : shmem_allgather P comms_none f contrib r = rank_order P contrib.
  Proof. reflexivity. Qed.
  Theorem prefix_unattached f r : shmem_prefix wr P comms_none count f contrib r = prefix_spec wr P count contrib.
  Proof.
    unfold shmem_prefix, prefix_spec, prescan_on, gather_order, shared_on, comms_none, scan_on_array.
    f_equal. f_equal. generalize (repeat 0%Z count) (map contrib (seq 0 P)). intros prev rows.
    revert prev; induction rows as [|x t IH]; intros prev; [reflexivity|]. simpl.
    rewrite (vadd_comm wr x prev). f_equal. apply IH.
  Qed.
  Theorem write_start_unattached f r : write_start comms_none f r = true.
  Proof. unfold write_start, writer_of, comms_none. apply Nat.eqb_refl. Qed.
End Unattached.

(* ---- exactly one writer per node, for ANY node classes ------------------------------------------------------- *)
Section Writers.
  Variable P : nat.
  Variable nd : nat -> nat.
  Variable comms : nat -> option node_comms.
  Hypothesis Hc : forall q, q < P -> exists nc, comms q = Some nc /\ intra nc = members P nd (nd q).

  Lemma members_in q c : In q (members P nd c) <-> q < P /\ nd q = c.
  Proof. unfold members. rewrite filter_In, in_seq, Nat.eqb_eq. intuition lia. Qed.

  Theorem one_writer_per_node f r : r < P -> is_shared f = true ->
    In (hd r (members P nd (nd r))) (members P nd (nd r)) /\
    forall q, In q (members P nd (nd r)) ->
      (write_start comms f q = true <-> q = hd r (members P nd (nd r))).
  Proof.
    intros Hr Hs.
    assert (Hin : In r (members P nd (nd r))) by (apply members_in; split; [exact Hr|reflexivity]).
    split; [destruct (members P nd (nd r)); [contradiction|left; reflexivity]|].
    intros q Hq. apply members_in in Hq. destruct Hq as [Hq E].
    destruct (Hc q Hq) as [nc [C I]]. unfold write_start, writer_of. rewrite C, Hs, I, E.
    destruct (members P nd (nd r)) as [|x l]; [contradiction|]. cbn [hd]. rewrite Nat.eqb_eq. split; congruence.
  Qed.

  Theorem all_write_unshared f r : is_shared f = false -> write_start comms f r = true.
  Proof. intros Hs. unfold write_start, writer_of. destruct (comms r); rewrite ?Hs; apply Nat.eqb_refl. Qed.
End Writers.

Lemma explicit_intra_members nn ppn q : intra (attach_explicit (nn * ppn) ppn q) = members (nn * ppn) (fun x => x / ppn) (q / ppn).
Proof. reflexivity. Qed.

Lemma split_type_intra_members P nd q nc : attach_split_type P nd q = Some nc -> intra nc = members P nd (nd q).
Proof. unfold attach_split_type. destruct (equal_sizes P nd); [|discriminate]. intros E. injection E as <-. reflexivity. Qed.

Corollary one_writer_explicit nn ppn f r : 0 < ppn -> r < nn * ppn -> is_shared f = true ->
  let row := members (nn * ppn) (fun q => q / ppn) (r / ppn) in
  In (hd r row) row /\ forall q, In q row -> (write_start (comms_explicit nn ppn) f q = true <-> q = hd r row).
Proof.
  intros Hp Hr Hs. apply (one_writer_per_node (nn * ppn) (fun q => q / ppn) (comms_explicit nn ppn)); [|exact Hr|exact Hs].
  intros q _. eexists. split; [reflexivity|]. reflexivity.
Qed.

Corollary one_writer_split_type P nd f r : equal_sizes P nd = true -> r < P -> is_shared f = true ->
  let row := members P nd (nd r) in
  In (hd r row) row /\ forall q, In q row -> (write_start (attach_split_type P nd) f q = true <-> q = hd r row).
Proof.
  intros He Hr Hs. apply (one_writer_per_node P nd (attach_split_type P nd)); [|exact Hr|exact Hs].
  intros q _. unfold attach_split_type. rewrite He. eexists. split; [reflexivity|]. reflexivity.
Qed.

(* ---- F-C14a: node classes that are not contiguous in rank order ---------------------------------------------- *)
(* P = 4, two nodes of two ranks placed round robin (node = rank mod 2), window flavour, contribution of rank q = [q]:
   all node sizes are equal, the communicators are attached, and the array holds 0 2 1 3 *)
Definition rr_nd (r : nat) : nat := r mod 2.
Definition rr_comms (r : nat) : option node_comms := attach_split_type 4 rr_nd r.
Definition rr_contrib (q : nat) : vec := [Z.of_nat q].

Theorem roundrobin_refuted :
  equal_sizes 4 rr_nd = true /\
  shmem_allgather 4 rr_comms Window rr_contrib 0 = [0; 2; 1; 3]%Z /\
  shmem_allgather 4 rr_comms Window rr_contrib 0 <> rank_order 4 rr_contrib /\
  shmem_prefix s32 4 rr_comms 1 Window rr_contrib 3 = [0; 0; 2; 3; 6]%Z /\
  shmem_prefix s32 4 rr_comms 1 Window rr_contrib 3 <> prefix_spec s32 4 1 rr_contrib /\
  shmem_allgather 4 rr_comms Basic rr_contrib 0 = rank_order 4 rr_contrib.
Proof. vm_compute. repeat split; discriminate. Qed.

(* ---- life cycle of the attached communicators ---------------------------------------------------------------- *)
Section Life.
  Variable s : lstate.
  Hypothesis fresh : forall c, In c (live s) -> c < next_id s.
  Hypothesis none : attr s = None.

  Lemma remove_fresh c l : ~ In c l -> remove Nat.eq_dec c l = l.
  Proof. apply notin_remove. Qed.

  Lemma next_not_live : ~ In (next_id s) (live s).
  Proof. intros H. apply fresh in H. lia. Qed.

  (* attach succeeds: both communicators exist and are what get_node_comms returns *)
  Theorem attach_ok explicit : let s' := l_attach explicit true s in
    l_get s' = Some (next_id s, S (next_id s)) /\ live s' = S (next_id s) :: next_id s :: live s.
  Proof.
    unfold l_attach, l_new, l_set_attr, l_detach. cbn [attr live next_id]. rewrite Bool.orb_true_r, none.
    cbn [attr live next_id l_get]. split; reflexivity.
  Qed.

  (* detach frees both: nothing of what attach created stays alive, the attribute is gone *)
  Theorem attach_detach explicit equal : let s' := l_detach (l_attach explicit equal s) in
    live s' = live s /\ l_get s' = None.
  Proof.
    unfold l_attach, l_new, l_set_attr, l_detach, l_free, l_get. cbn [attr live next_id]. rewrite none.
    destruct (explicit || equal); cbn [attr live next_id].
    - cbn [remove]. destruct (Nat.eq_dec (next_id s) (S (next_id s))) as [E|_]; [lia|].
      destruct (Nat.eq_dec (next_id s) (next_id s)) as [_|N]; [|congruence].
      rewrite (remove_fresh _ _ next_not_live). cbn [remove].
      destruct (Nat.eq_dec (S (next_id s)) (S (next_id s))) as [_|N]; [|congruence].
      split; [|reflexivity]. apply remove_fresh. intros H. apply fresh in H. lia.
    - cbn [remove]. destruct (Nat.eq_dec (next_id s) (next_id s)) as [_|N]; [|congruence].
      split; [apply remove_fresh, next_not_live|reflexivity].
  Qed.

  (* node sizes differ: nothing is attached and the one communicator that was created is freed at once *)
  Theorem attach_unequal : let s' := l_attach false false s in live s' = live s /\ l_get s' = None.
  Proof.
    unfold l_attach, l_new, l_free, l_get. cbn [attr live next_id orb remove].
    destruct (Nat.eq_dec (next_id s) (next_id s)) as [_|N]; [|congruence].
    split; [apply remove_fresh, next_not_live|exact none].
  Qed.
End Life.

(* ---- a duplicate of a communicator with attachment inherits the same grid ----------------------------------------- *)
Lemma dup_comms_same nc : dup_comms nc = nc.
Proof. destruct nc; reflexivity. Qed.

Theorem dup_grid_position nc r : grid_position (dup_comms nc) r = grid_position nc r
  /\ intra (dup_comms nc) = intra nc /\ inter (dup_comms nc) = inter nc.
Proof. rewrite dup_comms_same. repeat split. Qed.

Theorem dup_grid_explicit nn ppn : 0 < ppn -> forall r, r < nn * ppn ->
  comms_dup (comms_explicit nn ppn) r = Some (dup_comms (attach_explicit (nn * ppn) ppn r)) /\
  grid_position (dup_comms (attach_explicit (nn * ppn) ppn r)) r = (r mod ppn, ppn, r / ppn, nn).
Proof.
  intros Hp r Hr. split; [reflexivity|]. rewrite dup_comms_same. apply explicit_grid_position; assumption.
Qed.

(* the shared arrays and the write grants on the duplicate are those of the original *)
Theorem dup_results nn ppn wr count : 0 < ppn -> forall contrib,
  (forall q, q < nn * ppn -> length (contrib q) = count) ->
  (forall q x, q < nn * ppn -> In x (contrib q) -> wr x = x) ->
  forall f r, r < nn * ppn ->
  shmem_allgather (nn * ppn) (comms_dup (comms_explicit nn ppn)) f contrib r = rank_order (nn * ppn) contrib /\
  shmem_prefix wr (nn * ppn) (comms_dup (comms_explicit nn ppn)) count f contrib r = prefix_spec wr (nn * ppn) count contrib /\
  write_start (comms_dup (comms_explicit nn ppn)) f r = (if is_shared f then (r mod ppn =? 0) else true).
Proof.
  intros Hp contrib Hl Hx f r Hr.
  split; [exact (allgather_explicit nn ppn Hp contrib f r Hr)|].
  split; [exact (prefix_explicit wr nn ppn count Hp contrib Hl Hx f r Hr)|exact (write_start_explicit nn ppn Hp f r Hr)].
Qed.

Section LifeDup.
  Variable s : lstate.
  Variables a b : nat.
  Hypothesis fresh : forall c, In c (live s) -> c < next_id s.
  Hypothesis attached : attr s = Some (a, b).

  (* the duplicate gets two NEW communicators, copied slot by slot; freeing the duplicate frees exactly those and leaves
     the original's attachment (attribute and communicators) as it was *)
  Theorem dup_then_free : let '(s1, d) := l_dup s in
    d = Some (next_id s, S (next_id s)) /\ dup_sources s = Some (a, b) /\
    live s1 = S (next_id s) :: next_id s :: live s /\ attr s1 = Some (a, b) /\
    ~ In (next_id s) (live s) /\ ~ In (S (next_id s)) (live s) /\
    live (l_free_dup d s1) = live s /\ attr (l_free_dup d s1) = Some (a, b).
  Proof.
    unfold l_dup, dup_sources. rewrite attached. cbn [l_free_dup live attr next_id].
    assert (N1 : ~ In (next_id s) (live s)) by (intros H; apply fresh in H; lia).
    assert (N2 : ~ In (S (next_id s)) (live s)) by (intros H; apply fresh in H; lia).
    repeat split; try assumption.
    cbn [remove]. destruct (Nat.eq_dec (next_id s) (S (next_id s))) as [E|_]; [lia|].
    destruct (Nat.eq_dec (next_id s) (next_id s)) as [_|N]; [|congruence].
    rewrite (notin_remove Nat.eq_dec _ _ N1). cbn [remove].
    destruct (Nat.eq_dec (S (next_id s)) (S (next_id s))) as [_|N]; [|congruence].
    apply notin_remove. exact N2.
  Qed.
End LifeDup.

(* no attachment: MPI_Comm_dup copies nothing *)
Theorem dup_unattached s : attr s = None -> l_dup s = (s, None).
Proof. intros H. unfold l_dup. rewrite H. reflexivity. Qed.

(* ---- sc_shmem_allgather with separate send / receive signatures ------------------------------------------------------ *)
Lemma coll_gather_some ms f snd rcv room x : coll_gather ms f snd rcv room = Some x -> x = concat (map f ms).
Proof. unfold coll_gather. destruct (_ && _ && _); [|discriminate]. intros E; injection E as <-. reflexivity. Qed.

Lemma coll_gather_ok ms f snd rcv room : sig_bytes snd = sig_bytes rcv -> (forall q, In q ms -> length (f q) = sig_bytes snd) ->
  length ms * sig_bytes rcv <= room -> coll_gather ms f snd rcv room = Some (concat (map f ms)).
Proof.
  intros E L R. unfold coll_gather. rewrite (proj2 (Nat.eqb_eq _ _) E). cbn [andb].
  replace (forallb _ ms) with true by (symmetry; apply forallb_forall; intros q Hq; apply Nat.eqb_eq, L, Hq).
  rewrite (proj2 (Nat.leb_le _ _) R). reflexivity.
Qed.

Lemma concat_map_concat {A B} (g : A -> list B) (ls : list (list A)) : concat (map g (concat ls)) = concat (map (fun l => concat (map g l)) ls).
Proof. induction ls as [|l t IH]; [reflexivity|]. cbn [concat map]. rewrite map_app, concat_app, IH. reflexivity. Qed.

Lemma length_concat_const {B} (g : nat -> list B) ms n : (forall q, In q ms -> length (g q) = n) -> length (concat (map g ms)) = length ms * n.
Proof.
  intros H. induction ms as [|q t IH]; [reflexivity|]. cbn [map concat length]. rewrite app_length, H by (left; reflexivity).
  rewrite IH by (intros; apply H; right; assumption). lia.
Qed.

(* SOUNDNESS of the refinement, for ANY node communicators: whenever every MPI call of sc_shmem_allgather is defined, the array
   read by rank r is the one of the signature-free specification shmem_allgather (the contributions in gather order) *)
Theorem allgather_sig_refines P comms contrib snd rcv room f r x :
  shmem_allgather_sig P comms contrib snd rcv room f r = Some x -> x = shmem_allgather P comms f contrib r.
Proof.
  unfold shmem_allgather_sig, shmem_allgather, gather, gather_order. destruct (shared_on comms f r) eqn:S.
  - unfold node_major. destruct (comms (writer_of comms f r)) as [nc|]; [|discriminate].
    destruct (forallb _ (inter nc)) eqn:A; [|discriminate]. intros H. apply coll_gather_some in H. subst x.
    rewrite concat_map_concat, map_map. f_equal. apply map_ext_in. intros q Hq.
    rewrite forallb_forall in A. specialize (A q Hq). unfold node_buffer in *. destruct (comms q) as [ncq|]; [|discriminate].
    destruct (coll_gather (intra ncq) contrib snd rcv _) as [b|] eqn:G; [|discriminate]. cbn [or_nil]. exact (coll_gather_some _ _ _ _ _ _ G).
  - apply coll_gather_some.
Qed.

Section SigExplicit.
  Variables nn ppn : nat.
  Hypothesis ppn_pos : 0 < ppn.
  Let P := nn * ppn.
  Variable contrib : nat -> list Z.
  Variables snd rcv : sig.
  Variable room : nat.
  Hypothesis Hsame : sig_bytes snd = sig_bytes rcv.                              (* the two signatures describe the same bytes *)
  Hypothesis Hlen : forall q, q < P -> length (contrib q) = sig_bytes snd.       (* every send buffer holds them *)
  Hypothesis Hroom : P * sig_bytes rcv <= room.                                  (* the array has room for P blocks *)

  Lemma node_buffer_explicit k : k < nn ->
    node_buffer (comms_explicit nn ppn) contrib snd rcv (k * ppn + 0) = Some (concat (map contrib (seq (k * ppn) ppn))).
  Proof.
    intros Hk. unfold node_buffer, comms_explicit, attach_explicit. cbn [intra].
    replace ((k * ppn + 0) / ppn) with k by (rewrite Nat.add_0_r, Nat.div_mul; lia). rewrite (row_members nn ppn ppn_pos k Hk), seq_length.
    apply coll_gather_ok; [exact Hsame| |rewrite seq_length; unfold sig_bytes; lia].
    intros q Hq. apply in_seq in Hq. apply Hlen. unfold P. nia.
  Qed.

  (* every flavour, every reading rank, EVERY pair of signatures that describe the same bytes: all MPI calls are defined and the
     array holds the send buffers of ranks 0 .. P-1 in rank order *)
  Theorem allgather_sig_explicit f r : r < P ->
    shmem_allgather_sig P (comms_explicit nn ppn) contrib snd rcv room f r = Some (rank_order P contrib).
  Proof.
    intros Hr.
    assert (D : exists x, shmem_allgather_sig P (comms_explicit nn ppn) contrib snd rcv room f r = Some x).
    { unfold shmem_allgather_sig. destruct (shared_on (comms_explicit nn ppn) f r) eqn:S.
      - assert (Sh : is_shared f = true) by (unfold shared_on, comms_explicit in S; exact S).
        fold P. rewrite (writer_explicit nn ppn ppn_pos f r Hr), Sh.
        assert (Hk : r / ppn < nn) by (apply Nat.div_lt_upper_bound; [lia|unfold P in Hr; lia]).
        unfold comms_explicit at 1. unfold attach_explicit. cbn [intra inter].
        rewrite Nat.div_mul by lia. replace ((r / ppn * ppn) mod ppn) with 0 by (symmetry; apply Nat.mod_mul; lia).
        rewrite (row_members nn ppn ppn_pos _ Hk), seq_length, (col_members nn ppn ppn_pos 0 ppn_pos).
        replace (forallb _ _) with true.
        + eexists. apply coll_gather_ok.
          * unfold sig_bytes, sig_times. cbn [sg_count sg_size]. unfold sig_bytes in Hsame. nia.
          * intros q Hq. apply in_map_iff in Hq. destruct Hq as (k & <- & Hk'). apply in_seq in Hk'.
            rewrite node_buffer_explicit by lia. cbn [or_nil].
            rewrite (length_concat_const contrib _ (sig_bytes snd)), seq_length.
            -- unfold sig_bytes, sig_times. cbn [sg_count sg_size]. nia.
            -- intros x Hx. apply in_seq in Hx. apply Hlen. unfold P. nia.
          * rewrite map_length, seq_length. unfold sig_bytes, sig_times in *. cbn [sg_count sg_size]. unfold P in Hroom. nia.
        + symmetry. apply forallb_forall. intros q Hq. apply in_map_iff in Hq. destruct Hq as (k & <- & Hk'). apply in_seq in Hk'.
          rewrite node_buffer_explicit by lia. reflexivity.
      - eexists. apply coll_gather_ok; [exact Hsame| |rewrite seq_length; exact Hroom].
        intros q Hq. apply in_seq in Hq. apply Hlen. lia. }
    destruct D as [x Hx]. rewrite Hx. f_equal. rewrite (allgather_sig_refines _ _ _ _ _ _ _ _ _ Hx).
    apply allgather_explicit; assumption.
  Qed.
End SigExplicit.

(* nothing attached: one MPI_Allgather on the communicator itself *)
Theorem allgather_sig_unattached P contrib snd rcv room f r : sig_bytes snd = sig_bytes rcv ->
  (forall q, q < P -> length (contrib q) = sig_bytes snd) -> P * sig_bytes rcv <= room ->
  shmem_allgather_sig P comms_none contrib snd rcv room f r = Some (rank_order P contrib).
Proof.
  intros E L R. unfold shmem_allgather_sig, shared_on, comms_none. apply coll_gather_ok; [exact E| |rewrite seq_length; exact R].
  intros q Hq. apply in_seq in Hq. apply L. lia.
Qed.

(* the precondition is needed: with signatures that describe different numbers of bytes an MPI call is erroneous - for the
   basic flavours always, for the window flavours as soon as there is a node root *)
Theorem allgather_sig_mismatch_undefined P comms contrib snd rcv room f r : sig_bytes snd <> sig_bytes rcv ->
  (shared_on comms f r = true -> forall nc, comms (writer_of comms f r) = Some nc -> inter nc <> []) ->
  shmem_allgather_sig P comms contrib snd rcv room f r = None.
Proof.
  intros N H. assert (C : forall ms g room', coll_gather ms g snd rcv room' = None)
    by (intros; unfold coll_gather; rewrite (proj2 (Nat.eqb_neq _ _) N); reflexivity).
  unfold shmem_allgather_sig. destruct (shared_on comms f r); [|apply C].
  destruct (comms (writer_of comms f r)) as [nc|] eqn:E; [|reflexivity]. specialize (H eq_refl nc eq_refl).
  destruct (inter nc) as [|q t]; [congruence|]. cbn [forallb]. unfold node_buffer at 1. destruct (comms q); [rewrite C|]; reflexivity.
Qed.

(* ---- histories of attach / detach / dup / free: the division in force, and no communicator is leaked ------------------------- *)
Section HistoryProofs.
  Variable D : Type.
  Notation hstate := (hstate D). Notation hop := (hop D).
  Definition ids (o : option (nat * nat * D)) : list nat := match o with Some (a, b, _) => [a; b] | None => [] end.

  Lemma NoDup_remove_dec (l : list nat) y : NoDup l -> NoDup (remove Nat.eq_dec y l).
  Proof.
    induction 1 as [|x l Hx Hn IH]; cbn [remove]; [constructor|]. destruct (Nat.eq_dec y x); [exact IH|].
    constructor; [|exact IH]. intros X. apply in_remove in X. tauto.
  Qed.
  Lemma in_remove_iff (l : list nat) x y : In x (remove Nat.eq_dec y l) <-> In x l /\ x <> y.
  Proof. split; [apply in_remove|intros [A B]; apply in_in_remove; assumption]. Qed.
  Lemma in_release o (l : list nat) x : In x (release D o l) <-> In x l /\ ~ In x (ids o).
  Proof.
    destruct o as [[[a b] d]|]; cbn [release ids]; [|cbn; tauto]. rewrite !in_remove_iff. cbn [In]. intuition congruence.
  Qed.
  Lemma NoDup_release o (l : list nat) : NoDup l -> NoDup (release D o l).
  Proof. destruct o as [[[a b] d]|]; cbn [release]; [|tauto]. intros H. apply NoDup_remove_dec, NoDup_remove_dec, H. Qed.

  Lemma NoDup_app_comm_fix (l1 l2 : list nat) : NoDup l1 -> NoDup l2 -> (forall x, In x l1 -> In x l2 -> False) -> NoDup (l1 ++ l2).
  Proof.
    intros N1 N2 Hd. induction N1 as [|x l Hx N IH]; cbn; [exact N2|]. constructor.
    - rewrite in_app_iff. intros [A|A]; [tauto|]. apply (Hd x); [left; reflexivity|exact A].
    - apply IH. intros y A B. apply (Hd y); [right; exact A|exact B].
  Qed.

  Record HInv (s : hstate) : Prop := mk_HInv {
    H_fresh : forall x, In x (h_live D s) -> x < h_next D s;
    H_nodup : NoDup (h_live D s);
    H_live : forall x, In x (h_live D s) <-> exists c, In x (ids (h_attr D s c));
    H_ids : forall c, NoDup (ids (h_attr D s c));
    H_disj : forall c c' x, c <> c' -> In x (ids (h_attr D s c)) -> In x (ids (h_attr D s c')) -> False;
    H_none : forall c, h_valid D s c = false -> h_attr D s c = None
  }.

  Lemma HInv_init : HInv hinit.
  Proof. constructor; cbn; intros; try reflexivity; try (now constructor); try tauto. split; [tauto|intros [c []]]. Qed.

  Lemma valid_cases s c : h_valid D s c = true -> c = 0 \/ (c = 1 /\ h_dup D s = true).
  Proof.
    unfold h_valid. destruct (Nat.eqb_spec c 0) as [E|E]; [left; exact E|]. destruct (Nat.eqb_spec c 1) as [E1|E1]; cbn; [intros X; right; split; assumption|discriminate].
  Qed.

  Lemma hupd_same {B} (f : nat -> B) i v : upd f i v i = v.
  Proof. unfold upd. rewrite Nat.eqb_refl. reflexivity. Qed.
  Lemma hupd_other {B} (f : nat -> B) i v j : j <> i -> upd f i v j = f j.
  Proof. intros H. unfold upd. destruct (j =? i) eqn:E; [apply Nat.eqb_eq in E; contradiction|reflexivity]. Qed.

  (* the pair of communicator c is replaced by a new pair, or by nothing *)
  Lemma HInv_replace (s : hstate) c newp live' next' dup' :
    HInv s ->
    (forall c', h_valid D (mk_hs D live' next' (upd (h_attr D s) c newp) dup') c' = false -> upd (h_attr D s) c newp c' = None) ->
    h_next D s <= next' -> (forall x, In x (ids newp) -> h_next D s <= x < next') -> NoDup (ids newp) ->
    (forall x, In x live' <-> (In x (h_live D s) /\ ~ In x (ids (h_attr D s c))) \/ In x (ids newp)) -> NoDup live' ->
    HInv (mk_hs D live' next' (upd (h_attr D s) c newp) dup').
  Proof.
    intros I Hn Hle Hnew Hnd Hl Hnl.
    assert (Old : forall c' x, In x (ids (h_attr D s c')) -> x < h_next D s)
      by (intros c' x Hx; apply (H_fresh _ I), (H_live _ I); exists c'; exact Hx).
    constructor; cbn [h_live h_next h_attr h_dup].
    - intros x Hx. apply Hl in Hx. destruct Hx as [[Hx _]|Hx]; [pose proof (H_fresh _ I x Hx); lia|apply Hnew in Hx; lia].
    - exact Hnl.
    - intros x. rewrite Hl, (H_live _ I x). split.
      + intros [[[c' A] B]|A]; [|exists c; rewrite hupd_same; exact A].
        exists c'. destruct (Nat.eq_dec c' c) as [->|N]; [contradiction|]. rewrite hupd_other by exact N. exact A.
      + intros [c' A]. destruct (Nat.eq_dec c' c) as [->|N]; [rewrite hupd_same in A; right; exact A|].
        rewrite hupd_other in A by exact N. left. split; [exists c'; exact A|]. intros B. exact (H_disj _ I c' c x N A B).
    - intros c'. destruct (Nat.eq_dec c' c) as [->|N]; [rewrite hupd_same; exact Hnd|rewrite hupd_other by exact N; apply (H_ids _ I)].
    - intros c1 c2 x N A B.
      destruct (Nat.eq_dec c1 c) as [->|N1]; destruct (Nat.eq_dec c2 c) as [->|N2]; try contradiction.
      + rewrite hupd_same in A. rewrite hupd_other in B by exact N2. apply Hnew in A. pose proof (Old c2 x B). lia.
      + rewrite hupd_same in B. rewrite hupd_other in A by exact N1. apply Hnew in B. pose proof (Old c1 x A). lia.
      + rewrite hupd_other in A by exact N1. rewrite hupd_other in B by exact N2. exact (H_disj _ I c1 c2 x N A B).
    - exact Hn.
  Qed.

  Lemma valid_dup_indep s live' next' attr' c : h_valid D (mk_hs D live' next' attr' (h_dup D s)) c = h_valid D s c.
  Proof. reflexivity. Qed.

  Lemma HInv_step s o s' : HInv s -> hstep D s o = Some s' -> HInv s'.
  Proof.
    intros I H. destruct o as [c [d|]|c| |]; cbn [hstep] in H.
    - (* attach *)
      destruct (h_valid D s c) eqn:V; [|discriminate]. injection H as <-.
      set (a := h_next D s).
      assert (Fa : forall x, In x (h_live D s) -> x <> a /\ x <> S a) by (intros x Hx; pose proof (H_fresh _ I x Hx); unfold a; lia).
      assert (Fo : forall x, In x (ids (h_attr D s c)) -> x <> a /\ x <> S a) by (intros x Hx; apply Fa, (H_live _ I); exists c; exact Hx).
      apply HInv_replace; try assumption.
      + intros c' V'. rewrite valid_dup_indep in V'. rewrite hupd_other by (intros ->; congruence). exact (H_none _ I c' V').
      + lia.
      + cbn [ids In]. intros x [<-|[<-|[]]]; fold a; lia.
      + cbn [ids]. constructor; [cbn; lia|constructor; [tauto|constructor]].
      + intros x. rewrite in_release. cbn [In ids]. split.
        * intros [[<-|[<-|A]] B]; tauto.
        * intros [[A B]|[<-|[<-|[]]]]; [tauto| |]; (split; [tauto|]); intros B; apply Fo in B; lia.
      + apply NoDup_release. constructor; [cbn; intros [A|A]; [lia|apply Fa in A; tauto]|].
        constructor; [intros A; apply Fa in A; tauto|exact (H_nodup _ I)].
    - (* attach refused: MPI_Comm_split_type gave unequal nodes *)
      destruct (h_valid D s c) eqn:V; [|discriminate]. injection H as <-.
      assert (E : remove Nat.eq_dec (h_next D s) (h_next D s :: h_live D s) = h_live D s).
      { cbn [remove]. destruct (Nat.eq_dec (h_next D s) (h_next D s)); [|contradiction]. apply notin_remove.
        intros A. pose proof (H_fresh _ I _ A). lia. }
      cbn [remove] in E. rewrite E. constructor; cbn [h_live h_next h_attr h_dup];
        [intros x Hx; pose proof (H_fresh _ I x Hx); lia|exact (H_nodup _ I)|exact (H_live _ I)|exact (H_ids _ I)|exact (H_disj _ I)|exact (H_none _ I)].
    - (* detach *)
      destruct (h_valid D s c) eqn:V; [|discriminate]. injection H as <-.
      apply HInv_replace; try assumption.
      + intros c' V'. rewrite valid_dup_indep in V'. rewrite hupd_other by (intros ->; congruence). exact (H_none _ I c' V').
      + lia.
      + cbn. tauto.
      + constructor.
      + intros x. rewrite in_release. cbn [ids In]. tauto.
      + apply NoDup_release, (H_nodup _ I).
    - (* dup *)
      destruct (h_dup D s) eqn:Du; [discriminate|].
      assert (A1 : h_attr D s 1 = None) by (apply (H_none _ I); unfold h_valid; rewrite Du; reflexivity).
      assert (Nn : forall c', h_valid D s c' = false -> c' <> 0) by (intros c' V ->; discriminate V).
      destruct (h_attr D s 0) as [[[a0 b0] d]|] eqn:A0; injection H as <-.
      + set (a := h_next D s).
        assert (Fa : forall x, In x (h_live D s) -> x <> a /\ x <> S a) by (intros x Hx; pose proof (H_fresh _ I x Hx); unfold a; lia).
        apply HInv_replace; try assumption.
        * intros c' V'. unfold h_valid in V'. cbn [h_dup] in V'. rewrite andb_true_r in V'. apply orb_false_iff in V'. destruct V' as [V0 V1].
          apply Nat.eqb_neq in V0, V1. rewrite hupd_other by exact V1. apply (H_none _ I). unfold h_valid. rewrite Du, andb_false_r, orb_false_r. apply Nat.eqb_neq. exact V0.
        * lia.
        * cbn [ids In]. intros x [<-|[<-|[]]]; fold a; lia.
        * cbn [ids]. constructor; [cbn; lia|constructor; [tauto|constructor]].
        * intros x. rewrite A1. cbn [In ids]. tauto.
        * constructor; [cbn; intros [A|A]; [lia|apply Fa in A; tauto]|]. constructor; [intros A; apply Fa in A; tauto|exact (H_nodup _ I)].
      + apply HInv_replace; try assumption.
        * intros c' V'. unfold h_valid in V'. cbn [h_dup] in V'. rewrite andb_true_r in V'. apply orb_false_iff in V'. destruct V' as [V0 V1].
          apply Nat.eqb_neq in V0, V1. rewrite hupd_other by exact V1. apply (H_none _ I). unfold h_valid. rewrite Du, andb_false_r, orb_false_r. apply Nat.eqb_neq. exact V0.
        * lia.
        * cbn. tauto.
        * constructor.
        * intros x. rewrite A1. cbn [In ids]. tauto.
        * exact (H_nodup _ I).
    - (* free of the duplicate *)
      destruct (h_dup D s) eqn:Du; [|discriminate]. injection H as <-.
      apply HInv_replace; try assumption.
      + intros c' V'. destruct (Nat.eq_dec c' 1) as [->|N]; [apply hupd_same|]. rewrite hupd_other by exact N. apply (H_none _ I).
        unfold h_valid in *. cbn [h_dup] in V'. rewrite andb_false_r, orb_false_r in V'. rewrite V'. cbn [orb]. apply andb_false_iff. left. apply Nat.eqb_neq. exact N.
      + lia.
      + cbn. tauto.
      + constructor.
      + intros x. rewrite in_release. cbn [ids In]. tauto.
      + apply NoDup_release, (H_nodup _ I).
  Qed.

  Lemma HInv_run h : forall s s', HInv s -> hrun D s h = Some s' -> HInv s'.
  Proof.
    induction h as [|o t IH]; intros s s' I H; cbn [hrun] in H; [injection H as <-; exact I|].
    destruct (hstep D s o) as [s1|] eqn:E; [|discriminate]. exact (IH _ _ (HInv_step _ _ _ I E) H).
  Qed.

  (* the division carried by the attribute is the one of the id-free specification, step by step *)
  Lemma division_step s o s' : hstep D s o = Some s' -> forall c, h_division D s' c = dstep D (h_division D s) o c.
  Proof.
    intros H c'. destruct o as [c [d|]|c| |]; cbn [hstep dstep] in *.
    - destruct (h_valid D s c); [|discriminate]. injection H as <-. unfold h_division. cbn [h_attr]. unfold upd. destruct (c' =? c); reflexivity.
    - destruct (h_valid D s c); [|discriminate]. injection H as <-. reflexivity.
    - destruct (h_valid D s c); [|discriminate]. injection H as <-. unfold h_division. cbn [h_attr]. unfold upd. destruct (c' =? c); reflexivity.
    - destruct (h_dup D s); [discriminate|]. unfold h_division. destruct (h_attr D s 0) as [[[a0 b0] d]|] eqn:A0; injection H as <-;
        cbn [h_attr]; unfold upd; destruct (c' =? 1); reflexivity.
    - destruct (h_dup D s); [|discriminate]. injection H as <-. unfold h_division. cbn [h_attr]. unfold upd. destruct (c' =? 1); reflexivity.
  Qed.

  Lemma division_run h : forall s s', hrun D s h = Some s' -> forall c, h_division D s' c = fold_left (dstep D) h (h_division D s) c.
  Proof.
    induction h as [|o t IH]; intros s s' H c; cbn [hrun fold_left] in *; [injection H as <-; reflexivity|].
    destruct (hstep D s o) as [s1|] eqn:E; [|discriminate]. rewrite (IH _ _ H c).
    assert (X : forall f g, (forall c, f c = g c) -> forall c, fold_left (dstep D) t f c = fold_left (dstep D) t g c).
    { clear. induction t as [|o t IH]; intros f g Hfg c; cbn [fold_left]; [apply Hfg|]. apply IH. intros c0.
      destruct o as [c1 [d|]|c1| |]; cbn [dstep]; unfold upd; try (destruct (c0 =? c1)); try (destruct (c0 =? 1)); rewrite ?Hfg; reflexivity. }
    apply X. intros c0. exact (division_step _ _ _ E c0).
  Qed.

  (* C14_attach_history.  For EVERY history of attach / detach / dup / free accepted by the life cycle:
     - the division in force on each communicator is the one of the specification `in_force` (the last attach that attached, copied by
       dup, removed by detach / free; an attach refused for unequal node sizes changes nothing);
     - the live node communicators are EXACTLY the pairs realising the divisions in force, all distinct: what a replaced or detached
       division used is released, nothing else is *)
  Theorem attach_history h s : hrun D hinit h = Some s ->
    (forall c, h_division D s c = in_force D h c) /\
    NoDup (h_live D s) /\
    (forall x, In x (h_live D s) <-> exists c a b d, h_attr D s c = Some (a, b, d) /\ (x = a \/ x = b)) /\
    (forall c a b d, h_attr D s c = Some (a, b, d) -> a <> b /\ (c = 0 \/ c = 1 /\ h_dup D s = true)) /\
    length (h_live D s) = 2 * (length (filter (fun c => match h_attr D s c with Some _ => true | None => false end) [0; 1])).
  Proof.
    intros H. pose proof (HInv_run h _ _ HInv_init H) as I. split; [|split; [|split; [|split]]].
    - intros c. rewrite (division_run h _ _ H c). reflexivity.
    - exact (H_nodup _ I).
    - intros x. rewrite (H_live _ I x). split.
      + intros [c A]. destruct (h_attr D s c) as [[[a b] d]|] eqn:E; [|contradiction]. exists c, a, b, d. cbn in A. intuition congruence.
      + intros (c & a & b & d & E & A). exists c. rewrite E. cbn. intuition congruence.
    - intros c a b d E. split.
      + pose proof (H_ids _ I c) as N. rewrite E in N. cbn in N. inversion N as [|? ? X _]. cbn in X. intuition congruence.
      + destruct (h_valid D s c) eqn:V; [exact (valid_cases _ _ V)|]. rewrite (H_none _ I c V) in E. discriminate.
    - assert (P : Permutation (h_live D s) (ids (h_attr D s 0) ++ ids (h_attr D s 1))).
      { apply NoDup_Permutation; [exact (H_nodup _ I)| |].
        - apply NoDup_app_comm_fix; [apply (H_ids _ I)|apply (H_ids _ I)|]. intros x A B. exact (H_disj _ I 0 1 x ltac:(discriminate) A B).
        - intros x. rewrite (H_live _ I x), in_app_iff. split; [|intros [A|A]; [exists 0|exists 1]; exact A].
          intros [c A]. destruct c as [|[|c]]; [tauto|tauto|]. rewrite (H_none _ I (S (S c))) in A by reflexivity. contradiction. }
      rewrite (Permutation_length P), app_length. cbn [filter].
      destruct (h_attr D s 0) as [[[? ?] ?]|]; destruct (h_attr D s 1) as [[[? ?] ?]|]; reflexivity.
  Qed.

  (* in particular: after an attach that attaches, its division is in force, whatever happened before *)
  Corollary last_attach_in_force h c d s : hrun D hinit (h ++ [HAttach D c (Some d)]) = Some s -> h_division D s c = Some d.
  Proof.
    intros H. destruct (attach_history _ _ H) as [E _]. rewrite E. unfold in_force. rewrite fold_left_app. cbn [fold_left dstep]. apply hupd_same.
  Qed.
  (* and after detach / free of everything nothing is left *)
  Corollary history_no_leak h s : hrun D hinit h = Some s -> h_attr D s 0 = None -> h_attr D s 1 = None -> h_live D s = [].
  Proof.
    intros H A0 A1. destruct (attach_history _ _ H) as (_ & _ & _ & _ & L). cbn [filter] in L. rewrite A0, A1 in L. cbn in L. destruct (h_live D s); [reflexivity|discriminate].
  Qed.
End HistoryProofs.
