(* C14 - tie T1: the hand-written model of the node communicators and of the shared arrays (ShmemModel.v) uses exactly what
   the definitions GENERATED from /repo/src/sc_mpi.c and /repo/src/sc_shmem.c (Gen/ShmemC14.v, regenerated on every run)
   compute: the colours and keys of the MPI_Comm_split calls of sc_mpi_comm_attach_node_comms (rank / ppn, rank mod ppn), the
   test for unequal node sizes, the return value of write_start per flavour and the calls made around it, the slot
   arithmetic and the wrapped sum of sc_scan_on_array for the eight integer types, the byte / item counts and offsets of the
   prefix and allgather functions.  Ranks and counts are C ints (below 2^31).
   An edit of that arithmetic changes a generated definition and one of these lemmas stops checking. *)
From Coq Require Import ZArith Arith Lia List Bool PeanoNat.
From ScV Require Import Base.CInt Gen.ShmemC14 C14.ShmemModel.
Import ListNotations.
Local Open Scope Z_scope.

Notation zn := Z.of_nat.
Definition B31 : Z := 2 ^ 31.
Ltac tup := repeat match goal with |- (_, _) = (_, _) => apply f_equal2 end.

Lemma s32_sm x : - B31 <= x < B31 -> s32 x = x.
Proof. intros H. apply s32_id. unfold in_s32, M32. unfold B31 in H. change (2 ^ 31) with 2147483648 in H. lia. Qed.
Lemma u64_sm x : 0 <= x < 2 ^ 62 -> u64 x = x.
Proof. intros H. apply u64_id. unfold M64. change (2 ^ 62) with 4611686018427387904 in H. lia. Qed.

(* ---------- sc_mpi_comm_attach_node_comms --------------------------------------------------------------------------------- *)
Lemma gen_attach_test ppn : attach_split_type_test ppn = (ppn <? 1).
Proof. reflexivity. Qed.

(* explicit processes_per_node: node = rank / ppn, offset = rank mod ppn; the intranode split has colour node and key offset,
   the internode split colour offset and key node *)
Lemma gen_attach_explicit r ppn x y : (0 < ppn)%nat -> zn r < B31 ->
  ShmemC14.attach_explicit (zn r) (zn ppn) x y =
  (zn (r / ppn), zn (r mod ppn), zn (r / ppn), zn (r mod ppn), zn (r mod ppn), zn (r / ppn)).
Proof.
  intros Hp Hr. unfold ShmemC14.attach_explicit. cbv zeta. unfold cdiv, cmod.
  rewrite Z.quot_div_nonneg by lia. rewrite Z.rem_mod_nonneg by lia.
  rewrite <- Nat2Z.inj_div, <- Nat2Z.inj_mod.
  assert (r / ppn <= r)%nat by (apply Nat.div_le_upper_bound; nia).
  rewrite s32_sm by (unfold B31 in *; lia). reflexivity.
Qed.

Lemma members_ext P f g c : (forall q, f q = g q) -> members P f c = members P g c.
Proof. intros H. unfold members. apply filter_ext. intros q. rewrite H. reflexivity. Qed.

Definition intra_colour (ppn q : nat) : nat :=
  let '(_, _, c, _, _, _) := ShmemC14.attach_explicit (zn q) (zn ppn) 0 0 in Z.to_nat c.
Definition inter_colour (ppn q : nat) : nat :=
  let '(_, _, _, _, c, _) := ShmemC14.attach_explicit (zn q) (zn ppn) 0 0 in Z.to_nat c.

(* the model's pair of communicators for an explicit processes_per_node = the classes of the GENERATED colours *)
Lemma gen_attach_explicit_model P ppn r : (0 < ppn)%nat -> zn P < B31 -> (r < P)%nat ->
  ShmemModel.attach_explicit P ppn r =
  mk_nc (filter (fun q => intra_colour ppn q =? intra_colour ppn r)%nat (seq 0 P))
        (filter (fun q => inter_colour ppn q =? inter_colour ppn r)%nat (seq 0 P)).
Proof.
  intros Hp HP Hr. unfold ShmemModel.attach_explicit, members.
  assert (E : forall q, (q < P)%nat -> intra_colour ppn q = (q / ppn)%nat /\ inter_colour ppn q = (q mod ppn)%nat).
  { intros q Hq. unfold intra_colour, inter_colour. rewrite gen_attach_explicit by (try assumption; lia).
    rewrite !Nat2Z.id. split; reflexivity. }
  destruct (E r Hr) as [E1 E2]. rewrite E1, E2. f_equal.
  - apply filter_ext_in. intros q Hq. apply in_seq in Hq. destruct (E q ltac:(lia)) as [-> _]. reflexivity.
  - apply filter_ext_in. intros q Hq. apply in_seq in Hq. destruct (E q ltac:(lia)) as [_ ->]. reflexivity.
Qed.

(* MPI_Comm_split_type branch: unequal node sizes are refused; key of the split_type = rank; the internode split has colour
   intrarank and key rank (model: members P (intrarank P nd) (intrarank P nd r)) *)
Lemma gen_attach_split_type mx mn ir r :
  attach_unequal mx mn = negb (mx =? mn) /\ attach_split_type_key r = r /\
  attach_split_type_colour ir r = ir /\ attach_split_type_interkey ir r = r.
Proof. repeat split; reflexivity. Qed.

(* ---------- write_start / write_end ------------------------------------------------------------------------------------------ *)
Lemma index_in_zero r l : (index_in r l =? 0)%nat = (hd r l =? r)%nat.
Proof. destruct l as [|x t]; simpl; [symmetry; apply Nat.eqb_refl|]. destruct (x =? r)%nat; reflexivity. Qed.

(* sc_shmem_write_start_window: every rank unlocks (1st), then passes the barrier on the INTRANODE communicator (2nd); intrarank 0
   then takes the exclusive lock (3rd; 234 = MPI_LOCK_EXCLUSIVE of tools/simmpi/mpi.h) and 1 is returned exactly to it *)
Lemma gen_write_start_window ir a c n1 n2 w u1 u2 u3 u4 :
  write_start_window ir a c n1 n2 w u1 u2 u3 u4 =
  (b2z (ir =? 0), 1, 1, 1, 2, n1, b2z (ir =? 0), if ir =? 0 then 3 else 0, if ir =? 0 then 234 else 0).
Proof. unfold write_start_window. cbv zeta. unfold z2b. destruct (ir =? 0); reflexivity. Qed.

(* the model's return value of sc_shmem_write_start: the basic flavours return the generated constant, the window flavours
   the generated value for intrarank = position of the rank in its node *)
Definition ws_ret (x : Z * Z * Z * Z * Z * Z * Z * Z * Z) : Z := let '(ret, _, _, _, _, _, _, _, _) := x in ret.
Lemma gen_write_start comms f r a c n1 n2 w u1 u2 u3 u4 :
  write_start comms f r =
  match comms r with
  | Some nc => if is_shared f
               then z2b (ws_ret (write_start_window (zn (index_in r (intra nc))) a c n1 n2 w u1 u2 u3 u4))
               else z2b write_start_basic
  | None => z2b write_start_basic
  end.
Proof.
  unfold write_start, writer_of. destruct (comms r) as [nc|]; [|apply Nat.eqb_refl].
  destruct (is_shared f); [|apply Nat.eqb_refl].
  rewrite gen_write_start_window. cbn [ws_ret]. rewrite <- index_in_zero.
  change 0 with (zn 0). destruct (Nat.eqb_spec (index_in r (intra nc)) 0) as [E|E].
  - rewrite E. reflexivity.
  - destruct (Z.eqb_spec (zn (index_in r (intra nc))) (zn 0)); [lia|reflexivity].
Qed.

(* the MPI calls around it, IN THE ORDER the generated code makes them (codes of ShmemModel.v: 6 Win_unlock, 5 Barrier on the
   intranode communicator, 7 Win_lock exclusive, 8 Win_lock shared).  A slice reports for each call (called, position among the
   lock / barrier calls of the executed path); `calls_in_order` lists the codes of the calls made by ascending position. *)
Fixpoint insert_call (c : Z * nat) (l : list (Z * nat)) : list (Z * nat) :=
  match l with [] => [c] | d :: t => if fst c <=? fst d then c :: l else d :: insert_call c t end.
Definition calls_in_order (l : list (Z * Z * nat)) : list nat :=
  map snd (fold_right insert_call [] (map (fun x => (snd (fst x), snd x)) (filter (fun x => fst (fst x) =? 1) l))).
Definition lock_code (t : Z) : nat := if t =? 234 then 7%nat else if t =? 235 then 8%nat else 97%nat.

Lemma gen_calls_write_start ir a c n1 n2 w u1 u2 u3 u4 :
  let '(ret, unl, unl_at, bar, bar_at, bar_comm, lck, lck_at, lck_type) := write_start_window ir a c n1 n2 w u1 u2 u3 u4 in
  calls_write_start true (z2b ret) = calls_in_order [(unl, unl_at, 6%nat); (bar, bar_at, 5%nat); (lck, lck_at, lock_code lck_type)]
  /\ bar_comm = n1.
Proof. rewrite gen_write_start_window. destruct (ir =? 0); split; reflexivity. Qed.

(* sc_shmem_write_end_window: only intrarank 0 unlocks; then the barrier on the intranode communicator; then everybody takes
   the shared lock (235 = MPI_LOCK_SHARED) *)
Lemma gen_write_end_window ir a c n1 n2 w u1 u2 u3 u4 :
  write_end_window ir a c n1 n2 w u1 u2 u3 u4 =
  (b2z (ir =? 0), (if ir =? 0 then 1 else 0), 1, (if ir =? 0 then 2 else 1), n1, 1, (if ir =? 0 then 3 else 2), 235).
Proof. unfold write_end_window. cbv zeta. unfold z2b. destruct (ir =? 0); reflexivity. Qed.

Lemma gen_calls_write_end ir a c n1 n2 w u1 u2 u3 u4 :
  let '(unl, unl_at, bar, bar_at, bar_comm, lck, lck_at, lck_type) := write_end_window ir a c n1 n2 w u1 u2 u3 u4 in
  calls_write_end true (ir =? 0) = calls_in_order [(unl, unl_at, 6%nat); (bar, bar_at, 5%nat); (lck, lck_at, lock_code lck_type)]
  /\ bar_comm = n1.
Proof. rewrite gen_write_end_window. destruct (ir =? 0); split; reflexivity. Qed.

(* the node root, and nobody else, allocates the gather buffer *)
Lemma gen_is_root ir : allgather_common_is_root ir = (ir =? 0) /\ prefix_common_is_root ir = (ir =? 0) /\ prefix_common_prescan_is_root ir = (ir =? 0).
Proof. unfold allgather_common_is_root, prefix_common_is_root, prefix_common_prescan_is_root, z2b. rewrite negb_involutive. repeat split; reflexivity. Qed.

(* ---------- sc_scan_on_array ---------------------------------------------------------------------------------------------------- *)
Lemma gen_scan_index count p c : 0 <= count -> 1 <= p < B31 -> 0 <= c -> count * p + c < B31 ->
  let d := count * p + c in let s := count * (p - 1) + c in
  scan_dst_char count p c = d /\ scan_src_char count p c = s /\ scan_dst_short count p c = d /\ scan_src_short count p c = s /\
  scan_dst_ushort count p c = d /\ scan_src_ushort count p c = s /\ scan_dst_int count p c = d /\ scan_src_int count p c = s /\
  scan_dst_unsigned count p c = d /\ scan_src_unsigned count p c = s /\ scan_dst_long count p c = d /\ scan_src_long count p c = s /\
  scan_dst_ulong count p c = d /\ scan_src_ulong count p c = s /\ scan_dst_longlong count p c = d /\ scan_src_longlong count p c = s.
Proof.
  intros Hc Hp Hcc Hb. cbv zeta.
  assert (E1 : s32 (s32 (count * p) + c) = count * p + c).
  { rewrite (s32_sm (count * p)) by (unfold B31 in *; nia). apply s32_sm. unfold B31 in *; nia. }
  assert (E2 : s32 (s32 (count * s32 (p - 1)) + c) = count * (p - 1) + c).
  { rewrite (s32_sm (p - 1)) by (unfold B31 in *; lia).
    rewrite (s32_sm (count * (p - 1))) by (unfold B31 in *; nia). apply s32_sm. unfold B31 in *; nia. }
  unfold scan_dst_char, scan_src_char, scan_dst_short, scan_src_short, scan_dst_ushort, scan_src_ushort, scan_dst_int, scan_src_int,
    scan_dst_unsigned, scan_src_unsigned, scan_dst_long, scan_src_long, scan_dst_ulong, scan_src_ulong, scan_dst_longlong, scan_src_longlong.
  rewrite E1, E2. repeat split; reflexivity.
Qed.

(* slot p += slot p - 1, item by item, wrapped to the element type: the model's `vadd (wrap_of d) x prev` for the datatypes
   3 .. 7 (int, unsigned, long, unsigned long, long long) - for ALL values *)
Lemma gen_scan_add_wide array count p c : 0 <= count -> 1 <= p < B31 -> 0 <= c -> count * p + c < B31 ->
  let x := array (count * p + c) in let prev := array (count * (p - 1) + c) in
  scan_add_int array count p c = wrap_of 3 (x + prev) /\ scan_add_unsigned array count p c = wrap_of 4 (x + prev) /\
  scan_add_long array count p c = wrap_of 5 (x + prev) /\ scan_add_ulong array count p c = wrap_of 6 (x + prev) /\
  scan_add_longlong array count p c = wrap_of 7 (x + prev).
Proof.
  intros Hc Hp Hcc Hb. cbv zeta.
  pose proof (gen_scan_index count p c Hc Hp Hcc Hb) as I. cbv zeta in I.
  unfold scan_dst_char, scan_src_char in I. destruct I as [E1 [E2 _]].
  unfold scan_add_int, scan_add_unsigned, scan_add_long, scan_add_ulong, scan_add_longlong. cbv zeta.
  rewrite E1, E2. repeat split; reflexivity.
Qed.

(* char, short, unsigned short (datatypes 0, 1, 2): the operands are promoted to int before the sum; for values of the
   element type the int sum does not wrap *)
Lemma gen_scan_add_small array count p c : 0 <= count -> 1 <= p < B31 -> 0 <= c -> count * p + c < B31 ->
  (forall i, - 65536 <= array i < 65536) ->
  let x := array (count * p + c) in let prev := array (count * (p - 1) + c) in
  scan_add_char array count p c = wrap_of 0 (x + prev) /\ scan_add_short array count p c = wrap_of 1 (x + prev) /\
  scan_add_ushort array count p c = wrap_of 2 (x + prev).
Proof.
  intros Hc Hp Hcc Hb Ha. cbv zeta.
  pose proof (gen_scan_index count p c Hc Hp Hcc Hb) as I. cbv zeta in I.
  unfold scan_dst_char, scan_src_char in I. destruct I as [E1 [E2 _]].
  unfold scan_add_char, scan_add_short, scan_add_ushort. cbv zeta. rewrite E1, E2.
  pose proof (Ha (count * p + c)). pose proof (Ha (count * (p - 1) + c)).
  rewrite s32_sm by (unfold B31; change (2 ^ 31) with 2147483648; lia). repeat split; reflexivity.
Qed.

Lemma gen_scan_slots p size : scan_slot_first = 1 /\ scan_slot_cond p size = (p <=? size).
Proof. split; reflexivity. Qed.

(* ---------- byte counts, item counts and offsets ------------------------------------------------------------------------------------ *)
Lemma len_gather ms (f : nat -> list Z) count : (forall q, In q ms -> length (f q) = count) -> length (gather ms f) = (length ms * count)%nat.
Proof.
  intros H. unfold gather. induction ms as [|q t IH]; [reflexivity|].
  cbn [map concat length]. rewrite app_length, H by (left; reflexivity). rewrite IH by (intros; apply H; right; assumption). lia.
Qed.

(* basic / prescan flavours: `count` zero items in front (memset of count * typesize bytes), the gathered items behind them *)
Lemma gen_prefix_private recvbuf ts count size : 0 <= ts < B31 -> zn count < B31 -> zn count * ts < B31 ->
  prefix_basic_memset_arg2 ts (zn count) = zn (length (repeat 0 count)) * ts /\
  prefix_basic_allgather_arg3 recvbuf ts (zn count) = recvbuf + zn (length (repeat 0 count)) * ts /\
  prefix_basic_allgather_arg1 (zn count) = zn count /\ prefix_basic_allgather_arg4 (zn count) = zn count /\
  (prefix_basic_scan_on_array_arg1 size, prefix_basic_scan_on_array_arg2 (zn count), prefix_basic_scan_on_array_arg3 ts) = (size, zn count, ts) /\
  prefix_prescan_malloc_arg1 ts (zn count) = zn count * ts /\ prefix_prescan_scan_arg2 (zn count) = zn count /\
  prefix_prescan_memset_arg2 ts (zn count) = zn (length (repeat 0 count)) * ts /\
  prefix_prescan_allgather_arg3 recvbuf ts (zn count) = recvbuf + zn (length (repeat 0 count)) * ts /\
  prefix_prescan_allgather_arg1 (zn count) = zn count /\ prefix_prescan_allgather_arg4 (zn count) = zn count.
Proof.
  intros Ht Hk Hb. rewrite repeat_length.
  unfold prefix_basic_memset_arg2, prefix_basic_allgather_arg3, prefix_basic_allgather_arg1, prefix_basic_allgather_arg4,
    prefix_basic_scan_on_array_arg1, prefix_basic_scan_on_array_arg2, prefix_basic_scan_on_array_arg3,
    prefix_prescan_malloc_arg1, prefix_prescan_scan_arg2, prefix_prescan_memset_arg2, prefix_prescan_allgather_arg3,
    prefix_prescan_allgather_arg1, prefix_prescan_allgather_arg4.
  assert (B31 < 2 ^ 62) by (unfold B31; reflexivity).
  rewrite (u64_sm (zn count)) by lia.
  rewrite (u64_sm (ts * zn count)) by nia. rewrite Z.mul_1_r. rewrite (u64_sm (ts * zn count)) by nia.
  rewrite (s32_sm ts) by lia. repeat split; lia.
Qed.

(* window flavours: the node root gathers intrasize * count items (that many times typesize bytes) from its node; the roots
   exchange blocks of count * intrasize items = the length of the gathered contributions of one node (model: gather (intra nc)) *)
Lemma gen_prefix_window recvbuf ts count (ms : list nat) (f : nat -> list Z) size :
  0 <= ts < B31 -> zn count < B31 -> zn (length ms) * zn count * ts < B31 -> zn count * ts < B31 -> zn (length ms) * zn count < B31 ->
  (forall q, In q ms -> length (f q) = count) ->
  let isz := zn (length ms) in let blk := zn (length (gather ms f)) in
  prefix_common_malloc_arg1 isz (zn count) ts = blk * ts /\
  (prefix_common_gather_arg1 (zn count), prefix_common_gather_arg4 (zn count), prefix_common_gather_arg6) = (zn count, zn count, 0) /\
  prefix_common_memset_arg2 (zn count) ts = zn (length (repeat 0 count)) * ts /\
  prefix_common_allgather_arg3 recvbuf (zn count) ts = recvbuf + zn (length (repeat 0 count)) * ts /\
  prefix_common_allgather_arg1 (zn count) isz = blk /\ prefix_common_allgather_arg4 (zn count) isz = blk /\
  (prefix_common_scan_on_array_arg1 size, prefix_common_scan_on_array_arg2 (zn count), prefix_common_scan_on_array_arg3 ts) = (size, zn count, ts) /\
  prefix_common_prescan_malloc1_arg1 ts (zn count) = zn count * ts /\ prefix_common_prescan_malloc2_arg1 isz (zn count) ts = blk * ts /\
  prefix_common_prescan_scan_arg2 (zn count) = zn count /\
  (prefix_common_prescan_gather_arg1 (zn count), prefix_common_prescan_gather_arg4 (zn count), prefix_common_prescan_gather_arg6) = (zn count, zn count, 0) /\
  prefix_common_prescan_memset_arg2 (zn count) ts = zn (length (repeat 0 count)) * ts /\
  prefix_common_prescan_allgather_arg3 recvbuf (zn count) ts = recvbuf + zn (length (repeat 0 count)) * ts /\
  prefix_common_prescan_allgather_arg1 (zn count) isz = blk /\ prefix_common_prescan_allgather_arg4 (zn count) isz = blk.
Proof.
  intros Ht Hk Hb Hc Hi Hf. cbv zeta. rewrite (len_gather ms f count Hf). rewrite repeat_length.
  rewrite Nat2Z.inj_mul.
  unfold prefix_common_malloc_arg1, prefix_common_gather_arg1, prefix_common_gather_arg4, prefix_common_gather_arg6,
    prefix_common_memset_arg2, prefix_common_allgather_arg3, prefix_common_allgather_arg1, prefix_common_allgather_arg4,
    prefix_common_scan_on_array_arg1, prefix_common_scan_on_array_arg2, prefix_common_scan_on_array_arg3,
    prefix_common_prescan_malloc1_arg1, prefix_common_prescan_malloc2_arg1, prefix_common_prescan_scan_arg2,
    prefix_common_prescan_gather_arg1, prefix_common_prescan_gather_arg4, prefix_common_prescan_gather_arg6,
    prefix_common_prescan_memset_arg2, prefix_common_prescan_allgather_arg3, prefix_common_prescan_allgather_arg1,
    prefix_common_prescan_allgather_arg4.
  assert (B31 < 2 ^ 62) by (unfold B31; reflexivity).
  set (n := zn (length ms)) in *. set (k := zn count) in *.
  assert (0 <= n) by (subst n; lia). assert (0 <= k) by (subst k; lia).
  rewrite (s32_sm (n * k)) by lia. rewrite (s32_sm (k * n)) by lia. rewrite (s32_sm ts) by lia.
  rewrite (u64_sm (n * k)) by lia. rewrite (u64_sm k) by lia.
  rewrite (u64_sm (n * k * ts)) by nia. rewrite (u64_sm (k * ts)) by nia. rewrite (u64_sm (ts * k)) by nia.
  rewrite !Z.mul_1_r. rewrite (u64_sm (n * k * ts)) by nia. rewrite (u64_sm (ts * k)) by nia.
  repeat split; lia.
Qed.

(* ---------- sc_shmem_allgather: separate send and receive signatures ---------------------------------------------------------------- *)
(* snd = (sendcount, size of sendtype), rcv = (recvcount, size of recvtype), k = size of the node (intranode communicator), st / rt the
   datatype handles, cm / ia / ie the communicator and its two node communicators.  The generated arguments are functions of ALL of
   (sendcount, sendtype, recvcount, recvtype, intrasize, typesize, comm, intranode, internode):
   basic flavours: MPI_Allgather (sendcount, sendtype -> recvcount, recvtype) on comm                    (model: coll_gather (seq 0 P) contrib snd rcv);
   window flavours: typesize = sc_mpi_sizeof (RECVTYPE); the node buffer has intrasize * RECVCOUNT * typesize bytes (model: the room of
   node_buffer); MPI_Gather (SENDCOUNT, sendtype -> RECVCOUNT, recvtype) to root 0 of intranode          (model: coll_gather (intra ncq) contrib snd rcv);
   MPI_Allgather (SENDCOUNT * intrasize, sendtype -> RECVCOUNT * intrasize, recvtype) on internode       (model: sig_times k snd, sig_times k rcv) *)
Lemma gen_allgather_sig (snd rcv : sig) (k : nat) st rt cm ia ie :
  zn (sg_count snd * k) < B31 -> zn (sg_count rcv * k) < B31 -> zn (k * (sg_count rcv * sg_size rcv)) < B31 ->
  let sc := zn (sg_count snd) in let rc := zn (sg_count rcv) in let isz := zn k in let ts := zn (sg_size rcv) in
  (allgather_basic_allgather_arg1 sc st rc rt isz ts cm ia ie, allgather_basic_allgather_arg2 sc st rc rt isz ts cm ia ie,
   allgather_basic_allgather_arg4 sc st rc rt isz ts cm ia ie, allgather_basic_allgather_arg5 sc st rc rt isz ts cm ia ie,
   allgather_basic_allgather_arg6 sc st rc rt isz ts cm ia ie) = (sc, st, rc, rt, cm) /\
  allgather_common_sizeof_arg0 sc st rc rt isz ts cm ia ie = rt /\
  allgather_common_malloc_arg1 sc st rc rt isz ts cm ia ie = zn (k * (sg_count rcv * sg_size rcv)) /\
  (allgather_common_gather_arg1 sc st rc rt isz ts cm ia ie, allgather_common_gather_arg2 sc st rc rt isz ts cm ia ie,
   allgather_common_gather_arg4 sc st rc rt isz ts cm ia ie, allgather_common_gather_arg5 sc st rc rt isz ts cm ia ie,
   allgather_common_gather_arg6 sc st rc rt isz ts cm ia ie, allgather_common_gather_arg7 sc st rc rt isz ts cm ia ie) = (sc, st, rc, rt, 0, ia) /\
  (allgather_common_allgather_arg1 sc st rc rt isz ts cm ia ie, allgather_common_allgather_arg2 sc st rc rt isz ts cm ia ie,
   allgather_common_allgather_arg4 sc st rc rt isz ts cm ia ie, allgather_common_allgather_arg5 sc st rc rt isz ts cm ia ie,
   allgather_common_allgather_arg6 sc st rc rt isz ts cm ia ie)
  = (zn (sg_count (sig_times k snd)), st, zn (sg_count (sig_times k rcv)), rt, ie).
Proof.
  intros H1 H2 H3. cbv zeta.
  unfold allgather_basic_allgather_arg1, allgather_basic_allgather_arg2, allgather_basic_allgather_arg4, allgather_basic_allgather_arg5,
    allgather_basic_allgather_arg6, allgather_common_sizeof_arg0, allgather_common_malloc_arg1, allgather_common_gather_arg1,
    allgather_common_gather_arg2, allgather_common_gather_arg4, allgather_common_gather_arg5, allgather_common_gather_arg6,
    allgather_common_gather_arg7, allgather_common_allgather_arg1, allgather_common_allgather_arg2, allgather_common_allgather_arg4,
    allgather_common_allgather_arg5, allgather_common_allgather_arg6, sig_times. cbn [sg_count sg_size].
  assert (B31 < 2 ^ 62) by (unfold B31; reflexivity).
  rewrite !Nat2Z.inj_mul in *.
  set (a := zn (sg_count snd)) in *. set (b := zn (sg_count rcv)) in *. set (n := zn k) in *. set (t := zn (sg_size rcv)) in *.
  assert (0 <= a) by (subst a; lia). assert (0 <= b) by (subst b; lia). assert (0 <= n) by (subst n; lia). assert (0 <= t) by (subst t; lia).
  destruct (Z.eq_dec t 0) as [T0|T0].
  - rewrite T0 in *. rewrite (s32_sm (a * n)) by lia. rewrite (s32_sm (b * n)) by lia.
    rewrite !Z.mul_0_r. change (u64 0) with 0. repeat split; try reflexivity.
  - assert (n * b < B31) by nia.
    rewrite (s32_sm (n * b)) by lia. rewrite (s32_sm (a * n)) by lia. rewrite (s32_sm (b * n)) by lia.
    rewrite (u64_sm (n * b)) by lia. rewrite (u64_sm (n * b * t)) by nia. rewrite Z.mul_1_r. rewrite (u64_sm (n * b * t)) by nia.
    repeat split; try reflexivity; lia.
Qed.

(* ---------- the decisions of sc_mpi_comm_attach_node_comms as a whole ------------------------------------------------------------------ *)
(* does this call attach?  explicit processes_per_node: always; MPI_Comm_split_type: iff all nodes have the same size *)
Definition attach_attaches (ppn mx mn : Z) : bool := negb (ppn <? 1) || (mx =? mn).
(* generated: (split_type called, Comm_free called, internode split of the split_type branch, the two splits of the explicit branch,
   Alloc_mem called, Comm_set_attr called, on which communicator) - there is no other path through the function *)
Lemma gen_attach_decisions ppn mx mn cm x1 x2 x3 x4 x5 x6 x7 x8 x9 x10 x11 x12 x13 x14 x15 x16 x17 x18 :
  attach_decisions ppn mx mn cm x1 x2 x3 x4 x5 x6 x7 x8 x9 x10 x11 x12 x13 x14 x15 x16 x17 x18 =
  if ppn <? 1 then (if mx =? mn then (1, 0, 1, 0, 0, 1, 1, cm) else (1, 1, 0, 0, 0, 0, 0, 0)) else (0, 0, 0, 1, 1, 1, 1, cm).
Proof. unfold attach_decisions. cbv zeta. destruct (ppn <? 1); [destruct (mx =? mn)|]; reflexivity. Qed.

(* ... and these are the steps of the life cycle (ShmemModel.hstep): an attach that attaches creates two communicators and sets the
   attribute of THIS communicator (MPI_Comm_set_attr runs the delete callback on the value attached before); a refused one creates one
   communicator, frees it and changes nothing else *)
Lemma gen_attach_decisions_model (D : Type) (d : D) (s : hstate D) c ppn mx mn cm x1 x2 x3 x4 x5 x6 x7 x8 x9 x10 x11 x12 x13 x14 x15 x16 x17 x18 :
  h_valid D s c = true ->
  let '(st, fr, s1, s2, s3, al, sa, sc) := attach_decisions ppn mx mn cm x1 x2 x3 x4 x5 x6 x7 x8 x9 x10 x11 x12 x13 x14 x15 x16 x17 x18 in
  exists s', hstep D s (HAttach D c (if attach_attaches ppn mx mn then Some d else None)) = Some s' /\
  zn (h_next D s') = zn (h_next D s) + (st + s1 + s2 + s3) /\ st + s1 + s2 + s3 - fr = 2 * sa /\ al = sa /\
  z2b sa = attach_attaches ppn mx mn /\ (z2b sa = true -> sc = cm /\ h_division D s' c = Some d) /\
  (z2b sa = false -> h_attr D s' = h_attr D s).
Proof.
  intros V. rewrite gen_attach_decisions. unfold attach_attaches.
  destruct (ppn <? 1); [destruct (mx =? mn)|]; cbn [negb orb hstep]; rewrite V; eexists; (split; [reflexivity|]); cbn [h_next h_attr];
    unfold h_division; cbn [h_attr]; unfold upd; rewrite ?Nat.eqb_refl; repeat split; try reflexivity; try lia; try discriminate.
Qed.
