(* C20 part 2 - the getters return what the setters stored.  First about the GENERATED accessor bodies
   (Gen/AccessC20.v), then about the objects of C20/AccessModel.v. *)
From Coq Require Import ZArith List Bool Lia.
From ScV Require Import Base.CInt Gen.AccessC20 C20.AccessModel.
Import ListNotations.
Local Open Scope Z_scope.
Local Open Scope bool_scope.

(* ---------------------------------------------------------------------------------------------- *)
(* 1. generated bodies                                                                            *)
(* ---------------------------------------------------------------------------------------------- *)
Definition sel (m v p : Z) : Z := if z2b m then v else p.

Lemma gen_widths a b c m1 m2 m3 p1 p2 p3 :
  (let '(t, i, bo) := sc_notify_nary_set_widths a b c in sc_notify_nary_get_widths m1 m2 m3 p1 p2 p3 t i bo)
  = (sel m1 a p1, sel m2 b p2, sel m3 c p3).
Proof. unfold sc_notify_nary_set_widths, sc_notify_nary_get_widths, sel. destruct (z2b m1), (z2b m2), (z2b m3); reflexivity. Qed.

Lemma gen_get_widths m1 m2 m3 p1 p2 p3 t i bo :
  sc_notify_nary_get_widths m1 m2 m3 p1 p2 p3 t i bo = (sel m1 t p1, sel m2 i p2, sel m3 bo p3).
Proof. unfold sc_notify_nary_get_widths, sel. destruct (z2b m1), (z2b m2), (z2b m3); reflexivity. Qed.

Lemma gen_set_widths a b c : sc_notify_nary_set_widths a b c = (a, b, c).
Proof. reflexivity. Qed.

Lemma gen_scalars v :
  sc_notify_get_eager_threshold (sc_notify_set_eager_threshold v) = v
  /\ sc_notify_get_stats (sc_notify_set_stats v) = v
  /\ sc_notify_ranges_get_num_ranges (sc_notify_ranges_set_num_ranges v) = v
  /\ sc_notify_ranges_get_package_id (sc_notify_ranges_set_package_id v) = v
  /\ sc_notify_get_type v = v /\ sc_notify_get_comm v = v.
Proof. repeat split. Qed.

Lemma gen_callback f x :
  (let '(cb, cx) := sc_notify_superset_set_callback f x in sc_notify_superset_get_callback cb cx) = (f, x).
Proof. reflexivity. Qed.

Lemma gen_spacing a b :
  sc_options_set_spacing a b = (if a <? 0 then 20 else a, if b <? 0 then 32 else b).
Proof. reflexivity. Qed.

(* ---------------------------------------------------------------------------------------------- *)
(* 2. association lists                                                                           *)
(* ---------------------------------------------------------------------------------------------- *)
Lemma find_remove_same {A} k (l : list (Z * A)) : find k (remove_key k l) = None.
Proof.
  induction l as [|[k' v] r IH]; [reflexivity|]. cbn [remove_key].
  destruct (k =? k') eqn:E; [exact IH|]. cbn [find]. rewrite E. exact IH.
Qed.

Lemma find_remove_other {A} k j (l : list (Z * A)) : j <> k -> find j (remove_key k l) = find j l.
Proof.
  intros N. induction l as [|[k' v] r IH]; [reflexivity|]. cbn [remove_key find].
  destruct (k =? k') eqn:E.
  - apply Z.eqb_eq in E. subst k'. replace (j =? k) with false by (symmetry; apply Z.eqb_neq; exact N). exact IH.
  - cbn [find]. destruct (j =? k'); [reflexivity|exact IH].
Qed.

Lemma find_update_same {A} k (v : A) l : find k (update k v l) = Some v.
Proof. unfold update. cbn [find]. rewrite Z.eqb_refl. reflexivity. Qed.

Lemma find_update_other {A} k j (v : A) l : j <> k -> find j (update k v l) = find j l.
Proof.
  intros N. unfold update. cbn [find]. replace (j =? k) with false by (symmetry; apply Z.eqb_neq; exact N).
  apply find_remove_other. exact N.
Qed.

Lemma on_obj_some w k f w' out : on_obj w k f = Some (w', out) ->
  exists n n', find k (w_objs w) = Some n /\ f n = Some (n', out) /\ w' = with_objs w (update k n' (w_objs w)).
Proof.
  unfold on_obj. destruct (find k (w_objs w)) as [n|]; [|discriminate].
  destruct (f n) as [[n' o]|] eqn:F; [|discriminate]. intros H; injection H as <- <-.
  exists n, n'. repeat split. exact F.
Qed.

Lemma on_obj_run w k f n n' out : find k (w_objs w) = Some n -> f n = Some (n', out) ->
  on_obj w k f = Some (with_objs w (update k n' (w_objs w)), out).
Proof. intros H F. unfold on_obj. rewrite H, F. reflexivity. Qed.

(* the controller with handle k *)
Definition obj (w : world) (k : Z) : option notify := find k (w_objs w).

Definition same_defaults (a b : world) : Prop :=
  w_type_default a = w_type_default b /\ w_eager_default a = w_eager_default b /\ w_ntop a = w_ntop b
  /\ w_nint a = w_nint b /\ w_nbot a = w_nbot b /\ w_nranges a = w_nranges b /\ w_pkgid a = w_pkgid b
  /\ w_shmem a = w_shmem b.

(* ---------------------------------------------------------------------------------------------- *)
(* 3. setters followed by getters                                                                 *)
(* ---------------------------------------------------------------------------------------------- *)
Ltac start H := apply on_obj_some in H; destruct H as (n & n' & Hf & Hn & ->).

Theorem widths_roundtrip mpi junk w k a b c w1 o1 :
  step mpi junk w (OSetWidths k a b c) = Some (w1, o1) ->
  o1 = [] /\ forall m1 m2 m3 p1 p2 p3, exists w2,
    step mpi junk w1 (OGetWidths k m1 m2 m3 p1 p2 p3) = Some (w2, [sel m1 a p1; sel m2 b p2; sel m3 c p3])
    /\ (forall j, obj w2 j = obj w1 j) /\ same_defaults w1 w2.
Proof.
  cbn [step]. intros H. start H.
  destruct (n_data n) eqn:D; try discriminate. rewrite gen_set_widths in Hn. injection Hn as <- <-.
  split; [reflexivity|]. intros m1 m2 m3 p1 p2 p3. eexists. cbn [step]. split.
  - erewrite on_obj_run; [reflexivity|apply find_update_same|]. cbn [n_data]. rewrite gen_get_widths. reflexivity.
  - split; [|repeat split]. intros j. unfold obj; cbn [w_objs with_objs].
    destruct (Z.eq_dec j k) as [->|N]; [rewrite !find_update_same; reflexivity|].
    rewrite find_update_other by exact N. reflexivity.
Qed.

(* a generic statement for the scalar pairs: after `set` the matching `get` prints exactly the value *)
Definition scalar_pair (set : Z -> Z -> op) (get : Z -> op) : Prop :=
  forall mpi junk w k v w1 o1, step mpi junk w (set k v) = Some (w1, o1) ->
  o1 = [] /\ exists w2, step mpi junk w1 (get k) = Some (w2, [v]) /\ (forall j, obj w2 j = obj w1 j) /\ same_defaults w1 w2.

Ltac frame_tail k :=
  split; [|repeat split]; intros j; unfold obj; cbn [w_objs with_objs];
  destruct (Z.eq_dec j k) as [->|N]; [rewrite !find_update_same; reflexivity|rewrite find_update_other by exact N; reflexivity].

Theorem eager_roundtrip : scalar_pair OSetEager OGetEager.
Proof.
  intros mpi junk w k v w1 o1 H. cbn [step] in H. start H. injection Hn as <- <-.
  split; [reflexivity|]. eexists. cbn [step]. split.
  - erewrite on_obj_run; [reflexivity|apply find_update_same|reflexivity].
  - frame_tail k.
Qed.

Theorem stats_roundtrip : scalar_pair OSetStats OGetStats.
Proof.
  intros mpi junk w k v w1 o1 H. cbn [step] in H. start H. injection Hn as <- <-.
  split; [reflexivity|]. eexists. cbn [step]. split.
  - erewrite on_obj_run; [reflexivity|apply find_update_same|reflexivity].
  - frame_tail k.
Qed.

Theorem num_ranges_roundtrip : scalar_pair OSetNr OGetNr.
Proof.
  intros mpi junk w k v w1 o1 H. cbn [step] in H. start H.
  destruct (n_data n) eqn:D; try discriminate. injection Hn as <- <-.
  split; [reflexivity|]. eexists. cbn [step]. split.
  - erewrite on_obj_run; [reflexivity|apply find_update_same|reflexivity].
  - frame_tail k.
Qed.

Theorem package_id_roundtrip : scalar_pair OSetPk OGetPk.
Proof.
  intros mpi junk w k v w1 o1 H. cbn [step] in H. start H.
  destruct (n_data n) eqn:D; try discriminate. injection Hn as <- <-.
  split; [reflexivity|]. eexists. cbn [step]. split.
  - erewrite on_obj_run; [reflexivity|apply find_update_same|reflexivity].
  - frame_tail k.
Qed.

(* the two ranges settings are separate fields *)
Theorem ranges_fields_independent mpi junk w k v w1 o1 :
  step mpi junk w (OSetNr k v) = Some (w1, o1) ->
  forall n, obj w k = Some n -> forall r p, n_data n = URanges r p ->
  exists w2, step mpi junk w1 (OGetPk k) = Some (w2, [p]).
Proof.
  cbn [step]. intros H n0 Hn0 r p D. start H. unfold obj in Hn0. rewrite Hn0 in Hf. injection Hf as <-.
  rewrite D in Hn. injection Hn as <- <-. eexists. cbn [step].
  erewrite on_obj_run; [reflexivity|apply find_update_same|reflexivity].
Qed.

Theorem callback_roundtrip mpi junk w k f x w1 o1 :
  step mpi junk w (OSetCb k f x) = Some (w1, o1) ->
  o1 = [] /\ exists w2, step mpi junk w1 (OGetCb k) = Some (w2, [f; x])
                        /\ (forall j, obj w2 j = obj w1 j) /\ same_defaults w1 w2.
Proof.
  cbn [step]. intros H. start H.
  destruct (n_data n) eqn:D; try discriminate. injection Hn as <- <-.
  split; [reflexivity|]. eexists. cbn [step]. split.
  - erewrite on_obj_run; [reflexivity|apply find_update_same|reflexivity].
  - frame_tail k.
Qed.

Definition resolve (w : world) (t : Z) : Z := if t =? c20_SC_NOTIFY_DEFAULT then w_type_default w else t.

Lemma set_type_type w junk n t : n_type (set_type w junk n t) = resolve w t.
Proof.
  unfold set_type, resolve, sc_notify_get_type.
  destruct (n_type n =? (if t =? c20_SC_NOTIFY_DEFAULT then w_type_default w else t)) eqn:E; [|reflexivity].
  apply Z.eqb_eq in E. exact E.
Qed.

Theorem type_roundtrip mpi junk w k t w1 o1 :
  step mpi junk w (OSetType k t) = Some (w1, o1) ->
  o1 = [0] /\ exists w2, step mpi junk w1 (OGetType k) = Some (w2, [resolve w t])
                         /\ (forall j, obj w2 j = obj w1 j) /\ same_defaults w1 w2.
Proof.
  cbn [step]. destruct (supports_type t || (t =? c20_SC_NOTIFY_DEFAULT)); [|discriminate].
  intros H. start H. injection Hn as <- <-.
  split; [reflexivity|]. eexists. cbn [step]. split.
  - erewrite on_obj_run; [reflexivity|apply find_update_same|].
    cbn beta. unfold sc_notify_get_type. rewrite set_type_type. reflexivity.
  - frame_tail k.
Qed.

(* what selecting a type does to the data: nothing if the type stays, defaults (or junk) if it changes *)
Theorem set_type_data mpi junk w k t w1 o1 n0 :
  step mpi junk w (OSetType k t) = Some (w1, o1) -> obj w k = Some n0 ->
  exists n1, obj w1 k = Some n1
    /\ n_comm n1 = n_comm n0 /\ n_eager n1 = n_eager n0 /\ n_stats n1 = n_stats n0 /\ n_type n1 = resolve w t
    /\ (n_type n0 = resolve w t -> n_data n1 = n_data n0)
    /\ (n_type n0 <> resolve w t ->
        n_data n1 = (if resolve w t =? c20_SC_NOTIFY_NARY then UNary (w_ntop w) (w_nint w) (w_nbot w)
                     else if resolve w t =? c20_SC_NOTIFY_RANGES then URanges (w_nranges w) (w_pkgid w)
                     else if resolve w t =? c20_SC_NOTIFY_SUPERSET then USuperset (fst junk) (snd junk)
                     else UOther)).
Proof.
  cbn [step]. destruct (supports_type t || (t =? c20_SC_NOTIFY_DEFAULT)); [|discriminate].
  intros H Hn0. start H. unfold obj in Hn0. rewrite Hn0 in Hf. injection Hf as <-. injection Hn as <- <-.
  eexists. unfold obj; cbn [w_objs with_objs]. split; [apply find_update_same|].
  unfold set_type, sc_notify_get_type. fold (resolve w t).
  destruct (n_type n0 =? resolve w t) eqn:E.
  - apply Z.eqb_eq in E. repeat split; try reflexivity; try exact E. intros X; contradiction.
  - apply Z.eqb_neq in E. cbn. repeat split; try reflexivity. intros X; contradiction.
Qed.

(* sc_notify_new: defaults *)
Theorem new_defaults mpi junk w k comm w1 o1 :
  step mpi junk w (ONew k comm) = Some (w1, o1) ->
  exists n, obj w1 k = Some n /\ n_comm n = comm /\ n_type n = w_type_default w /\ n_eager n = w_eager_default w
            /\ n_stats n = 0 /\ (forall j, j <> k -> obj w1 j = obj w j) /\ same_defaults w w1.
Proof.
  cbn [step]. destruct (find k (w_objs w)) eqn:F; [discriminate|].
  destruct (supports_type (w_type_default w)) eqn:S; [|discriminate].
  intros H; injection H as <- <-. eexists. unfold obj; cbn [w_objs with_objs].
  split; [apply find_update_same|].
  unfold notify_new, set_type, sc_notify_get_type; cbn [n_type].
  assert (D : (c20_SC_NOTIFY_DEFAULT =? (if w_type_default w =? c20_SC_NOTIFY_DEFAULT then w_type_default w else w_type_default w)) = false).
  { destruct (w_type_default w =? c20_SC_NOTIFY_DEFAULT); apply Z.eqb_neq;
      unfold supports_type in S; apply andb_true_iff in S; destruct S as [S _]; apply Z.leb_le in S;
      unfold c20_SC_NOTIFY_DEFAULT; lia. }
  rewrite D. cbn.
  replace (if w_type_default w =? c20_SC_NOTIFY_DEFAULT then w_type_default w else w_type_default w) with (w_type_default w)
    by (destruct (w_type_default w =? c20_SC_NOTIFY_DEFAULT); reflexivity).
  repeat split. intros j N. apply find_update_other. exact N.
Qed.

(* setters and getters of one controller do not touch another one *)
Theorem other_objects_untouched mpi junk w o w1 out k :
  step mpi junk w o = Some (w1, out) ->
  (match o with
   | OSetType k' _ | OGetType k' | OSetEager k' _ | OGetEager k' | OSetStats k' _ | OGetStats k' | OGetComm k'
   | OSetWidths k' _ _ _ | OGetWidths k' _ _ _ _ _ _ | OSetNr k' _ | OGetNr k' | OSetPk k' _ | OGetPk k'
   | OSetCb k' _ _ | OGetCb k' | ONew k' _ | ODestroy k' | OUse k' _ _ | OUseV k' _ => k' <> k
   | _ => True end) ->
  obj w1 k = obj w k.
Proof.
  intros H N. destruct o; cbn [step] in H;
    try (match type of H with context [supports_type ?t || ?b] => destruct (supports_type t || b); [|discriminate] end);
    try (match type of H with (if ?c then on_obj _ _ _ else None) = _ => destruct c; [|discriminate] end);
    try (start H; unfold obj; cbn [w_objs with_objs]; apply find_update_other; intro X; apply N; symmetry; exact X).
  - destruct (find k0 (w_objs w)); [discriminate|]. destruct (supports_type (w_type_default w)); [|discriminate].
    injection H as <- _. unfold obj; cbn [w_objs with_objs]. apply find_update_other. intro X; apply N; symmetry; exact X.
  - destruct (find k0 (w_objs w)); [|discriminate]. injection H as <- _. unfold obj; cbn [w_objs with_objs].
    apply find_remove_other. intro X; apply N; symmetry; exact X.
  - injection H as <- _. reflexivity.
  - injection H as <- _. reflexivity.
  - destruct ((0 <=? t) && (t <? c20_SC_SHMEM_NUM_TYPES)); [|discriminate]. destruct mpi; injection H as <- _; reflexivity.
  - destruct mpi; injection H as <- _; reflexivity.
  - destruct (sc_options_set_spacing a b). injection H as <- _. reflexivity.
  - destruct (sc_options_set_spacing (-1) (-1)). injection H as <- _. reflexivity.
  - destruct mpi; [destruct (find comm (w_shmem w))|]; injection H as <- _; reflexivity.
  - destruct (sc_options_set_spacing a b). injection H as <- _. reflexivity.
Qed.

(* setting one field of a controller keeps its other fields; getters change nothing *)
Definition field_op_handle (o : op) : option Z :=
  match o with
  | OSetEager k _ | OSetStats k _ | OSetWidths k _ _ _ | OSetNr k _ | OSetPk k _ | OSetCb k _ _
  | OGetType k | OGetEager k | OGetStats k | OGetComm k | OGetWidths k _ _ _ _ _ _ | OGetNr k | OGetPk k | OGetCb k => Some k
  | _ => None
  end.

Theorem setters_keep_other_fields mpi junk w o w1 out k n :
  step mpi junk w o = Some (w1, out) -> field_op_handle o = Some k -> obj w k = Some n ->
  exists n1, obj w1 k = Some n1 /\
  match o with
  | OSetEager _ _ => n_comm n1 = n_comm n /\ n_type n1 = n_type n /\ n_stats n1 = n_stats n /\ n_data n1 = n_data n
  | OSetStats _ _ => n_comm n1 = n_comm n /\ n_type n1 = n_type n /\ n_eager n1 = n_eager n /\ n_data n1 = n_data n
  | OSetWidths _ _ _ _ | OSetNr _ _ | OSetPk _ _ | OSetCb _ _ _ =>
      n_comm n1 = n_comm n /\ n_type n1 = n_type n /\ n_eager n1 = n_eager n /\ n_stats n1 = n_stats n
  | _ => n1 = n
  end.
Proof.
  intros H Hk Hn. unfold obj in Hn.
  destruct o; cbn [field_op_handle] in Hk; try discriminate; injection Hk as ->; cbn [step] in H;
    apply on_obj_some in H; destruct H as (n0 & n' & Hf & Hs & ->);
    rewrite Hn in Hf; injection Hf as <-;
    exists n'; (split; [unfold obj; cbn [w_objs with_objs]; apply find_update_same|]);
    try (destruct (n_data n) eqn:D; try discriminate);
    try (destruct (sc_notify_nary_get_widths _ _ _ _ _ _ _ _ _) as [[? ?] ?]);
    try (destruct (sc_notify_superset_get_callback _ _));
    try (destruct (sc_notify_nary_set_widths _ _ _) as [[? ?] ?]);
    try (destruct (sc_notify_superset_set_callback _ _));
    injection Hs as <- _; repeat split.
Qed.

(* ---------------------------------------------------------------------------------------------- *)
(* 4. shared-array flavour and option spacing                                                     *)
(* ---------------------------------------------------------------------------------------------- *)
Definition shmem_valid (t : Z) : Prop := 0 <= t < c20_SC_SHMEM_NUM_TYPES.

Theorem shmem_roundtrip_mpi junk w comm t w1 o1 :
  step true junk w (OShSet comm t) = Some (w1, o1) ->
  o1 = [] /\ shmem_valid t /\ step true junk w1 (OShGet comm) = Some (w1, [t])
  /\ forall c, c <> comm -> step true junk w1 (OShGet c) = (match step true junk w (OShGet c) with Some (_, o) => Some (w1, o) | None => None end).
Proof.
  cbn [step]. destruct ((0 <=? t) && (t <? c20_SC_SHMEM_NUM_TYPES)) eqn:V; [|discriminate].
  intros H; injection H as <- <-. apply andb_true_iff in V. destruct V as [V1 V2]. apply Z.leb_le in V1. apply Z.ltb_lt in V2.
  split; [reflexivity|]. split; [split; assumption|]. cbn [w_shmem with_shmem]. rewrite find_update_same.
  split; [reflexivity|]. intros c N. rewrite find_update_other by exact N. reflexivity.
Qed.

(* without MPI the getter is the constant SC_SHMEM_BASIC: the pair reads back only that value *)
Theorem shmem_serial junk w comm t w1 o1 :
  step false junk w (OShSet comm t) = Some (w1, o1) ->
  o1 = [] /\ w1 = w /\ step false junk w1 (OShGet comm) = Some (w1, [c20_SC_SHMEM_BASIC]).
Proof.
  cbn [step]. destruct ((0 <=? t) && (t <? c20_SC_SHMEM_NUM_TYPES)); [|discriminate].
  intros H; injection H as <- <-. repeat split.
Qed.

Theorem shmem_serial_refuted :
  exists w comm t w1, step false (0, 0) w (OShSet comm t) = Some (w1, []) /\ shmem_valid t
                      /\ step false (0, 0) w1 (OShGet comm) <> Some (w1, [t]).
Proof.
  exists init_world, 0, c20_SC_SHMEM_PRESCAN, init_world. split; [reflexivity|]. split; [vm_compute; split; [discriminate|reflexivity]|].
  vm_compute. discriminate.
Qed.

Theorem spacing_columns_spec mpi junk w a b :
  step mpi junk w (OSpacing a b) =
  Some (w, [Z.max 14 (if a <? 0 then 20 else a); Z.max (Z.max 14 (if a <? 0 then 20 else a) + 6) (if b <? 0 then 32 else b)])
  /\ step mpi junk w OSpacing0 = Some (w, [20; 32]).
Proof.
  split; [|reflexivity]. cbn [step]. rewrite gen_spacing. unfold spacing_columns.
  change (13 + 1) with 14. rewrite <- Z.add_assoc. reflexivity.
Qed.
