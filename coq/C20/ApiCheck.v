(* C20 part 1 - the finite obligation about the GENERATED lists (Gen/ApiC20.v), decided by vm_compute. *)
From Coq Require Import String List Bool.
From ScV Require Import Gen.ApiC20 C20.ApiProofs.
Import ListNotations.
Local Open Scope string_scope.

Lemma all_ok : forallb cfg_ok configs = true.
Proof. vm_compute. reflexivity. Qed.

Lemma all_known_exact : forallb cfg_known_exact configs = true.
Proof. vm_compute. reflexivity. Qed.

(* the generated lists are not degenerate: each configuration declares at least 400 names, among them ... *)
Definition must_declare : list string :=
  ["sc_init"; "sc_finalize"; "sc_log"; "sc_array_new"; "sc_notify_nary_get_widths"; "sc_notify_set_eager_threshold";
   "sc_memory_check_noerr"; "sc_io_encode"; "sc_options_parse"; "sc_ranges_compute"; "sc_shmem_get_type"; "sc_package_id"].

Lemma all_substantial : forallb (cfg_substantial 400 must_declare) configs = true.
Proof. vm_compute. reflexivity. Qed.

Lemma pinned_present : existsb (fun c => let '(n, _, _, _) := c in String.eqb n "serial") configs = true
                       /\ Nat.leb 4 (length configs) = true.
Proof. vm_compute. split; reflexivity. Qed.

Lemma undefined_witness :
  exists n decl defd known d, In (n, decl, defd, known) configs /\ In d known /\ In d decl /\ ~ In d defd.
Proof.
  exists "serial", declared_serial, (defined_serial ++ system_serial)%list, known_serial, "sc_scda_fopen_read".
  split; [left; reflexivity|].
  split; [apply smem_In; vm_compute; reflexivity|].
  split; [apply smem_In; vm_compute; reflexivity|apply smem_not_In; vm_compute; reflexivity].
Qed.
