(* C20 part 2 - model of the configuration accessors.
   The accessor bodies themselves are GENERATED from src/sc_notify.c, src/sc_options.c, src/sc_shmem.c
   (Gen/AccessC20.v: fields read are arguments, fields and output arguments written are results); this file
   adds the objects they act on: notify controllers (with the union `data`, of which only the member
   selected by the type is meaningful), sc_notify_new / set_type / destroy, the public default variables,
   the communicator attribute of sc_shmem and the observation of the option spacing.
   Executable definitions only. *)
From Coq Require Import ZArith List Bool.
From ScV Require Import Base.CInt Gen.AccessC20.
Import ListNotations.
Local Open Scope Z_scope.
Local Open Scope bool_scope.

(* the union sc_notify_s.data *)
Inductive udata :=
| UNary (ntop nint nbot : Z)
| URanges (num_ranges package_id : Z)
| USuperset (callback ctx : Z)
| UOther.                       (* types without data of their own *)

Record notify := mkn { n_comm : Z; n_type : Z; n_eager : Z; n_stats : Z; n_data : udata }.

Record world := mkw {
  w_type_default : Z;      (* sc_notify_type_default *)
  w_eager_default : Z;     (* sc_notify_eager_threshold_default *)
  w_ntop : Z; w_nint : Z; w_nbot : Z;    (* sc_notify_nary_n{top,int,bot}_default *)
  w_nranges : Z;           (* sc_notify_ranges_num_ranges_default *)
  w_pkgid : Z;             (* sc_package_id *)
  w_objs : list (Z * notify);            (* live controllers by handle *)
  w_shmem : list (Z * Z)                 (* communicator -> shmem type attribute (MPI builds) *)
}.

Definition init_world : world :=
  mkw init_sc_notify_type_default init_sc_notify_eager_threshold_default
      init_sc_notify_nary_ntop_default init_sc_notify_nary_nint_default init_sc_notify_nary_nbot_default
      init_sc_notify_ranges_num_ranges_default (-1) [] [].

Fixpoint find {A} (k : Z) (l : list (Z * A)) : option A :=
  match l with
  | [] => None
  | (k', v) :: r => if k =? k' then Some v else find k r
  end.
Fixpoint remove_key {A} (k : Z) (l : list (Z * A)) : list (Z * A) :=
  match l with
  | [] => []
  | (k', v) :: r => if k =? k' then remove_key k r else (k', v) :: remove_key k r
  end.
Definition update {A} (k : Z) (v : A) (l : list (Z * A)) : list (Z * A) := (k, v) :: remove_key k l.

Definition with_objs (w : world) (o : list (Z * notify)) : world :=
  mkw (w_type_default w) (w_eager_default w) (w_ntop w) (w_nint w) (w_nbot w) (w_nranges w) (w_pkgid w) o (w_shmem w).
Definition with_shmem (w : world) (s : list (Z * Z)) : world :=
  mkw (w_type_default w) (w_eager_default w) (w_ntop w) (w_nint w) (w_nbot w) (w_nranges w) (w_pkgid w) (w_objs w) s.

Definition supports_type (t : Z) : bool := (0 <=? t) && (t <? c20_SC_NOTIFY_NUM_TYPES).

(* data of a freshly selected type: n-ary widths and ranges settings come from the public defaults; the
   superset member is NOT initialised (whatever the union held: junk) *)
Definition init_data (w : world) (junk : Z * Z) (t : Z) : udata :=
  if t =? c20_SC_NOTIFY_NARY then UNary (w_ntop w) (w_nint w) (w_nbot w)
  else if t =? c20_SC_NOTIFY_RANGES then URanges (w_nranges w) (w_pkgid w)
  else if t =? c20_SC_NOTIFY_SUPERSET then USuperset (fst junk) (snd junk)
  else UOther.

(* sc_notify_set_type: DEFAULT selects sc_notify_type_default; the data is re-initialised only when the type changes *)
Definition set_type (w : world) (junk : Z * Z) (n : notify) (t : Z) : notify :=
  let t' := if t =? c20_SC_NOTIFY_DEFAULT then w_type_default w else t in
  if sc_notify_get_type (n_type n) =? t' then n
  else mkn (n_comm n) t' (n_eager n) (n_stats n) (init_data w junk t').

(* sc_notify_new: calloc'ed (union all zero), type DEFAULT, then set_type (default type) *)
Definition notify_new (w : world) (comm : Z) : notify :=
  set_type w (0, 0) (mkn comm c20_SC_NOTIFY_DEFAULT (w_eager_default w) 0 UOther) (w_type_default w).

Inductive op :=
| ONew (k comm : Z) | ODestroy (k : Z)
| OSetType (k t : Z) | OGetType (k : Z)
| OSetEager (k v : Z) | OGetEager (k : Z)
| OSetStats (k s : Z) | OGetStats (k : Z)
| OGetComm (k : Z)
| OSetWidths (k a b c : Z)
| OGetWidths (k m1 m2 m3 p1 p2 p3 : Z)     (* m: output pointer non-NULL?  p: previous content of the outputs *)
| OSetNr (k v : Z) | OGetNr (k : Z)
| OSetPk (k v : Z) | OGetPk (k : Z)
| OSetCb (k f x : Z) | OGetCb (k : Z)
| ODefaults (t e a b c n : Z)               (* assignment to the public default variables *)
| OPkgId (v : Z)                            (* sc_package_id after sc_init / sc_finalize *)
| OShSet (comm t : Z) | OShGet (comm : Z)
| OSpacing (a b : Z)                        (* sc_options_new; sc_options_set_spacing (a, b); columns of print_usage *)
| OSpacing0                                 (* sc_options_new; columns of print_usage *)
(* operations that USE a configured object and store nothing *)
| OUse (k mode pay : Z)                     (* one round sc_notify_payload on controller k (mode: receiver pattern, pay: payload variant) *)
| OUseV (k mode : Z)                        (* one round sc_notify_payloadv on controller k *)
| OShUse (comm v : Z)                       (* sc_shmem_malloc / write / allgather / prefix / memcpy / free on the communicator *)
| OSpacingU (a b u : Z).                    (* as OSpacing, with parse / print_usage / print_summary / more options between set and observation *)

(* a notification round is legal on a controller whose settings describe an algorithm that can run: a tree with
   branching widths in [2, 64], between 1 and 64 ranges with a package id >= -1, a superset callback that is not NULL *)
Definition use_ok (n : notify) : bool :=
  supports_type (n_type n) &&
  match n_data n with
  | UNary a b c => (2 <=? a) && (a <=? 64) && (2 <=? b) && (b <=? 64) && (2 <=? c) && (c <=? 64)
  | URanges nr pk => (1 <=? nr) && (nr <=? 64) && (-1 <=? pk)
  | USuperset cb _ => negb (cb =? 0)
  | UOther => true
  end.

(* columns (0-based) at which sc_options_print_usage starts the type display "<INT>" and the help text of
   the harness's option "-i | --int" (13 characters are printed before the first gap) *)
Definition spacing_columns (space_type space_help : Z) : list Z :=
  let c1 := Z.max (13 + 1) space_type in
  let c2 := Z.max (c1 + 5 + 1) space_help in
  [c1; c2].

Definition on_obj (w : world) (k : Z) (f : notify -> option (notify * list Z)) : option (world * list Z) :=
  match find k (w_objs w) with
  | None => None
  | Some n => match f n with
              | None => None
              | Some (n', out) => Some (with_objs w (update k n' (w_objs w)), out)
              end
  end.

(* mpi: build with SC_ENABLE_MPI (the shmem type is a communicator attribute) or without (constant).
   junk: content of the union when a type without initialisation is selected.  None = precondition violated. *)
Definition step (mpi : bool) (junk : Z * Z) (w : world) (o : op) : option (world * list Z) :=
  match o with
  | ONew k comm =>
      match find k (w_objs w) with
      | Some _ => None
      | None => if supports_type (w_type_default w) then Some (with_objs w (update k (notify_new w comm) (w_objs w)), []) else None
      end
  | ODestroy k => match find k (w_objs w) with None => None | Some _ => Some (with_objs w (remove_key k (w_objs w)), []) end
  | OSetType k t =>
      if supports_type t || (t =? c20_SC_NOTIFY_DEFAULT) then
        on_obj w k (fun n => Some (set_type w junk n t, [0]))
      else None
  | OGetType k => on_obj w k (fun n => Some (n, [sc_notify_get_type (n_type n)]))
  | OSetEager k v => on_obj w k (fun n => Some (mkn (n_comm n) (n_type n) (sc_notify_set_eager_threshold v) (n_stats n) (n_data n), []))
  | OGetEager k => on_obj w k (fun n => Some (n, [sc_notify_get_eager_threshold (n_eager n)]))
  | OSetStats k s => on_obj w k (fun n => Some (mkn (n_comm n) (n_type n) (n_eager n) (sc_notify_set_stats s) (n_data n), []))
  | OGetStats k => on_obj w k (fun n => Some (n, [sc_notify_get_stats (n_stats n)]))
  | OGetComm k => on_obj w k (fun n => Some (n, [sc_notify_get_comm (n_comm n)]))
  | OSetWidths k a b c =>
      on_obj w k (fun n => match n_data n with
                           | UNary _ _ _ => let '(t, i, bo) := sc_notify_nary_set_widths a b c in
                                            Some (mkn (n_comm n) (n_type n) (n_eager n) (n_stats n) (UNary t i bo), [])
                           | _ => None end)
  | OGetWidths k m1 m2 m3 p1 p2 p3 =>
      on_obj w k (fun n => match n_data n with
                           | UNary t i bo => let '(o1, o2, o3) := sc_notify_nary_get_widths m1 m2 m3 p1 p2 p3 t i bo in
                                             Some (n, [o1; o2; o3])
                           | _ => None end)
  | OSetNr k v =>
      on_obj w k (fun n => match n_data n with
                           | URanges _ p => Some (mkn (n_comm n) (n_type n) (n_eager n) (n_stats n) (URanges (sc_notify_ranges_set_num_ranges v) p), [])
                           | _ => None end)
  | OGetNr k => on_obj w k (fun n => match n_data n with URanges v _ => Some (n, [sc_notify_ranges_get_num_ranges v]) | _ => None end)
  | OSetPk k v =>
      on_obj w k (fun n => match n_data n with
                           | URanges r _ => Some (mkn (n_comm n) (n_type n) (n_eager n) (n_stats n) (URanges r (sc_notify_ranges_set_package_id v)), [])
                           | _ => None end)
  | OGetPk k => on_obj w k (fun n => match n_data n with URanges _ p => Some (n, [sc_notify_ranges_get_package_id p]) | _ => None end)
  | OSetCb k f x =>
      on_obj w k (fun n => match n_data n with
                           | USuperset _ _ => let '(cb, cx) := sc_notify_superset_set_callback f x in
                                              Some (mkn (n_comm n) (n_type n) (n_eager n) (n_stats n) (USuperset cb cx), [])
                           | _ => None end)
  | OGetCb k =>
      on_obj w k (fun n => match n_data n with
                           | USuperset cb cx => let '(o1, o2) := sc_notify_superset_get_callback cb cx in Some (n, [o1; o2])
                           | _ => None end)
  | ODefaults t e a b c nr =>
      Some (mkw t e a b c nr (w_pkgid w) (w_objs w) (w_shmem w), [])
  | OPkgId v => Some (mkw (w_type_default w) (w_eager_default w) (w_ntop w) (w_nint w) (w_nbot w) (w_nranges w) v (w_objs w) (w_shmem w), [])
  | OShSet comm t =>
      if (0 <=? t) && (t <? c20_SC_SHMEM_NUM_TYPES) then
        if mpi then Some (with_shmem w (update comm t (w_shmem w)), []) else Some (w, [])
      else None
  | OShGet comm =>
      if mpi then Some (w, [match find comm (w_shmem w) with Some t => t | None => c20_SC_SHMEM_NOT_SET end])
      else Some (w, [sc_shmem_get_type_serial])
  | OSpacing a b => let '(st, sh) := sc_options_set_spacing a b in Some (w, spacing_columns st sh)
  | OSpacing0 => let '(st, sh) := sc_options_set_spacing (-1) (-1) in Some (w, spacing_columns st sh)
  (* a round stores nothing: the controller is what it was *)
  | OUse k mode pay =>
      if (0 <=? mode) && (mode <=? 3) && (0 <=? pay) && (pay <=? 3) then
        on_obj w k (fun n => if use_ok n then Some (n, []) else None)
      else None
  | OUseV k mode =>
      if (0 <=? mode) && (mode <=? 3) then on_obj w k (fun n => if use_ok n then Some (n, []) else None) else None
  (* sc_shmem_get_type_default: a communicator WITHOUT the attribute gets sc_shmem_default_type on first use (MPI);
     an attribute that was set stays *)
  | OShUse comm v =>
      if mpi then
        match find comm (w_shmem w) with
        | Some _ => Some (w, [])
        | None => Some (with_shmem w (update comm init_sc_shmem_default_type (w_shmem w)), [])
        end
      else Some (w, [])
  | OSpacingU a b u => let '(st, sh) := sc_options_set_spacing a b in Some (w, spacing_columns st sh)
  end.

Fixpoint run (mpi : bool) (junk : Z * Z) (w : world) (ops : list op) : option (world * list (list Z)) :=
  match ops with
  | [] => Some (w, [])
  | o :: r => match step mpi junk w o with
              | None => None
              | Some (w1, out) => match run mpi junk w1 r with
                                  | None => None
                                  | Some (w2, outs) => Some (w2, out :: outs)
                                  end
              end
  end.
