(* C20 part 2 - "the getter returns the values LAST STORED by the setter", over whole histories.
   AccessProofs.v relates a setter to the getter that follows it immediately.  Here: between the setter and
   the getter ANY sequence of operations may run that does not store into that field of that controller -
   other setters, getters, operations on other controllers, assignments to the public defaults, and the
   operations that USE the configured objects (notification rounds OUse / OUseV, shared-array traffic OShUse,
   parsing and printing on an options object OSpacingU).  A use is the identity on the configuration. *)
From Coq Require Import ZArith List Bool Lia.
From ScV Require Import Base.CInt Gen.AccessC20 C20.AccessModel C20.AccessProofs.
Import ListNotations.
Local Open Scope Z_scope.
Local Open Scope bool_scope.

(* ---------------------------------------------------------------------------------------------- *)
(* 1. a use stores nothing                                                                        *)
(* ---------------------------------------------------------------------------------------------- *)
Lemma on_obj_same w k (c : notify -> bool) w1 out :
  on_obj w k (fun n => if c n then Some (n, []) else None) = Some (w1, out) ->
  out = [] /\ (forall j, obj w1 j = obj w j) /\ same_defaults w w1 /\ exists n, obj w k = Some n /\ c n = true.
Proof.
  intros H. apply on_obj_some in H. destruct H as (n & n' & Hf & Hn & ->).
  destruct (c n) eqn:C; [|discriminate]. injection Hn as <- <-.
  split; [reflexivity|]. split; [|split; [repeat split|exists n; split; assumption]].
  intros j. unfold obj; cbn [w_objs with_objs].
  destruct (Z.eq_dec j k) as [->|N]; [rewrite find_update_same; symmetry; exact Hf|].
  apply find_update_other. exact N.
Qed.

Theorem use_identity mpi junk w k mode pay w1 out :
  step mpi junk w (OUse k mode pay) = Some (w1, out) ->
  out = [] /\ (forall j, obj w1 j = obj w j) /\ same_defaults w w1.
Proof.
  cbn [step]. destruct ((0 <=? mode) && (mode <=? 3) && (0 <=? pay) && (pay <=? 3)); [|discriminate].
  intros H. apply on_obj_same in H. tauto.
Qed.

Theorem usev_identity mpi junk w k mode w1 out :
  step mpi junk w (OUseV k mode) = Some (w1, out) ->
  out = [] /\ (forall j, obj w1 j = obj w j) /\ same_defaults w w1.
Proof.
  cbn [step]. destruct ((0 <=? mode) && (mode <=? 3)); [|discriminate].
  intros H. apply on_obj_same in H. tauto.
Qed.

Theorem round_identity mpi junk w k mode pay w1 out :
  (step mpi junk w (OUse k mode pay) = Some (w1, out) \/ step mpi junk w (OUseV k mode) = Some (w1, out)) ->
  out = [] /\ (forall j, obj w1 j = obj w j) /\ same_defaults w w1.
Proof. intros [H|H]; [exact (use_identity _ _ _ _ _ _ _ _ H)|exact (usev_identity _ _ _ _ _ _ _ H)]. Qed.

(* shared arrays: a communicator whose flavour was set keeps it; one without gets the public default (MPI);
   the controllers are not touched *)
Theorem shuse_identity mpi junk w comm v w1 out :
  step mpi junk w (OShUse comm v) = Some (w1, out) ->
  out = [] /\ w_objs w1 = w_objs w
  /\ (forall c t, find c (w_shmem w) = Some t -> find c (w_shmem w1) = Some t)
  /\ (mpi = false -> w1 = w)
  /\ (forall t, find comm (w_shmem w) = Some t -> w1 = w).
Proof.
  cbn [step]. destruct mpi.
  - destruct (find comm (w_shmem w)) eqn:F; intros H; injection H as <- <-.
    + split; [reflexivity|]. split; [reflexivity|]. split; [intros c t H; exact H|]. split; [discriminate|]. reflexivity.
    + split; [reflexivity|]. split; [reflexivity|]. split; [|split; discriminate].
      intros c t Hc. cbn [w_shmem with_shmem]. destruct (Z.eq_dec c comm) as [->|N]; [congruence|].
      rewrite find_update_other by exact N. exact Hc.
  - intros H; injection H as <- <-. split; [reflexivity|]. split; [reflexivity|]. split; [intros c t H; exact H|]. split; reflexivity.
Qed.

Theorem spacing_used mpi junk w a b u : step mpi junk w (OSpacingU a b u) = step mpi junk w (OSpacing a b).
Proof. reflexivity. Qed.

(* ---------------------------------------------------------------------------------------------- *)
(* 2. fields, writers                                                                             *)
(* ---------------------------------------------------------------------------------------------- *)
Inductive field := FType | FEager | FStats | FComm | FWidths | FNr | FPk | FCb.

Definition read_field (f : field) (n : notify) : option (list Z) :=
  match f with
  | FType => Some [n_type n]
  | FEager => Some [n_eager n]
  | FStats => Some [n_stats n]
  | FComm => Some [n_comm n]
  | FWidths => match n_data n with UNary a b c => Some [a; b; c] | _ => None end
  | FNr => match n_data n with URanges r _ => Some [r] | _ => None end
  | FPk => match n_data n with URanges _ p => Some [p] | _ => None end
  | FCb => match n_data n with USuperset f x => Some [f; x] | _ => None end
  end.

Definition field_of (w : world) (k : Z) (f : field) : option (list Z) :=
  match obj w k with Some n => read_field f n | None => None end.

(* may operation o store into field f of controller k?  (set_type counts as a writer of the type and of the
   type-specific data although it keeps the data when the type stays: C20_set_type_data says what it does) *)
Definition writes (o : op) (k : Z) (f : field) : bool :=
  match o with
  | ONew k' _ | ODestroy k' => k' =? k
  | OSetType k' _ => (k' =? k) && match f with FEager | FStats | FComm => false | _ => true end
  | OSetEager k' _ => (k' =? k) && match f with FEager => true | _ => false end
  | OSetStats k' _ => (k' =? k) && match f with FStats => true | _ => false end
  | OSetWidths k' _ _ _ => (k' =? k) && match f with FWidths => true | _ => false end
  | OSetNr k' _ => (k' =? k) && match f with FNr => true | _ => false end
  | OSetPk k' _ => (k' =? k) && match f with FPk => true | _ => false end
  | OSetCb k' _ _ => (k' =? k) && match f with FCb => true | _ => false end
  | _ => false     (* getters, uses, public defaults, sc_package_id, shmem, options *)
  end.

Lemma on_obj_field w k' g w1 out k f :
  on_obj w k' g = Some (w1, out) ->
  (k' = k -> forall n n', g n = Some (n', out) -> read_field f n' = read_field f n) ->
  field_of w1 k f = field_of w k f.
Proof.
  intros H Hk. apply on_obj_some in H. destruct H as (n & n' & Hf & Hn & ->).
  unfold field_of, obj; cbn [w_objs with_objs].
  destruct (Z.eq_dec k k') as [->|N].
  - rewrite find_update_same, Hf. apply (Hk eq_refl n n' Hn).
  - rewrite find_update_other by exact N. reflexivity.
Qed.

Ltac keqb k0 k := destruct (Z.eqb_spec k0 k) as [->|?]; [|try congruence].

Theorem step_keeps_field mpi junk w o w1 out k f :
  step mpi junk w o = Some (w1, out) -> writes o k f = false -> field_of w1 k f = field_of w k f.
Proof.
  intros H W.
  destruct o; cbn [step] in H; cbn [writes] in W;
    try (match type of H with context [supports_type ?t || ?b] => destruct (supports_type t || b); [|discriminate] end);
    try (match type of H with (if ?c then on_obj _ _ _ else None) = _ => destruct c; [|discriminate] end).
  - (* new *) destruct (find k0 (w_objs w)); [discriminate|]. destruct (supports_type (w_type_default w)); [|discriminate].
    injection H as <- _. apply Z.eqb_neq in W. unfold field_of, obj; cbn [w_objs with_objs].
    rewrite find_update_other by congruence. reflexivity.
  - (* destroy *) destruct (find k0 (w_objs w)); [|discriminate]. injection H as <- _. apply Z.eqb_neq in W.
    unfold field_of, obj; cbn [w_objs with_objs]. rewrite find_remove_other by congruence. reflexivity.
  - (* set_type *) eapply on_obj_field; [exact H|]. intros -> n n' E; cbn beta in E. injection E as <-.
    rewrite Z.eqb_refl in W. cbn [andb] in W. unfold set_type.
    destruct (sc_notify_get_type (n_type n) =? _); [reflexivity|]. destruct f; try discriminate; reflexivity.
  - (* get_type *) eapply on_obj_field; [exact H|]. intros _ n n' E; cbn beta in E. injection E as <-. reflexivity.
  - (* set_eager *) eapply on_obj_field; [exact H|]. intros -> n n' E; cbn beta in E. injection E as <-.
    rewrite Z.eqb_refl in W. destruct f; try discriminate; reflexivity.
  - eapply on_obj_field; [exact H|]. intros _ n n' E; cbn beta in E. injection E as <-. reflexivity.
  - (* set_stats *) eapply on_obj_field; [exact H|]. intros -> n n' E; cbn beta in E. injection E as <-.
    rewrite Z.eqb_refl in W. destruct f; try discriminate; reflexivity.
  - eapply on_obj_field; [exact H|]. intros _ n n' E; cbn beta in E. injection E as <-. reflexivity.
  - eapply on_obj_field; [exact H|]. intros _ n n' E; cbn beta in E. injection E as <-. reflexivity.
  - (* set_widths *) eapply on_obj_field; [exact H|]. intros -> n n' E; cbn beta in E.
    destruct (n_data n) eqn:D; try discriminate. rewrite gen_set_widths in E. injection E as <-.
    rewrite Z.eqb_refl in W. destruct f; try discriminate; cbn [read_field n_data n_type n_eager n_stats n_comm]; try rewrite D; reflexivity.
  - (* get_widths *) eapply on_obj_field; [exact H|]. intros _ n n' E; cbn beta in E.
    destruct (n_data n); try discriminate. destruct (sc_notify_nary_get_widths _ _ _ _ _ _ _ _ _) as [[? ?] ?].
    injection E as <-. reflexivity.
  - (* set_nr *) eapply on_obj_field; [exact H|]. intros -> n n' E; cbn beta in E.
    destruct (n_data n) eqn:D; try discriminate. injection E as <-.
    rewrite Z.eqb_refl in W. destruct f; try discriminate; cbn [read_field n_data n_type n_eager n_stats n_comm]; try rewrite D; reflexivity.
  - eapply on_obj_field; [exact H|]. intros _ n n' E; cbn beta in E. destruct (n_data n); try discriminate. injection E as <-. reflexivity.
  - (* set_pk *) eapply on_obj_field; [exact H|]. intros -> n n' E; cbn beta in E.
    destruct (n_data n) eqn:D; try discriminate. injection E as <-.
    rewrite Z.eqb_refl in W. destruct f; try discriminate; cbn [read_field n_data n_type n_eager n_stats n_comm]; try rewrite D; reflexivity.
  - eapply on_obj_field; [exact H|]. intros _ n n' E; cbn beta in E. destruct (n_data n); try discriminate. injection E as <-. reflexivity.
  - (* set_cb *) eapply on_obj_field; [exact H|]. intros -> n n' E; cbn beta in E.
    destruct (n_data n) eqn:D; try discriminate. cbn in E. injection E as <-.
    rewrite Z.eqb_refl in W. destruct f; try discriminate; cbn [read_field n_data n_type n_eager n_stats n_comm]; try rewrite D; reflexivity.
  - eapply on_obj_field; [exact H|]. intros _ n n' E; cbn beta in E. destruct (n_data n); try discriminate. cbn in E. injection E as <-. reflexivity.
  - injection H as <- _. reflexivity.
  - injection H as <- _. reflexivity.
  - destruct ((0 <=? t) && (t <? c20_SC_SHMEM_NUM_TYPES)); [|discriminate]. destruct mpi; injection H as <- _; reflexivity.
  - destruct mpi; injection H as <- _; reflexivity.
  - destruct (sc_options_set_spacing a b). injection H as <- _. reflexivity.
  - destruct (sc_options_set_spacing (-1) (-1)). injection H as <- _. reflexivity.
  - (* use *) eapply on_obj_field; [exact H|]. intros _ n n' E; cbn beta in E. destruct (use_ok n); [|discriminate]. injection E as <-. reflexivity.
  - eapply on_obj_field; [exact H|]. intros _ n n' E; cbn beta in E. destruct (use_ok n); [|discriminate]. injection E as <-. reflexivity.
  - destruct mpi; [destruct (find comm (w_shmem w))|]; injection H as <- _; reflexivity.
  - destruct (sc_options_set_spacing a b). injection H as <- _. reflexivity.
Qed.

Definition no_writer (k : Z) (f : field) (ops : list op) : bool := forallb (fun o => negb (writes o k f)) ops.

Theorem history_keeps_field mpi junk k f : forall ops w w2 outs,
  run mpi junk w ops = Some (w2, outs) -> no_writer k f ops = true -> field_of w2 k f = field_of w k f.
Proof.
  induction ops as [|o r IH]; intros w w2 outs H N.
  - injection H as <- _. reflexivity.
  - cbn [run] in H. destruct (step mpi junk w o) as [[w1 out]|] eqn:S; [|discriminate].
    destruct (run mpi junk w1 r) as [[w3 outs']|] eqn:R; [|discriminate]. injection H as <- _.
    cbn [no_writer forallb] in N. apply andb_true_iff in N. destruct N as [N1 N2]. apply negb_true_iff in N1.
    rewrite (IH _ _ _ R N2). eapply step_keeps_field; eassumption.
Qed.

(* ---------------------------------------------------------------------------------------------- *)
(* 3. setter ... history without a writer of that field ... getter                                *)
(* ---------------------------------------------------------------------------------------------- *)
(* what a setter stores (set_type is treated by C20_type / C20_set_type_data: it stores the RESOLVED type) *)
Definition stores (o : op) : option (Z * field * list Z) :=
  match o with
  | OSetEager k v => Some (k, FEager, [v])
  | OSetStats k s => Some (k, FStats, [s])
  | OSetWidths k a b c => Some (k, FWidths, [a; b; c])
  | OSetNr k v => Some (k, FNr, [v])
  | OSetPk k v => Some (k, FPk, [v])
  | OSetCb k f x => Some (k, FCb, [f; x])
  | _ => None
  end.

(* what a getter prints, given the content of its field *)
Definition reads (o : op) : option (Z * field * (list Z -> list Z)) :=
  match o with
  | OGetType k => Some (k, FType, fun v => v)
  | OGetEager k => Some (k, FEager, fun v => v)
  | OGetStats k => Some (k, FStats, fun v => v)
  | OGetComm k => Some (k, FComm, fun v => v)
  | OGetWidths k m1 m2 m3 p1 p2 p3 =>
      Some (k, FWidths, fun v => match v with [a; b; c] => [sel m1 a p1; sel m2 b p2; sel m3 c p3] | _ => v end)
  | OGetNr k => Some (k, FNr, fun v => v)
  | OGetPk k => Some (k, FPk, fun v => v)
  | OGetCb k => Some (k, FCb, fun v => v)
  | _ => None
  end.

Theorem setter_stores mpi junk w s k f vals w1 o1 :
  stores s = Some (k, f, vals) -> step mpi junk w s = Some (w1, o1) -> o1 = [] /\ field_of w1 k f = Some vals.
Proof.
  intros S H. destruct s; cbn [stores] in S; try discriminate; injection S as <- <- <-; cbn [step] in H;
    apply on_obj_some in H; destruct H as (n & n' & Hf & Hn & ->);
    try (destruct (n_data n) eqn:D; try discriminate);
    try rewrite gen_set_widths in Hn; cbn in Hn; injection Hn as <- <-;
    (split; [reflexivity|]); unfold field_of, obj; cbn [w_objs with_objs]; rewrite find_update_same; reflexivity.
Qed.

Theorem getter_reads mpi junk w g k f view vals :
  reads g = Some (k, f, view) -> field_of w k f = Some vals ->
  exists w1, step mpi junk w g = Some (w1, view vals) /\ (forall j, obj w1 j = obj w j) /\ same_defaults w w1.
Proof.
  intros R F. unfold field_of in F. destruct (obj w k) as [n|] eqn:O; [|discriminate]. unfold obj in O.
  assert (FR : forall j, obj (with_objs w (update k n (w_objs w))) j = obj w j).
  { intros j. unfold obj; cbn [w_objs with_objs]. destruct (Z.eq_dec j k) as [->|N];
      [rewrite find_update_same; symmetry; exact O|apply find_update_other; exact N]. }
  destruct g; cbn [reads] in R; try discriminate; injection R as <- <- <-; cbn [read_field] in F; cbn [step];
    try (destruct (n_data n) eqn:D; try discriminate); injection F as <-;
    (eexists; split; [erewrite on_obj_run; [reflexivity|exact O|]|split; [apply FR|repeat split]]).
  all: try reflexivity.
  - rewrite D, gen_get_widths. reflexivity.
  - rewrite D. reflexivity.
  - rewrite D. reflexivity.
  - rewrite D. reflexivity.
Qed.

(* THE statement of part 2 over histories: after a setter, and after any history that contains no writer of
   that field of that controller (uses included), the getter prints exactly the stored values - each output
   argument its own field, a NULL output left alone *)
Theorem last_stored mpi junk w s k f vals w1 o1 mid w2 outs g view :
  stores s = Some (k, f, vals) -> step mpi junk w s = Some (w1, o1) ->
  run mpi junk w1 mid = Some (w2, outs) -> no_writer k f mid = true ->
  reads g = Some (k, f, view) ->
  exists w3, step mpi junk w2 g = Some (w3, view vals) /\ (forall j, obj w3 j = obj w2 j) /\ same_defaults w2 w3.
Proof.
  intros S H R N G. destruct (setter_stores _ _ _ _ _ _ _ _ _ S H) as [_ F1].
  rewrite <- (history_keeps_field _ _ _ _ _ _ _ _ R N) in F1.
  eapply getter_reads; eassumption.
Qed.

(* the type: the getter prints the type set_type resolved, after any history without a writer of the type *)
Theorem last_stored_type mpi junk w k t w1 o1 mid w2 outs :
  step mpi junk w (OSetType k t) = Some (w1, o1) ->
  run mpi junk w1 mid = Some (w2, outs) -> no_writer k FType mid = true ->
  exists w3, step mpi junk w2 (OGetType k) = Some (w3, [resolve w t]).
Proof.
  intros H R N. destruct (type_roundtrip _ _ _ _ _ _ _ H) as [_ [w' [G _]]].
  assert (F : field_of w1 k FType = Some [resolve w t]).
  { cbn [step] in G. apply on_obj_some in G. destruct G as (n & n' & Hf & Hn & _). injection Hn as _ E.
    unfold field_of, obj. rewrite Hf. cbn [read_field]. unfold sc_notify_get_type in E. rewrite E. reflexivity. }
  rewrite <- (history_keeps_field _ _ _ _ _ _ _ _ R N) in F.
  destruct (getter_reads mpi junk w2 (OGetType k) k FType (fun v => v) _ eq_refl F) as [w3 [G3 _]].
  exists w3. exact G3.
Qed.

(* ---------------------------------------------------------------------------------------------- *)
(* 4. the shared-array flavour over histories (MPI)                                               *)
(* ---------------------------------------------------------------------------------------------- *)
Definition no_shset (comm : Z) (ops : list op) : bool :=
  forallb (fun o => match o with OShSet c _ => negb (c =? comm) | _ => true end) ops.

Lemma step_keeps_shmem junk w o w1 out comm t :
  step true junk w o = Some (w1, out) -> (match o with OShSet c _ => negb (c =? comm) | _ => true end) = true ->
  find comm (w_shmem w) = Some t -> find comm (w_shmem w1) = Some t.
Proof.
  intros H N F.
  destruct o; cbn [step] in H;
    try (match type of H with context [supports_type ?t || ?b] => destruct (supports_type t || b); [|discriminate] end);
    try (match type of H with (if ?c then on_obj _ _ _ else None) = _ => destruct c; [|discriminate] end);
    try (apply on_obj_some in H; destruct H as (n & n' & _ & _ & ->); exact F).
  - destruct (find k (w_objs w)); [discriminate|]. destruct (supports_type (w_type_default w)); [|discriminate].
    injection H as <- _. exact F.
  - destruct (find k (w_objs w)); [|discriminate]. injection H as <- _. exact F.
  - injection H as <- _. exact F.
  - injection H as <- _. exact F.
  - destruct ((0 <=? t0) && (t0 <? c20_SC_SHMEM_NUM_TYPES)); [|discriminate]. injection H as <- _.
    apply negb_true_iff, Z.eqb_neq in N. cbn [w_shmem with_shmem]. rewrite find_update_other by congruence. exact F.
  - injection H as <- _. exact F.
  - destruct (sc_options_set_spacing a b). injection H as <- _. exact F.
  - destruct (sc_options_set_spacing (-1) (-1)). injection H as <- _. exact F.
  - destruct (shuse_identity true junk w comm0 v w1 out H) as (_ & _ & K & _). apply K. exact F.
  - destruct (sc_options_set_spacing a b). injection H as <- _. exact F.
Qed.

Theorem shmem_last_stored junk w comm t w1 o1 mid w2 outs :
  step true junk w (OShSet comm t) = Some (w1, o1) ->
  run true junk w1 mid = Some (w2, outs) -> no_shset comm mid = true ->
  step true junk w2 (OShGet comm) = Some (w2, [t]).
Proof.
  intros H R N. destruct (shmem_roundtrip_mpi _ _ _ _ _ _ H) as (_ & _ & G & _).
  assert (F : find comm (w_shmem w1) = Some t).
  { cbn [step] in G. destruct (find comm (w_shmem w1)) as [x|]; [injection G as ->; reflexivity|].
    injection G as E. exfalso. cbn [step] in H. destruct ((0 <=? t) && (t <? c20_SC_SHMEM_NUM_TYPES)) eqn:V; [|discriminate].
    apply andb_true_iff in V. destruct V as [_ V]. apply Z.ltb_lt in V. rewrite <- E in V. vm_compute in V. discriminate. }
  clear H G. revert w1 w2 outs R N F. induction mid as [|o r IH]; intros w1 w2 outs R N F.
  - injection R as <- _. cbn [step]. rewrite F. reflexivity.
  - cbn [run] in R. destruct (step true junk w1 o) as [[wa out]|] eqn:S; [|discriminate].
    destruct (run true junk wa r) as [[wb outs']|] eqn:R'; [|discriminate]. injection R as <- _.
    cbn [no_shset forallb] in N. apply andb_true_iff in N. destruct N as [N1 N2].
    eapply IH; [exact R'|exact N2|]. eapply step_keeps_shmem; eassumption.
Qed.
