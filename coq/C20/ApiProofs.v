(* C20 part 1 - the declared public API is defined: deciding the finite obligation. *)
From Coq Require Import String List Bool Arith PeanoNat.
Import ListNotations.

Definition smem (s : string) (l : list string) : bool := existsb (String.eqb s) l.

Lemma smem_In s l : smem s l = true <-> In s l.
Proof.
  unfold smem. rewrite existsb_exists. split.
  - intros [x [Hx E]]. apply String.eqb_eq in E. subst. exact Hx.
  - intros H. exists s. split; [exact H|apply String.eqb_refl].
Qed.

Lemma smem_not_In s l : smem s l = false <-> ~ In s l.
Proof.
  rewrite <- smem_In. destruct (smem s l); split; intros H.
  - discriminate.
  - exfalso; apply H; reflexivity.
  - intro X; discriminate.
  - reflexivity.
Qed.

(* one build configuration: (name, declared, defined, recorded as declared-but-undefined) *)
Definition cfg_t := (string * list string * list string * list string)%type.

Definition cfg_ok (c : cfg_t) : bool :=
  let '(_, decl, defd, known) := c in forallb (fun d => smem d defd || smem d known) decl.

(* every recorded name is really declared and really undefined (a repaired finding must be deleted) *)
Definition cfg_known_exact (c : cfg_t) : bool :=
  let '(_, decl, defd, known) := c in forallb (fun d => smem d decl && negb (smem d defd)) known.

Definition cfg_substantial (min : nat) (must : list string) (c : cfg_t) : bool :=
  let '(_, decl, defd, known) := c in Nat.leb min (length decl) && forallb (fun d => smem d decl) must.

Lemma cfgs_ok_sound (cs : list cfg_t) : forallb cfg_ok cs = true ->
  forall n decl defd known, In (n, decl, defd, known) cs ->
  forall d, In d decl -> ~ In d known -> In d defd.
Proof.
  intros H n decl defd known Hc d Hd Hk.
  rewrite forallb_forall in H. specialize (H _ Hc). cbn in H.
  rewrite forallb_forall in H. specialize (H _ Hd).
  apply orb_true_iff in H. destruct H as [H|H]; apply smem_In in H; [exact H|contradiction].
Qed.

Lemma cfgs_known_exact_sound (cs : list cfg_t) : forallb cfg_known_exact cs = true ->
  forall n decl defd known, In (n, decl, defd, known) cs ->
  forall d, In d known -> In d decl /\ ~ In d defd.
Proof.
  intros H n decl defd known Hc d Hd.
  rewrite forallb_forall in H. specialize (H _ Hc). cbn in H.
  rewrite forallb_forall in H. specialize (H _ Hd).
  apply andb_true_iff in H. destruct H as [H1 H2].
  split; [apply smem_In; exact H1|apply smem_not_In; apply negb_true_iff; exact H2].
Qed.

Lemma cfgs_substantial_sound min must (cs : list cfg_t) : forallb (cfg_substantial min must) cs = true ->
  forall n decl defd known, In (n, decl, defd, known) cs ->
  min <= length decl /\ forall d, In d must -> In d decl.
Proof.
  intros H n decl defd known Hc.
  rewrite forallb_forall in H. specialize (H _ Hc). cbn in H.
  apply andb_true_iff in H. destruct H as [H1 H2]. split; [apply Nat.leb_le; exact H1|].
  intros d Hd. rewrite forallb_forall in H2. apply smem_In. apply H2. exact Hd.
Qed.
