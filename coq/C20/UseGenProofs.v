(* C20 part 2 - the GENERATED slices of the places that write configuration fields outside the setters
   (Gen/UseC20.v: sc_notify_new, sc_notify_set_type, sc_notify_nary_init, sc_notify_ranges_init; a call is a
   ghost output "called, with these arguments") are EQUAL to what C20/AccessModel.v says about them, and the
   GENERATED census of every store into a configuration field is exactly the list below: the setters, the two
   initialisers, set_type and the constructor.  Nothing that runs a notification round, allocates a shared
   array or parses options stores into the configuration - the model's "a use is the identity" is a statement
   about this list. *)
From Coq Require Import ZArith List Bool Lia String.
From ScV Require Import Base.CInt Gen.AccessC20 Gen.UseC20 C20.AccessModel C20.AccessProofs.
Import ListNotations.
Local Open Scope Z_scope.
Local Open Scope bool_scope.

(* ---------------------------------------------------------------------------------------------- *)
(* 1. the census                                                                                  *)
(* ---------------------------------------------------------------------------------------------- *)
Definition expected_notify_writers : list (string * string) :=
  [("sc_notify_nary", "call:sc_notify_set_type");              (* the convenience wrapper: new, set_type, one round, destroy *)
   ("sc_notify_nary_init", "call:sc_notify_nary_set_widths");
   ("sc_notify_nary_init", "store:data.nary.mpicomm");
   ("sc_notify_nary_init", "store:data.nary.mpirank");
   ("sc_notify_nary_init", "store:data.nary.mpisize");
   ("sc_notify_nary_set_widths", "store:data.nary.nbot");
   ("sc_notify_nary_set_widths", "store:data.nary.nint");
   ("sc_notify_nary_set_widths", "store:data.nary.ntop");
   ("sc_notify_new", "call:sc_notify_set_type");
   ("sc_notify_new", "store:eager_threshold");
   ("sc_notify_new", "store:mpicomm");
   ("sc_notify_new", "store:type");
   ("sc_notify_ranges_init", "store:data.ranges.num_ranges");
   ("sc_notify_ranges_init", "store:data.ranges.package_id");
   ("sc_notify_ranges_set_num_ranges", "store:data.ranges.num_ranges");
   ("sc_notify_ranges_set_package_id", "store:data.ranges.package_id");
   ("sc_notify_set_eager_threshold", "store:eager_threshold");
   ("sc_notify_set_stats", "store:stats");
   ("sc_notify_set_type", "call:sc_notify_nary_init");
   ("sc_notify_set_type", "call:sc_notify_ranges_init");
   ("sc_notify_set_type", "store:type");
   ("sc_notify_superset_set_callback", "store:data.superset.compute_superset");
   ("sc_notify_superset_set_callback", "store:data.superset.ctx")]%string.

Definition expected_spacing_writers : list (string * string) :=
  [("sc_options_new", "call:sc_options_set_spacing");
   ("sc_options_set_spacing", "store:space_help");
   ("sc_options_set_spacing", "store:space_type")]%string.

Definition expected_shmem_writers : list (string * string) :=
  [("sc_shmem_get_type_default", "call:sc_shmem_set_type");    (* only for a communicator WITHOUT the attribute: OShUse *)
   ("sc_shmem_set_type", "call:MPI_Comm_set_attr")]%string.

Theorem gen_writers :
  c20_notify_writers = expected_notify_writers
  /\ c20_spacing_writers = expected_spacing_writers
  /\ c20_shmem_writers = expected_shmem_writers.
Proof. repeat split; vm_compute; reflexivity. Qed.

(* the functions of the model's operations that store into a controller: constructor, set_type (with the two
   initialisers it calls) and the setters; `sc_notify_nary` works on a controller of its own *)
Definition config_writer_functions : list string :=
  ["sc_notify_new"; "sc_notify_set_type"; "sc_notify_nary_init"; "sc_notify_ranges_init"; "sc_notify_set_eager_threshold";
   "sc_notify_set_stats"; "sc_notify_nary_set_widths"; "sc_notify_ranges_set_num_ranges"; "sc_notify_ranges_set_package_id";
   "sc_notify_superset_set_callback"; "sc_notify_nary"]%string.

Theorem gen_only_setters_write : forall fn what, In (fn, what) c20_notify_writers -> In fn config_writer_functions.
Proof.
  assert (H : forallb (fun p => existsb (String.eqb (fst p)) config_writer_functions) c20_notify_writers = true) by (vm_compute; reflexivity).
  intros fn what I. rewrite forallb_forall in H. specialize (H _ I). cbn [fst] in H.
  apply existsb_exists in H. destruct H as (x & Hx & E). apply String.eqb_eq in E. subst x. exact Hx.
Qed.

(* ---------------------------------------------------------------------------------------------- *)
(* 2. the initialisers and set_type                                                               *)
(* ---------------------------------------------------------------------------------------------- *)
Theorem gen_ranges_init w junk :
  (let '(nr, pk) := slice_sc_notify_ranges_init (w_nranges w) (w_pkgid w) in URanges nr pk) = init_data w junk c20_SC_NOTIFY_RANGES.
Proof. reflexivity. Qed.

(* sc_notify_nary_init stores communicator, size and rank (not configuration: the model has no such fields) and hands the
   three public defaults to the setter of the widths *)
Theorem gen_nary_init w junk comm r1 size r2 rank h :
  let '(f_comm, f_size, f_rank, a_size, a_rank, s_notify, s_top, s_int, s_bot) :=
      slice_sc_notify_nary_init comm r1 size r2 rank h (w_ntop w) (w_nint w) (w_nbot w) in
  f_comm = comm /\ f_size = size /\ f_rank = rank /\ a_size = comm /\ a_rank = comm /\ s_notify = h
  /\ (let '(t, i, bo) := sc_notify_nary_set_widths s_top s_int s_bot in UNary t i bo) = init_data w junk c20_SC_NOTIFY_NARY.
Proof. cbv zeta. unfold slice_sc_notify_nary_init. repeat split. Qed.

(* the data of the controller after sc_notify_set_type, assembled from the slice: the initialiser that was called decides *)
Definition data_after_set_type (w : world) (junk : Z * Z) (n : notify) (new_type ranges_called nary_called : Z) : udata :=
  if nary_called =? 1 then
    (let '(_, _, _, _, _, _, a, b, c) := slice_sc_notify_nary_init 0 0 0 0 0 0 (w_ntop w) (w_nint w) (w_nbot w) in
     let '(t, i, bo) := sc_notify_nary_set_widths a b c in UNary t i bo)
  else if ranges_called =? 1 then
    (let '(nr, pk) := slice_sc_notify_ranges_init (w_nranges w) (w_pkgid w) in URanges nr pk)
  else if n_type n =? new_type then n_data n
  else if new_type =? c20_SC_NOTIFY_SUPERSET then USuperset (fst junk) (snd junk)    (* the union is not initialised *)
  else UOther.

Theorem gen_set_type w junk n t h :
  supports_type (resolve w t) = true ->
  let '(ty, ret, rc, ra, nc, na) := slice_sc_notify_set_type (sc_notify_get_type (n_type n)) t (w_type_default w) h (n_type n) in
  set_type w junk n t = mkn (n_comm n) ty (n_eager n) (n_stats n) (data_after_set_type w junk n ty rc nc)
  /\ ret = 0 /\ (rc = 1 -> ra = h) /\ (nc = 1 -> na = h)
  /\ (rc = 1 \/ nc = 1 -> n_type n <> ty).
Proof.
  unfold supports_type, resolve, c20_SC_NOTIFY_NUM_TYPES. intros S. apply andb_true_iff in S. destruct S as [S1 S2].
  apply Z.leb_le in S1. apply Z.ltb_lt in S2.
  unfold slice_sc_notify_set_type, set_type, sc_notify_get_type, data_after_set_type, init_data,
    c20_SC_NOTIFY_DEFAULT, c20_SC_NOTIFY_NARY, c20_SC_NOTIFY_RANGES, c20_SC_NOTIFY_SUPERSET in *.
  set (t' := if t =? -1 then w_type_default w else t) in *.
  destruct (n_type n =? t') eqn:E; cbn [negb].
  - rewrite Z.eqb_refl. destruct n; cbn. repeat split; try discriminate; intros [X|X]; discriminate.
  - apply Z.eqb_neq in E.
    assert (C : t' = 0 \/ t' = 1 \/ t' = 2 \/ t' = 3 \/ t' = 4 \/ t' = 5 \/ t' = 6 \/ t' = 7 \/ t' = 8) by lia.
    destruct C as [C|[C|[C|[C|[C|[C|[C|[C|C]]]]]]]]; rewrite C in *; cbn;
      repeat (match goal with |- context [n_type n =? ?x] => let E2 := fresh "E2" in destruct (n_type n =? x) eqn:E2; [apply Z.eqb_eq in E2; congruence|] end);
      repeat split; try discriminate; try reflexivity; try (intros [X|X]; discriminate); try (intros _; exact E).
Qed.

(* sc_notify_new: zero-filled object, communicator, the placeholder type, the default threshold, then set_type (default) *)
Theorem gen_new w p comm :
  supports_type (w_type_default w) = true ->
  let '(ret, f_comm, f_type, f_eager, a_notify, a_type) := slice_sc_notify_new p comm (w_eager_default w) (w_type_default w) in
  ret = p /\ a_notify = p
  /\ notify_new w comm = set_type w (0, 0) (mkn f_comm f_type f_eager 0 UOther) a_type.
Proof. intros _. cbv zeta. unfold slice_sc_notify_new, notify_new. repeat split. Qed.
