(* C16 - what MPI specifies on a communicator with ONE rank, over typed elements.
   A datatype has a size (MPI_Type_size: bytes that carry data) and an extent (stride of consecutive
   elements); the data of an element occupy its first `size` bytes, the rest of the extent is padding whose
   content MPI leaves open.  LP64 (x86-64 System V): the sizes below are the ABI sizes. *)
From Coq Require Import ZArith List Bool.
From ScV Require Import Base.CInt Gen.MpiC16 C11.IoModel.
Import ListNotations.
Local Open Scope Z_scope.

(* handle -> (size, extent) *)
Definition dt_table : list (Z * (Z * Z)) :=
  [ (h_MPI_BYTE, (1, 1)); (h_MPI_CHAR, (1, 1)); (h_MPI_UNSIGNED_CHAR, (1, 1));
    (h_MPI_SHORT, (2, 2)); (h_MPI_UNSIGNED_SHORT, (2, 2));
    (h_MPI_INT, (4, 4)); (h_MPI_UNSIGNED, (4, 4));
    (h_MPI_LONG, (8, 8)); (h_MPI_UNSIGNED_LONG, (8, 8)); (h_MPI_LONG_LONG_INT, (8, 8));
    (h_MPI_FLOAT, (4, 4)); (h_MPI_DOUBLE, (8, 8)); (h_MPI_LONG_DOUBLE, (16, 16));
    (h_MPI_2INT, (8, 8)); (h_MPI_DOUBLE_INT, (12, 16)) ].

Fixpoint lookup (t : Z) (l : list (Z * (Z * Z))) : option (Z * Z) :=
  match l with [] => None | (k, v) :: r => if k =? t then Some v else lookup t r end.

Definition valid_dt (t : Z) : Prop := exists v, lookup t dt_table = Some v.
Definition type_size (t : Z) : Z := match lookup t dt_table with Some (s, _) => s | None => 0 end.
Definition extent (t : Z) : Z := match lookup t dt_table with Some (_, e) => e | None => 0 end.

Definition nth_z (p : Z) (l : list Z) : Z := nth (Z.to_nat p) l 0.

(* gather / gatherv / allgather(v) / alltoall / reduce / allreduce / reduce_scatter_block / scan with one
   rank: element i of the contribution arrives as element displ + i of the receive buffer; nothing outside
   the addressed elements changes (displ = 0 except for the v-variants).  For a reduction with one operand
   the result is the operand, whatever the operation. *)
Definition coll_ok (t count displ : Z) (send recv recv' : list Z) : Prop :=
  len recv' = len recv /\
  (forall i o, 0 <= i < count -> 0 <= o < type_size t ->
     nth_z ((displ + i) * extent t + o) recv' = nth_z (i * extent t + o) send) /\
  (forall p, 0 <= p < len recv -> (p < displ * extent t \/ (displ + count) * extent t <= p) ->
     nth_z p recv' = nth_z p recv).

(* MPI_Pack: the data bytes of `count` elements (stride extent) are laid out contiguously at *position,
   which advances by count * size *)
Definition pack_ok (t count : Z) (inbuf outbuf : list Z) (pos : Z) (outbuf' : list Z) (pos' : Z) : Prop :=
  pos' = pos + count * type_size t /\ len outbuf' = len outbuf /\
  (forall i o, 0 <= i < count -> 0 <= o < type_size t ->
     nth_z (pos + i * type_size t + o) outbuf' = nth_z (i * extent t + o) inbuf) /\
  (forall p, 0 <= p < len outbuf -> (p < pos \/ pos' <= p) -> nth_z p outbuf' = nth_z p outbuf).

(* MPI_Unpack: the inverse; nothing outside the `count` elements of the output changes *)
Definition unpack_ok (t count : Z) (inbuf : list Z) (pos : Z) (outbuf outbuf' : list Z) (pos' : Z) : Prop :=
  pos' = pos + count * type_size t /\ len outbuf' = len outbuf /\
  (forall i o, 0 <= i < count -> 0 <= o < type_size t ->
     nth_z (i * extent t + o) outbuf' = nth_z (pos + i * type_size t + o) inbuf) /\
  (forall p, 0 <= p < len outbuf -> count * extent t <= p -> nth_z p outbuf' = nth_z p outbuf).

(* the cases in which a contiguous copy of count * size bytes is what MPI asks for: no padding in the
   element, or at most one element at displacement 0 *)
Definition contiguous_ok (t count displ : Z) : Prop := extent t = type_size t \/ (count <= 1 /\ displ = 0).
