(* C16 - executable model of the serial MPI emulation of /repo/src/sc_mpi.c (configuration without MPI).
   Definitions only.  Datatypes are the numbers of the serial handles; their sizes come from
   Gen.MpiC16.sc_mpi_sizeof, which the translator regenerates from sc_mpi.c on every run (tie T1).
   Buffers are byte lists; every memcpy is a checked copy (None = the copy would leave a buffer), so
   that "no overrun" is a theorem.  Output arguments are options: None = the stub does not store. *)
From Coq Require Import ZArith List Bool String Ascii.
From ScV Require Import Base.CInt Gen.MpiC16 C11.IoModel.
Import ListNotations.
Local Open Scope string_scope.
Local Open Scope Z_scope.

Definition SUCCESS : Z := h_MPI_SUCCESS.
Definition ERR_NO_SPACE : Z := h_MPI_ERR_NO_SPACE.
Definition ERR_ARG : Z := h_MPI_ERR_ARG.
Definition ERR_UNKNOWN : Z := h_MPI_ERR_UNKNOWN.
Definition REQUEST_NULL : Z := h_MPI_REQUEST_NULL.
Definition COMM_NULL : Z := h_MPI_COMM_NULL.
Definition GROUP_NULL : Z := h_MPI_GROUP_NULL.

(* memcpy (dst + off, src + from, n) *)
Definition memcpy_at (dst : list Z) (off : Z) (src : list Z) (from n : Z) : option (list Z) :=
  if (0 <=? n) && (0 <=? from) && (from + n <=? len src) then put off (take n (drop from src)) dst else None.

(* ---- collectives (sc_mpi.c:243-376): return code and the receive buffer ----
   Every copy is described by (offset into the destination, offset into the source, byte count); MpiGen.v proves that
   these are the arguments of the memcpy in the GENERATED body of the stub, for all addresses of the two buffers. *)
(* `(size_t) n * sc_mpi_sizeof (t)`, also used with n = displ[0] for the target offset of Gatherv *)
Definition copy_len (n t : Z) : Z := u64 (u64 n * sc_mpi_sizeof t).

Definition gather_copy (np tp : Z) : Z * Z * Z := (0, 0, copy_len np tp).
Definition gatherv_copy (np tp displ0 tq : Z) : Z * Z * Z := (copy_len displ0 tq, 0, copy_len np tp).

Definition sc_gather (p : list Z) (np tp : Z) (q : list Z) (nq tq : Z) : Z * option (list Z) :=
  let '(d, s, n) := gather_copy np tp in (SUCCESS, memcpy_at q d p s n).

Definition sc_gatherv (p : list Z) (np tp : Z) (q : list Z) (recvc0 displ0 tq : Z) : Z * option (list Z) :=
  let '(d, s, n) := gatherv_copy np tp displ0 tq in (SUCCESS, memcpy_at q d p s n).

Definition sc_allgather := sc_gather.
Definition sc_allgatherv := sc_gatherv.
Definition sc_alltoall := sc_gather.

Definition sc_reduce (p q : list Z) (n t op : Z) : Z * option (list Z) :=
  let '(d, s, l) := gather_copy n t in (SUCCESS, memcpy_at q d p s l).
Definition sc_reduce_scatter_block := sc_reduce.
Definition sc_allreduce := sc_reduce.
Definition sc_scan := sc_reduce.
Definition sc_exscan (p q : list Z) (n t op : Z) : Z * option (list Z) := (SUCCESS, Some q).
Definition sc_bcast (p : list Z) (n t : Z) : Z * option (list Z) := (SUCCESS, Some p).
Definition sc_barrier : Z := SUCCESS.

(* ---- sizes, pack, unpack (sc_mpi.c:95-101, 453-518): `int` arithmetic as in the code (wrapping) ---- *)
Definition sc_type_size (t : Z) : Z * option Z := (SUCCESS, Some (s32 (sc_mpi_sizeof t))).
(* *size after sc_MPI_Pack_size: `*size = sc_mpi_sizeof (t); *size *= incount;` *)
Definition pack_bytes (incount t : Z) : Z := s32 (s32 (sc_mpi_sizeof t) * incount).
(* sc_MPI_Pack_size (repair of F-C16d): Type_size stores the size of one element; if `incount > 0 && *size > INT_MAX / incount`
   (the number of bytes is not representable in an int) ERR_NO_SPACE is returned and *size stays the element size; otherwise the
   product is stored *)
Definition pack_size_refuses (incount tsize : Z) : bool := (0 <? incount) && (s32 (cdiv 2147483647 incount) <? tsize).
Definition pack_size_code (incount t : Z) : Z :=
  if pack_size_refuses incount (s32 (sc_mpi_sizeof t)) then ERR_NO_SPACE else SUCCESS.
Definition pack_size_value (incount t : Z) : Z :=
  if pack_size_refuses incount (s32 (sc_mpi_sizeof t)) then s32 (sc_mpi_sizeof t) else pack_bytes incount t.
Definition sc_pack_size (incount t : Z) : Z * option Z := (pack_size_code incount t, Some (pack_size_value incount t)).

(* the space test `size > limit - *position` in int arithmetic (repair of F-C16c; for 0 <= position and 0 <= limit the
   difference cannot overflow; position > limit gives a negative difference: refused for every size >= 0) *)
Definition pack_refuses (position size limit : Z) : bool := s32 (limit - position) <? size.
(* the test before the repair, `*position + size > limit`: kept as a regression guard (C16_pack_overflow_old_refuted) *)
Definition pack_refuses_old (position size limit : Z) : bool := limit <? s32 (position + size).
(* the memcpy of Pack / Unpack: (offset into the destination, offset into the source, (size_t) size) *)
Definition pack_copy (position size : Z) : Z * Z * Z := (position, 0, u64 size).
Definition unpack_copy (position size : Z) : Z * Z * Z := (0, position, u64 size).
Definition pack_advance (position size : Z) : Z := s32 (position + size).

(* result: code, output buffer, *position *)
(* Pack / Unpack return the code of Pack_size if it is not SUCCESS (nothing changes) *)
Definition sc_pack (inbuf : list Z) (incount t : Z) (outbuf : list Z) (outsize position : Z) : Z * option (list Z) * Z :=
  let rc := pack_size_code incount t in
  let size := pack_size_value incount t in
  if negb (rc =? SUCCESS) then (rc, Some outbuf, position)
  else if pack_refuses position size outsize then (ERR_NO_SPACE, Some outbuf, position)
  else let '(d, s, n) := pack_copy position size in (SUCCESS, memcpy_at outbuf d inbuf s n, pack_advance position size).

(* sc_MPI_Pack before the repair of F-C16d (the product of Pack_size unchecked, the repaired space test): regression guard *)
Definition sc_pack_nocheck (inbuf : list Z) (incount t : Z) (outbuf : list Z) (outsize position : Z) : Z * option (list Z) * Z :=
  let size := pack_bytes incount t in
  if pack_refuses position size outsize then (ERR_NO_SPACE, Some outbuf, position)
  else let '(d, s, n) := pack_copy position size in (SUCCESS, memcpy_at outbuf d inbuf s n, pack_advance position size).

(* sc_MPI_Pack as it was before the repair of F-C16c (old space test, unchecked product) *)
Definition sc_pack_old (inbuf : list Z) (incount t : Z) (outbuf : list Z) (outsize position : Z) : Z * option (list Z) * Z :=
  let size := pack_bytes incount t in
  if pack_refuses_old position size outsize then (ERR_NO_SPACE, Some outbuf, position)
  else let '(d, s, n) := pack_copy position size in (SUCCESS, memcpy_at outbuf d inbuf s n, pack_advance position size).

Definition sc_unpack (inbuf : list Z) (insize position : Z) (outbuf : list Z) (outcount t : Z) : Z * option (list Z) * Z :=
  let rc := pack_size_code outcount t in
  let size := pack_size_value outcount t in
  if negb (rc =? SUCCESS) then (rc, Some outbuf, position)
  else if pack_refuses position size insize then (ERR_NO_SPACE, Some outbuf, position)
  else let '(d, s, n) := unpack_copy position size in (SUCCESS, memcpy_at outbuf d inbuf s n, pack_advance position size).

(* code, new position and whether an accepted copy leaves a buffer of `limit` bytes, without the buffers (for buffers
   too large to be lists: positions near INT_MAX); MpiProofs.pack_codes_spec ties them to sc_pack / sc_unpack *)
Definition sc_pack_codes (count t limit position : Z) : Z * Z * bool :=
  let rc := pack_size_code count t in
  let size := pack_size_value count t in
  if negb (rc =? SUCCESS) then (rc, position, false)
  else if pack_refuses position size limit then (ERR_NO_SPACE, position, false)
  else (SUCCESS, pack_advance position size, negb ((0 <=? position) && (position + u64 size <=? limit))).

(* ---- communicators and groups (sc_mpi.c:61-157) ---- *)
Definition sc_comm_size (comm : Z) : Z * option Z := (SUCCESS, Some 1).
Definition sc_comm_rank (comm : Z) : Z * option Z := (SUCCESS, Some 0).
Definition sc_comm_dup (comm : Z) : Z * option Z := (SUCCESS, Some comm).
Definition sc_comm_split (comm color key : Z) : Z * option Z := (SUCCESS, Some comm).
Definition sc_comm_free (comm : Z) : Z * option Z := (SUCCESS, Some COMM_NULL).
Definition sc_comm_group (comm : Z) : Z * option Z := (SUCCESS, Some GROUP_NULL).
Definition sc_group_size (g : Z) : Z * option Z := (SUCCESS, Some 1).
Definition sc_group_rank (g : Z) : Z * option Z := (SUCCESS, Some 0).
Definition sc_group_free (g : Z) : Z * option Z := (SUCCESS, Some GROUP_NULL).
Definition sc_init_thread : Z * option Z := (SUCCESS, Some h_MPI_THREAD_SINGLE).

(* ---- completion calls on request arrays (sc_mpi.c:433-439, 537-594); None = SC_CHECK_ABORT fires ---- *)
Definition all_null (reqs : list Z) : bool := forallb (fun r => r =? REQUEST_NULL) reqs.
Definition sc_wait (req : Z) : option Z := if req =? REQUEST_NULL then Some SUCCESS else None.
Definition sc_waitall (reqs : list Z) : option Z := if all_null reqs then Some SUCCESS else None.
(* code and *flag *)
Definition sc_testall (reqs : list Z) : option (Z * option Z) := if all_null reqs then Some (SUCCESS, Some 1) else None.
(* code and *outcount *)
Definition sc_waitsome (reqs : list Z) : option (Z * option Z) := if all_null reqs then Some (SUCCESS, Some 0) else None.

(* ---- sc_MPI_Error_class without MPI (sc_mpi.c:596-641): code and *errorclass ---- *)
Definition known_codes : list Z :=
  [h_MPI_SUCCESS; h_MPI_ERR_ARG; h_MPI_ERR_UNKNOWN; h_MPI_ERR_OTHER; h_MPI_ERR_NO_MEM; h_MPI_ERR_FILE; h_MPI_ERR_NOT_SAME;
   h_MPI_ERR_AMODE; h_MPI_ERR_UNSUPPORTED_DATAREP; h_MPI_ERR_UNSUPPORTED_OPERATION; h_MPI_ERR_NO_SUCH_FILE;
   h_MPI_ERR_FILE_EXISTS; h_MPI_ERR_BAD_FILE; h_MPI_ERR_ACCESS; h_MPI_ERR_NO_SPACE; h_MPI_ERR_QUOTA; h_MPI_ERR_READ_ONLY;
   h_MPI_ERR_FILE_IN_USE; h_MPI_ERR_DUP_DATAREP; h_MPI_ERR_CONVERSION; h_MPI_ERR_IO].
Definition sc_error_class (code : Z) : Z * option Z :=
  if existsb (fun c => c =? code) known_codes then (SUCCESS, Some code) else (ERR_UNKNOWN, Some ERR_UNKNOWN).

(* ---- sc_MPI_Error_string without MPI (sc_mpi.c:643-746): code, the text placed in `string`, *resultlen ---- *)
Definition bytes (s : string) : list Z := map (fun c => Z.of_nat (nat_of_ascii c)) (list_ascii_of_string s).
(* evaluated: a list of numbers (extraction must not meet Coq's `string`, which would shadow OCaml's) *)
Definition error_messages : list (Z * list Z) := Eval vm_compute in
  [(h_MPI_SUCCESS, bytes "Success"); (h_MPI_ERR_ARG, bytes "Error in function argument"); (h_MPI_ERR_UNKNOWN, bytes "Unknown MPI error");
   (h_MPI_ERR_OTHER, bytes "Other MPI error"); (h_MPI_ERR_NO_MEM, bytes "Out of memory"); (h_MPI_ERR_FILE, bytes "Invalid file object");
   (h_MPI_ERR_NOT_SAME, bytes "Arguments do not match in parallel"); (h_MPI_ERR_AMODE, bytes "Invalid access mode");
   (h_MPI_ERR_UNSUPPORTED_DATAREP, bytes "Unsupported data representation"); (h_MPI_ERR_UNSUPPORTED_OPERATION, bytes "Unsupported operation");
   (h_MPI_ERR_NO_SUCH_FILE, bytes "No such file"); (h_MPI_ERR_FILE_EXISTS, bytes "File exists"); (h_MPI_ERR_BAD_FILE, bytes "Bad file name or path");
   (h_MPI_ERR_ACCESS, bytes "Permission denied"); (h_MPI_ERR_NO_SPACE, bytes "Out of disk space"); (h_MPI_ERR_QUOTA, bytes "Out of quota");
   (h_MPI_ERR_READ_ONLY, bytes "File is read-only"); (h_MPI_ERR_FILE_IN_USE, bytes "File is in use");
   (h_MPI_ERR_DUP_DATAREP, bytes "Duplicate data representation"); (h_MPI_ERR_CONVERSION, bytes "File conversion error");
   (h_MPI_ERR_IO, bytes "I/O or format error")].
Fixpoint message_of (code : Z) (l : list (Z * list Z)) : option (list Z) :=
  match l with [] => None | (k, m) :: r => if k =? code then Some m else message_of code r end.
Definition MAX_ERROR_STRING : Z := h_MPI_MAX_ERROR_STRING.
(* snprintf (string, MAX, "%s", text) stores at most MAX - 1 characters and returns the length of text *)
Definition sc_error_string (code : Z) : Z * option (list Z) * option Z :=
  match message_of code error_messages with
  | Some m => (SUCCESS, Some (take (MAX_ERROR_STRING - 1) m), Some (if MAX_ERROR_STRING <=? len m then MAX_ERROR_STRING - 1 else len m))
  | None => (ERR_UNKNOWN, None, None)
  end.
