(* C16 - F-C16b in exact form: for sc_MPI_DOUBLE_INT (12 data bytes, extent 16) the serial Gatherv (hence Gather,
   Allgather(v), Alltoall with displacement 0) agrees with MPI on one rank for ALL buffer contents
   if and only if count = 0, or count = 1 and displacement = 0. *)
From Coq Require Import ZArith List Bool Lia.
From ScV Require Import Base.CInt Gen.MpiC16 C11.IoModel C11.IoLists C16.MpiModel C16.MpiSpec1 C16.MpiProofs.
Import ListNotations.
Local Open Scope Z_scope.

Lemma nth_z_repeat x k p : 0 <= p < k -> nth_z p (repeat x (Z.to_nat k)) = x.
Proof.
  intros H. unfold nth_z. rewrite (nth_indep _ 0 x) by (rewrite repeat_length; lia). apply nth_repeat.
Qed.

Lemma di_facts : valid_dt h_MPI_DOUBLE_INT /\ type_size h_MPI_DOUBLE_INT = 12 /\ extent h_MPI_DOUBLE_INT = 16.
Proof. split; [eexists; vm_compute; reflexivity|]. split; vm_compute; reflexivity. Qed.

Definition di_agrees (n displ : Z) : Prop :=
  forall send recv, n * 16 <= len send -> (displ + n) * 16 <= len recv ->
  exists r', sc_gatherv send n h_MPI_DOUBLE_INT recv n displ h_MPI_DOUBLE_INT = (SUCCESS, Some r') /\
             coll_ok h_MPI_DOUBLE_INT n displ send recv r'.

Theorem double_int_exact n displ : 0 <= n < 2 ^ 31 -> 0 <= displ < 2 ^ 31 ->
  (di_agrees n displ <-> n = 0 \/ (n = 1 /\ displ = 0)).
Proof.
  intros Hn Hd. destruct di_facts as (Hv & Hs & He). split.
  - intros H. destruct (Z.eq_dec n 0) as [|Hn0]; [left; assumption|].
    destruct (Z_le_gt_dec (displ + n) 1) as [Hle|Hgt]; [right; lia|]. exfalso.
    change (2 ^ 31) with 2147483648 in *.
    set (send := repeat 1 (Z.to_nat (n * 16))). set (recv := repeat 0 (Z.to_nat ((displ + n) * 16))).
    assert (Hls : len send = n * 16) by (unfold send; rewrite len_repeat; lia).
    assert (Hlr : len recv = (displ + n) * 16) by (unfold recv; rewrite len_repeat; lia).
    destruct (H send recv ltac:(lia) ltac:(lia)) as (r' & Hm & Hok).
    unfold sc_gatherv, gatherv_copy in Hm.
    rewrite (copy_len_small n _ Hv ltac:(change (2 ^ 31) with 2147483648; lia)) in Hm.
    rewrite (copy_len_small displ _ Hv ltac:(change (2 ^ 31) with 2147483648; lia)) in Hm. rewrite Hs in Hm.
    destruct (memcpy_at_spec recv (displ * 12) send 0 (n * 12) ltac:(lia) ltac:(lia) ltac:(lia) ltac:(lia) ltac:(lia))
      as (r2 & Hm2 & _ & _ & Hout).
    rewrite Hm2 in Hm. injection Hm as <-.
    destruct Hok as (_ & Hdata & _). rewrite He, Hs in Hdata.
    specialize (Hdata (n - 1) 11 ltac:(lia) ltac:(lia)).
    specialize (Hout ((displ + (n - 1)) * 16 + 11) ltac:(lia) ltac:(right; lia)).
    rewrite Hout in Hdata. unfold recv, send in Hdata.
    rewrite nth_z_repeat in Hdata by lia. rewrite nth_z_repeat in Hdata by lia. discriminate.
  - intros [->|[-> ->]] send recv Hsend Hrecv.
    + unfold sc_gatherv, gatherv_copy.
      rewrite (copy_len_small 0 _ Hv ltac:(change (2 ^ 31) with 2147483648; lia)).
      rewrite (copy_len_small displ _ Hv Hd). rewrite Hs.
      pose proof (len_nonneg send).
      destruct (memcpy_at_spec recv (displ * 12) send 0 (0 * 12) ltac:(lia) ltac:(lia) ltac:(lia) ltac:(lia) ltac:(lia))
        as (r2 & Hm2 & Hlen & _ & Hout).
      exists r2. split; [rewrite Hm2; reflexivity|]. unfold coll_ok. split; [assumption|]. split; [intros; lia|].
      intros p Hp _. apply Hout; lia.
    + apply (gatherv_spec send recv 1 h_MPI_DOUBLE_INT 0 Hv Hn Hd); [right; lia|rewrite He; lia|rewrite He; lia].
Qed.

(* non-vacuity: the two sides are inhabited *)
Example di_agrees_one : di_agrees 1 0.
Proof. apply double_int_exact; [change (2 ^ 31) with 2147483648; lia ..|right; split; reflexivity]. Qed.
Example di_disagrees_one_displ : ~ di_agrees 1 1.
Proof. intros H. apply double_int_exact in H; [lia|change (2 ^ 31) with 2147483648; lia ..]. Qed.
