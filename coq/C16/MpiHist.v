(* C16 - histories: several Pack calls on one buffer followed by the matching Unpack calls, boundaries of the
   position, reuse of the output of one collective as the input of the next.  All statements are about the model
   MpiModel.v (whose Pack / Unpack bodies are tied to the generated code by MpiGen.v). *)
From Coq Require Import ZArith List Bool Lia.
From ScV Require Import Base.CInt Gen.MpiC16 C11.IoModel C11.IoLists C16.MpiModel C16.MpiSpec1 C16.MpiProofs.
Import ListNotations.
Local Open Scope Z_scope.

(* an item: datatype, count, the count * size bytes the emulation reads (contiguous) *)
Definition item := (Z * Z * list Z)%type.
Definition it_data (it : item) : list Z := snd it.
(* the count is an `int`; the byte count n * size need NOT be representable: such an item is refused (F-C16d repaired) *)
Definition item_ok (it : item) : Prop := let '(t, n, d) := it in valid_dt t /\ 0 <= n < 2 ^ 31 /\ len d = n * type_size t.
Definition total (items : list item) : Z := fold_right (fun it a => len (it_data it) + a) 0 items.

(* ---- one call, as list surgery ---- *)
Lemma pack_step t n d buf pos : valid_dt t -> 0 <= n < 2 ^ 31 -> len d = n * type_size t -> 0 <= pos < 2 ^ 31 ->
  len buf < 2 ^ 31 ->
  sc_pack d n t buf (len buf) pos =
  if pos + len d <=? len buf then (SUCCESS, Some (take pos buf ++ d ++ drop (pos + len d) buf), pos + len d)
  else (ERR_NO_SPACE, Some buf, pos).
Proof.
  intros Hv Hn Hd Hp Hb. pose proof (dt_bounds t Hv) as (Hb1 & Hb2). pose proof (len_nonneg d) as Hd0.
  pose proof (len_nonneg buf) as Hbuf0.
  unfold sc_pack, pack_copy. cbv zeta. destruct (pack_size_exact n t Hv Hn) as (Hrep & Hnot).
  destruct (Z_lt_ge_dec (n * type_size t) (2 ^ 31)) as [Hds|Hbig].
  2: { destruct (Hnot ltac:(lia)) as (-> & ->). change (negb (ERR_NO_SPACE =? SUCCESS)) with true. cbv iota.
       replace (pos + len d <=? len buf) with false by (symmetry; apply Z.leb_gt; lia). reflexivity. }
  destruct (Hrep Hds) as (-> & ->). change (negb (SUCCESS =? SUCCESS)) with false. cbv iota. rewrite <- Hd.
  destruct (pack_arith pos (len d) (len buf) Hp ltac:(lia) ltac:(lia)) as (-> & -> & Hadv).
  rewrite Z.gtb_ltb. destruct (pos + len d <=? len buf) eqn:E.
  - apply Z.leb_le in E. rewrite (Hadv E). replace (len buf <? pos + len d) with false by (symmetry; apply Z.ltb_ge; lia).
    unfold memcpy_at. replace ((0 <=? len d) && (0 <=? 0) && (0 + len d <=? len d))%bool with true
      by (symmetry; rewrite !andb_true_iff; repeat split; apply Z.leb_le; lia).
    unfold drop at 1. cbn [Z.to_nat skipn]. rewrite take_all by lia.
    unfold put. replace ((0 <=? pos) && (pos + len d <=? len buf))%bool with true
      by (symmetry; rewrite andb_true_iff; split; apply Z.leb_le; lia). reflexivity.
  - apply Z.leb_gt in E. replace (len buf <? pos + len d) with true by (symmetry; apply Z.ltb_lt; lia). reflexivity.
Qed.

Lemma unpack_step t n o buf pos : valid_dt t -> 0 <= n < 2 ^ 31 -> n * type_size t <= len o ->
  0 <= pos < 2 ^ 31 -> len buf < 2 ^ 31 ->
  sc_unpack buf (len buf) pos o n t =
  if pos + n * type_size t <=? len buf
  then (SUCCESS, Some (take (n * type_size t) (drop pos buf) ++ drop (n * type_size t) o), pos + n * type_size t)
  else (ERR_NO_SPACE, Some o, pos).
Proof.
  intros Hv Hn Ho Hp Hb. pose proof (dt_bounds t Hv) as (Hb1 & Hb2). pose proof (len_nonneg buf) as Hbuf0.
  unfold sc_unpack, unpack_copy. cbv zeta. destruct (pack_size_exact n t Hv Hn) as (Hrep & Hnot).
  destruct (Z_lt_ge_dec (n * type_size t) (2 ^ 31)) as [Hks|Hbig].
  2: { destruct (Hnot ltac:(lia)) as (-> & ->). change (negb (ERR_NO_SPACE =? SUCCESS)) with true. cbv iota.
       replace (pos + n * type_size t <=? len buf) with false by (symmetry; apply Z.leb_gt; lia). reflexivity. }
  destruct (Hrep Hks) as (-> & ->). change (negb (SUCCESS =? SUCCESS)) with false. cbv iota.
  set (k := n * type_size t) in *. assert (Hk : 0 <= k) by (unfold k; nia).
  destruct (pack_arith pos k (len buf) Hp ltac:(lia) ltac:(lia)) as (-> & -> & Hadv).
  rewrite Z.gtb_ltb. destruct (pos + k <=? len buf) eqn:E.
  - apply Z.leb_le in E. rewrite (Hadv E). replace (len buf <? pos + k) with false by (symmetry; apply Z.ltb_ge; lia).
    unfold memcpy_at. replace ((0 <=? k) && (0 <=? pos) && (pos + k <=? len buf))%bool with true
      by (symmetry; rewrite !andb_true_iff; repeat split; apply Z.leb_le; lia).
    assert (Hl : len (take k (drop pos buf)) = k) by (rewrite len_take, len_drop; lia).
    unfold put. rewrite Hl. replace ((0 <=? 0) && (0 + k <=? len o))%bool with true
      by (symmetry; rewrite andb_true_iff; split; apply Z.leb_le; lia).
    rewrite (take_nonpos 0 o) by lia. reflexivity.
  - apply Z.leb_gt in E. replace (len buf <? pos + k) with true by (symmetry; apply Z.ltb_lt; lia). reflexivity.
Qed.

(* ---- sequences of calls on the same buffer; the position output of one call is the position input of the next ---- *)
(* buffer, position and the list of positions after each call; None as soon as a call does not return SUCCESS *)
Fixpoint pack_seq (items : list item) (buf : list Z) (pos : Z) : option (list Z * Z * list Z) :=
  match items with
  | [] => Some (buf, pos, [])
  | (t, n, d) :: r =>
    match sc_pack d n t buf (len buf) pos with
    | (rc, Some b, p) => if rc =? SUCCESS then
                           match pack_seq r b p with Some (b', p', ps) => Some (b', p', p :: ps) | None => None end
                         else None
    | _ => None
    end
  end.

(* shape: datatype, count, the output buffer of the call; the output buffers after the calls, the final position,
   the positions after each call *)
Fixpoint unpack_seq (shape : list item) (buf : list Z) (pos : Z) : option (list (list Z) * Z * list Z) :=
  match shape with
  | [] => Some ([], pos, [])
  | (t, n, o) :: r =>
    match sc_unpack buf (len buf) pos o n t with
    | (rc, Some o', p) => if rc =? SUCCESS then
                            match unpack_seq r buf p with Some (os, p', ps) => Some (o' :: os, p', p :: ps) | None => None end
                          else None
    | _ => None
    end
  end.

Lemma success_refl : (SUCCESS =? SUCCESS) = true.  Proof. reflexivity. Qed.
Lemma nospace_neq : (ERR_NO_SPACE =? SUCCESS) = false.  Proof. reflexivity. Qed.

Fixpoint positions (pos : Z) (items : list item) : list Z :=
  match items with [] => [] | it :: r => (pos + len (it_data it)) :: positions (pos + len (it_data it)) r end.

Lemma total_nonneg items : 0 <= total items.
Proof. induction items as [|it r IH]; cbn [total fold_right]; [lia|]. pose proof (len_nonneg (it_data it)). fold (total r). lia. Qed.

(* packing succeeds iff everything fits; then exactly the bytes [pos, pos + total) change: they are the
   concatenated data; the final position is pos + total and the position after each call is the running sum *)
Lemma pack_seq_spec : forall items buf pos, Forall item_ok items -> 0 <= pos <= len buf -> len buf < 2 ^ 31 ->
  match pack_seq items buf pos with
  | Some (buf', posN, ps) =>
      pos + total items <= len buf /\ posN = pos + total items /\ ps = positions pos items /\
      buf' = take pos buf ++ concat (map it_data items) ++ drop (pos + total items) buf
  | None => len buf < pos + total items
  end.
Proof.
  induction items as [|[[t n] d] r IH]; intros buf pos Hok Hp Hb.
  - cbn [pack_seq total fold_right map concat app positions]. rewrite Z.add_0_r.
    split; [lia|]. split; [reflexivity|]. split; [reflexivity|]. symmetry. apply take_drop_id.
  - inversion Hok as [|x l Hit Hr]; subst. destruct Hit as (Hv & Hn & Hd).
    cbn [total fold_right it_data snd] in *. fold (total r) in *.
    pose proof (total_nonneg r) as Ht. pose proof (len_nonneg d) as Hd0.
    cbn [pack_seq]. rewrite (pack_step t n d buf pos Hv Hn Hd ltac:(lia) Hb).
    destruct (pos + len d <=? len buf) eqn:E.
    + apply Z.leb_le in E. rewrite success_refl.
      set (b1 := take pos buf ++ d ++ drop (pos + len d) buf).
      assert (Hl1 : len b1 = len buf).
      { unfold b1. rewrite !len_app, len_take_le, len_drop_le by lia. lia. }
      specialize (IH b1 (pos + len d) Hr ltac:(lia) ltac:(lia)).
      destruct (pack_seq r b1 (pos + len d)) as [[[b' p'] ps]|].
      * destruct IH as (H1 & H2 & H3 & H4). split; [lia|]. split; [lia|].
        split; [cbn [positions it_data snd]; rewrite H3; reflexivity|].
        rewrite H4. cbn [map concat it_data snd].
        assert (Hpre : take (pos + len d) b1 = take pos buf ++ d).
        { unfold b1. rewrite app_assoc. replace (pos + len d) with (len (take pos buf ++ d)) at 1
            by (rewrite len_app, len_take_le by lia; lia). apply take_app_exact. }
        assert (Hpost : drop (pos + len d + total r) b1 = drop (pos + (len d + total r)) buf).
        { unfold b1. rewrite app_assoc. rewrite drop_app_ge by (rewrite len_app, len_take_le by lia; lia).
          rewrite len_app, len_take_le by lia. rewrite drop_drop by lia. f_equal. lia. }
        rewrite Hpre, Hpost. rewrite <- !app_assoc. reflexivity.
      * lia.
    + apply Z.leb_gt in E. rewrite nospace_neq. lia.
Qed.

(* the shape of the matching Unpack calls: same datatypes and counts, output buffers `outs` *)
Definition shape_of (items : list item) (outs : list (list Z)) : list item :=
  map (fun io => let '((t, n, _), o) := io in (t, n, o)) (combine items outs).
(* what they must deliver: the data in front of the rest of each output buffer *)
Definition delivered (items : list item) (outs : list (list Z)) : list (list Z) :=
  map (fun io => let '((_, _, d), o) := io in d ++ drop (len d) o) (combine items outs).

Lemma unpack_seq_spec : forall items outs pre post pos, Forall item_ok items ->
  Forall2 (fun it o => len (it_data it) <= len o) items outs -> len pre = pos ->
  len (pre ++ concat (map it_data items) ++ post) < 2 ^ 31 ->
  unpack_seq (shape_of items outs) (pre ++ concat (map it_data items) ++ post) pos
  = Some (delivered items outs, pos + total items, positions pos items).
Proof.
  induction items as [|[[t n] d] r IH]; intros outs pre post pos Hok Hf Hpre Hb.
  - inversion Hf; subst. cbn. rewrite Z.add_0_r. reflexivity.
  - inversion Hf as [|x o l outs' Hlo Hf']; subst. inversion Hok as [|x l Hit Hr]; subst.
    destruct Hit as (Hv & Hn & Hd). cbn [it_data snd] in Hlo.
    cbn [total fold_right it_data snd] in *. fold (total r) in *.
    pose proof (total_nonneg r) as Ht. pose proof (len_nonneg d) as Hd0. pose proof (len_nonneg pre) as Hp0.
    cbn [shape_of combine map unpack_seq delivered positions it_data snd concat].
    set (buf := pre ++ (d ++ concat (map it_data r)) ++ post).
    assert (Hlb : len buf = len pre + len d + len (concat (map it_data r)) + len post)
      by (unfold buf; rewrite !len_app; lia).
    pose proof (len_nonneg (concat (map it_data r))). pose proof (len_nonneg post).
    cbn [map concat it_data snd] in Hb. fold buf in Hb.
    rewrite (unpack_step t n o buf (len pre) Hv Hn ltac:(lia) ltac:(lia) Hb).
    rewrite <- Hd. replace (len pre + len d <=? len buf) with true by (symmetry; apply Z.leb_le; lia).
    rewrite success_refl.
    assert (Hdata : take (len d) (drop (len pre) buf) = d).
    { unfold buf. rewrite drop_app_exact. rewrite <- app_assoc. apply take_app_exact. }
    rewrite Hdata.
    replace buf with ((pre ++ d) ++ concat (map it_data r) ++ post) by (unfold buf; rewrite <- !app_assoc; reflexivity).
    assert (Hb2 : len ((pre ++ d) ++ concat (map it_data r) ++ post) < 2 ^ 31)
      by (replace ((pre ++ d) ++ concat (map it_data r) ++ post) with buf by (unfold buf; rewrite <- !app_assoc; reflexivity); exact Hb).
    fold (shape_of r outs'). rewrite (IH outs' (pre ++ d) post (len pre + len d) Hr Hf' ltac:(rewrite len_app; lia) Hb2).
    fold (delivered r outs'). rewrite Z.add_assoc. reflexivity.
Qed.

(* Pack several items one after the other into one buffer, then Unpack them with the same datatypes and counts,
   starting from the same position: every Unpack returns the bytes that were packed (in front of whatever its
   output buffer held behind them), the positions after the i-th Pack and the i-th Unpack agree for every i,
   the bytes of the buffer outside [pos, final position) are untouched, and the two final positions agree. *)
Theorem pack_unpack_roundtrip items outs buf pos buf' posN ps : Forall item_ok items ->
  Forall2 (fun it o => len (it_data it) <= len o) items outs -> 0 <= pos <= len buf -> len buf < 2 ^ 31 ->
  pack_seq items buf pos = Some (buf', posN, ps) ->
  unpack_seq (shape_of items outs) buf' pos = Some (delivered items outs, posN, ps) /\
  posN = pos + total items /\ posN <= len buf /\ len buf' = len buf /\
  take pos buf' = take pos buf /\ drop posN buf' = drop posN buf.
Proof.
  intros Hok Hf Hp Hb Hpack. pose proof (pack_seq_spec items buf pos Hok Hp Hb) as H. rewrite Hpack in H.
  destruct H as (H1 & H2 & H3 & H4). pose proof (total_nonneg items) as Ht.
  assert (Hc : len (concat (map it_data items)) = total items).
  { clear. induction items as [|it r IH]; [reflexivity|]. cbn [map concat total fold_right]. rewrite len_app, IH. reflexivity. }
  assert (Hlt : len (take pos buf) = pos) by (apply len_take_le; lia).
  subst posN ps buf'. split.
  - apply unpack_seq_spec; try assumption. rewrite !len_app, Hlt, Hc, len_drop_le by lia. lia.
  - split; [reflexivity|]. split; [assumption|].
    split; [rewrite !len_app, Hlt, Hc, len_drop_le by lia; lia|]. split.
    + rewrite <- Hlt at 1. rewrite take_app_exact. reflexivity.
    + rewrite app_assoc. rewrite drop_app_ge by (rewrite len_app, Hlt, Hc; lia).
      rewrite len_app, Hlt, Hc. rewrite drop_drop by lia. f_equal. lia.
Qed.

(* if the items do not fit, some Pack call refuses: no sequence of successes writes behind the buffer *)
Theorem pack_seq_refuses items buf pos : Forall item_ok items -> 0 <= pos <= len buf -> len buf < 2 ^ 31 ->
  (pack_seq items buf pos = None <-> len buf < pos + total items).
Proof.
  intros Hok Hp Hb. pose proof (pack_seq_spec items buf pos Hok Hp Hb) as H.
  destruct (pack_seq items buf pos) as [[[b p] ps]|].
  - destruct H as (H1 & _). split; [discriminate|lia].
  - split; [intros _; assumption|reflexivity].
Qed.

(* two consecutive Packs of the same datatype are one Pack of the concatenated data *)
Theorem pack_twice_is_pack_once t n1 n2 d1 d2 buf pos : item_ok (t, n1, d1) -> item_ok (t, n2, d2) ->
  0 <= pos <= len buf -> len buf < 2 ^ 31 -> n1 + n2 < 2 ^ 31 ->
  match pack_seq [(t, n1, d1); (t, n2, d2)] buf pos, pack_seq [(t, n1 + n2, d1 ++ d2)] buf pos with
  | Some (b, p, _), Some (b', p', _) => b = b' /\ p = p'
  | None, None => True
  | _, _ => False
  end.
Proof.
  intros H1 H2 Hp Hb Hsum.
  assert (H12 : item_ok (t, n1 + n2, d1 ++ d2)).
  { destruct H1 as (Hv & Hn1 & Hd1). destruct H2 as (_ & Hn2 & Hd2). split; [assumption|]. split; [lia|]. rewrite len_app. lia. }
  pose proof (pack_seq_spec [(t, n1, d1); (t, n2, d2)] buf pos (Forall_cons _ H1 (Forall_cons _ H2 (Forall_nil _))) Hp Hb) as Ha.
  pose proof (pack_seq_spec [(t, n1 + n2, d1 ++ d2)] buf pos (Forall_cons _ H12 (Forall_nil _)) Hp Hb) as Hb'.
  cbn [total fold_right it_data snd map concat] in Ha, Hb'. rewrite len_app in Hb'. rewrite app_nil_r in *.
  destruct (pack_seq [(t, n1, d1); (t, n2, d2)] buf pos) as [[[b p] ps]|];
    destruct (pack_seq [(t, n1 + n2, d1 ++ d2)] buf pos) as [[[b' p'] ps']|]; try lia.
  destruct Ha as (_ & -> & _ & ->). destruct Hb' as (_ & -> & _ & ->).
  split; [|lia]. do 3 f_equal; lia.
Qed.

(* ---- the position at the boundary ---- *)
Theorem pack_boundary t n d buf pos : item_ok (t, n, d) -> 0 <= pos <= len buf -> len buf < 2 ^ 31 ->
  (* exact fit: accepted, the data are the tail of the buffer, the position is the size *)
  (pos + len d = len buf -> sc_pack d n t buf (len buf) pos = (SUCCESS, Some (take pos buf ++ d), len buf)) /\
  (* one byte too many: refused, nothing changes *)
  (pos + len d = len buf + 1 -> sc_pack d n t buf (len buf) pos = (ERR_NO_SPACE, Some buf, pos)) /\
  (* nothing to pack: accepted at every legal position including position = size; nothing changes *)
  (n = 0 -> sc_pack d n t buf (len buf) pos = (SUCCESS, Some buf, pos)).
Proof.
  intros (Hv & Hn & Hd) Hp Hb. rewrite (pack_step t n d buf pos Hv Hn Hd ltac:(lia) Hb). repeat split.
  - intros E. replace (pos + len d <=? len buf) with true by (symmetry; apply Z.leb_le; lia).
    rewrite E. rewrite (drop_all (len buf) buf) by lia. rewrite app_nil_r. reflexivity.
  - intros E. replace (pos + len d <=? len buf) with false by (symmetry; apply Z.leb_gt; lia). reflexivity.
  - intros ->. assert (d = []) by (apply len_zero_nil; lia). subst d. change (len []) with 0. rewrite Z.add_0_r.
    replace (pos <=? len buf) with true by (symmetry; apply Z.leb_le; lia). cbn [app]. rewrite take_drop_id. reflexivity.
Qed.

Theorem unpack_boundary t n o buf pos : valid_dt t -> 0 <= n < 2 ^ 31 -> n * type_size t <= len o ->
  0 <= pos <= len buf -> len buf < 2 ^ 31 ->
  (* the request ends at the end of the message: accepted, the position becomes the size *)
  (pos + n * type_size t = len buf ->
   sc_unpack buf (len buf) pos o n t = (SUCCESS, Some (drop pos buf ++ drop (n * type_size t) o), len buf)) /\
  (pos + n * type_size t = len buf + 1 -> sc_unpack buf (len buf) pos o n t = (ERR_NO_SPACE, Some o, pos)) /\
  (n = 0 -> sc_unpack buf (len buf) pos o n t = (SUCCESS, Some o, pos)).
Proof.
  intros Hv Hn Ho Hp Hb. rewrite (unpack_step t n o buf pos Hv Hn Ho ltac:(lia) Hb). repeat split.
  - intros E. replace (pos + n * type_size t <=? len buf) with true by (symmetry; apply Z.leb_le; lia).
    rewrite E. rewrite take_all by (rewrite len_drop_le by lia; lia). reflexivity.
  - intros E. replace (pos + n * type_size t <=? len buf) with false by (symmetry; apply Z.leb_gt; lia). reflexivity.
  - intros ->. rewrite Z.mul_0_l, Z.add_0_r. replace (pos <=? len buf) with true by (symmetry; apply Z.leb_le; lia).
    rewrite take_nonpos by lia. unfold drop. cbn [Z.to_nat skipn app]. reflexivity.
Qed.

(* ---- reuse of outputs: the receive buffer of one collective is the send buffer of the next ---- *)
Lemma gather_list p n t q : valid_dt t -> 0 <= n < 2 ^ 31 -> n * type_size t <= len p -> n * type_size t <= len q ->
  sc_gather p n t q n t = (SUCCESS, Some (take (n * type_size t) p ++ drop (n * type_size t) q)).
Proof.
  intros Hv Hn Hp Hq. pose proof (dt_bounds t Hv) as (Hb1 & Hb2).
  unfold sc_gather, gather_copy. rewrite (copy_len_small n t Hv Hn). set (k := n * type_size t) in *.
  assert (Hk : 0 <= k) by (unfold k; nia).
  unfold memcpy_at. replace ((0 <=? k) && (0 <=? 0) && (0 + k <=? len p))%bool with true
    by (symmetry; rewrite !andb_true_iff; repeat split; apply Z.leb_le; lia).
  unfold drop at 1. cbn [Z.to_nat skipn]. unfold put. rewrite len_take_le by lia.
  replace ((0 <=? 0) && (0 + k <=? len q))%bool with true by (symmetry; rewrite andb_true_iff; split; apply Z.leb_le; lia).
  rewrite (take_nonpos 0 q) by lia. reflexivity.
Qed.

(* Gather, then Allreduce of the gathered buffer, then Scan of that result: the last receive buffer starts with the
   first send buffer's bytes and keeps its own tail; every intermediate buffer keeps its length *)
Theorem collective_chain p q r s n t op : valid_dt t -> 0 <= n < 2 ^ 31 ->
  n * type_size t <= len p -> n * type_size t <= len q -> n * type_size t <= len r -> n * type_size t <= len s ->
  exists q' r' s', sc_gather p n t q n t = (SUCCESS, Some q') /\ sc_allreduce q' r n t op = (SUCCESS, Some r') /\
                   sc_scan r' s n t op = (SUCCESS, Some s') /\
                   len q' = len q /\ len r' = len r /\
                   s' = take (n * type_size t) p ++ drop (n * type_size t) s.
Proof.
  intros Hv Hn Hp Hq Hr Hs. pose proof (dt_bounds t Hv) as (Hb1 & Hb2). set (k := n * type_size t) in *.
  assert (Hk : 0 <= k) by (unfold k; nia).
  assert (Hred : forall a b o, sc_reduce a b n t o = sc_gather a n t b n t) by reflexivity.
  eexists. eexists. eexists. unfold sc_allreduce, sc_scan. rewrite !Hred.
  split; [apply gather_list; assumption|].
  assert (L1 : len (take k p ++ drop k q) = len q) by (rewrite len_app, len_take_le, len_drop_le by lia; lia).
  split; [apply gather_list; try assumption; fold k; lia|].
  assert (L2 : len (take k (take k p ++ drop k q) ++ drop k r) = len r).
  { rewrite len_app, len_take_le, len_drop_le by lia. lia. }
  split; [apply gather_list; try assumption; fold k; lia|].
  split; [assumption|]. split; [assumption|]. fold k.
  f_equal. rewrite (take_app_le k (take k (take k p ++ drop k q)) (drop k r)) by (rewrite len_take_le by lia; lia).
  rewrite take_take. rewrite (take_app_le _ (take k p) (drop k q)) by (rewrite len_take_le by lia; lia).
  rewrite take_take. f_equal. lia.
Qed.
