(* C16 - tie T1 for the BODIES of the serial stubs: the hand-written model (MpiModel.v) computes exactly what the
   definitions GENERATED from /repo/src/sc_mpi.c (Gen/MpiC16.v, the definitions stub_xxx) compute.  Conventions of the generated
   definitions: tools/c2g/groups_C16.py.  Buffers are integers (addresses) there; the model's copies are
   (offset into destination, offset into source, byte count), and the theorems say that the generated memcpy has
   the arguments (dest address + offset, source address + offset, count) for ALL addresses. *)
From Coq Require Import ZArith List Bool Lia.
From ScV Require Import Base.CInt Gen.MpiC16 C11.IoModel C11.IoLists C16.MpiModel C16.MpiSpec1 C16.MpiProofs.
Import ListNotations.
Local Open Scope Z_scope.

(* ---- collectives ---- *)
Theorem gen_gather p np tp q :
  let '(d, s, n) := gather_copy np tp in stub_gather p np tp q = (1, q + d, p + s, n, SUCCESS).
Proof. unfold gather_copy, stub_gather. rewrite !Z.add_0_r. reflexivity. Qed.

Theorem gen_gatherv p np tp q displ0 tq :
  let '(d, s, n) := gatherv_copy np tp displ0 tq in stub_gatherv p np tp q displ0 tq = (1, q + d, p + s, n, SUCCESS).
Proof. unfold gatherv_copy, stub_gatherv. rewrite !Z.add_0_r. reflexivity. Qed.

Theorem gen_reduce p q n t :
  let '(d, s, l) := gather_copy n t in stub_reduce p q n t = (1, q + d, p + s, l, SUCCESS).
Proof. unfold gather_copy, stub_reduce. rewrite !Z.add_0_r. reflexivity. Qed.

(* the six forwarding stubs call Gather / Gatherv / Reduce exactly once, with their own arguments in order and
   root 0, and return what the callee returns: this is what `sc_allgather := sc_gather` etc. in the model say *)
Theorem gen_forwarders p np tp q nq tq recvc displ n t op comm r :
  stub_allgather p np tp q nq tq comm r = (1, p, np, tp, q, nq, tq, 0, comm, r) /\
  stub_alltoall p np tp q nq tq comm r = (1, p, np, tp, q, nq, tq, 0, comm, r) /\
  stub_allgatherv p np tp q recvc displ tq comm r = (1, p, np, tp, q, recvc, displ, tq, 0, comm, r) /\
  stub_allreduce p q n t op comm r = (1, p, q, n, t, op, 0, comm, r) /\
  stub_reduce_scatter_block p q n t op comm r = (1, p, q, n, t, op, 0, comm, r) /\
  stub_scan p q n t op comm r = (1, p, q, n, t, op, 0, comm, r).
Proof. repeat split. Qed.

(* Exscan, Bcast, Barrier: no call, no store; the code returned *)
Theorem gen_nocopy : stub_exscan = SUCCESS /\ stub_bcast = SUCCESS /\ stub_barrier = sc_barrier.
Proof. repeat split. Qed.

(* ---- sizes, pack, unpack ---- *)
Theorem gen_type_size t : sc_type_size t = let '(v, rc) := stub_type_size t in (rc, Some v).
Proof. reflexivity. Qed.

(* Pack_size calls Type_size (t, size); with what that stored: the representability guard, the product, the code *)
Theorem gen_pack_size incount t sizeptr r :
  let '(v, _) := stub_type_size t in
  stub_pack_size incount t sizeptr r v = (1, t, sizeptr, pack_size_value incount t, pack_size_code incount t) /\
  sc_pack_size incount t = (pack_size_code incount t, Some (pack_size_value incount t)).
Proof.
  split; [|reflexivity]. unfold stub_pack_size, stub_type_size, pack_size_value, pack_size_code, pack_size_refuses, pack_bytes. cbn [fst].
  destruct ((0 <? incount) && (s32 (cdiv 2147483647 incount) <? s32 (sc_mpi_sizeof t)))%bool; reflexivity.
Qed.

(* Pack: calls Pack_size (incount, t, comm, &size); for EVERY code r it returns and EVERY size it stores: a code other than
   SUCCESS is returned at once; else the space test, the memcpy, the advance of *position, the code *)
Theorem gen_pack inbuf incount t outbuf outsize pos comm r size :
  stub_pack inbuf incount t outbuf outsize pos comm r size =
  if negb (r =? SUCCESS) then (1, incount, t, comm, 0, 0, 0, 0, pos, r)
  else if pack_refuses pos size outsize then (1, incount, t, comm, 0, 0, 0, 0, pos, ERR_NO_SPACE)
  else let '(d, s, n) := pack_copy pos size in
       (1, incount, t, comm, 1, outbuf + d, inbuf + s, n, pack_advance pos size, SUCCESS).
Proof.
  unfold stub_pack, pack_copy, pack_advance.
  change (r =? dt_SC3_MPI_SUCCESS) with (r =? SUCCESS). destruct (negb (r =? SUCCESS)); [reflexivity|].
  change (s32 (outsize - pos) <? size) with (pack_refuses pos size outsize).
  destruct (pack_refuses pos size outsize); [reflexivity|]. rewrite Z.add_0_r. reflexivity.
Qed.

Theorem gen_unpack inbuf insize pos outbuf outcount t comm r size :
  stub_unpack inbuf insize pos outbuf outcount t comm r size =
  if negb (r =? SUCCESS) then (1, outcount, t, comm, 0, 0, 0, 0, pos, r)
  else if pack_refuses pos size insize then (1, outcount, t, comm, 0, 0, 0, 0, pos, ERR_NO_SPACE)
  else let '(d, s, n) := unpack_copy pos size in
       (1, outcount, t, comm, 1, outbuf + d, inbuf + s, n, pack_advance pos size, SUCCESS).
Proof.
  unfold stub_unpack, unpack_copy, pack_advance.
  change (r =? dt_SC3_MPI_SUCCESS) with (r =? SUCCESS). destruct (negb (r =? SUCCESS)); [reflexivity|].
  change (s32 (insize - pos) <? size) with (pack_refuses pos size insize).
  destruct (pack_refuses pos size insize); [reflexivity|]. rewrite Z.add_0_r. reflexivity.
Qed.

(* the model's Pack / Unpack written over the generated bodies: the model IS the generated control flow, fed with the code and
   the size of the generated Pack_size, with the generated memcpy arguments applied to the two lists (addresses 0 for both
   buffers give the offsets) *)
Theorem gen_pack_model inbuf incount t outbuf outsize pos :
  sc_pack inbuf incount t outbuf outsize pos =
  let '(_, _, _, size, r) := stub_pack_size incount t 0 0 (fst (stub_type_size t)) in
  let '(_, _, _, _, called, dst, src, n, pos', rc) := stub_pack 0 incount t 0 outsize pos 0 r size in
  (rc, if called =? 1 then memcpy_at outbuf dst inbuf src n else Some outbuf, pos').
Proof.
  pose proof (gen_pack_size incount t 0 0) as Hs. unfold stub_type_size in Hs. cbn [fst] in *. unfold stub_type_size. cbn [fst].
  destruct Hs as (-> & _). rewrite gen_pack. unfold sc_pack. cbv zeta.
  destruct (negb (pack_size_code incount t =? SUCCESS)); [reflexivity|].
  destruct (pack_refuses pos (pack_size_value incount t) outsize); reflexivity.
Qed.

Theorem gen_unpack_model inbuf insize pos outbuf outcount t :
  sc_unpack inbuf insize pos outbuf outcount t =
  let '(_, _, _, size, r) := stub_pack_size outcount t 0 0 (fst (stub_type_size t)) in
  let '(_, _, _, _, called, dst, src, n, pos', rc) := stub_unpack 0 insize pos 0 outcount t 0 r size in
  (rc, if called =? 1 then memcpy_at outbuf dst inbuf src n else Some outbuf, pos').
Proof.
  pose proof (gen_pack_size outcount t 0 0) as Hs. unfold stub_type_size in Hs. cbn [fst] in *. unfold stub_type_size. cbn [fst].
  destruct Hs as (-> & _). rewrite gen_unpack. unfold sc_unpack. cbv zeta.
  destruct (negb (pack_size_code outcount t =? SUCCESS)); [reflexivity|].
  destruct (pack_refuses pos (pack_size_value outcount t) insize); reflexivity.
Qed.

(* ---- communicators, groups, Init_thread: the value stored through the output pointer and the code ---- *)
Theorem gen_comm c color key :
  sc_comm_size c = (snd stub_comm_size, Some (fst stub_comm_size)) /\
  sc_comm_rank c = (snd stub_comm_rank, Some (fst stub_comm_rank)) /\
  sc_group_size c = (snd stub_group_size, Some (fst stub_group_size)) /\
  sc_group_rank c = (snd stub_group_rank, Some (fst stub_group_rank)) /\
  sc_comm_free c = (snd stub_comm_free, Some (fst stub_comm_free)) /\
  sc_comm_group c = (snd stub_comm_group, Some (fst stub_comm_group)) /\
  sc_group_free c = (snd stub_group_free, Some (fst stub_group_free)) /\
  sc_comm_dup c = (snd (stub_comm_dup c), Some (fst (stub_comm_dup c))) /\
  sc_comm_split c color key = (snd (stub_comm_split c), Some (fst (stub_comm_split c))).
Proof. repeat split. Qed.

(* provided != NULL: THREAD_SINGLE is stored; provided == NULL: nothing is *)
Theorem gen_init_thread provided old :
  stub_init_thread provided old =
  if provided =? 0 then (old, fst sc_init_thread)
  else (match snd sc_init_thread with Some v => v | None => old end, fst sc_init_thread).
Proof. unfold stub_init_thread. destruct (provided =? 0); reflexivity. Qed.

(* ---- completion calls: `ok` of the generated body (no SC_CHECK_ABORT fired) is the model's all_null ---- *)
Definition reqfun (reqs : list Z) : Z -> Z := fun i => nth_z i reqs.

Theorem gen_wait req : stub_wait req = (b2z (req =? REQUEST_NULL), SUCCESS) /\
  sc_wait req = if z2b (fst (stub_wait req)) then Some (snd (stub_wait req)) else None.
Proof.
  unfold stub_wait, sc_wait. change REQUEST_NULL with 738197504. cbn [fst snd z2b].
  destruct (req =? 738197504); split; reflexivity.
Qed.

Lemma z2b_b2z b : z2b (b2z b) = b.
Proof. destruct b; reflexivity. Qed.

Lemma reqfun_mid done a rest : reqfun (done ++ a :: rest) (len done) = a.
Proof.
  unfold reqfun, nth_z, len. rewrite Nat2Z.id. rewrite app_nth2 by lia. rewrite Nat.sub_diag. reflexivity.
Qed.

Ltac loop_proof :=
  let rest := fresh "rest" in let IH := fresh "IH" in let a := fresh "a" in
  intros rest; induction rest as [|a rest IH]; intros done b fuel Hlen Hfuel;
  (destruct fuel as [|fuel]; [simpl in Hfuel; lia|]); cbn [length] in Hfuel;
  match goal with |- ?f _ _ _ _ _ = _ => unfold f; fold f end;
  [ rewrite app_nil_r in *; rewrite Z.ltb_irrefl; cbn [all_null forallb]; rewrite andb_true_r; reflexivity
  | assert (Hl : len (done ++ a :: rest) = len done + 1 + len rest) by (rewrite len_app; unfold len; cbn [length]; lia);
    pose proof (len_nonneg done); pose proof (len_nonneg rest);
    replace (len done <? len (done ++ a :: rest)) with true by (symmetry; apply Z.ltb_lt; lia);
    rewrite reqfun_mid, z2b_b2z;
    replace (s32 (len done + 1)) with (len (done ++ [a]))
      by (rewrite len_app; change (len [a]) with 1; symmetry; apply s32_id; unfold in_s32, M32; lia);
    replace (done ++ a :: rest) with ((done ++ [a]) ++ rest) by (rewrite <- app_assoc; reflexivity);
    rewrite IH; [| rewrite <- app_assoc; exact Hlen | lia];
    cbn [all_null forallb]; rewrite andb_assoc; reflexivity ].

Lemma waitall_loop : forall rest done b fuel, len (done ++ rest) < 2147483647 -> (length rest < fuel)%nat ->
  stub_waitall_loop1 fuel (reqfun (done ++ rest)) (len (done ++ rest)) (len done) (b2z b)
  = Some (inl (len (done ++ rest), b2z (b && all_null rest))).
Proof. loop_proof. Qed.

Lemma testall_loop : forall rest done b fuel, len (done ++ rest) < 2147483647 -> (length rest < fuel)%nat ->
  stub_testall_loop1 fuel (reqfun (done ++ rest)) (len (done ++ rest)) (len done) (b2z b)
  = Some (inl (len (done ++ rest), b2z (b && all_null rest))).
Proof. loop_proof. Qed.

Lemma waitsome_loop : forall rest done b fuel, len (done ++ rest) < 2147483647 -> (length rest < fuel)%nat ->
  stub_waitsome_loop1 fuel (reqfun (done ++ rest)) (len (done ++ rest)) (len done) (b2z b)
  = Some (inl (len (done ++ rest), b2z (b && all_null rest))).
Proof. loop_proof. Qed.

(* for every request array (shorter than INT_MAX) and every sufficient fuel: the generated loop terminates, `ok` is
   all_null, Testall stores flag = 1, Waitsome stores outcount = 0, Waitall stores nothing *)
Theorem gen_completion reqs fuel old : len reqs < 2147483647 -> (length reqs < fuel)%nat ->
  stub_waitall fuel (reqfun reqs) (len reqs) = Some (b2z (all_null reqs), SUCCESS) /\
  stub_testall fuel (reqfun reqs) (len reqs) old = Some (b2z (all_null reqs), 1, SUCCESS) /\
  stub_waitsome fuel (reqfun reqs) (len reqs) old = Some (b2z (all_null reqs), 0, SUCCESS) /\
  sc_waitall reqs = (if all_null reqs then Some SUCCESS else None) /\
  sc_testall reqs = (if all_null reqs then Some (SUCCESS, Some 1) else None) /\
  sc_waitsome reqs = (if all_null reqs then Some (SUCCESS, Some 0) else None).
Proof.
  intros Hl Hf. unfold stub_waitall, stub_testall, stub_waitsome.
  pose proof (waitall_loop reqs [] true fuel Hl Hf) as H1. pose proof (testall_loop reqs [] true fuel Hl Hf) as H2.
  pose proof (waitsome_loop reqs [] true fuel Hl Hf) as H3. cbn [app b2z] in *. change (len []) with 0 in *.
  rewrite H1, H2, H3. cbn [andb]. repeat split.
Qed.

(* ---- Error_class ---- *)
Lemma known_codes_or code : existsb (fun c => c =? code) known_codes =
  ((code =? h_MPI_SUCCESS) || (code =? h_MPI_ERR_ARG) || (code =? h_MPI_ERR_UNKNOWN) || (code =? h_MPI_ERR_OTHER) || (code =? h_MPI_ERR_NO_MEM) ||
   (code =? h_MPI_ERR_FILE) || (code =? h_MPI_ERR_NOT_SAME) || (code =? h_MPI_ERR_AMODE) || (code =? h_MPI_ERR_UNSUPPORTED_DATAREP) ||
   (code =? h_MPI_ERR_UNSUPPORTED_OPERATION) || (code =? h_MPI_ERR_NO_SUCH_FILE) || (code =? h_MPI_ERR_FILE_EXISTS) || (code =? h_MPI_ERR_BAD_FILE) ||
   (code =? h_MPI_ERR_ACCESS) || (code =? h_MPI_ERR_NO_SPACE) || (code =? h_MPI_ERR_QUOTA) || (code =? h_MPI_ERR_READ_ONLY) ||
   (code =? h_MPI_ERR_FILE_IN_USE) || (code =? h_MPI_ERR_DUP_DATAREP) || (code =? h_MPI_ERR_CONVERSION) || (code =? h_MPI_ERR_IO))%bool.
Proof.
  unfold known_codes. cbn [existsb]. rewrite orb_false_r. rewrite !(Z.eqb_sym _ code). rewrite !orb_assoc. reflexivity.
Qed.

Theorem gen_error_class code ptr old :
  stub_error_class code ptr old =
  if ptr =? 0 then (old, ERR_ARG)
  else (match snd (sc_error_class code) with Some v => v | None => old end, fst (sc_error_class code)).
Proof.
  unfold stub_error_class, sc_error_class. destruct (ptr =? 0); [reflexivity|]. rewrite known_codes_or.
  match goal with |- (if ?a then _ else _) = _ => match goal with |- context [if ?b then (SUCCESS, Some code) else _] => change b with a end end.
  match goal with |- (if ?a then _ else _) = _ => destruct a end; reflexivity.
Qed.

(* ---- Error_string ----
   gen_msg code = the message (a literal of the generated source, as 1 + index in stub_strings) that the generated body hands
   to snprintf for `code`, None if it does not call snprintf.  (1) the body for ALL arguments: NULL arguments give ERR_ARG;
   a code without message gives ERR_UNKNOWN and stores nothing; otherwise snprintf (string, MAX, "%s", message) is called, a
   negative result gives ERR_NO_MEM, else *resultlen = min (result, MAX - 1) and SUCCESS.  (2) the messages are the model's
   table, for ALL codes.  (3) with the contract of snprintf ("%s": it returns the length of the message) the stored length and the
   code are the model's. *)
Definition lit (k : Z) : list Z := nth (Z.to_nat (k - 1)) stub_strings [].
Definition gen_msg (code : Z) : option Z :=
  let '(called, _, _, _, msg, _, _) := stub_error_string code 1 1 0 0 in if called =? 1 then Some msg else None.
Definition gen_fmt : Z := let '(_, _, _, fmt, _, _, _) := stub_error_string h_MPI_SUCCESS 1 1 0 0 in fmt.

Ltac chain code tac :=
  repeat match goal with |- context [code =? ?c] => destruct (code =? c) eqn:?; [ tac | ] end.

Theorem gen_error_string code str rl old snret :
  stub_error_string code str rl old snret =
  if ((str =? 0) || (rl =? 0))%bool then (0, 0, 0, 0, 0, old, ERR_ARG)
  else match gen_msg code with
       | None => (0, 0, 0, 0, 0, old, ERR_UNKNOWN)
       | Some k => if snret <? 0 then (1, str, MAX_ERROR_STRING, gen_fmt, k, old, h_MPI_ERR_NO_MEM)
                   else (1, str, MAX_ERROR_STRING, gen_fmt, k, (if MAX_ERROR_STRING <=? snret then MAX_ERROR_STRING - 1 else snret), SUCCESS)
       end.
Proof.
  unfold gen_msg, stub_error_string. cbv zeta.
  destruct ((str =? 0) || (rl =? 0))%bool; [reflexivity|].
  change ((1 =? 0) || (1 =? 0))%bool with false. cbv iota.
  change MAX_ERROR_STRING with 8192.
  chain code ltac:(destruct (snret <? 0); [reflexivity | destruct (8192 <=? snret); reflexivity]).
  reflexivity.
Qed.

Theorem gen_error_string_table code :
  option_map lit (gen_msg code) = message_of code error_messages /\ lit gen_fmt = [37; 115].
Proof.
  split; [|vm_compute; reflexivity].
  unfold gen_msg, stub_error_string, error_messages, message_of. cbv zeta.
  change ((1 =? 0) || (1 =? 0))%bool with false. cbv iota.
  rewrite !(Z.eqb_sym _ code).
  unfold dt_SC3_MPI_SUCCESS, dt_SC3_MPI_ERR_ARG, dt_SC3_MPI_ERR_UNKNOWN, dt_SC3_MPI_ERR_OTHER, dt_SC3_MPI_ERR_NO_MEM, dt_SC3_MPI_ERR_FILE,
    dt_SC3_MPI_ERR_NOT_SAME, dt_SC3_MPI_ERR_AMODE, dt_SC3_MPI_ERR_UNSUPPORTED_DATAREP, dt_SC3_MPI_ERR_UNSUPPORTED_OPERATION,
    dt_SC3_MPI_ERR_NO_SUCH_FILE, dt_SC3_MPI_ERR_FILE_EXISTS, dt_SC3_MPI_ERR_BAD_FILE, dt_SC3_MPI_ERR_ACCESS, dt_SC3_MPI_ERR_NO_SPACE,
    dt_SC3_MPI_ERR_QUOTA, dt_SC3_MPI_ERR_READ_ONLY, dt_SC3_MPI_ERR_FILE_IN_USE, dt_SC3_MPI_ERR_DUP_DATAREP, dt_SC3_MPI_ERR_CONVERSION,
    dt_SC3_MPI_ERR_IO.
  chain code ltac:(reflexivity). reflexivity.
Qed.

(* every message is shorter than the limit and not empty *)
Lemma messages_short : forallb (fun km => (0 <? len (snd km)) && (len (snd km) <? MAX_ERROR_STRING))%bool error_messages = true.
Proof. vm_compute. reflexivity. Qed.

Lemma message_of_in code m l : message_of code l = Some m -> exists k, In (k, m) l.
Proof.
  induction l as [|[k w] l IH]; simpl; [discriminate|]. destruct (k =? code).
  - intros H. injection H as ->. exists k. left; reflexivity.
  - intros H. destruct (IH H) as [k' Hk]. exists k'. right; assumption.
Qed.

Theorem gen_error_string_model code str rl old : str <> 0 -> rl <> 0 ->
  match sc_error_string code with
  | (rc, Some txt, Some n) =>
      0 < len txt < MAX_ERROR_STRING /\ rc = SUCCESS /\ n = len txt /\
      exists k, lit k = txt /\ stub_error_string code str rl old (len txt) = (1, str, MAX_ERROR_STRING, gen_fmt, k, n, rc)
  | (rc, None, None) => forall snret, stub_error_string code str rl old snret = (0, 0, 0, 0, 0, old, rc)
  | _ => False
  end.
Proof.
  intros Hs Hr. unfold sc_error_string. pose proof (proj1 (gen_error_string_table code)) as Ht.
  assert (En : ((str =? 0) || (rl =? 0))%bool = false)
    by (apply orb_false_iff; split; apply Z.eqb_neq; assumption).
  destruct (message_of code error_messages) as [m|] eqn:Em.
  - destruct (message_of_in _ _ _ Em) as [k0 Hin].
    pose proof (proj1 (forallb_forall _ _) messages_short _ Hin) as Hb. cbn [snd] in Hb.
    apply andb_true_iff in Hb. destruct Hb as [Hb1 Hb2]. apply Z.ltb_lt in Hb1, Hb2.
    assert (Hle : (MAX_ERROR_STRING <=? len m) = false) by (apply Z.leb_gt; assumption).
    rewrite Hle. rewrite take_all by lia.
    destruct (gen_msg code) as [k|] eqn:Eg; [|discriminate]. cbn [option_map] in Ht. injection Ht as Ht.
    split; [lia|]. split; [reflexivity|]. split; [reflexivity|]. exists k. split; [assumption|].
    rewrite gen_error_string, En, Eg.
    replace (len m <? 0) with false by (symmetry; apply Z.ltb_ge; lia). rewrite Hle. reflexivity.
  - destruct (gen_msg code) as [k|] eqn:Eg; [discriminate|]. intros snret.
    rewrite gen_error_string, En, Eg. reflexivity.
Qed.

(* ---- sc_mpi_sizeof in the configuration WITH MPI (translated from the same source against OpenMPI's mpi.h) ----
   There the predefined datatype handles are the addresses of 15 global objects.  For ANY placement of these objects at
   pairwise different addresses (base 0 .. base 14, in the order of the table of MpiSpec1.v) the MPI-enabled sc_mpi_sizeof
   gives, for the k-th handle, what the serial sc_mpi_sizeof gives for the k-th serial handle, i.e. MPI_Type_size. *)
Definition serial_handles : list Z := map fst dt_table.

Ltac cmp base inj :=
  repeat match goal with
  | |- context [base ?i =? base ?i] => rewrite (Z.eqb_refl (base i))
  | |- context [base ?i =? base ?j] =>
      replace (base i =? base j) with false
        by (symmetry; apply Z.eqb_neq; let E := fresh in intros E; apply inj in E; [discriminate E | lia | lia])
  end.

Theorem gen_sizeof_mpi (base : Z -> Z) :
  (forall i j, 0 <= i < 15 -> 0 <= j < 15 -> base i = base j -> i = j) ->
  forall k, 0 <= k < 15 ->
  sc_mpi_sizeof_mpi (base k) (base 0) (base 1) (base 2) (base 3) (base 4) (base 5) (base 6) (base 7) (base 8) (base 9)
                    (base 10) (base 11) (base 12) (base 13) (base 14)
  = sc_mpi_sizeof (nth (Z.to_nat k) serial_handles 0) /\
  valid_dt (nth (Z.to_nat k) serial_handles 0) /\
  sc_mpi_sizeof (nth (Z.to_nat k) serial_handles 0) = type_size (nth (Z.to_nat k) serial_handles 0).
Proof.
  intros inj k Hk.
  assert (Hc : k = 0 \/ k = 1 \/ k = 2 \/ k = 3 \/ k = 4 \/ k = 5 \/ k = 6 \/ k = 7 \/ k = 8 \/ k = 9 \/ k = 10 \/ k = 11 \/
               k = 12 \/ k = 13 \/ k = 14) by lia.
  repeat (destruct Hc as [->|Hc]); try subst k;
    (split; [unfold sc_mpi_sizeof_mpi; cmp base inj; vm_compute; reflexivity|]);
    (split; [eexists; vm_compute; reflexivity | vm_compute; reflexivity]).
Qed.
