(* C16 - proofs: every stub of the serial emulation against the one-rank specification. *)
From Coq Require Import ZArith List Bool Lia.
From ScV Require Import Base.CInt Gen.MpiC16 C11.IoModel C11.IoLists C16.MpiModel C16.MpiSpec1.
Import ListNotations.
Local Open Scope Z_scope.
Ltac Zify.zify_post_hook ::= Z.div_mod_to_equations.

(* ---- indexing lemmas ---- *)
Lemma nth_z_app_l p (l1 l2 : list Z) : 0 <= p < len l1 -> nth_z p (l1 ++ l2) = nth_z p l1.
Proof. unfold nth_z, len; intros; apply app_nth1; lia. Qed.

Lemma nth_z_app_r p (l1 l2 : list Z) : len l1 <= p -> nth_z p (l1 ++ l2) = nth_z (p - len l1) l2.
Proof.
  unfold nth_z, len; intros. rewrite app_nth2 by lia. f_equal. lia.
Qed.

Lemma nth_z_overflow p (l : list Z) : len l <= p -> nth_z p l = 0.
Proof. unfold nth_z, len; intros; apply nth_overflow; lia. Qed.

Lemma nth_z_take p n (l : list Z) : 0 <= p < n -> nth_z p (take n l) = nth_z p l.
Proof.
  intros H. rewrite <- (take_drop_id n l) at 2.
  destruct (Z_lt_ge_dec p (len (take n l))).
  - rewrite nth_z_app_l by lia. reflexivity.
  - rewrite nth_z_overflow by lia.
    rewrite len_take in *. rewrite nth_z_app_r by (rewrite len_take; lia).
    rewrite nth_z_overflow; [reflexivity|]. rewrite len_drop, len_take. lia.
Qed.

Lemma nth_z_drop p n (l : list Z) : 0 <= p -> 0 <= n -> nth_z p (drop n l) = nth_z (n + p) l.
Proof.
  intros Hp Hn. rewrite <- (take_drop_id n l) at 2.
  destruct (Z_le_gt_dec n (len l)).
  - rewrite nth_z_app_r by (rewrite len_take; lia). rewrite len_take. f_equal. lia.
  - rewrite (drop_all n l) by lia. rewrite app_nil_r. rewrite take_all by lia.
    rewrite nth_z_overflow by (unfold len; simpl; lia).
    rewrite nth_z_overflow by lia. reflexivity.
Qed.

(* ---- the checked copy ---- *)
Lemma put_spec pos d m m' : put pos d m = Some m' ->
  0 <= pos /\ pos + len d <= len m /\ len m' = len m /\
  (forall k, 0 <= k < len d -> nth_z (pos + k) m' = nth_z k d) /\
  (forall p, 0 <= p -> (p < pos \/ pos + len d <= p) -> nth_z p m' = nth_z p m).
Proof.
  unfold put. destruct ((0 <=? pos) && (pos + len d <=? len m)) eqn:E; [|discriminate].
  apply andb_true_iff in E. destruct E as [E1 E2]. apply Z.leb_le in E1. apply Z.leb_le in E2.
  intros H. injection H as <-.
  pose proof (len_nonneg d) as Hd.
  assert (Hl : len (take pos m) = pos) by (apply len_take_le; lia).
  split; [assumption|]. split; [assumption|].
  split. { rewrite !len_app, Hl, len_drop. lia. }
  split.
  - intros k Hk. rewrite nth_z_app_r by lia. rewrite Hl.
    replace (pos + k - pos) with k by lia. apply nth_z_app_l. assumption.
  - intros p Hp [Hlt|Hge].
    + rewrite nth_z_app_l by lia. apply nth_z_take. lia.
    + rewrite nth_z_app_r by lia. rewrite Hl. rewrite nth_z_app_r by lia.
      rewrite nth_z_drop by lia. f_equal. lia.
Qed.

Lemma memcpy_at_spec dst off src from n :
  0 <= n -> 0 <= from -> from + n <= len src -> 0 <= off -> off + n <= len dst ->
  exists dst', memcpy_at dst off src from n = Some dst' /\ len dst' = len dst /\
    (forall k, 0 <= k < n -> nth_z (off + k) dst' = nth_z (from + k) src) /\
    (forall p, 0 <= p -> (p < off \/ off + n <= p) -> nth_z p dst' = nth_z p dst).
Proof.
  intros Hn Hf Hs Ho Hd. unfold memcpy_at.
  replace ((0 <=? n) && (0 <=? from) && (from + n <=? len src)) with true
    by (symmetry; rewrite !andb_true_iff; repeat split; apply Z.leb_le; lia).
  assert (Hl : len (take n (drop from src)) = n) by (rewrite len_take, len_drop; lia).
  destruct (put off (take n (drop from src)) dst) as [dst'|] eqn:E.
  - apply put_spec in E. rewrite Hl in E. destruct E as (_ & _ & Hlen & Hin & Hout).
    exists dst'. split; [reflexivity|]. split; [assumption|]. split; [|assumption].
    intros k Hk. rewrite (Hin k Hk). rewrite nth_z_take by lia. apply nth_z_drop; lia.
  - exfalso. unfold put in E. rewrite Hl in E.
    replace ((0 <=? off) && (off + n <=? len dst)) with true in E
      by (symmetry; rewrite andb_true_iff; split; apply Z.leb_le; lia).
    discriminate.
Qed.

(* ---- datatype sizes: the generated sc_mpi_sizeof against the table (MPI_Type_size, ABI sizes) ---- *)
Lemma sizeof_table_all :
  forallb (fun kv => sc_mpi_sizeof (fst kv) =? fst (snd kv)) dt_table = true.
Proof. vm_compute. reflexivity. Qed.

Lemma lookup_in t v : lookup t dt_table = Some v -> In (t, v) dt_table.
Proof.
  generalize dt_table. induction l as [|[k w] l IH]; simpl; [discriminate|].
  destruct (k =? t) eqn:E.
  - intros H. injection H as ->. apply Z.eqb_eq in E. subst. left; reflexivity.
  - intros H. right. apply IH. assumption.
Qed.

Theorem sizeof_abi t : valid_dt t -> sc_mpi_sizeof t = type_size t.
Proof.
  intros [v Hv]. unfold type_size. rewrite Hv.
  pose proof (proj1 (forallb_forall _ _) sizeof_table_all (t, v) (lookup_in t v Hv)) as H.
  simpl in H. apply Z.eqb_eq in H. destruct v. simpl in H. assumption.
Qed.

Lemma dt_bounds_all :
  forallb (fun kv => (0 <? fst (snd kv)) && (fst (snd kv) <=? snd (snd kv)) && (snd (snd kv) <=? 16)) dt_table = true.
Proof. vm_compute. reflexivity. Qed.

Lemma dt_bounds t : valid_dt t -> 0 < type_size t <= extent t /\ extent t <= 16.
Proof.
  intros [v Hv]. unfold type_size, extent. rewrite Hv.
  pose proof (proj1 (forallb_forall _ _) dt_bounds_all (t, v) (lookup_in t v Hv)) as H.
  destruct v as [s e]. simpl in *. rewrite !andb_true_iff in H. destruct H as [[H1 H2] H3].
  apply Z.ltb_lt in H1. apply Z.leb_le in H2. apply Z.leb_le in H3. lia.
Qed.

(* the size_t arithmetic of the copies does not wrap for arguments in the range of `int` *)
Lemma copy_len_small n t : valid_dt t -> 0 <= n < 2 ^ 31 -> copy_len n t = n * type_size t.
Proof.
  intros Hv Hn. unfold copy_len. rewrite (sizeof_abi t Hv).
  pose proof (dt_bounds t Hv) as (Hb1 & Hb2).
  change (2 ^ 31) with 2147483648 in Hn.
  rewrite (u64_id n) by (unfold in_u64, M64; lia).
  rewrite u64_id by (unfold in_u64, M64; nia). reflexivity.
Qed.

(* ---- collectives ---- *)
Lemma contiguous_copy_coll_ok t count displ send recv :
  valid_dt t -> 0 <= count -> 0 <= displ -> contiguous_ok t count displ ->
  count * extent t <= len send -> (displ + count) * extent t <= len recv ->
  exists r', memcpy_at recv (displ * type_size t) send 0 (count * type_size t) = Some r' /\
             coll_ok t count displ send recv r'.
Proof.
  intros Hv Hc Hd Hk Hs Hr. unfold contiguous_ok in Hk.
  pose proof (dt_bounds t Hv) as (Hb1 & Hb2).
  set (sz := type_size t) in *. set (ex := extent t) in *.
  assert (Hn : 0 <= count * sz) by nia.
  assert (Hsrc : 0 + count * sz <= len send) by nia.
  assert (Hoff : 0 <= displ * sz) by nia.
  assert (Hdst : displ * sz + count * sz <= len recv).
  { destruct Hk as [Hk|[Hk1 Hk2]]; [rewrite <- Hk; nia|]. subst displ. nia. }
  destruct (memcpy_at_spec recv (displ * sz) send 0 (count * sz) Hn ltac:(lia) Hsrc Hoff Hdst)
    as (r' & Hm & Hlen & Hin & Hout).
  exists r'. split; [assumption|].
  unfold coll_ok. fold sz ex. split; [assumption|]. split.
  - intros i o Hi Ho.
    destruct Hk as [Hk|[Hk1 Hk2]].
    + rewrite Hk in *.
      replace ((displ + i) * sz + o) with (displ * sz + (i * sz + o)) by lia.
      rewrite Hin by nia. f_equal.
    + assert (i = 0) by lia. subst i displ.
      replace ((0 + 0) * ex + o) with (0 * sz + o) by lia.
      rewrite Hin by nia. f_equal.
  - intros p Hp Hreg. apply Hout; [lia|].
    destruct Hk as [Hk|[Hk1 Hk2]].
    + rewrite Hk in *. destruct Hreg; [left; lia|right; nia].
    + subst displ. destruct Hreg as [Hreg|Hreg]; [lia|]. right. nia.
Qed.

Theorem gather_spec send recv np t nq tq :
  valid_dt t -> 0 <= np < 2 ^ 31 -> contiguous_ok t np 0 ->
  np * extent t <= len send -> np * extent t <= len recv ->
  exists r', sc_gather send np t recv nq tq = (SUCCESS, Some r') /\ coll_ok t np 0 send recv r'.
Proof.
  intros Hv Hn Hk Hs Hr. unfold sc_gather, gather_copy. rewrite (copy_len_small np t Hv Hn).
  destruct (contiguous_copy_coll_ok t np 0 send recv Hv ltac:(lia) ltac:(lia) Hk Hs ltac:(lia)) as (r' & Hm & Hok).
  simpl in Hm. exists r'. rewrite Hm. auto.
Qed.

Theorem gatherv_spec send recv np t displ :
  valid_dt t -> 0 <= np < 2 ^ 31 -> 0 <= displ < 2 ^ 31 -> contiguous_ok t np displ ->
  np * extent t <= len send -> (displ + np) * extent t <= len recv ->
  exists r', sc_gatherv send np t recv np displ t = (SUCCESS, Some r') /\ coll_ok t np displ send recv r'.
Proof.
  intros Hv Hn Hd Hk Hs Hr. unfold sc_gatherv, gatherv_copy. rewrite (copy_len_small np t Hv Hn), (copy_len_small displ t Hv Hd).
  destruct (contiguous_copy_coll_ok t np displ send recv Hv ltac:(lia) ltac:(lia) Hk Hs Hr) as (r' & Hm & Hok).
  exists r'. rewrite Hm. auto.
Qed.

Theorem reduce_spec send recv n t op :
  valid_dt t -> 0 <= n < 2 ^ 31 -> contiguous_ok t n 0 ->
  n * extent t <= len send -> n * extent t <= len recv ->
  exists r', sc_reduce send recv n t op = (SUCCESS, Some r') /\ coll_ok t n 0 send recv r'.
Proof.
  intros Hv Hn Hk Hs Hr. unfold sc_reduce, gather_copy. rewrite (copy_len_small n t Hv Hn).
  destruct (contiguous_copy_coll_ok t n 0 send recv Hv ltac:(lia) ltac:(lia) Hk Hs ltac:(lia)) as (r' & Hm & Hok).
  simpl in Hm. exists r'. rewrite Hm. auto.
Qed.

(* the statement without the guard is false: two DOUBLE_INT elements (data 12 bytes, stride 16) *)
Definition di_send : list Z := map Z.of_nat (seq 0 32).
Definition di_recv : list Z := repeat 238 32.

Theorem double_int_refuted :
  valid_dt h_MPI_DOUBLE_INT /\ 2 * extent h_MPI_DOUBLE_INT <= len di_send /\
  exists r', sc_gather di_send 2 h_MPI_DOUBLE_INT di_recv 2 h_MPI_DOUBLE_INT = (SUCCESS, Some r') /\
             ~ coll_ok h_MPI_DOUBLE_INT 2 0 di_send di_recv r'.
Proof.
  split; [eexists; vm_compute; reflexivity|]. split; [vm_compute; discriminate|].
  eexists. split; [vm_compute; reflexivity|].
  intros (_ & H & _). specialize (H 1 8 ltac:(lia) ltac:(vm_compute; split; [discriminate|reflexivity])).
  vm_compute in H. discriminate.
Qed.

(* ---- pack / unpack ---- *)
Lemma pack_bytes_small incount t : valid_dt t -> 0 <= incount -> incount * type_size t < 2 ^ 31 ->
  pack_bytes incount t = incount * type_size t.
Proof.
  intros Hv Hc Hs. unfold pack_bytes. rewrite (sizeof_abi t Hv).
  pose proof (dt_bounds t Hv) as (Hb1 & Hb2).
  change (2 ^ 31) with 2147483648 in Hs.
  rewrite (s32_id (type_size t)) by (unfold in_s32, M32; lia).
  rewrite s32_id by (unfold in_s32, M32; nia). lia.
Qed.

(* the guard of sc_MPI_Pack_size (`incount > 0 && *size > INT_MAX / incount`) is exact: it fires iff count * size >= 2^31 *)
Lemma pack_size_exact incount t : valid_dt t -> 0 <= incount < 2 ^ 31 ->
  (incount * type_size t < 2 ^ 31 -> pack_size_code incount t = SUCCESS /\ pack_size_value incount t = incount * type_size t) /\
  (2 ^ 31 <= incount * type_size t -> pack_size_code incount t = ERR_NO_SPACE /\ pack_size_value incount t = type_size t).
Proof.
  intros Hv Hc. pose proof (dt_bounds t Hv) as (Hb1 & Hb2). change (2 ^ 31) with 2147483648 in *.
  unfold pack_size_code, pack_size_value. rewrite (sizeof_abi t Hv).
  rewrite (s32_id (type_size t)) by (unfold in_s32, M32; lia).
  assert (Hr : pack_size_refuses incount (type_size t) = (2147483648 <=? incount * type_size t)).
  { unfold pack_size_refuses. destruct (Z.ltb_spec 0 incount) as [Hpos|Hz].
    - unfold cdiv. rewrite Z.quot_div_nonneg by lia. cbn [andb].
      assert (Hq : 0 <= 2147483647 / incount <= 2147483647) by (split; [apply Z.div_pos; lia|apply Z.div_le_upper_bound; nia]).
      rewrite s32_id by (unfold in_s32, M32; lia).
      destruct (Z.ltb_spec (2147483647 / incount) (type_size t)) as [H|H]; destruct (Z.leb_spec 2147483648 (incount * type_size t)) as [H'|H'];
        try reflexivity; exfalso.
      + assert (type_size t <= 2147483647 / incount) by (apply Z.div_le_lower_bound; lia). lia.
      + assert (incount * (2147483647 / incount) <= 2147483647) by (apply Z.mul_div_le; lia). nia.
    - assert (incount = 0) by lia. subst. cbn [andb]. symmetry. apply Z.leb_gt. lia. }
  rewrite Hr. split; intros H.
  - replace (2147483648 <=? incount * type_size t) with false by (symmetry; apply Z.leb_gt; lia).
    split; [reflexivity|]. apply pack_bytes_small; try assumption; try lia; change (2 ^ 31) with 2147483648; lia.
  - replace (2147483648 <=? incount * type_size t) with true by (symmetry; apply Z.leb_le; lia). split; reflexivity.
Qed.

(* the space test `size > limit - position` and the advance in `int` arithmetic: exact for EVERY position, size and limit in
   [0, 2^31) (the difference cannot wrap; a position behind the limit is refused) *)
Lemma pack_arith pos size lim : 0 <= pos < 2 ^ 31 -> 0 <= size < 2 ^ 31 -> 0 <= lim < 2 ^ 31 ->
  pack_refuses pos size lim = (pos + size >? lim) /\ u64 size = size /\
  (pos + size <= lim -> pack_advance pos size = pos + size).
Proof.
  intros Hp Hs Hl. change (2 ^ 31) with 2147483648 in *. unfold pack_refuses, pack_advance.
  rewrite s32_id by (unfold in_s32, M32; lia). rewrite u64_id by (unfold in_u64, M64; lia).
  split; [|split; [reflexivity|intros H; apply s32_id; unfold in_s32, M32; lia]].
  rewrite Z.gtb_ltb. destruct (Z.ltb_spec (lim - pos) size); destruct (Z.ltb_spec lim (pos + size)); lia || reflexivity.
Qed.

Theorem pack_spec inbuf incount t outbuf outsize pos :
  valid_dt t -> 0 <= incount < 2 ^ 31 -> contiguous_ok t incount 0 ->
  incount * extent t <= len inbuf -> len outbuf = outsize -> 0 <= pos < 2 ^ 31 -> outsize < 2 ^ 31 ->
  let '(rc, out', pos') := sc_pack inbuf incount t outbuf outsize pos in
  (rc = SUCCESS <-> pos + incount * type_size t <= outsize) /\
  (rc <> SUCCESS -> out' = Some outbuf /\ pos' = pos) /\
  (rc = SUCCESS -> exists o, out' = Some o /\ pack_ok t incount inbuf outbuf pos o pos').
Proof.
  intros Hv Hc Hk Hin Hout Hp Hos. unfold contiguous_ok in Hk. unfold sc_pack, pack_copy.
  pose proof (dt_bounds t Hv) as (Hb1 & Hb2). pose proof (len_nonneg outbuf) as Hob.
  destruct (pack_size_exact incount t Hv Hc) as (Hrep & Hnot).
  destruct (Z_lt_ge_dec (incount * type_size t) (2 ^ 31)) as [Hsm|Hbig];
    [destruct (Hrep Hsm) as (-> & ->)|destruct (Hnot ltac:(lia)) as (-> & ->)]; cbn [Z.eqb negb];
    [|change (ERR_NO_SPACE =? SUCCESS) with false; cbn [negb];
      split; [split; [discriminate|intros; lia]|]; split; [auto|]; intros H; discriminate H].
  change (SUCCESS =? SUCCESS) with true. cbn [negb].
  destruct (pack_arith pos (incount * type_size t) outsize Hp ltac:(nia) ltac:(lia)) as (-> & -> & Hadv).
  set (sz := type_size t) in *. set (ex := extent t) in *.
  destruct (pos + incount * sz >? outsize) eqn:E.
  - apply Z.gtb_lt in E. split; [split; [discriminate|intros; lia]|]. split; [auto|]. intros H; discriminate H.
  - assert (E' : pos + incount * sz <= outsize) by (destruct (Z.gtb_spec (pos + incount * sz) outsize); [discriminate|lia]).
    rewrite (Hadv E'). split; [split; [intros; assumption|reflexivity]|].
    split; [intros H; exfalso; apply H; reflexivity|]. intros _.
    destruct (memcpy_at_spec outbuf pos inbuf 0 (incount * sz) ltac:(nia) ltac:(lia) ltac:(nia) ltac:(lia) ltac:(lia))
      as (o & Hm & Hlen & Hcopy & Hrest).
    exists o. split; [assumption|]. unfold pack_ok. fold sz ex.
    split; [reflexivity|]. split; [assumption|]. split.
    + intros i k Hi Hk'.
      replace (pos + i * sz + k) with (pos + (i * sz + k)) by lia.
      rewrite Hcopy by nia.
      destruct Hk as [Hk|[Hk1 Hk2]]; [rewrite Hk; f_equal|].
      assert (i = 0) by lia. subst i. f_equal.
    + intros p Hpp Hreg. apply Hrest; lia.
Qed.

Theorem unpack_spec inbuf insize pos outbuf outcount t :
  valid_dt t -> 0 <= outcount < 2 ^ 31 -> contiguous_ok t outcount 0 ->
  len inbuf = insize -> outcount * extent t <= len outbuf -> 0 <= pos < 2 ^ 31 -> insize < 2 ^ 31 ->
  let '(rc, out', pos') := sc_unpack inbuf insize pos outbuf outcount t in
  (rc = SUCCESS <-> pos + outcount * type_size t <= insize) /\
  (rc <> SUCCESS -> out' = Some outbuf /\ pos' = pos) /\
  (rc = SUCCESS -> exists o, out' = Some o /\ unpack_ok t outcount inbuf pos outbuf o pos').
Proof.
  intros Hv Hc Hk Hin Hout Hp Hos. unfold contiguous_ok in Hk. unfold sc_unpack, unpack_copy.
  pose proof (dt_bounds t Hv) as (Hb1 & Hb2). pose proof (len_nonneg inbuf) as Hib.
  destruct (pack_size_exact outcount t Hv Hc) as (Hrep & Hnot).
  destruct (Z_lt_ge_dec (outcount * type_size t) (2 ^ 31)) as [Hsm|Hbig];
    [destruct (Hrep Hsm) as (-> & ->)|destruct (Hnot ltac:(lia)) as (-> & ->)]; cbn [Z.eqb negb];
    [|change (ERR_NO_SPACE =? SUCCESS) with false; cbn [negb];
      split; [split; [discriminate|intros; lia]|]; split; [auto|]; intros H; discriminate H].
  change (SUCCESS =? SUCCESS) with true. cbn [negb].
  destruct (pack_arith pos (outcount * type_size t) insize Hp ltac:(nia) ltac:(lia)) as (-> & -> & Hadv).
  set (sz := type_size t) in *. set (ex := extent t) in *.
  destruct (pos + outcount * sz >? insize) eqn:E.
  - apply Z.gtb_lt in E. split; [split; [discriminate|intros; lia]|]. split; [auto|]. intros H; discriminate H.
  - assert (E' : pos + outcount * sz <= insize) by (destruct (Z.gtb_spec (pos + outcount * sz) insize); [discriminate|lia]).
    rewrite (Hadv E'). split; [split; [intros; assumption|reflexivity]|].
    split; [intros H; exfalso; apply H; reflexivity|]. intros _.
    destruct (memcpy_at_spec outbuf 0 inbuf pos (outcount * sz) ltac:(nia) ltac:(lia) ltac:(lia) ltac:(lia) ltac:(nia))
      as (o & Hm & Hlen & Hcopy & Hrest).
    exists o. split; [assumption|]. unfold unpack_ok. fold sz ex.
    split; [reflexivity|]. split; [assumption|]. split.
    + intros i k Hi Hk'.
      destruct Hk as [Hk|[Hk1 Hk2]].
      * rewrite Hk. replace (i * sz + k) with (0 + (i * sz + k)) by lia.
        rewrite Hcopy by nia. f_equal. lia.
      * assert (i = 0) by lia. subst i.
        replace (0 * ex + k) with (0 + (0 * sz + k)) by lia. rewrite Hcopy by nia. f_equal. lia.
    + intros p Hpp Hreg. apply Hrest; [lia|]. right. nia.
Qed.

(* ---- codes without buffers; the space test overflows (F-C16c) ---- *)
Lemma pack_codes_spec inbuf incount t outbuf outsize pos :
  len outbuf = outsize -> u64 (pack_size_value incount t) <= len inbuf ->
  let '(rc, out', pos') := sc_pack inbuf incount t outbuf outsize pos in
  let '(rc2, pos2, over) := sc_pack_codes incount t outsize pos in
  rc = rc2 /\ pos' = pos2 /\ (over = true <-> out' = None).
Proof.
  intros Hl Hi. unfold sc_pack, sc_pack_codes, pack_copy. cbv zeta.
  destruct (negb (pack_size_code incount t =? SUCCESS)).
  { split; [reflexivity|]. split; [reflexivity|]. split; discriminate. }
  destruct (pack_refuses pos (pack_size_value incount t) outsize).
  - split; [reflexivity|]. split; [reflexivity|]. split; discriminate.
  - split; [reflexivity|]. split; [reflexivity|].
    set (n := u64 (pack_size_value incount t)) in *. pose proof (u64_range (pack_size_value incount t)) as Hr. fold n in Hr.
    unfold memcpy_at. replace ((0 <=? n) && (0 <=? 0) && (0 + n <=? len inbuf))%bool with true
      by (symmetry; rewrite !andb_true_iff; repeat split; apply Z.leb_le; lia).
    unfold put. rewrite len_take, len_drop. replace (Z.min (Z.max n 0) (Z.max 0 (len inbuf - Z.max 0 0))) with n by lia.
    rewrite Hl. destruct ((0 <=? pos) && (pos + n <=? outsize))%bool; cbn [negb]; split; try discriminate; reflexivity.
Qed.

(* ---- regression guard for F-C16c: the space test BEFORE the repair, `*position + size > outsize` ---- *)
Definition sc_pack_codes_old (count t limit position : Z) : Z * Z * bool :=
  let size := pack_bytes count t in
  if pack_refuses_old position size limit then (ERR_NO_SPACE, position, false)
  else (SUCCESS, pack_advance position size, negb ((0 <=? position) && (position + u64 size <=? limit))).

Lemma pack_codes_old_spec inbuf incount t outbuf outsize pos :
  len outbuf = outsize -> u64 (pack_bytes incount t) <= len inbuf ->
  let '(rc, out', pos') := sc_pack_old inbuf incount t outbuf outsize pos in
  let '(rc2, pos2, over) := sc_pack_codes_old incount t outsize pos in
  rc = rc2 /\ pos' = pos2 /\ (over = true <-> out' = None).
Proof.
  intros Hl Hi. unfold sc_pack_old, sc_pack_codes_old, pack_copy.
  destruct (pack_refuses_old pos (pack_bytes incount t) outsize).
  - split; [reflexivity|]. split; [reflexivity|]. split; discriminate.
  - split; [reflexivity|]. split; [reflexivity|].
    set (n := u64 (pack_bytes incount t)) in *. pose proof (u64_range (pack_bytes incount t)) as Hr. fold n in Hr.
    unfold memcpy_at. replace ((0 <=? n) && (0 <=? 0) && (0 + n <=? len inbuf))%bool with true
      by (symmetry; rewrite !andb_true_iff; repeat split; apply Z.leb_le; lia).
    unfold put. rewrite len_take, len_drop. replace (Z.min (Z.max n 0) (Z.max 0 (len inbuf - Z.max 0 0))) with n by lia.
    rewrite Hl. destruct ((0 <=? pos) && (pos + n <=? outsize))%bool; cbn [negb]; split; try discriminate; reflexivity.
Qed.

(* with the old test the statement of pack_spec is false: a legal position in a buffer of INT_MAX bytes and a request of 2
   bytes that does not fit are ACCEPTED (position + size wraps), the copy leaves the buffer and the position becomes
   INT_MIN; with the repaired test the same call is refused and nothing changes *)
Theorem pack_overflow_old_refuted :
  let t := h_MPI_BYTE in let incount := 2 in let outsize := 2 ^ 31 - 1 in let pos := 2 ^ 31 - 2 in
  valid_dt t /\ 0 <= incount /\ 0 <= pos <= outsize /\ outsize < 2 ^ 31 /\ incount * type_size t < 2 ^ 31 /\
  outsize < pos + incount * type_size t /\
  forall inbuf outbuf, len outbuf = outsize -> incount * extent t <= len inbuf ->
    (let '(rc, out', pos') := sc_pack_old inbuf incount t outbuf outsize pos in
     rc = SUCCESS /\ out' = None /\ pos' = - 2 ^ 31) /\
    sc_pack inbuf incount t outbuf outsize pos = (ERR_NO_SPACE, Some outbuf, pos).
Proof.
  cbv zeta. split; [eexists; vm_compute; reflexivity|].
  assert (Hs : type_size h_MPI_BYTE = 1) by (vm_compute; reflexivity). rewrite Hs.
  change (2 ^ 31) with 2147483648. split; [lia|]. split; [lia|]. split; [lia|]. split; [lia|]. split; [lia|].
  change 2147483648 with (2 ^ 31). intros inbuf outbuf Hl Hi. split.
  - pose proof (pack_codes_old_spec inbuf 2 h_MPI_BYTE outbuf (2 ^ 31 - 1) (2 ^ 31 - 2) Hl) as H.
    assert (Hn : u64 (pack_bytes 2 h_MPI_BYTE) = 2) by (vm_compute; reflexivity).
    assert (He : extent h_MPI_BYTE = 1) by (vm_compute; reflexivity). rewrite He in Hi.
    specialize (H ltac:(rewrite Hn; lia)).
    destruct (sc_pack_old inbuf 2 h_MPI_BYTE outbuf (2 ^ 31 - 1) (2 ^ 31 - 2)) as [[rc out'] pos'].
    assert (Hc : sc_pack_codes_old 2 h_MPI_BYTE (2 ^ 31 - 1) (2 ^ 31 - 2) = (SUCCESS, - 2 ^ 31, true)) by (vm_compute; reflexivity).
    rewrite Hc in H. destruct H as (H1 & H2 & H3). split; [assumption|]. split; [apply H3; reflexivity|assumption].
  - unfold sc_pack. cbv zeta.
    replace (pack_size_code 2 h_MPI_BYTE) with SUCCESS by (vm_compute; reflexivity).
    replace (pack_size_value 2 h_MPI_BYTE) with 2 by (vm_compute; reflexivity).
    replace (pack_refuses (2 ^ 31 - 2) 2 (2 ^ 31 - 1)) with true by (vm_compute; reflexivity).
    reflexivity.
Qed.

(* ---- regression guard for F-C16d: Pack BEFORE that repair (sc_pack_nocheck: the `int` product of Pack_size unchecked).
   (1) 2^28 long doubles (4 GiB) into a buffer of 100 bytes: the product wraps to 0, the call is ACCEPTED, nothing is packed,
       the position stays.  (2) 2^27 long doubles (2 GiB) into INT_MAX bytes: the product wraps to INT_MIN, the space test
       passes, memcpy with (size_t) INT_MIN leaves every buffer, the position becomes INT_MIN.
   The repaired sc_pack refuses both calls (ERR_NO_SPACE from Pack_size) and changes nothing. ---- *)
Theorem pack_size_overflow_old_refuted :
  let t := h_MPI_LONG_DOUBLE in
  valid_dt t /\ type_size t = 16 /\
  (forall inbuf outbuf, len outbuf = 100 ->
     sc_pack_nocheck inbuf (2 ^ 28) t outbuf 100 0 = (SUCCESS, Some outbuf, 0) /\
     sc_pack inbuf (2 ^ 28) t outbuf 100 0 = (ERR_NO_SPACE, Some outbuf, 0)) /\
  (forall inbuf outbuf, len outbuf = 2 ^ 31 - 1 -> len inbuf = 2 ^ 31 ->
     sc_pack_nocheck inbuf (2 ^ 27) t outbuf (2 ^ 31 - 1) 0 = (SUCCESS, None, - 2 ^ 31) /\
     sc_pack inbuf (2 ^ 27) t outbuf (2 ^ 31 - 1) 0 = (ERR_NO_SPACE, Some outbuf, 0)) /\
  sc_pack_size (2 ^ 28) t = (ERR_NO_SPACE, Some 16) /\ sc_pack_size (2 ^ 27) t = (ERR_NO_SPACE, Some 16) /\
  sc_pack_size (2 ^ 27 - 1) t = (SUCCESS, Some (2 ^ 31 - 16)).
Proof.
  cbv zeta. split; [eexists; vm_compute; reflexivity|]. split; [vm_compute; reflexivity|].
  assert (Hnew : forall n inbuf outbuf lim, pack_size_code n h_MPI_LONG_DOUBLE = ERR_NO_SPACE ->
            sc_pack inbuf n h_MPI_LONG_DOUBLE outbuf lim 0 = (ERR_NO_SPACE, Some outbuf, 0)).
  { intros n inbuf outbuf lim H. unfold sc_pack. cbv zeta. rewrite H. reflexivity. }
  split; [|split; [|vm_compute; repeat split]].
  - intros inbuf outbuf Hl. split; [|apply Hnew; vm_compute; reflexivity].
    unfold sc_pack_nocheck, pack_copy.
    replace (pack_bytes (2 ^ 28) h_MPI_LONG_DOUBLE) with 0 by (vm_compute; reflexivity).
    replace (pack_refuses 0 0 100) with false by (vm_compute; reflexivity).
    change (u64 0) with 0. change (pack_advance 0 0) with 0.
    unfold memcpy_at. cbn [Z.leb Z.compare andb Z.add].
    replace (0 <=? len inbuf) with true by (symmetry; apply Z.leb_le; apply len_nonneg).
    unfold drop, take. cbn [Z.to_nat skipn firstn]. unfold put. change (len []) with 0. cbn [Z.add Z.leb Z.compare andb].
    replace (0 <=? len outbuf) with true by (symmetry; apply Z.leb_le; apply len_nonneg).
    unfold take, drop. cbn [Z.to_nat skipn firstn app]. reflexivity.
  - intros inbuf outbuf Hl Hi. split; [|apply Hnew; vm_compute; reflexivity].
    unfold sc_pack_nocheck, pack_copy.
    replace (pack_bytes (2 ^ 27) h_MPI_LONG_DOUBLE) with (- 2 ^ 31) by (vm_compute; reflexivity).
    replace (pack_refuses 0 (- 2 ^ 31) (2 ^ 31 - 1)) with false by (vm_compute; reflexivity).
    replace (pack_advance 0 (- 2 ^ 31)) with (- 2 ^ 31) by (vm_compute; reflexivity).
    replace (u64 (- 2 ^ 31)) with 18446744071562067968 by (vm_compute; reflexivity).
    unfold memcpy_at. rewrite Hi.
    replace ((0 <=? 18446744071562067968) && (0 <=? 0) && (0 + 18446744071562067968 <=? 2 ^ 31))%bool with false by (vm_compute; reflexivity).
    reflexivity.
Qed.

(* ---- completion calls ---- *)
Lemma all_null_forall reqs : Forall (fun r => r = REQUEST_NULL) reqs -> all_null reqs = true.
Proof.
  unfold all_null. induction 1; simpl; [reflexivity|]. subst. rewrite Z.eqb_refl. assumption.
Qed.

Theorem completion_spec reqs : Forall (fun r => r = REQUEST_NULL) reqs ->
  sc_waitall reqs = Some SUCCESS /\
  sc_testall reqs = Some (SUCCESS, Some 1) /\
  sc_waitsome reqs = Some (SUCCESS, Some 0) /\
  sc_wait REQUEST_NULL = Some SUCCESS.
Proof.
  intros H. unfold sc_waitall, sc_testall, sc_waitsome, sc_wait.
  rewrite (all_null_forall reqs H), Z.eqb_refl. auto.
Qed.

(* Pack_size: the number of bytes when it is representable in an `int`, otherwise refusal (the element size stays in *size) *)
Theorem pack_size_spec incount t : valid_dt t -> 0 <= incount < 2 ^ 31 ->
  sc_pack_size incount t = (if incount * type_size t <? 2 ^ 31 then (SUCCESS, Some (incount * type_size t))
                            else (ERR_NO_SPACE, Some (type_size t))) /\
  sc_type_size t = (SUCCESS, Some (type_size t)).
Proof.
  intros Hv Hc. split.
  - unfold sc_pack_size. destruct (pack_size_exact incount t Hv Hc) as (Hrep & Hnot).
    destruct (Z.ltb_spec (incount * type_size t) (2 ^ 31)) as [H|H]; [destruct (Hrep H) as (-> & ->)|destruct (Hnot H) as (-> & ->)]; reflexivity.
  - unfold sc_type_size. f_equal. f_equal. rewrite sizeof_abi by assumption.
    pose proof (dt_bounds t Hv). apply s32_id. unfold in_s32, M32. lia.
Qed.
