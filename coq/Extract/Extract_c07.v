(* Extraction of the instrumented decoder models (C07). *)
From Coq Require Import Extraction ExtrOcamlBasic ZArith List.
From ScV Require Import Base.CInt Gen.Codec C06.Res C06.B64Model C06.StoredModel
  C07.PuffModel C07.DecodeModel.
Extraction "c07_model.ml"
  d_init decode_block puff nonuncompress sc_decode_info sc_decode.
