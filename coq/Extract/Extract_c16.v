(* Extraction of the C16 model (with the GENERATED sc_mpi_sizeof inside) for the correspondence run. *)
From Coq Require Import Extraction ExtrOcamlBasic ZArith List.
From ScV Require Import Gen.MpiC16 C16.MpiModel.
Extraction "c16_model.ml"
  sc_mpi_sizeof sc_gather sc_gatherv sc_allgather sc_allgatherv sc_alltoall sc_reduce sc_reduce_scatter_block sc_allreduce
  sc_scan sc_exscan sc_bcast sc_barrier sc_type_size sc_pack_size sc_pack sc_unpack
  sc_comm_size sc_comm_rank sc_comm_dup sc_comm_split sc_comm_free sc_comm_group sc_group_size sc_group_rank sc_group_free
  sc_init_thread sc_wait sc_waitall sc_testall sc_waitsome sc_error_class sc_error_string h_MPI_ERR_UNKNOWN sc_pack_codes
  h_MPI_BYTE h_MPI_CHAR h_MPI_UNSIGNED_CHAR h_MPI_SHORT h_MPI_UNSIGNED_SHORT h_MPI_INT h_MPI_UNSIGNED h_MPI_LONG
  h_MPI_UNSIGNED_LONG h_MPI_LONG_LONG_INT h_MPI_FLOAT h_MPI_DOUBLE h_MPI_LONG_DOUBLE h_MPI_2INT h_MPI_DOUBLE_INT
  h_MPI_SUCCESS h_MPI_UNDEFINED h_MPI_REQUEST_NULL h_MPI_COMM_NULL h_MPI_COMM_WORLD h_MPI_GROUP_NULL known_codes.
