(* Extraction of the C20 accessor model (hand-written objects around the GENERATED accessor bodies). *)
From Coq Require Import Extraction ExtrOcamlBasic ZArith.
From ScV Require Import Base.CInt Gen.AccessC20 C20.AccessModel.
Extraction "c20_model.ml" init_world step with_shmem w_shmem Nat.add.  (* Nat.add: the shared driver prelude mentions nat *)
