From Coq Require Import Extraction ExtrOcamlBasic ZArith.
From ScV Require Import Base.CInt Gen.Consts Gen.Search Gen.Macros MPI.Prog C03.ReduceModel C03.ReduceHist.
Extraction "c03_model.ml" reduce_prog hist_prog hist_calls sym_reduce_result w_sc_log2_32 c_SC_REDUCE_ALLTOALL_LEVEL c_SC_TAG_REDUCE.
