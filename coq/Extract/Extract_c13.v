From Coq Require Import Extraction ExtrOcamlBasic ZArith.
From ScV Require Import Base.CInt Gen.StatsC13 C13.StatsModel.
Extraction "c13_model.ml" combine local clean_rec eval build_tree mk cnt sm sq mn mx mnr mxr.
