From Coq Require Import Extraction ExtrOcamlBasic ZArith QArith.
From ScV Require Import Base.CInt Gen.StatsC13 C13.StatsModel C13.VarModel.
Extraction "c13_model.ml" combine local clean_rec eval build_tree mk cnt sm sq mn mx mnr mxr
  hist_exec round_exec run_ops step post pack vzero mkv name_set name_reset name_reset_frees mkn group_all prio_all.
