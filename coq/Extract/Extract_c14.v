From Coq Require Import Extraction ExtrOcamlBasic ZArith.
From ScV Require Import Base.CInt C14.ShmemModel.
Extraction "c14_model.ml" attach_explicit attach_split_type grid_position rank_report writer_of prun pinit conflict mem ph l_attach l_detach live l_get comms_dup l_dup l_free_dup calls_dup shmem_allgather_sig sig_bytes hstep hrun hinit h_division h_live in_force write_start.
