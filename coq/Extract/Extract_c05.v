From Coq Require Import Extraction ExtrOcamlBasic ZArith.
From ScV Require Import Base.CInt Gen.Consts MPI.Prog C05.PsortModel.
Extraction "c05_model.ml" psort_prog psort_seq psort_ops wait_loop_z f_received f_sent f_applied f_freed f_early
  c_SC_TAG_PSORT_LO c_SC_TAG_PSORT_HI.
