(* Extraction of the GENERATED C18 definitions for the translator-validation run. *)
From Coq Require Import Extraction ExtrOcamlBasic ZArith.
From ScV Require Import Base.CInt Gen.Uint128 Gen.Search Gen.Macros Gen.Functions.
Extraction "c18_model.ml"
  sc_uint128_init sc_uint128_chk_bit sc_uint128_set_bit sc_uint128_copy sc_uint128_is_equal sc_uint128_compare
  sc_uint128_add sc_uint128_sub sc_uint128_bitwise_neg sc_uint128_bitwise_or sc_uint128_bitwise_and
  sc_uint128_shift_right sc_uint128_shift_left sc_uint128_add_inplace sc_uint128_sub_inplace
  sc_uint128_bitwise_or_inplace sc_uint128_bitwise_and_inplace
  sc_uint128_add_inplace_aliased sc_uint128_sub_inplace_aliased
  sc_uint128_bitwise_or_inplace_aliased sc_uint128_bitwise_and_inplace_aliased
  sc_search_bias sc_search_lower_bound64 sc_bsearch_range
  sc_intpow sc_intpow64 sc_intpow64u
  w_sc_log2_8 w_sc_log2_16 w_sc_log2_32 w_sc_log2_32u w_sc_log2_64 w_sc_log2_64u w_sc_roundup2_32 w_sc_roundup2_64
  w_sc_min w_sc_max.
