(* Extraction of the C12 model: per-rank programs (co-simulation) and the global model (output prediction). *)
From Coq Require Import Extraction ExtrOcamlBasic ZArith.
From ScV Require Import Base.CInt MPI.Prog Gen.ErrClassC12 Gen.OpenC12 C12.FileModel C12.MpiioModel.
Extraction "c12_model.ml" scen_prog_A scen_prog_C g_scen gstate0 h_none content class_index errclass
  w_node w_fail w_open w_ledger g_w g_ctx g_s0
  scen_prog_B gB_scen gstB0 hB_none errclassB b_w.
