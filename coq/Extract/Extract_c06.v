(* Extraction of the codec models (C06) and of the GENERATED leaf functions (translator validation). *)
From Coq Require Import Extraction ExtrOcamlBasic ZArith List.
From ScV Require Import Base.CInt Gen.Codec C06.Res C06.B64Model C06.StoredModel C06.ArmorModel
  C07.PuffModel C07.DecodeModel.
Extraction "c06_model.ml"
  base64_encode_value base64_decode_value sc_io_adler32_update sc_io_noncompress_bound
  enc_base64_lines enc_encoded_size dec_base64_lines
  e_init enc_block enc_end b64_encode_all d_init decode_block
  adler_update noncompress armor sc_encode_stored sc_encoded_size
  vtk_write_binary vtk_compressed_of_blocks
  puff nonuncompress sc_decode_info sc_decode.
