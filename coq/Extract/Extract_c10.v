(* Extraction of the C10 model (allocation layer and package table of sc.c) for the correspondence run. *)
From Coq Require Import Extraction ExtrOcamlBasic ZArith List.
From ScV Require Import C10.AllocBase C10.AllocModel.
Extraction "c10_model.ml" step0 legal_step0 init status is_reg.
