(* Extraction of the C11 sink/source model for the correspondence run. *)
From Coq Require Import Extraction ExtrOcamlBasic ZArith List.
From ScV Require Import C11.IoModel.
Extraction "c11_model.ml"
  len take drop arr_resize
  sink_new_buffer sink_new_filename sink_new_filefile sink_step sink_destroy sink_content
  source_new_buffer source_new_filename source_new_filefile source_step source_destroy
  file_save file_load bwins.
