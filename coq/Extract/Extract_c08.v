(* Extraction of the C08 model (concrete machine, reference machine, legality) for the correspondence run. *)
From Coq Require Import Extraction ExtrOcamlBasic ZArith List.
From ScV Require Import Base.CInt Gen.Array C08.ArrayModel.
Extraction "c08_model.ml" c_step0 s_step0 legal_step0 cobs sobs c_content c_init s_init lget sget s_cnt s_esz s_rd.
