(* Extraction of the C09 container models for the correspondence run (ExtrOcamlBasic only). *)
From Coq Require Import Extraction ExtrOcamlBasic ZArith List.
From ScV Require Import Base.CInt Gen.HashResize C09.HashModel C09.PoolModel C09.ListModel.
Extraction "c09_model.ml"
  hash_new step elements lookup hcount slots hchecks hactions hlinks nslots
  mstamp_init mempool_new mempool_alloc mempool_free pstate_new pstep cget mp_count ps_pool ps_live ps_mem
  uc_new ustep uc_values
  list_new lstep l_pool l_count list_data.
