(* Extraction of the C09 container models for the correspondence run (ExtrOcamlBasic only). *)
From Coq Require Import Extraction ExtrOcamlBasic ZArith List.
From ScV Require Import Base.CInt Gen.HashResize Gen.AvlBalance C09.HashModel C09.PoolModel C09.ListModel.
From ScV Require Import C09.HashArrayModel C09.RecycleModel C09.KeyValueModel C09.AvlModel C09.AvlSeqModel C09.SharedModel C09.AvlRelinkModel.
Extraction "c09_model.ml"
  hash_new step elements lookup hcount slots hchecks hactions hlinks nslots
  mstamp_init mempool_new mempool_alloc mempool_free pstate_new pstep cget mp_count ps_pool ps_live ps_mem
  uc_new ustep uc_values
  list_new lstep l_pool l_count list_data
  ha_new ha_step ha_arr ha_h
  ra_init rstep ra_a ra_f ra_count
  kv_new kstep kv_hash kv_pool
  avl_new vstep a_top a_thread cnt inorder qstep
  sh_new sh_step sh_pool
  estep xstep.
