(* Extraction of the C01/C02 models: record merge at int level (compared with the static sc_notify_merge) and the
   per-rank programs of the notify algorithms (co-simulated against the traces of the real code). *)
From Coq Require Import Extraction ExtrOcamlBasic ZArith.
From ScV Require Import Base.CInt MPI.Prog Gen.Consts Gen.NotifyC01 C01.MergeModel C01.NotifyProgs C01.Reconfig.
Extraction "c01_model.ml" notify_merge decode encode rmerge live notify_prog censusv_core K_RSB K_RMA obj_run obj_obs obj_round_hist.

