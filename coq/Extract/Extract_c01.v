(* Extraction of the C01/C02 models: record merge at int level (compared with the static sc_notify_merge). *)
From Coq Require Import Extraction ExtrOcamlBasic ZArith.
From ScV Require Import Base.CInt C01.MergeModel.
Extraction "c01_model.ml" notify_merge decode encode rmerge live.
