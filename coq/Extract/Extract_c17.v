(* Extraction of the C17 options model for the correspondence run. *)
From Coq Require Import Extraction ExtrOcamlBasic ZArith List.
From ScV Require Import Base.CInt C17.OptionsModel C17.GetoptModel C17.OptionsProofs C17.DictModel.
Extraction "c17_model.ml" step empty_world get_opts strtol st_get ini_load ini_line print_dec
  getopt_calls g_reset g_start shorts_of longs_of parse_argv roundtrip_ok_b
  adict_new adict_set adict_get adict_unset dictionary_hash.
