(* Extraction of the C19 log model (hand-written state machine around the GENERATED decision functions). *)
From Coq Require Import Extraction ExtrOcamlBasic ZArith.
From ScV Require Import Base.CInt Gen.LogC19 C19.LogModel.
Extraction "c19_model.ml" init_state step observe visible.
