From Coq Require Import Extraction ExtrOcamlBasic ZArith.
From ScV Require Import Base.CInt Gen.Consts MPI.Prog C04.AllgatherModel C04.AllgatherHist.
Extraction "c04_model.ml" allgather_prog ag_prog upd slots hist_prog call_prog
  c_SC_TAG_AG_ALLTOALL c_SC_TAG_AG_RECURSIVE_A c_SC_TAG_AG_RECURSIVE_B c_SC_TAG_AG_RECURSIVE_C c_SC_ALLGATHER_ALLTOALL_MAX.
