(* Extraction of the C15 ranges model. *)
From Coq Require Import Extraction ExtrOcamlBasic ZArith.
From ScV Require Import Base.CInt C15.RangesModel.
Extraction "c15_model.ml" ranges_compute receivers senders adaptive_all empties first_last.
