(* Theorems about the translator-generated search helpers (Gen/Search.v). *)
From Coq Require Import ZArith Lia List Bool ZifyBool.
From ScV Require Import Base.CInt Gen.Search.
Local Open Scope Z_scope.
Ltac Zify.zify_post_hook ::= Z.div_mod_to_equations.

(* ---- sc_search_bias ------------------------------------------------------ *)
Lemma bias_correct m l i t :
  0 <= l <= m -> m < 31 -> 0 <= i < 2 ^ l -> 0 <= t < 2 ^ m ->
  let r := sc_search_bias m l i t in
  let w := 2 ^ (m - l) in
  i * w <= r < (i + 1) * w /\
  (forall x, i * w <= x < (i + 1) * w -> Z.abs (r - t) <= Z.abs (x - t)) /\
  (i * w <= t < (i + 1) * w -> r = t).
Proof.
  intros Hl Hm Hi Ht r w. subst r. unfold sc_search_bias. cbv zeta.
  assert (Hw : 0 < w) by (apply pow2_pos; lia).
  assert (Hlw : 2 ^ l * w = 2 ^ m) by (unfold w; rewrite <- Z.pow_add_r by lia; f_equal; lia).
  assert (Hm30 : 2 ^ m <= 2 ^ 30) by (apply Z.pow_le_mono_r; lia).
  change (2 ^ 30) with 1073741824 in Hm30.
  assert (Hiw : 0 <= i * w /\ (i + 1) * w <= 2 ^ m) by nia.
  rewrite (s32_id (m - l)) by (unfold in_s32, M32; lia).
  unfold shl. fold w. rewrite Z.mul_1_l.
  rewrite (s32_id w) by (unfold in_s32, M32; nia).
  rewrite (s32_id (i * w)) by (unfold in_s32, M32; nia).
  rewrite (s32_id (i * w + w)) by (unfold in_s32, M32; nia).
  rewrite (s32_id (w - 1)) by (unfold in_s32, M32; nia).
  replace ((i + 1) * w) with (i * w + w) by ring.
  destruct (t <? i * w) eqn:E1.
  { repeat split; intros; lia. }
  destruct (i * w + w <=? t) eqn:E2.
  { rewrite s32_id by (unfold in_s32, M32; nia). repeat split; intros; lia. }
  assert (Hland : Z.land t (w - 1) = t mod w) by (unfold w; apply land_ones_mod; lia).
  assert (Hmod : t mod w = t - i * w).
  { symmetry. apply Z.mod_unique_pos with (q := i); lia. }
  rewrite Hland, Hmod. replace (i * w + (t - i * w)) with t by ring.
  rewrite s32_id by (unfold in_s32, M32; lia).
  repeat split; intros; lia.
Qed.

(* the intervals of one level partition [0, 2^m) *)
Lemma bias_partition m l t : 0 <= l <= m -> 0 <= t < 2 ^ m ->
  exists! i, 0 <= i < 2 ^ l /\ i * 2 ^ (m - l) <= t < (i + 1) * 2 ^ (m - l).
Proof.
  intros Hl Ht. set (w := 2 ^ (m - l)).
  assert (Hw : 0 < w) by (apply pow2_pos; lia).
  assert (Hlw : 2 ^ l * w = 2 ^ m) by (unfold w; rewrite <- Z.pow_add_r by lia; f_equal; lia).
  exists (t / w). split.
  - pose proof (Z.div_mod t w ltac:(lia)). pose proof (Z.mod_pos_bound t w Hw).
    assert (0 <= t / w) by (apply Z.div_pos; lia).
    split; [split; [lia|]|nia]. apply Z.div_lt_upper_bound; lia.
  - intros i [Hi Hti]. symmetry. apply Z.div_unique with (r := t - i * w); lia.
Qed.

(* ---- sc_search_lower_bound64 --------------------------------------------- *)
Definition sorted_upto (a : Z -> Z) (n : Z) : Prop := forall i j, 0 <= i <= j -> j < n -> a i <= a j.

Definition is_first_ge (a : Z -> Z) (n t r : Z) : Prop :=
  (r = -1 /\ forall k, 0 <= k < n -> a k < t) \/
  (0 <= r < n /\ t <= a r /\ forall k, 0 <= k < r -> a k < t).

Lemma lower_bound_loop a n t : sorted_upto a n -> 0 < n <= M64 / 2 ->
  forall fuel cur g kh kl,
  kl <= g <= kh -> kh < n -> 0 <= kl ->
  (0 < kl -> a (kl - 1) < t) ->
  (kh < n - 1 -> t <= a kh) ->
  (Z.to_nat (kh - kl) < fuel)%nat ->
  exists r, is_first_ge a n t r /\
    match sc_search_lower_bound64_loop1 fuel a t cur g kh kl with
    | Some (inr x) => x = -1 /\ r = -1
    | Some (inl (_, g', _, _)) => r = g' /\ 0 <= g' < n
    | None => False
    end.
Proof.
  intros Hs Hn. induction fuel as [|fuel IH]; intros cur g kh kl Hg Hkh Hkl Hlo Hhi Hf; [lia|].
  cbn [sc_search_lower_bound64_loop1]. cbv zeta.
  unfold M64 in Hn. simpl in Hn.
  destruct ((t <=? a g) && ((0 <? g) && (t <=? a (u64 (g - 1))))) eqn:Ec.
  - (* search lower *)
    apply andb_prop in Ec. destruct Ec as [E1 Ec]. apply andb_prop in Ec. destruct Ec as [E2 E3].
    rewrite (u64_id (g - 1)) in * by (unfold M64; lia).
    assert (Hgk : kl < g).
    { destruct (Z.eq_dec kl g) as [->|]; [|lia]. assert (a (g - 1) < t) by (apply Hlo; lia). lia. }
    rewrite (u64_id (kl + (g - 1))) by (unfold M64; lia).
    rewrite (u64_id (kl + (g - 1) + 1)) by (unfold M64; lia).
    apply IH; try lia.
  - destruct (a g <? t) eqn:E4.
    + rewrite (u64_id (g + 1)) by (unfold M64; lia).
      destruct (kh <? g + 1) eqn:E5.
      * exists (-1). split; [|split; reflexivity]. left. split; [reflexivity|].
        assert (g = kh) by lia. subst g.
        assert (kh = n - 1). { destruct (Z.eq_dec kh (n - 1)); [assumption|]. assert (t <= a kh) by (apply Hhi; lia). lia. }
        intros k Hk. assert (a k <= a kh) by (apply Hs; lia). lia.
      * rewrite (u64_id (g + 1 + kh)) by (unfold M64; lia).
        apply IH; try lia. intros _. replace (g + 1 - 1) with g by lia. lia.
    + exists g. split; [|split; [reflexivity|lia]].
      right. split; [lia|]. split; [lia|]. intros k Hk.
      destruct (0 <? g) eqn:E2; [|lia].
      rewrite (u64_id (g - 1)) in Ec by (unfold M64; lia).
      assert (a k <= a (g - 1)) by (apply Hs; lia). lia.
Qed.

Lemma lower_bound_correct a n t g fuel :
  sorted_upto a n -> 0 <= n <= M64 / 2 -> (n = 0 \/ 0 <= g < n) -> (Z.to_nat n <= fuel)%nat ->
  exists r, sc_search_lower_bound64 fuel t a n g = Some r /\ is_first_ge a n t r.
Proof.
  intros Hs Hn Hg Hf. unfold sc_search_lower_bound64. cbv zeta.
  destruct (n =? 0) eqn:E0.
  { exists (-1). split; [reflexivity|]. left. split; [reflexivity|]. intros; lia. }
  assert (Hn' : 0 < n <= M64 / 2) by lia.
  rewrite (u64_id (n - 1)) by (unfold M64 in *; simpl in *; lia).
  destruct (lower_bound_loop a n t Hs Hn' fuel 0 g (n - 1) 0) as [r [Hr Hm]]; try lia.
  destruct (sc_search_lower_bound64_loop1 fuel a t 0 g (n - 1) 0) as [[[[[c g'] kh'] kl']|x]|]; [| |contradiction].
  - destruct Hm as [-> Hg']. exists g'. split; [|exact Hr].
    rewrite s64_id by (unfold in_s64, M64 in *; simpl in *; lia). reflexivity.
  - destruct Hm as [-> ->]. exists (-1). split; [reflexivity|exact Hr].
Qed.

Lemma first_ge_unique a n t r1 r2 : is_first_ge a n t r1 -> is_first_ge a n t r2 -> r1 = r2.
Proof.
  intros [[-> H1]|[H1 [H1a H1b]]] [[-> H2]|[H2 [H2a H2b]]]; try reflexivity.
  - specialize (H1 r2 H2). lia.
  - specialize (H2 r1 H1). lia.
  - destruct (Z.lt_trichotomy r1 r2) as [H|[H|H]]; [|assumption|].
    + specialize (H2b r1 ltac:(lia)). lia.
    + specialize (H1b r2 ltac:(lia)). lia.
Qed.

(* ---- sc_bsearch_range ------------------------------------------------------ *)
(* The array has n + 1 entries a 0 .. a n; cmp_ke i is compar (key, a i), cmp_ek i is compar (a i, key). *)
Definition is_range_index (a : Z -> Z) (n key r : Z) : Prop :=
  (0 <= r < n /\ a r <= key < a (r + 1)) \/
  (r = n /\ forall k, 0 <= k < n -> ~ (a k <= key < a (k + 1))).

Section BsearchRange.
  Variables (a : Z -> Z) (n key : Z) (cmp_ke cmp_ek : Z -> Z).
  Hypothesis Hsorted : forall i j, 0 <= i <= j -> j <= n -> a i <= a j.
  Hypothesis Hke : forall i, 0 <= i <= n -> (cmp_ke i < 0 <-> key < a i).
  Hypothesis Hek : forall i, 0 <= i <= n -> (cmp_ek i <= 0 <-> a i <= key).
  Hypothesis Hn : 0 < n <= M64 / 2.

  Lemma bsearch_range_loop : forall fuel g kh kl,
    kl <= g <= kh -> kh < n -> 0 <= kl ->
    (0 < kl -> a kl <= key) ->
    (kh < n - 1 -> key < a (kh + 1)) ->
    (Z.to_nat (kh - kl) < fuel)%nat ->
    exists r, is_range_index a n key r /\
      match sc_bsearch_range_loop1 fuel cmp_ke cmp_ek n g kh kl with
      | Some (inr x) => x = r
      | Some (inl (g', _, _)) => g' = r
      | None => False
      end.
  Proof.
    unfold M64 in Hn; simpl in Hn.
    induction fuel as [|fuel IH]; intros g kh kl Hg Hkh Hkl Hlo Hhi Hf; [lia|].
    cbn [sc_bsearch_range_loop1]. cbv zeta.
    destruct (cmp_ke g <? 0) eqn:E1.
    - assert (Hk : key < a g) by (apply Hke; lia).
      destruct (g =? kl) eqn:E2.
      + exists n. split; [|reflexivity]. right. split; [reflexivity|].
        assert (g = kl) by lia. subst g.
        assert (kl = 0). { destruct (Z.eq_dec kl 0); [assumption|]. assert (a kl <= key) by (apply Hlo; lia). lia. }
        subst kl. intros k Hk0 [Hk1 Hk2]. assert (a 0 <= a k) by (apply Hsorted; lia). lia.
      + rewrite (u64_id (g - 1)) by (unfold M64; lia).
        rewrite (u64_id (kl + (g - 1))) by (unfold M64; lia).
        rewrite (u64_id (kl + (g - 1) + 1)) by (unfold M64; lia).
        apply IH; try lia. intros _. replace (g - 1 + 1) with g by lia. exact Hk.
    - assert (Hk : a g <= key). { destruct (Z.le_gt_cases (a g) key); [assumption|]. assert (cmp_ke g < 0) by (apply Hke; lia). lia. }
      rewrite (u64_id (g + 1)) by (unfold M64; lia).
      destruct (cmp_ek (g + 1) <=? 0) eqn:E3.
      + assert (Hk2 : a (g + 1) <= key) by (apply Hek; lia).
        destruct (g =? kh) eqn:E4.
        * exists n. split; [|reflexivity]. right. split; [reflexivity|].
          assert (g = kh) by lia. subst g.
          assert (kh = n - 1). { destruct (Z.eq_dec kh (n - 1)); [assumption|]. assert (key < a (kh + 1)) by (apply Hhi; lia). lia. }
          subst kh. replace (n - 1 + 1) with n in Hk2 by lia.
          intros k Hk0 [Hk1 Hk3]. assert (a (k + 1) <= a n) by (apply Hsorted; lia). lia.
        * rewrite (u64_id (g + 1 + kh)) by (unfold M64; lia).
          apply IH; try lia.
      + exists g. split; [|reflexivity]. left. split; [lia|]. split; [exact Hk|].
        destruct (Z.le_gt_cases (a (g + 1)) key) as [Hle|Hgt]; [|lia].
        assert (cmp_ek (g + 1) <= 0) by (apply Hek; lia). lia.
  Qed.

  Lemma bsearch_range_correct fuel : (Z.to_nat n <= fuel)%nat ->
    exists r, sc_bsearch_range fuel cmp_ke cmp_ek n = Some r /\ is_range_index a n key r.
  Proof.
    intros Hf. unfold sc_bsearch_range. cbv zeta.
    unfold M64 in Hn; simpl in Hn.
    destruct (n =? 0) eqn:E0; [lia|].
    rewrite (u64_id (n - 1)) by (unfold M64; lia).
    destruct (bsearch_range_loop fuel (n / 2) (n - 1) 0) as [r [Hr Hm]]; try lia.
    destruct (sc_bsearch_range_loop1 fuel cmp_ke cmp_ek n (n / 2) (n - 1) 0) as [[[[g' kh'] kl']|x]|]; [| |contradiction].
    - exists r. subst g'. split; [reflexivity|exact Hr].
    - exists r. subst x. split; [reflexivity|exact Hr].
  Qed.
End BsearchRange.

Lemma bsearch_range_empty fuel cmp_ke cmp_ek : sc_bsearch_range fuel cmp_ke cmp_ek 0 = Some 0.
Proof. reflexivity. Qed.

Lemma range_index_unique a n key r1 r2 :
  (forall i j, 0 <= i <= j -> j <= n -> a i <= a j) ->
  is_range_index a n key r1 -> is_range_index a n key r2 -> r1 = r2.
Proof.
  intros Hs [[H1 H1a]|[-> H1]] [[H2 H2a]|[-> H2]]; try reflexivity.
  - destruct (Z.lt_trichotomy r1 r2) as [H|[H|H]]; [|assumption|].
    + assert (a (r1 + 1) <= a r2) by (apply Hs; lia). lia.
    + assert (a (r2 + 1) <= a r1) by (apply Hs; lia). lia.
  - exfalso. apply (H2 r1 H1). exact H1a.
  - exfalso. apply (H1 r2 H2). exact H2a.
Qed.
