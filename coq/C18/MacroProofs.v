(* Theorems about the generated log2 / round-up macros and integer powers. *)
From Coq Require Import ZArith Lia List Bool ZifyBool.
From ScV Require Import Base.CInt Gen.Macros Gen.Functions.
Import ListNotations.
Local Open Scope Z_scope.
Ltac Zify.zify_post_hook ::= Z.div_mod_to_equations.

(* ---- the 256-entry table, checked entry by entry (finite domain) ----------- *)
Definition table_ok : bool :=
  forallb (fun n => sc_log2_lookup_table (Z.of_nat n) =? (if (n =? 0)%nat then -1 else Z.log2 (Z.of_nat n))) (seq 0 256).

Lemma table_ok_true : table_ok = true.
Proof. vm_compute. reflexivity. Qed.

Lemma table_correct x : 0 < x < 256 -> sc_log2_lookup_table x = Z.log2 x.
Proof.
  intros Hx. pose proof table_ok_true as H. unfold table_ok in H.
  rewrite forallb_forall in H. specialize (H (Z.to_nat x)).
  rewrite Z2Nat.id in H by lia.
  assert (Hin : In (Z.to_nat x) (seq 0 256)) by (apply in_seq; lia).
  specialize (H Hin). destruct (Nat.eqb_spec (Z.to_nat x) 0); [lia|]. lia.
Qed.

Lemma table_zero : sc_log2_lookup_table 0 = -1.
Proof. reflexivity. Qed.

Lemma table_length : length sc_log2_lookup_table_list = 256%nat.
Proof. reflexivity. Qed.

Lemma log2_step x k : 0 <= k -> 2 ^ k <= x -> Z.log2 x = Z.log2 (x / 2 ^ k) + k.
Proof.
  intros Hk Hx. rewrite <- Z.shiftr_div_pow2 by lia. rewrite Z.log2_shiftr by (pose proof (pow2_pos k Hk); lia).
  assert (k <= Z.log2 x) by (apply Z.log2_le_pow2; [pose proof (pow2_pos k Hk); lia|lia]). lia.
Qed.

Lemma log2_small x n : 0 <= n -> 0 < x < 2 ^ n -> 0 <= Z.log2 x < n.
Proof. intros Hn Hx. split; [apply Z.log2_nonneg|]. apply Z.log2_lt_pow2; lia. Qed.

Lemma div_range x k n : 0 <= k <= n -> 2 ^ k <= x < 2 ^ n -> 0 < x / 2 ^ k < 2 ^ (n - k).
Proof.
  intros Hk Hx. pose proof (pow2_pos k ltac:(lia)).
  split.
  - apply Z.div_str_pos; lia.
  - apply Z.div_lt_upper_bound; [lia|]. rewrite <- Z.pow_add_r by lia. replace (k + (n - k)) with n by lia. lia.
Qed.

Lemma log2_16_correct x : 0 < x < 2 ^ 16 -> w_sc_log2_16 x = Z.log2 x.
Proof.
  intros Hx. unfold w_sc_log2_16, shr. destruct (255 <? x) eqn:E.
  - pose proof (div_range x 8 16 ltac:(lia) ltac:(change (2^8) with 256; lia)) as Hd. change (2 ^ (16 - 8)) with 256 in Hd.
    rewrite table_correct by lia. rewrite (log2_step x 8) by (change (2^8) with 256; lia).
    pose proof (log2_small (x / 2 ^ 8) 8 ltac:(lia) Hd). rewrite s32_id by (unfold in_s32, M32; lia). reflexivity.
  - apply table_correct. lia.
Qed.

Lemma log2_32_unfold x : w_sc_log2_32 x = if 65535 <? x then s32 (w_sc_log2_16 (shr x 16) + 16) else w_sc_log2_16 x.
Proof. reflexivity. Qed.
Lemma log2_32u_unfold x : w_sc_log2_32u x = if 65535 <? x then s32 (w_sc_log2_16 (shr x 16) + 16) else w_sc_log2_16 x.
Proof. reflexivity. Qed.

Lemma log2_32u_correct x : 0 < x < 2 ^ 32 -> w_sc_log2_32u x = Z.log2 x.
Proof.
  intros Hx. rewrite log2_32u_unfold. unfold shr. destruct (65535 <? x) eqn:E.
  - pose proof (div_range x 16 32 ltac:(lia) ltac:(change (2^16) with 65536; lia)) as Hd. change (2 ^ (32 - 16)) with (2 ^ 16) in Hd.
    rewrite log2_16_correct by exact Hd. rewrite (log2_step x 16) by (change (2^16) with 65536; lia).
    pose proof (log2_small (x / 2 ^ 16) 16 ltac:(lia) Hd). rewrite s32_id by (unfold in_s32, M32; lia). reflexivity.
  - apply log2_16_correct. change (2 ^ 16) with 65536. lia.
Qed.

Lemma log2_32_correct x : 0 < x < 2 ^ 31 -> w_sc_log2_32 x = Z.log2 x.
Proof.
  intros Hx. rewrite log2_32_unfold, <- log2_32u_unfold. apply log2_32u_correct.
  change (2 ^ 31) with 2147483648 in Hx. change (2 ^ 32) with 4294967296. lia.
Qed.

Lemma log2_64u_unfold x : w_sc_log2_64u x = if 4294967295 <? x then s32 (w_sc_log2_32u (shr x 32) + 32) else w_sc_log2_32u x.
Proof. reflexivity. Qed.
Lemma log2_64_unfold x : w_sc_log2_64 x = if 4294967295 <? x then s32 (w_sc_log2_32u (shr x 32) + 32) else w_sc_log2_32u x.
Proof. reflexivity. Qed.

Lemma log2_64u_correct x : 0 < x < 2 ^ 64 -> w_sc_log2_64u x = Z.log2 x.
Proof.
  intros Hx. rewrite log2_64u_unfold. unfold shr. destruct (4294967295 <? x) eqn:E.
  - pose proof (div_range x 32 64 ltac:(lia) ltac:(change (2^32) with 4294967296; lia)) as Hd. change (2 ^ (64 - 32)) with (2 ^ 32) in Hd.
    rewrite log2_32u_correct by exact Hd. rewrite (log2_step x 32) by (change (2^32) with 4294967296; lia).
    pose proof (log2_small (x / 2 ^ 32) 32 ltac:(lia) Hd). rewrite s32_id by (unfold in_s32, M32; lia). reflexivity.
  - apply log2_32u_correct. change (2 ^ 32) with 4294967296. lia.
Qed.

Lemma log2_64_correct x : 0 < x < 2 ^ 63 -> w_sc_log2_64 x = Z.log2 x.
Proof.
  intros Hx. rewrite log2_64_unfold, <- log2_64u_unfold. apply log2_64u_correct.
  change (2 ^ 63) with 9223372036854775808 in Hx. change (2 ^ 64) with 18446744073709551616. lia.
Qed.

(* the macros applied to 0 give -1 (used by ROUNDUP2 at x = 1) *)
Lemma log2_32_zero : w_sc_log2_32 0 = -1.  Proof. reflexivity. Qed.
Lemma log2_64_zero : w_sc_log2_64 0 = -1.  Proof. reflexivity. Qed.

Lemma roundup2_32_unfold x : w_sc_roundup2_32 x = if x <=? 0 then 0 else s32 (shl 1 (s32 (w_sc_log2_32 (s32 (x - 1)) + 1))).
Proof. reflexivity. Qed.
Lemma roundup2_64_unfold x : w_sc_roundup2_64 x = if x <=? 0 then 0 else s64 (shl 1 (s32 (w_sc_log2_64 (s64 (x - 1)) + 1))).
Proof. reflexivity. Qed.

Definition is_roundup2 (x r : Z) : Prop := x <= r /\ (exists k, 0 <= k /\ r = 2 ^ k) /\ (forall k, 0 <= k -> x <= 2 ^ k -> r <= 2 ^ k).

Lemma roundup2_spec x k : 1 < x -> k = Z.log2 (x - 1) -> is_roundup2 x (2 ^ (k + 1)).
Proof.
  intros Hx ->. pose proof (Z.log2_spec (x - 1) ltac:(lia)) as [Hlo Hhi].
  pose proof (Z.log2_nonneg (x - 1)).
  replace (Z.succ (Z.log2 (x - 1))) with (Z.log2 (x - 1) + 1) in Hhi by lia.
  split; [lia|]. split; [exists (Z.log2 (x - 1) + 1); lia|].
  intros j Hj Hxj. destruct (Z.le_gt_cases (Z.log2 (x - 1) + 1) j) as [Hle|Hgt]; [apply Z.pow_le_mono_r; lia|].
  assert (2 ^ j <= 2 ^ Z.log2 (x - 1)) by (apply Z.pow_le_mono_r; lia). lia.
Qed.

Lemma roundup2_32_correct x : 0 < x <= 2 ^ 30 -> is_roundup2 x (w_sc_roundup2_32 x).
Proof.
  intros Hx. rewrite roundup2_32_unfold. destruct (x <=? 0) eqn:E; [lia|].
  change (2 ^ 30) with 1073741824 in Hx.
  rewrite (s32_id (x - 1)) by (unfold in_s32, M32; lia).
  destruct (Z.eq_dec x 1) as [->|Hx1].
  { replace (s32 (shl 1 (s32 (w_sc_log2_32 (1 - 1) + 1)))) with 1 by (vm_compute; reflexivity).
    split; [lia|]. split; [exists 0; split; [lia|reflexivity]|]. intros k Hk Hle. exact Hle. }
  rewrite log2_32_correct by (change (2 ^ 31) with 2147483648; lia).
  assert (Hk : 0 <= Z.log2 (x - 1) < 30).
  { split; [apply Z.log2_nonneg|]. apply Z.log2_lt_pow2; [lia|]. change (2 ^ 30) with 1073741824. lia. }
  rewrite (s32_id (Z.log2 (x - 1) + 1)) by (unfold in_s32, M32; lia).
  unfold shl. rewrite Z.mul_1_l.
  assert (Hp : 0 < 2 ^ (Z.log2 (x - 1) + 1) <= 2 ^ 30).
  { split; [apply pow2_pos; lia|apply Z.pow_le_mono_r; lia]. }
  change (2 ^ 30) with 1073741824 in Hp.
  rewrite s32_id by (unfold in_s32, M32; lia).
  apply roundup2_spec; [lia|reflexivity].
Qed.

Lemma roundup2_64_correct x : 0 < x <= 2 ^ 62 -> is_roundup2 x (w_sc_roundup2_64 x).
Proof.
  intros Hx. rewrite roundup2_64_unfold. destruct (x <=? 0) eqn:E; [lia|].
  change (2 ^ 62) with 4611686018427387904 in Hx.
  rewrite (s64_id (x - 1)) by (unfold in_s64, M64; lia).
  destruct (Z.eq_dec x 1) as [->|Hx1].
  { replace (s64 (shl 1 (s32 (w_sc_log2_64 (1 - 1) + 1)))) with 1 by (vm_compute; reflexivity).
    split; [lia|]. split; [exists 0; split; [lia|reflexivity]|]. intros k Hk Hle. exact Hle. }
  rewrite log2_64_correct by (change (2 ^ 63) with 9223372036854775808; lia).
  assert (Hk : 0 <= Z.log2 (x - 1) < 62).
  { split; [apply Z.log2_nonneg|]. apply Z.log2_lt_pow2; [lia|]. change (2 ^ 62) with 4611686018427387904. lia. }
  rewrite (s32_id (Z.log2 (x - 1) + 1)) by (unfold in_s32, M32; lia).
  unfold shl. rewrite Z.mul_1_l.
  assert (Hp : 0 < 2 ^ (Z.log2 (x - 1) + 1) <= 2 ^ 62).
  { split; [apply pow2_pos; lia|apply Z.pow_le_mono_r; lia]. }
  change (2 ^ 62) with 4611686018427387904 in Hp.
  rewrite s64_id by (unfold in_s64, M64; lia).
  apply roundup2_spec; [lia|reflexivity].
Qed.

Lemma roundup2_32_nonpos x : x <= 0 -> w_sc_roundup2_32 x = 0.
Proof. intros. rewrite roundup2_32_unfold. destruct (x <=? 0) eqn:E; [reflexivity|lia]. Qed.

Lemma min_correct a b : w_sc_min a b = Z.min a b.
Proof. unfold w_sc_min. destruct (a <? b) eqn:E; lia. Qed.
Lemma max_correct a b : w_sc_max a b = Z.max a b.
Proof. unfold w_sc_max. destruct (b <? a) eqn:E; lia. Qed.
