(* Laws that COMPOSITIONS of the translator-generated 128-bit operations (Gen/Uint128.v) obey: what a user
   who chains the calls relies on (sub undoes add, shifts compose and cancel, set_bit is seen by chk_bit and by
   nothing else, compare is a total order that add respects, neg/or/and are the Boolean algebra of 128 bits).
   Every proof goes through the characterising lemmas of Uint128Proofs.v (the interface), so the laws follow
   the source exactly as far as those lemmas do. *)
From Coq Require Import ZArith Lia List Bool ZifyBool.
From ScV Require Import Base.CInt Gen.Uint128 C18.Uint128Proofs.
Local Open Scope Z_scope.
Ltac Zify.zify_post_hook ::= Z.div_mod_to_equations.

Lemma val128_eta (p : Z * Z) : val128 (fst p, snd p) = val128 p.
Proof. reflexivity. Qed.

Lemma val128_inj ah al bh bl : wf128 ah al -> wf128 bh bl ->
  val128 (ah, al) = val128 (bh, bl) -> (ah, al) = (bh, bl).
Proof. unfold wf128, in_u64, val128, M64; simpl. intros [? ?] [? ?] Hv. f_equal; lia. Qed.

Lemma res_eq (p : Z * Z) ah al : wf128 (fst p) (snd p) -> wf128 ah al ->
  val128 p = val128 (ah, al) -> p = (ah, al).
Proof. destruct p as [h l]; simpl fst; simpl snd; intros; apply val128_inj; assumption. Qed.

Lemma res_eq2 (p q : Z * Z) : wf128 (fst p) (snd p) -> wf128 (fst q) (snd q) ->
  val128 p = val128 q -> p = q.
Proof. destruct q as [h l]; simpl fst; simpl snd; intros; apply res_eq; assumption. Qed.

Lemma M128_pos : 0 < M128. Proof. reflexivity. Qed.

(* ---- results of the bit operations are well formed ------------------ *)
Lemma or_wf ah al bh bl rh rl : wf128 ah al -> wf128 bh bl ->
  wf128 (fst (sc_uint128_bitwise_or ah al bh bl rh rl)) (snd (sc_uint128_bitwise_or ah al bh bl rh rl)).
Proof.
  intros [Hah Hal] [Hbh Hbl]. unfold sc_uint128_bitwise_or; cbv zeta; simpl fst; simpl snd.
  split; apply lor_range; assumption.
Qed.

Lemma and_wf ah al bh bl rh rl : wf128 ah al -> wf128 bh bl ->
  wf128 (fst (sc_uint128_bitwise_and ah al bh bl rh rl)) (snd (sc_uint128_bitwise_and ah al bh bl rh rl)).
Proof.
  intros [Hah Hal] [Hbh Hbl]. unfold sc_uint128_bitwise_and; cbv zeta; simpl fst; simpl snd.
  split; apply land_range; unfold in_u64 in *; try assumption; lia.
Qed.

Lemma neg_wf h l rh rl :
  wf128 (fst (sc_uint128_bitwise_neg h l rh rl)) (snd (sc_uint128_bitwise_neg h l rh rl)).
Proof.
  unfold sc_uint128_bitwise_neg; cbv zeta; simpl fst; simpl snd.
  split; unfold in_u64, u64, wrapu, M64; lia.
Qed.

Lemma set_bit_wf h l e : wf128 h l -> 0 <= e < 128 ->
  wf128 (fst (sc_uint128_set_bit h l e)) (snd (sc_uint128_set_bit h l e)).
Proof.
  intros [Hh Hl] He. unfold sc_uint128_set_bit. destruct (e <? 64) eqn:E; cbv zeta; simpl fst; simpl snd.
  - split; [assumption|]. apply lor_range; [assumption|]. unfold u64, wrapu, M64; lia.
  - split; [|assumption]. apply lor_range; [assumption|]. unfold u64, wrapu, M64; lia.
Qed.

(* ---- add / sub: the additive group modulo 2^128 ---------------------- *)
Lemma add_sub_cancel ah al bh bl rh rl rh' rl' : wf128 ah al -> wf128 bh bl ->
  let s := sc_uint128_add ah al bh bl rh rl in
  sc_uint128_sub (fst s) (snd s) bh bl rh' rl' = (ah, al).
Proof.
  intros Ha Hb s. destruct (add_correct ah al bh bl rh rl Ha Hb) as [Hv Hw]. fold s in Hv, Hw.
  destruct (sub_correct (fst s) (snd s) bh bl rh' rl' Hw Hb) as [Hv2 Hw2].
  apply res_eq; [exact Hw2 | exact Ha |]. rewrite Hv2, val128_eta, Hv.
  pose proof (val128_range ah al Ha) as Ra. pose proof (val128_range bh bl Hb) as Rb.
  set (A := val128 (ah, al)) in *. set (B := val128 (bh, bl)) in *. clearbody A B.
  unfold M128, M64 in *. lia.
Qed.

Lemma sub_add_cancel ah al bh bl rh rl rh' rl' : wf128 ah al -> wf128 bh bl ->
  let s := sc_uint128_sub ah al bh bl rh rl in
  sc_uint128_add (fst s) (snd s) bh bl rh' rl' = (ah, al).
Proof.
  intros Ha Hb s. destruct (sub_correct ah al bh bl rh rl Ha Hb) as [Hv Hw]. fold s in Hv, Hw.
  destruct (add_correct (fst s) (snd s) bh bl rh' rl' Hw Hb) as [Hv2 Hw2].
  apply res_eq; [exact Hw2 | exact Ha |]. rewrite Hv2, val128_eta, Hv.
  pose proof (val128_range ah al Ha) as Ra. pose proof (val128_range bh bl Hb) as Rb.
  set (A := val128 (ah, al)) in *. set (B := val128 (bh, bl)) in *. clearbody A B.
  unfold M128, M64 in *. lia.
Qed.

Lemma add_comm ah al bh bl rh rl rh' rl' : wf128 ah al -> wf128 bh bl ->
  sc_uint128_add ah al bh bl rh rl = sc_uint128_add bh bl ah al rh' rl'.
Proof.
  intros Ha Hb. destruct (add_correct ah al bh bl rh rl Ha Hb) as [Hv Hw].
  destruct (add_correct bh bl ah al rh' rl' Hb Ha) as [Hv2 Hw2].
  apply res_eq2; [exact Hw | exact Hw2 |]. rewrite Hv, Hv2. f_equal. ring.
Qed.

Lemma add_assoc ah al bh bl ch cl r1 r2 r3 r4 r5 r6 r7 r8 : wf128 ah al -> wf128 bh bl -> wf128 ch cl ->
  let ab := sc_uint128_add ah al bh bl r1 r2 in
  let bc := sc_uint128_add bh bl ch cl r3 r4 in
  sc_uint128_add (fst ab) (snd ab) ch cl r5 r6 = sc_uint128_add ah al (fst bc) (snd bc) r7 r8.
Proof.
  intros Ha Hb Hc ab bc.
  destruct (add_correct ah al bh bl r1 r2 Ha Hb) as [Hab Wab]. fold ab in Hab, Wab.
  destruct (add_correct bh bl ch cl r3 r4 Hb Hc) as [Hbc Wbc]. fold bc in Hbc, Wbc.
  destruct (add_correct (fst ab) (snd ab) ch cl r5 r6 Wab Hc) as [H1 W1].
  destruct (add_correct ah al (fst bc) (snd bc) r7 r8 Ha Wbc) as [H2 W2].
  apply res_eq2; [exact W1 | exact W2 |]. rewrite H1, H2, !val128_eta, Hab, Hbc.
  rewrite Z.add_mod_idemp_l, Z.add_mod_idemp_r by (unfold M128, M64; lia). f_equal. ring.
Qed.

Lemma add_zero ah al rh rl : wf128 ah al -> sc_uint128_add ah al 0 0 rh rl = (ah, al).
Proof.
  intros Ha. assert (H0 : wf128 0 0) by (unfold wf128, in_u64, M64; lia).
  destruct (add_correct ah al 0 0 rh rl Ha H0) as [Hv Hw].
  apply res_eq; [exact Hw | exact Ha |]. rewrite Hv.
  pose proof (val128_range ah al Ha) as Ra. change (val128 (0, 0)) with 0.
  rewrite Z.add_0_r. apply Z.mod_small. exact Ra.
Qed.

(* two's complement: a - b = a + ~b + 1 *)
Lemma sub_as_add_neg ah al bh bl r1 r2 r3 r4 r5 r6 r7 r8 : wf128 ah al -> wf128 bh bl ->
  let nb := sc_uint128_bitwise_neg bh bl r1 r2 in
  let t := sc_uint128_add ah al (fst nb) (snd nb) r3 r4 in
  sc_uint128_sub ah al bh bl r7 r8 = sc_uint128_add (fst t) (snd t) 0 1 r5 r6.
Proof.
  intros Ha Hb nb t. assert (H1 : wf128 0 1) by (unfold wf128, in_u64, M64; lia).
  pose proof (neg_wf bh bl r1 r2) as Wn. fold nb in Wn.
  pose proof (neg_correct bh bl r1 r2 Hb) as Hn. fold nb in Hn.
  destruct (add_correct ah al (fst nb) (snd nb) r3 r4 Ha Wn) as [Ht Wt]. fold t in Ht, Wt.
  destruct (add_correct (fst t) (snd t) 0 1 r5 r6 Wt H1) as [Hu Wu].
  destruct (sub_correct ah al bh bl r7 r8 Ha Hb) as [Hs Ws].
  apply res_eq2; [exact Ws | exact Wu |]. rewrite Hs, Hu, val128_eta, Ht, val128_eta, Hn.
  change (val128 (0, 1)) with 1.
  pose proof (val128_range ah al Ha) as Ra. pose proof (val128_range bh bl Hb) as Rb.
  set (A := val128 (ah, al)) in *. set (B := val128 (bh, bl)) in *. clearbody A B.
  unfold M128, M64 in *. lia.
Qed.

(* ---- Boolean algebra -------------------------------------------------- *)
Lemma neg_involutive h l r1 r2 r3 r4 : wf128 h l ->
  let n := sc_uint128_bitwise_neg h l r1 r2 in
  sc_uint128_bitwise_neg (fst n) (snd n) r3 r4 = (h, l).
Proof.
  intros Hw n. pose proof (neg_wf h l r1 r2) as Wn. fold n in Wn.
  pose proof (neg_correct h l r1 r2 Hw) as Hn. fold n in Hn.
  apply res_eq; [apply neg_wf | exact Hw |].
  rewrite (neg_correct (fst n) (snd n) r3 r4 Wn), val128_eta, Hn. lia.
Qed.

Lemma lnot128 x : 0 <= x < M128 -> M128 - 1 - x = Z.land (Z.lnot x) (Z.ones 128).
Proof.
  intros Hx. rewrite Z.land_ones by lia. unfold Z.lnot. change (2 ^ 128) with M128.
  unfold M128, M64 in *. lia.
Qed.

Lemma de_morgan_or ah al bh bl r1 r2 r3 r4 r5 r6 r7 r8 r9 r10 : wf128 ah al -> wf128 bh bl ->
  let o := sc_uint128_bitwise_or ah al bh bl r1 r2 in
  let na := sc_uint128_bitwise_neg ah al r3 r4 in
  let nb := sc_uint128_bitwise_neg bh bl r5 r6 in
  sc_uint128_bitwise_neg (fst o) (snd o) r7 r8 =
  sc_uint128_bitwise_and (fst na) (snd na) (fst nb) (snd nb) r9 r10.
Proof.
  intros Ha Hb o na nb.
  pose proof (or_wf ah al bh bl r1 r2 Ha Hb) as Wo. fold o in Wo.
  pose proof (or_correct ah al bh bl r1 r2 Ha Hb) as Ho. fold o in Ho.
  pose proof (neg_wf ah al r3 r4) as Wna. fold na in Wna.
  pose proof (neg_wf bh bl r5 r6) as Wnb. fold nb in Wnb.
  pose proof (neg_correct ah al r3 r4 Ha) as Hna. fold na in Hna.
  pose proof (neg_correct bh bl r5 r6 Hb) as Hnb. fold nb in Hnb.
  apply res_eq2; [apply neg_wf | apply and_wf; assumption |].
  rewrite (neg_correct _ _ r7 r8 Wo), (and_correct _ _ _ _ r9 r10 Wna Wnb), !val128_eta, Ho, Hna, Hnb.
  pose proof (val128_range ah al Ha) as Ra. pose proof (val128_range bh bl Hb) as Rb.
  pose proof (val128_range _ _ Wo) as Ro. rewrite val128_eta, Ho in Ro.
  set (A := val128 (ah, al)) in *. set (B := val128 (bh, bl)) in *. clearbody A B.
  rewrite (lnot128 _ Ro), (lnot128 _ Ra), (lnot128 _ Rb).
  apply Z.bits_inj'. intros n Hn. rewrite !Z.land_spec, !Z.lnot_spec, Z.lor_spec by lia.
  destruct (Z.testbit A n), (Z.testbit B n), (Z.testbit (Z.ones 128) n); reflexivity.
Qed.

(* ---- set_bit / chk_bit ------------------------------------------------ *)
Lemma chk_after_set h l e e' : wf128 h l -> 0 <= e < 128 -> 0 <= e' < 128 ->
  let s := sc_uint128_set_bit h l e in
  sc_uint128_chk_bit (fst s) (snd s) e' = if e' =? e then 1 else sc_uint128_chk_bit h l e'.
Proof.
  intros Hw He He' s. pose proof (set_bit_wf h l e Hw He) as Ws. fold s in Ws.
  pose proof (set_bit_correct h l e Hw He) as Hs. fold s in Hs.
  rewrite (chk_bit_correct _ _ e' Ws He'), val128_eta, Hs, Z.lor_spec.
  rewrite (chk_bit_correct h l e' Hw He').
  destruct (e' =? e) eqn:E.
  - assert (e' = e) by lia; subst. rewrite Z.pow2_bits_true by lia. rewrite orb_true_r. reflexivity.
  - rewrite Z.pow2_bits_false by lia. rewrite orb_false_r. reflexivity.
Qed.

Lemma set_bit_idempotent h l e : wf128 h l -> 0 <= e < 128 ->
  let s := sc_uint128_set_bit h l e in
  sc_uint128_set_bit (fst s) (snd s) e = s.
Proof.
  intros Hw He s. pose proof (set_bit_wf h l e Hw He) as Ws. fold s in Ws.
  pose proof (set_bit_correct h l e Hw He) as Hs. fold s in Hs.
  apply res_eq2; [apply set_bit_wf; assumption | exact Ws |].
  rewrite (set_bit_correct _ _ e Ws He), val128_eta, Hs.
  rewrite <- Z.lor_assoc, Z.lor_diag. reflexivity.
Qed.

Lemma set_bit_commute h l e f : wf128 h l -> 0 <= e < 128 -> 0 <= f < 128 ->
  let s := sc_uint128_set_bit h l e in
  let t := sc_uint128_set_bit h l f in
  sc_uint128_set_bit (fst s) (snd s) f = sc_uint128_set_bit (fst t) (snd t) e.
Proof.
  intros Hw He Hf s t.
  pose proof (set_bit_wf h l e Hw He) as Ws. fold s in Ws.
  pose proof (set_bit_wf h l f Hw Hf) as Wt. fold t in Wt.
  pose proof (set_bit_correct h l e Hw He) as Hs. fold s in Hs.
  pose proof (set_bit_correct h l f Hw Hf) as Ht. fold t in Ht.
  apply res_eq2; [apply set_bit_wf; assumption | apply set_bit_wf; assumption |].
  rewrite (set_bit_correct _ _ f Ws Hf), (set_bit_correct _ _ e Wt He), !val128_eta, Hs, Ht.
  rewrite <- !Z.lor_assoc. f_equal. apply Z.lor_comm.
Qed.

(* set_bit of a clear bit adds 2^e (what p4est's quadrant arithmetic uses it for) *)
Lemma set_bit_adds h l e : wf128 h l -> 0 <= e < 128 -> sc_uint128_chk_bit h l e = 0 ->
  val128 (sc_uint128_set_bit h l e) = val128 (h, l) + 2 ^ e.
Proof.
  intros Hw He Hc. rewrite (set_bit_correct h l e Hw He).
  rewrite (chk_bit_correct h l e Hw He) in Hc.
  destruct (Z.testbit (val128 (h, l)) e) eqn:T; [discriminate|].
  assert (L : Z.land (val128 (h, l)) (2 ^ e) = 0).
  { apply Z.bits_inj'; intros n Hn; rewrite Z.land_spec, Z.bits_0.
    destruct (Z.eq_dec n e) as [->|Hne]; [rewrite T; reflexivity | rewrite Z.pow2_bits_false by lia; apply andb_false_r]. }
  rewrite (Z.add_nocarry_lxor _ _ L), (Z.lxor_lor _ _ L). reflexivity.
Qed.

(* ---- shifts compose and cancel --------------------------------------- *)
Lemma shr_shr h l s t r1 r2 r3 r4 r5 r6 : wf128 h l -> 0 <= s -> 0 <= t -> s + t < M32 / 2 ->
  let a := sc_uint128_shift_right h l s r1 r2 in
  sc_uint128_shift_right (fst a) (snd a) t r3 r4 = sc_uint128_shift_right h l (s + t) r5 r6.
Proof.
  intros Hw Hs Ht Hst a.
  destruct (shr_correct h l s r1 r2 Hw ltac:(lia)) as [Ha Wa]. fold a in Ha, Wa.
  destruct (shr_correct (fst a) (snd a) t r3 r4 Wa ltac:(lia)) as [Hb Wb].
  destruct (shr_correct h l (s + t) r5 r6 Hw ltac:(lia)) as [Hc Wc].
  apply res_eq2; [exact Wb | exact Wc |]. rewrite Hb, Hc, val128_eta, Ha.
  rewrite Z.pow_add_r by lia. rewrite Z.div_div by (try apply Z.pow_pos_nonneg; lia). reflexivity.
Qed.

Lemma shl_shl h l s t r1 r2 r3 r4 r5 r6 : wf128 h l -> 0 <= s -> 0 <= t -> s + t < M32 / 2 ->
  let a := sc_uint128_shift_left h l s r1 r2 in
  sc_uint128_shift_left (fst a) (snd a) t r3 r4 = sc_uint128_shift_left h l (s + t) r5 r6.
Proof.
  intros Hw Hs Ht Hst a.
  destruct (shl_correct h l s r1 r2 Hw ltac:(lia)) as [Ha Wa]. fold a in Ha, Wa.
  destruct (shl_correct (fst a) (snd a) t r3 r4 Wa ltac:(lia)) as [Hb Wb].
  destruct (shl_correct h l (s + t) r5 r6 Hw ltac:(lia)) as [Hc Wc].
  apply res_eq2; [exact Wb | exact Wc |]. rewrite Hb, Hc, val128_eta, Ha.
  rewrite Z.pow_add_r by lia. change (2 ^ 128) with M128.
  rewrite Z.mul_mod_idemp_l by (unfold M128, M64; lia). f_equal. ring.
Qed.

(* left then right by the same count keeps the low 128 - s bits *)
Lemma shl_shr h l s r1 r2 r3 r4 : wf128 h l -> 0 <= s <= 128 ->
  let a := sc_uint128_shift_left h l s r1 r2 in
  val128 (sc_uint128_shift_right (fst a) (snd a) s r3 r4) = val128 (h, l) mod 2 ^ (128 - s).
Proof.
  intros Hw Hs a.
  destruct (shl_correct h l s r1 r2 Hw ltac:(unfold M32; lia)) as [Ha Wa]. fold a in Ha, Wa.
  destruct (shr_correct (fst a) (snd a) s r3 r4 Wa ltac:(unfold M32; lia)) as [Hb _].
  rewrite Hb, val128_eta, Ha.
  assert (E : M128 = 2 ^ s * 2 ^ (128 - s)).
  { rewrite <- Z.pow_add_r by lia. replace (s + (128 - s)) with 128 by lia. reflexivity. }
  rewrite E.
  assert (P1 : 0 < 2 ^ s) by (apply Z.pow_pos_nonneg; lia).
  assert (P2 : 0 < 2 ^ (128 - s)) by (apply Z.pow_pos_nonneg; lia).
  rewrite (Z.mul_comm (val128 (h, l))).
  rewrite Z.mul_mod_distr_l by lia. rewrite Z.mul_comm, Z.div_mul by lia. reflexivity.
Qed.

(* right then left by the same count clears the low s bits *)
Lemma shr_shl h l s r1 r2 r3 r4 : wf128 h l -> 0 <= s < M32 / 2 ->
  let a := sc_uint128_shift_right h l s r1 r2 in
  val128 (sc_uint128_shift_left (fst a) (snd a) s r3 r4) = val128 (h, l) - val128 (h, l) mod 2 ^ s.
Proof.
  intros Hw Hs a.
  destruct (shr_correct h l s r1 r2 Hw Hs) as [Ha Wa]. fold a in Ha, Wa.
  destruct (shl_correct (fst a) (snd a) s r3 r4 Wa Hs) as [Hb _].
  rewrite Hb, val128_eta, Ha.
  pose proof (val128_range h l Hw) as R. set (V := val128 (h, l)) in *. clearbody V.
  assert (P1 : 0 < 2 ^ s) by (apply Z.pow_pos_nonneg; lia).
  pose proof (Z.div_mod V (2 ^ s) ltac:(lia)) as D.
  pose proof (Z.mod_pos_bound V (2 ^ s) P1) as B.
  assert (E : V / 2 ^ s * 2 ^ s = V - V mod 2 ^ s).
  { set (P := 2 ^ s) in *. set (Q := V / P) in *. set (R0 := V mod P) in *. clearbody P Q R0. lia. }
  rewrite E. pose proof (Z.mod_le V (2 ^ s) ltac:(lia) P1) as Lm. apply Z.mod_small. lia.
Qed.

(* ---- compare: a total order, equal exactly on equal words ------------ *)
Lemma compare_antisym ah al bh bl : wf128 ah al -> wf128 bh bl ->
  sc_uint128_compare ah al bh bl = - sc_uint128_compare bh bl ah al.
Proof.
  intros Ha Hb. rewrite (compare_correct ah al bh bl Ha Hb), (compare_correct bh bl ah al Hb Ha).
  rewrite (Z.compare_antisym (val128 (ah, al)) (val128 (bh, bl))).
  destruct (val128 (ah, al) ?= val128 (bh, bl)); reflexivity.
Qed.

Lemma compare_refl ah al : wf128 ah al -> sc_uint128_compare ah al ah al = 0.
Proof. intros Ha. rewrite (compare_correct ah al ah al Ha Ha), Z.compare_refl. reflexivity. Qed.

Lemma compare_eq_iff ah al bh bl : wf128 ah al -> wf128 bh bl ->
  sc_uint128_compare ah al bh bl = 0 <-> (ah, al) = (bh, bl).
Proof.
  intros Ha Hb. rewrite (compare_correct ah al bh bl Ha Hb). split.
  - destruct (Z.compare_spec (val128 (ah, al)) (val128 (bh, bl))) as [E|E|E]; try discriminate.
    intros _. apply val128_inj; assumption.
  - intros E. inversion E; subst. rewrite Z.compare_refl. reflexivity.
Qed.

Lemma compare_trans ah al bh bl ch cl : wf128 ah al -> wf128 bh bl -> wf128 ch cl ->
  sc_uint128_compare ah al bh bl <= 0 -> sc_uint128_compare bh bl ch cl <= 0 ->
  sc_uint128_compare ah al ch cl <= 0.
Proof.
  intros Ha Hb Hc. rewrite (compare_correct ah al bh bl Ha Hb), (compare_correct bh bl ch cl Hb Hc),
    (compare_correct ah al ch cl Ha Hc).
  destruct (Z.compare_spec (val128 (ah, al)) (val128 (bh, bl)));
  destruct (Z.compare_spec (val128 (bh, bl)) (val128 (ch, cl)));
  destruct (Z.compare_spec (val128 (ah, al)) (val128 (ch, cl))); lia.
Qed.

Lemma is_equal_compare ah al bh bl : wf128 ah al -> wf128 bh bl ->
  sc_uint128_is_equal ah al bh bl = b2z (sc_uint128_compare ah al bh bl =? 0).
Proof.
  intros Ha Hb. rewrite (is_equal_correct ah al bh bl Ha Hb), (compare_correct ah al bh bl Ha Hb).
  destruct (Z.compare_spec (val128 (ah, al)) (val128 (bh, bl))) as [E|E|E].
  - rewrite E, Z.eqb_refl. reflexivity.
  - replace (val128 (ah, al) =? val128 (bh, bl)) with false by lia. reflexivity.
  - replace (val128 (ah, al) =? val128 (bh, bl)) with false by lia. reflexivity.
Qed.

(* carry detection, the idiom the callers use: the sum compares below an operand exactly when it wrapped *)
Lemma add_wraps_iff ah al bh bl rh rl : wf128 ah al -> wf128 bh bl ->
  let s := sc_uint128_add ah al bh bl rh rl in
  sc_uint128_compare (fst s) (snd s) ah al = -1 <-> M128 <= val128 (ah, al) + val128 (bh, bl).
Proof.
  intros Ha Hb s. destruct (add_correct ah al bh bl rh rl Ha Hb) as [Hv Hw]. fold s in Hv, Hw.
  rewrite (compare_correct _ _ ah al Hw Ha), val128_eta, Hv.
  pose proof (val128_range ah al Ha) as Ra. pose proof (val128_range bh bl Hb) as Rb.
  set (A := val128 (ah, al)) in *. set (B := val128 (bh, bl)) in *. clearbody A B.
  destruct (Z.compare_spec ((A + B) mod M128) A) as [E|E|E]; unfold M128, M64 in *; split; intros; try lia; try discriminate.
Qed.
